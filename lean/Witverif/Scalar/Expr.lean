/-! # Scalar conversion expressions (C14, C04 backend half) — AST

A small, language-agnostic abstract syntax for the conversion expressions that the wit-bindgen
backends emit between WIT scalars / joined variant slots and core wasm values.  The translator
(`tools/scalar_translate.py`) extracts each expression from *generated output*, parses it with a
per-language mini-parser (round-trip guarded) and writes it in this syntax to
`Witverif/Generated/ScalarExprs.lean` and `Witverif/Generated/CastExprs.lean`.

Import-free (the driver `m_scalar` links as a `lean_exe`).  Values are carried as
`BitVec 64` (zero-extended from the width of their type) together with their static type.
Floats are bit patterns: no backend performs float *arithmetic* in these conversions, and the
evaluator reports an error (never a value) when asked for a float↔integer *value* conversion. -/
namespace Witverif.Scalar

/-- Target-language value types that occur in the extracted expressions (wasm32 data model:
pointers, `usize`/`size_t`/`uintptr`, C# `nint` are 32 bits wide). -/
inductive Ty
  | i8 | u8 | i16 | u16 | i32 | u32 | i64 | u64
  | bool
  | f32 | f64
  | ch      -- 32-bit character type: Rust `char`, D `dchar`, MoonBit `Char`
  | usize   -- unsigned pointer-sized integer (size_t, uintptr_t, usize, uintptr)
  | isize   -- signed pointer-sized integer (C# nint)
  | ptr     -- data pointer
  | mu64    -- Rust `MaybeUninit<u64>`
  deriving DecidableEq, Repr, Inhabited

inductive Kind | sint | uint | bool | float | char | ptr | mu
  deriving DecidableEq, Repr

def Ty.width : Ty → Nat
  | .i8 | .u8 => 8
  | .i16 | .u16 => 16
  | .i32 | .u32 | .f32 | .ch | .usize | .isize | .ptr => 32
  | .i64 | .u64 | .f64 | .mu64 => 64
  | .bool => 1

/-- Number of bits a cell of this type occupies in linear memory. -/
def Ty.memBits : Ty → Nat
  | .bool => 8
  | t => t.width

def Ty.kind : Ty → Kind
  | .i8 | .i16 | .i32 | .i64 | .isize => .sint
  | .u8 | .u16 | .u32 | .u64 | .usize => .uint
  | .bool => .bool
  | .f32 | .f64 => .float
  | .ch => .char
  | .ptr => .ptr
  | .mu64 => .mu

def Ty.signed (t : Ty) : Bool := t.kind == .sint

/-- integer-like for the purpose of wrapping conversions (characters and pointers convert like
unsigned integers of their width). -/
def Ty.intLike : Ty → Bool
  | .bool | .f32 | .f64 | .mu64 => false
  | _ => true

def Ty.name : Ty → String
  | .i8 => "i8" | .u8 => "u8" | .i16 => "i16" | .u16 => "u16" | .i32 => "i32" | .u32 => "u32"
  | .i64 => "i64" | .u64 => "u64" | .bool => "bool" | .f32 => "f32" | .f64 => "f64" | .ch => "ch"
  | .usize => "usize" | .isize => "isize" | .ptr => "ptr" | .mu64 => "mu64"

/-- A typed value. Invariant (maintained by every semantic function): `bits < 2^ty.width`. -/
structure Val where
  ty : Ty
  bits : BitVec 64
  deriving DecidableEq, Repr, Inhabited

inductive Lang | rust | c | cpp | csharp | go | moonbit | d
  deriving DecidableEq, Repr, Inhabited

def Lang.name : Lang → String
  | .rust => "rust" | .c => "c" | .cpp => "cpp" | .csharp => "csharp" | .go => "go"
  | .moonbit => "moonbit" | .d => "d"

inductive Op | add | sub | band | bor | shl | shr | eq | ne
  deriving DecidableEq, Repr

/-- Library / intrinsic functions of the target languages that the emitted expressions call.
Named after the source-level function; their semantics is in `Langs.lean`. -/
inductive Fn
  -- Rust
  | rust_from (t : Ty)              -- `T::from(x)`  (lossless `From` impls of core)
  | rust_to_bits                    -- `f32::to_bits` / `f64::to_bits`
  | rust_from_bits (t : Ty)         -- `f32::from_bits` / `f64::from_bits`
  | rust_char_from_u32_unwrap       -- `core::char::from_u32(v).unwrap()`
  | rust_char_from_u32_unchecked    -- `core::char::from_u32_unchecked(v)`
  | rust_mu_new                     -- `MaybeUninit::new(x)`  (x : u64)
  | rust_mu_assume_init             -- `.assume_init()`
  | rust_mu_write_ptr               -- `{ let mut t = MaybeUninit::<u64>::uninit(); t.as_mut_ptr().cast::<*mut u8>().write(p); t }`
  | rust_mu_read_ptr                -- `.as_ptr().cast::<*mut u8>().read()`
  -- C / C++
  | c_union_pun (src dst : Ty)      -- `((union { src a; dst b; }){ x }).b`
  | cpp_bit_cast (dst src : Ty)     -- `std::bit_cast<dst, src>(x)`
  -- C#
  | cs_Int32BitsToSingle | cs_SingleToInt32Bits | cs_Int64BitsToDouble | cs_DoubleToInt64Bits
  -- Go
  | go_Float32bits | go_Float32frombits | go_Float64bits | go_Float64frombits
  -- MoonBit
  | mbt_to_int | mbt_to_byte | mbt_to_int64
  | mbt_reinterpret_as_int | mbt_reinterpret_as_uint | mbt_reinterpret_as_int64
  | mbt_reinterpret_as_uint64 | mbt_reinterpret_as_float | mbt_reinterpret_as_double
  | mbt_unsafe_to_char | mbt_Int_to_int64 | mbt_Int64_to_int
  | wasm_extend (n : Nat)           -- MoonBit `extern "wasm"` one-instruction body `i32.extend{n}_s`
  -- D
  | d_reinterpretCast (dst : Ty)
  deriving DecidableEq, Repr

inductive Expr
  | x                                -- the operand
  | dbg                              -- Rust `cfg!(debug_assertions)`
  | lit (v : Int)                    -- unsuffixed integer literal (typed by context)
  | tlit (t : Ty) (v : Int)          -- suffixed literal / `true` / `false`
  | cast (t : Ty) (e : Expr)         -- explicit cast syntax of the language
  | impl (t : Ty) (e : Expr)         -- implicit conversion to a declared type (argument / assignment / return)
  | bin (op : Op) (a b : Expr)
  | app (f : Fn) (a : Expr)
  | ite (c a b : Expr)
  | load (t : Ty)                    -- typed read of the memory cell
  | wload (n : Nat) (sx : Bool) (t : Ty)   -- wasm `iK.load{n}_{s,u}` / `iK.load` / `fK.load` yielding a `t`
  | store (t : Ty) (e : Expr)        -- value written through an lvalue of type `t`
  | wstore (n : Nat) (e : Expr)      -- wasm `iK.store{n}` / `fK.store`: low `n` bits of the operand
  | trap                             -- `panic!`
  deriving Repr, Inhabited

inductive Res
  | ok (v : Val)
  | trap
  | err (msg : String)
  deriving DecidableEq, Repr, Inhabited

structure Env where
  x : Val
  /-- 8 bytes of linear memory starting at the cell's address (the cell is the low bits; the
  rest is whatever follows it in memory). -/
  mem : BitVec 64 := 0
  dbg : Bool := false
  /-- the contents of uninitialised storage -/
  junk : BitVec 64 := 0
  deriving Repr

end Witverif.Scalar
