import Witverif.Scalar.Langs
import Witverif.Scalar.SpecConv
/-! # What it means for an extracted expression to implement the canonical mapping

Connects the expression model (`Expr`, `eval`) with the spec (`Spec.lower/lift/store/load`,
`Spec.joinConv`) through the *representation* each backend chooses for a WIT scalar in its target
language (`reprTy`, `repr`) and for a core wasm value (`coreTy`, `coreVal`).  The representation
tables are cross-checked against the declared types found in the generated signatures
(`opTy` / `dstTy` of an entry).  Import-free apart from the model files. -/
namespace Witverif.Scalar
open Spec

/-- target-language type a backend uses for a WIT scalar -/
def reprTy : Lang → WTy → Ty
  | _, .bool => .bool
  | .moonbit, .s8 => .i32        -- MoonBit: `Int`
  | .moonbit, .s16 => .i32       -- `Int`
  | .moonbit, .u16 => .u32       -- `UInt`
  | .moonbit, .char => .ch       -- `Char`
  | .rust, .char => .ch          -- `char`
  | .d, .char => .ch             -- `dchar`
  | .go, .char => .i32           -- `rune` = int32
  | _, .char => .u32             -- C / C++ `uint32_t`, C# `uint`
  | _, .s8 => .i8
  | _, .u8 => .u8
  | _, .s16 => .i16
  | _, .u16 => .u16
  | _, .s32 => .i32
  | _, .u32 => .u32
  | _, .s64 => .i64
  | _, .u64 => .u64
  | _, .f32 => .f32
  | _, .f64 => .f64

/-- target-language type a backend uses for a core wasm value -/
def coreTy : Lang → Core → Ty
  | .d, .i32 => .u32             -- D: `uint`
  | .d, .i64 => .u64             -- `ulong`
  | _, .i32 => .i32
  | _, .i64 => .i64
  | _, .f32 => .f32
  | _, .f64 => .f64

/-- the value of width `w` (signed or not) as an inhabitant of `ty` -/
def embed (ty : Ty) (sgn : Bool) {w : Nat} (v : BitVec w) : BitVec 64 :=
  trunc ty.width (if sgn then v.signExtend 64 else v.setWidth 64)

def reprVal (L : Lang) (t : WTy) (v : BitVec t.width) : Val := ⟨reprTy L t, embed (reprTy L t) t.signed v⟩

def coreVal (L : Lang) (c : Core) (b : BitVec c.width) : Val := ⟨coreTy L c, b.setWidth 64⟩

inductive Dir | lower | lift
  deriving DecidableEq, Repr, Inhabited
inductive Pos | flat | mem
  deriving DecidableEq, Repr, Inhabited

/-- One conversion expression extracted from generated output. -/
structure Entry where
  lang : Lang
  wty : WTy
  dir : Dir
  pos : Pos
  /-- `import` / `export` -/
  side : String
  /-- the ABI instruction(s) the expression implements, e.g. `I32FromS8` or `I32Load8S;S8FromI32` -/
  instr : String
  /-- declared type of the operand in the generated code (`none`: not extractable at this site) -/
  opTy : Option Ty
  /-- declared type of the destination (`none`: not extractable at this site) -/
  dstTy : Option Ty
  expr : Expr
  /-- the extracted snippet, verbatim -/
  src : String
  deriving Repr, Inhabited

def agrees (declared : Option Ty) (expected : Ty) : Bool :=
  match declared with
  | none => true
  | some t => t == expected

def cellOf : Res → Option (Nat × BitVec 64)
  | .ok v => some (v.ty.memBits, v.bits)
  | _ => none

def Entry.typesAgree (e : Entry) : Bool :=
  match e.dir, e.pos with
  | .lower, .flat => agrees e.opTy (reprTy e.lang e.wty) && agrees e.dstTy (coreTy e.lang e.wty.core)
  | .lift, .flat => agrees e.opTy (coreTy e.lang e.wty.core) && agrees e.dstTy (reprTy e.lang e.wty)
  | .lower, .mem => agrees e.opTy (reprTy e.lang e.wty)
  | .lift, .mem => agrees e.dstTy (reprTy e.lang e.wty)

/-- The C14 claim for one extracted expression, for *all* inputs:
* flat lower: for every value `x` of the WIT type, the expression (converted implicitly to the
  backend's core type where the language does that) yields the core value `Spec.lower x`;
* flat lift: for every core value `c` (all 2^32 / 2^64) on which lifting is defined, it yields the
  representation of `Spec.lift c`;
* in-memory lower: the stored cell has exactly the element size and holds `Spec.store x`;
* in-memory lift: for every content `m` of the 8 bytes at the cell's address, it yields the
  representation of `Spec.load (low memBits of m)`.
Both settings of Rust's `debug_assertions` are covered. -/
def Entry.Correct (e : Entry) : Prop :=
  e.typesAgree = true ∧
  match e.dir, e.pos with
  | .lower, .flat => ∀ (x : BitVec e.wty.width) (dbg : Bool), e.wty.valid x = true →
      eval e.lang { x := reprVal e.lang e.wty x, dbg := dbg } (.impl (coreTy e.lang e.wty.core) e.expr)
        = .ok (coreVal e.lang e.wty.core (lower e.wty x))
  | .lift, .flat => ∀ (c : BitVec e.wty.core.width) (dbg : Bool), liftDefined e.wty c = true →
      eval e.lang { x := coreVal e.lang e.wty.core c, dbg := dbg } (.impl (reprTy e.lang e.wty) e.expr)
        = .ok (reprVal e.lang e.wty (lift e.wty c))
  | .lower, .mem => ∀ (x : BitVec e.wty.width) (dbg : Bool), e.wty.valid x = true →
      cellOf (eval e.lang { x := reprVal e.lang e.wty x, dbg := dbg } e.expr)
        = some (e.wty.memBits, (store e.wty x).setWidth 64)
  | .lift, .mem => ∀ (m : BitVec 64) (dbg : Bool), loadDefined e.wty (m.setWidth e.wty.memBits) = true →
      eval e.lang { x := default, mem := m, dbg := dbg } (.impl (reprTy e.lang e.wty) e.expr)
        = .ok (reprVal e.lang e.wty (load e.wty (m.setWidth e.wty.memBits)))

/-- Pointwise, decidable version used by the driver (`m_scalar`) when searching for a failing
input: input `i` is truncated to the domain's width.  Returns (holds, actual, expected). -/
def Entry.evalAt (e : Entry) (i : BitVec 64) (dbg : Bool) : Bool × Res × Res :=
  match e.dir, e.pos with
  | .lower, .flat =>
    let x : BitVec e.wty.width := i.setWidth _
    let a := eval e.lang { x := reprVal e.lang e.wty x, dbg := dbg } (.impl (coreTy e.lang e.wty.core) e.expr)
    let b := Res.ok (coreVal e.lang e.wty.core (lower e.wty x))
    (!e.wty.valid x || a == b, a, b)
  | .lift, .flat =>
    let c : BitVec e.wty.core.width := i.setWidth _
    let a := eval e.lang { x := coreVal e.lang e.wty.core c, dbg := dbg } (.impl (reprTy e.lang e.wty) e.expr)
    let b := Res.ok (reprVal e.lang e.wty (lift e.wty c))
    (!liftDefined e.wty c || a == b, a, b)
  | .lower, .mem =>
    let x : BitVec e.wty.width := i.setWidth _
    let a := eval e.lang { x := reprVal e.lang e.wty x, dbg := dbg } e.expr
    let want : Nat × BitVec 64 := (e.wty.memBits, (store e.wty x).setWidth 64)
    (!e.wty.valid x || cellOf a == some want, a, Res.ok ⟨.u64, want.2⟩)
  | .lift, .mem =>
    let a := eval e.lang { x := default, mem := i, dbg := dbg } (.impl (reprTy e.lang e.wty) e.expr)
    let b := Res.ok (reprVal e.lang e.wty (load e.wty (i.setWidth e.wty.memBits)))
    (!loadDefined e.wty (i.setWidth e.wty.memBits) || a == b, a, b)

/-! ## Variant-slot casts (C04, backend half) -/

/-- One `Bitcast` expression extracted from generated output: moves a core value of type `src`
into a slot of type `dst`. -/
structure CastEntry where
  lang : Lang
  /-- abi.rs name: `F32ToI64`, … -/
  kind : String
  src : Core
  dst : Core
  side : String
  opTy : Option Ty
  dstTy : Option Ty
  expr : Expr
  text : String
  deriving Repr, Inhabited

def CastEntry.typesAgree (e : CastEntry) : Bool :=
  agrees e.opTy (coreTy e.lang e.src) && agrees e.dstTy (coreTy e.lang e.dst)

def CastEntry.run (e : CastEntry) (c : BitVec e.src.width) (junk : BitVec 64) : Res :=
  eval e.lang { x := coreVal e.lang e.src c, junk := junk } (.impl (coreTy e.lang e.dst) e.expr)

/-- the emitted conversion *is* the canonical ABI's (reinterpret / zero-extend / wrap) -/
def CastEntry.IsSpec (e : CastEntry) : Prop :=
  e.typesAgree = true ∧
  ∀ (c : BitVec e.src.width) (junk : BitVec 64),
    (joinConv e.src e.dst c).map (fun r => Res.ok (coreVal e.lang e.dst r)) = some (e.run c junk)

/-- `back ∘ fwd` recovers every source bit pattern -/
def RoundTrip (fwd back : CastEntry) : Prop :=
  fwd.lang = back.lang ∧ fwd.dst = back.src ∧ back.dst = fwd.src ∧
  ∀ (c : BitVec fwd.src.width) (j₁ j₂ : BitVec 64),
    ∃ v, fwd.run c j₁ = .ok v ∧
      eval back.lang { x := v, junk := j₂ } (.impl (coreTy back.lang back.dst) back.expr)
        = .ok ⟨coreTy fwd.lang fwd.src, c.setWidth 64⟩

def CastEntry.evalAt (e : CastEntry) (i junk : BitVec 64) : Bool × Res × Option Res :=
  let c : BitVec e.src.width := i.setWidth _
  let a := e.run c junk
  let b := (joinConv e.src e.dst c).map (fun r => Res.ok (coreVal e.lang e.dst r))
  (b == some a, a, b)

end Witverif.Scalar
