import Witverif.Scalar.Langs
import Witverif.Scalar.SpecConv
/-! # What it means for an extracted expression to implement the canonical mapping

Connects the expression model (`Expr`, `eval`) with the spec (`Spec.lower/lift/store/load`,
`Spec.joinConv`) through the *representation* each backend chooses for a WIT scalar in its target
language (`reprTy`, `repr`) and for a core wasm value (`coreTy`, `coreVal`).  The representation
tables are cross-checked against the declared types found in the generated signatures
(`opTy` / `dstTy` of an entry).  Import-free apart from the model files. -/
namespace Witverif.Scalar
open Spec

/-- target-language type a backend uses for a WIT scalar -/
def reprTy : Lang → WTy → Ty
  | _, .bool => .bool
  | .moonbit, .s8 => .i32        -- MoonBit: `Int`
  | .moonbit, .s16 => .i32       -- `Int`
  | .moonbit, .u16 => .u32       -- `UInt`
  | .moonbit, .char => .ch       -- `Char`
  | .rust, .char => .ch          -- `char`
  | .d, .char => .ch             -- `dchar`
  | .go, .char => .i32           -- `rune` = int32
  | _, .char => .u32             -- C / C++ `uint32_t`, C# `uint`
  | _, .s8 => .i8
  | _, .u8 => .u8
  | _, .s16 => .i16
  | _, .u16 => .u16
  | _, .s32 => .i32
  | _, .u32 => .u32
  | _, .s64 => .i64
  | _, .u64 => .u64
  | _, .f32 => .f32
  | _, .f64 => .f64

/-- target-language type a backend uses for a core wasm value -/
def coreTy : Lang → Core → Ty
  | .d, .i32 => .u32             -- D: `uint`
  | .d, .i64 => .u64             -- `ulong`
  | _, .i32 => .i32
  | _, .i64 => .i64
  | _, .f32 => .f32
  | _, .f64 => .f64

/-- the value of width `w` (signed or not) as an inhabitant of `ty` -/
def embed (ty : Ty) (sgn : Bool) {w : Nat} (v : BitVec w) : BitVec 64 :=
  trunc ty.width (if sgn then v.signExtend 64 else v.setWidth 64)

def reprVal (L : Lang) (t : WTy) (v : BitVec t.width) : Val := ⟨reprTy L t, embed (reprTy L t) t.signed v⟩

def coreVal (L : Lang) (c : Core) (b : BitVec c.width) : Val := ⟨coreTy L c, b.setWidth 64⟩

inductive Dir | lower | lift
  deriving DecidableEq, Repr, Inhabited
inductive Pos | flat | mem
  deriving DecidableEq, Repr, Inhabited

/-- One conversion expression extracted from generated output. -/
structure Entry where
  lang : Lang
  wty : WTy
  dir : Dir
  pos : Pos
  /-- `import` / `export` -/
  side : String
  /-- the ABI instruction(s) the expression implements, e.g. `I32FromS8` or `I32Load8S;S8FromI32` -/
  instr : String
  /-- declared type of the operand in the generated code (`none`: not extractable at this site) -/
  opTy : Option Ty
  /-- declared type of the destination (`none`: not extractable at this site) -/
  dstTy : Option Ty
  expr : Expr
  /-- the extracted snippet, verbatim -/
  src : String
  deriving Repr, Inhabited

def agrees (declared : Option Ty) (expected : Ty) : Bool :=
  match declared with
  | none => true
  | some t => t == expected

def cellOf : Res → Option (Nat × BitVec 64)
  | .ok v => some (v.ty.memBits, v.bits)
  | _ => none

def Entry.typesAgree (e : Entry) : Bool :=
  match e.dir, e.pos with
  | .lower, .flat => agrees e.opTy (reprTy e.lang e.wty) && agrees e.dstTy (coreTy e.lang e.wty.core)
  | .lift, .flat => agrees e.opTy (coreTy e.lang e.wty.core) && agrees e.dstTy (reprTy e.lang e.wty)
  | .lower, .mem => agrees e.opTy (reprTy e.lang e.wty)
  | .lift, .mem => agrees e.dstTy (reprTy e.lang e.wty)

/-- The C14 claim for one extracted expression, restricted to the inputs selected by `pre`
(applied to the input zero-extended to 64 bits, and the `debug_assertions` setting):
* flat lower: for every value `x` of the WIT type, the expression (converted implicitly to the
  backend's core type where the language does that) yields the core value `Spec.lower x`;
* flat lift: for every core value `c` (all 2^32 / 2^64) on which lifting is defined, it yields the
  representation of `Spec.lift c`;
* in-memory lower: the stored cell has exactly the element size and holds `Spec.store x`;
* in-memory lift: for every content `m` of the 8 bytes at the cell's address, it yields the
  representation of `Spec.load (low memBits of m)`. -/
def Entry.CorrectIf (e : Entry) (pre : BitVec 64 → Bool → Bool) : Prop :=
  e.typesAgree = true ∧
  match e.dir, e.pos with
  | .lower, .flat => ∀ (x : BitVec e.wty.width) (dbg : Bool), pre (x.setWidth 64) dbg = true → e.wty.valid x = true →
      eval e.lang { x := reprVal e.lang e.wty x, dbg := dbg } (.impl (coreTy e.lang e.wty.core) e.expr)
        = .ok (coreVal e.lang e.wty.core (lower e.wty x))
  | .lift, .flat => ∀ (c : BitVec e.wty.core.width) (dbg : Bool), pre (c.setWidth 64) dbg = true → liftDefined e.wty c = true →
      eval e.lang { x := coreVal e.lang e.wty.core c, dbg := dbg } (.impl (reprTy e.lang e.wty) e.expr)
        = .ok (reprVal e.lang e.wty (lift e.wty c))
  | .lower, .mem => ∀ (x : BitVec e.wty.width) (dbg : Bool), pre (x.setWidth 64) dbg = true → e.wty.valid x = true →
      cellOf (eval e.lang { x := reprVal e.lang e.wty x, dbg := dbg } e.expr)
        = some (e.wty.memBits, (store e.wty x).setWidth 64)
  | .lift, .mem => ∀ (m : BitVec 64) (dbg : Bool), pre m dbg = true → loadDefined e.wty (m.setWidth e.wty.memBits) = true →
      eval e.lang { x := default, mem := m, dbg := dbg } (.impl (reprTy e.lang e.wty) e.expr)
        = .ok (reprVal e.lang e.wty (load e.wty (m.setWidth e.wty.memBits)))

/-- The full C14 claim: all inputs, both settings of Rust's `debug_assertions`. -/
def Entry.Correct (e : Entry) : Prop := e.CorrectIf (fun _ _ => true)

/-- Pointwise, decidable version used by the driver (`m_scalar`) when searching for a failing
input: input `i` is truncated to the domain's width.  Returns (holds, actual, expected). -/
def Entry.evalAt (e : Entry) (i : BitVec 64) (dbg : Bool) : Bool × Res × Res :=
  match e.dir, e.pos with
  | .lower, .flat =>
    let x : BitVec e.wty.width := i.setWidth _
    let a := eval e.lang { x := reprVal e.lang e.wty x, dbg := dbg } (.impl (coreTy e.lang e.wty.core) e.expr)
    let b := Res.ok (coreVal e.lang e.wty.core (lower e.wty x))
    (!e.wty.valid x || a == b, a, b)
  | .lift, .flat =>
    let c : BitVec e.wty.core.width := i.setWidth _
    let a := eval e.lang { x := coreVal e.lang e.wty.core c, dbg := dbg } (.impl (reprTy e.lang e.wty) e.expr)
    let b := Res.ok (reprVal e.lang e.wty (lift e.wty c))
    (!liftDefined e.wty c || a == b, a, b)
  | .lower, .mem =>
    let x : BitVec e.wty.width := i.setWidth _
    let a := eval e.lang { x := reprVal e.lang e.wty x, dbg := dbg } e.expr
    let want : Nat × BitVec 64 := (e.wty.memBits, (store e.wty x).setWidth 64)
    (!e.wty.valid x || cellOf a == some want, a, Res.ok ⟨.u64, want.2⟩)
  | .lift, .mem =>
    let a := eval e.lang { x := default, mem := i, dbg := dbg } (.impl (reprTy e.lang e.wty) e.expr)
    let b := Res.ok (reprVal e.lang e.wty (load e.wty (i.setWidth e.wty.memBits)))
    (!loadDefined e.wty (i.setWidth e.wty.memBits) || a == b, a, b)

/-! ## Variant-slot casts (C04, backend half)

A variant case whose payload has WIT type `payload` (core type `payload.core`) shares a flat slot of
joined type `slot` with the other cases.  On the lowering side the backend emits one expression that
takes the *payload value* to the slot (scalar lowering followed by the `Bitcast`); on the lifting
side one expression that takes the slot's core value back to the payload value (`Bitcast` followed
by scalar lifting).  Probes use payload types whose scalar lowering/lifting is the identity on
bits (`s32`, `u32`, `f32`, `f64`), so the claims below are claims about the `Bitcast`. -/

/-- wit-parser refines the joined slot's core type: a plain number, a `Pointer` (core i32 under
wasm32) or a `PointerOrI64` (core i64). -/
inductive SlotKind | num | ptr | p64
  deriving DecidableEq, Repr, Inhabited

/-- target-language type a backend uses for a joined slot -/
def slotTy (L : Lang) (k : SlotKind) (c : Core) : Ty :=
  match k with
  | .num => coreTy L c
  | .ptr =>
    match L with
    | .rust | .c | .cpp | .d => .ptr      -- `*mut u8`, `uint8_t *`, `void*`
    | .csharp => .isize                    -- `nint`
    | .go => .usize                        -- `uintptr`
    | .moonbit => .i32                     -- `Int`
  | .p64 =>
    match L with
    | .rust => .mu64                       -- `MaybeUninit<u64>`
    | .d => .u64                           -- `ulong`
    | _ => .i64

def slotVal (L : Lang) (k : SlotKind) (c : Core) (b : BitVec c.width) : Val := ⟨slotTy L k c, b.setWidth 64⟩

structure CastEntry where
  lang : Lang
  /-- abi.rs name of the `Bitcast`: `F32ToI64`, … (`A_B` = `Sequence [A, B]`) -/
  kind : String
  payload : WTy
  slot : Core
  slotKind : SlotKind
  /-- `true`: payload value → slot value (lowering); `false`: slot value → payload value (lifting) -/
  lowering : Bool
  side : String
  opTy : Option Ty
  dstTy : Option Ty
  expr : Expr
  text : String
  deriving Repr, Inhabited

def CastEntry.typesAgree (e : CastEntry) : Bool :=
  if e.lowering then agrees e.opTy (reprTy e.lang e.payload) && agrees e.dstTy (slotTy e.lang e.slotKind e.slot)
  else agrees e.opTy (slotTy e.lang e.slotKind e.slot) && agrees e.dstTy (reprTy e.lang e.payload)

/-- run a lowering entry on a payload value -/
def CastEntry.runLower (e : CastEntry) (v : BitVec e.payload.width) (junk : BitVec 64) : Res :=
  eval e.lang { x := reprVal e.lang e.payload v, junk := junk } (.impl (slotTy e.lang e.slotKind e.slot) e.expr)

/-- run a lifting entry on a slot value -/
def CastEntry.runLift (e : CastEntry) (c : BitVec e.slot.width) (junk : BitVec 64) : Res :=
  eval e.lang { x := slotVal e.lang e.slotKind e.slot c, junk := junk } (.impl (reprTy e.lang e.payload) e.expr)

/-- what the canonical ABI puts into the slot for payload value `v` -/
def specLower (payload : WTy) (slot : Core) (v : BitVec payload.width) : Option (BitVec slot.width) :=
  joinConv payload.core slot (lower payload v)

/-- what the canonical ABI reads out of slot value `c` for a case of this payload type -/
def specLift (payload : WTy) (slot : Core) (c : BitVec slot.width) : Option (BitVec payload.width) :=
  match joinConv slot payload.core c with
  | some r => some (lift payload r)
  | none => none

/-- the emitted conversion *is* the canonical ABI's (reinterpret / zero-extend / wrap), on the
inputs selected by `pre` (applied to the input zero-extended to 64 bits) -/
def CastEntry.IsSpecIf (e : CastEntry) (pre : BitVec 64 → Bool) : Prop :=
  e.typesAgree = true ∧
  if e.lowering then
    ∀ (v : BitVec e.payload.width) (junk : BitVec 64), pre (v.setWidth 64) = true →
      (specLower e.payload e.slot v).map (fun r => Res.ok (slotVal e.lang e.slotKind e.slot r)) = some (e.runLower v junk)
  else
    ∀ (c : BitVec e.slot.width) (junk : BitVec 64), pre (c.setWidth 64) = true →
      (specLift e.payload e.slot c).map (fun r => Res.ok (reprVal e.lang e.payload r)) = some (e.runLift c junk)

/-- full claim: all 2^32 / 2^64 bit patterns -/
def CastEntry.IsSpec (e : CastEntry) : Prop := e.IsSpecIf (fun _ => true)

/-- lowering with `fwd` and lifting the resulting slot value with `back` recovers every payload
bit pattern (whatever the uninitialised storage holds) -/
def RoundTrip (fwd back : CastEntry) : Prop :=
  ∀ (v : BitVec fwd.payload.width) (j₁ j₂ : BitVec 64),
    ∃ s, fwd.runLower v j₁ = .ok s ∧
      eval back.lang { x := s, junk := j₂ } (.impl (reprTy back.lang fwd.payload) back.expr)
        = .ok (reprVal fwd.lang fwd.payload v)

/-- all (lowering, lifting) pairs of two lists round-trip -/
def RoundTrips (fwds backs : List CastEntry) : Prop :=
  ∀ f ∈ fwds, ∀ b ∈ backs, RoundTrip f b

def CastEntry.evalAt (e : CastEntry) (i junk : BitVec 64) : Bool × Res × Option Res :=
  if e.lowering then
    let v : BitVec e.payload.width := i.setWidth _
    let a := e.runLower v junk
    let b := (specLower e.payload e.slot v).map (fun r => Res.ok (slotVal e.lang e.slotKind e.slot r))
    (b == some a, a, b)
  else
    let c : BitVec e.slot.width := i.setWidth _
    let a := e.runLift c junk
    let b := (specLift e.payload e.slot c).map (fun r => Res.ok (reprVal e.lang e.payload r))
    (b == some a, a, b)

/-- pointwise round trip for the driver: (holds, slot value, recovered) -/
def roundTripAt (fwd back : CastEntry) (i j₁ j₂ : BitVec 64) : Bool × Res × Res :=
  let v : BitVec fwd.payload.width := i.setWidth _
  match fwd.runLower v j₁ with
  | .ok s =>
    let r := eval back.lang { x := s, junk := j₂ } (.impl (reprTy back.lang fwd.payload) back.expr)
    (r == .ok (reprVal fwd.lang fwd.payload v), .ok s, r)
  | r => (false, r, r)

end Witverif.Scalar
