/-! # The canonical ABI's scalar mapping and variant-slot conversions (spec side of C14 / C04)

Transcribed from CanonicalABI.md (`lower_flat`, `lift_flat`, `load`, `store`,
`convert_int_to_bool`, `lift_flat_unsigned/signed`, `lower_flat_signed`, `convert_i32_to_char`,
`lower_flat_variant` / `lift_flat_variant` coercions).  This file does not mention the
expression model.  Core values are bit vectors: the spec's core `i32` value `i` (a python int in
`[0, 2^32)`) is `BitVec 32`.

* lowering an unsigned integer zero-extends, a signed integer sign-extends (`i32.extend8_s` …:
  `lower_flat_signed(i, 32)` is `i + 2^32` for negative `i`);
* lifting takes the low N bits with the type's own signedness (`lift_flat_unsigned`: `i % 2^N`;
  `lift_flat_signed`: `i % 2^N`, minus `2^N` when `≥ 2^(N-1)`) — the upper bits are ignored;
* 64-bit integers and floats are carried bit-exactly (NaN canonicalisation is a host option, not a
  guest-side conversion);
* `char` travels as its Unicode scalar value (lifting a non-scalar traps);
* `bool` lowers to 0/1 and lifts as `i != 0` (`convert_int_to_bool`).
-/
namespace Witverif.Scalar.Spec

inductive WTy | bool | s8 | u8 | s16 | u16 | s32 | u32 | s64 | u64 | f32 | f64 | char
  deriving DecidableEq, Repr, Inhabited

def WTy.name : WTy → String
  | .bool => "bool" | .s8 => "s8" | .u8 => "u8" | .s16 => "s16" | .u16 => "u16" | .s32 => "s32"
  | .u32 => "u32" | .s64 => "s64" | .u64 => "u64" | .f32 => "f32" | .f64 => "f64" | .char => "char"

/-- width of the abstract value (bool: 1 bit, char: 32) -/
def WTy.width : WTy → Nat
  | .bool => 1
  | .s8 | .u8 => 8
  | .s16 | .u16 => 16
  | .s32 | .u32 | .f32 | .char => 32
  | .s64 | .u64 | .f64 => 64

def WTy.signed : WTy → Bool
  | .s8 | .s16 | .s32 | .s64 => true
  | _ => false

inductive Core | i32 | i64 | f32 | f64
  deriving DecidableEq, Repr, Inhabited

def Core.width : Core → Nat
  | .i32 | .f32 => 32
  | .i64 | .f64 => 64

def Core.name : Core → String
  | .i32 => "i32" | .i64 => "i64" | .f32 => "f32" | .f64 => "f64"

/-- `flatten_type` on scalars -/
def WTy.core : WTy → Core
  | .s64 | .u64 => .i64
  | .f32 => .f32
  | .f64 => .f64
  | _ => .i32

/-- `elem_size * 8` -/
def WTy.memBits : WTy → Nat
  | .bool => 8
  | t => t.width

/-- Unicode scalar value: `< 0x110000` and not a surrogate -/
def scalarValue (v : BitVec 32) : Bool := v.ult 0x110000#32 && !((0xD800#32).ule v && v.ult 0xE000#32)

/-- values of the type: every bit pattern, except that `char` ranges over Unicode scalar values -/
def WTy.valid (t : WTy) (v : BitVec t.width) : Bool :=
  match t with
  | .char => scalarValue v
  | _ => true

/-- `lower_flat` -/
def lower (t : WTy) (v : BitVec t.width) : BitVec t.core.width :=
  match t, v with
  | .bool, v => v.setWidth 32
  | .s8, v => v.signExtend 32
  | .u8, v => v.setWidth 32
  | .s16, v => v.signExtend 32
  | .u16, v => v.setWidth 32
  | .s32, v => v
  | .u32, v => v
  | .s64, v => v
  | .u64, v => v
  | .f32, v => v
  | .f64, v => v
  | .char, v => v

/-- `lift_flat`; for `char` the result is only meaningful when `liftDefined` -/
def lift (t : WTy) (c : BitVec t.core.width) : BitVec t.width :=
  match t, c with
  | .bool, c => if c = 0 then 0 else 1
  | .s8, c => c.setWidth 8
  | .u8, c => c.setWidth 8
  | .s16, c => c.setWidth 16
  | .u16, c => c.setWidth 16
  | .s32, c => c
  | .u32, c => c
  | .s64, c => c
  | .u64, c => c
  | .f32, c => c
  | .f64, c => c
  | .char, c => c

/-- lifting traps on these core values instead of producing a value -/
def liftDefined (t : WTy) (c : BitVec t.core.width) : Bool :=
  match t, c with
  | .char, c => scalarValue c
  | _, _ => true

/-- `store`: the `memBits` bits written to linear memory -/
def store (t : WTy) (v : BitVec t.width) : BitVec t.memBits :=
  match t, v with
  | .bool, v => v.setWidth 8
  | .s8, v => v | .u8, v => v | .s16, v => v | .u16, v => v | .s32, v => v | .u32, v => v
  | .s64, v => v | .u64, v => v | .f32, v => v | .f64, v => v | .char, v => v

/-- `load` -/
def load (t : WTy) (m : BitVec t.memBits) : BitVec t.width :=
  match t, m with
  | .bool, m => if m = 0 then 0 else 1
  | .s8, m => m | .u8, m => m | .s16, m => m | .u16, m => m | .s32, m => m | .u32, m => m
  | .s64, m => m | .u64, m => m | .f32, m => m | .f64, m => m | .char, m => m

def loadDefined (t : WTy) (m : BitVec t.memBits) : Bool :=
  match t, m with
  | .char, m => scalarValue m
  | _, _ => true

/-! ## variant slot joining (`lower_flat_variant` / `lift_flat_variant`)

`join(a,b) = a if a = b; i32 if {a,b} = {i32,f32}; else i64`.  A case's value of core type
`have` is moved into the joined slot of type `want` by
`(f32,i32) ↦ encode_float_as_i32`, `(i32,i64) ↦ same number (zero-extension)`,
`(f32,i64) ↦ encode_float_as_i32 then zero-extension`, `(f64,i64) ↦ encode_float_as_i64`;
and back by `(i32,f32) ↦ decode_i32_as_float`, `(i64,i32) ↦ wrap_i64_to_i32`,
`(i64,f32) ↦ decode_i32_as_float(wrap_i64_to_i32)`, `(i64,f64) ↦ decode_i64_as_float`. -/

def join (a b : Core) : Core :=
  if a = b then a
  else match a, b with
    | .i32, .f32 | .f32, .i32 => .i32
    | _, _ => .i64

/-- `none` = the pair never arises between a case type and a joined slot type -/
def joinConv (src dst : Core) (v : BitVec src.width) : Option (BitVec dst.width) :=
  match src, dst, v with
  | .i32, .i32, v => some v
  | .i64, .i64, v => some v
  | .f32, .f32, v => some v
  | .f64, .f64, v => some v
  | .f32, .i32, v => some v
  | .i32, .f32, v => some v
  | .f64, .i64, v => some v
  | .i64, .f64, v => some v
  | .i32, .i64, v => some (v.setWidth 64)
  | .f32, .i64, v => some (v.setWidth 64)
  | .i64, .i32, v => some (v.setWidth 32)
  | .i64, .f32, v => some (v.setWidth 32)
  | _, _, _ => none

end Witverif.Scalar.Spec
