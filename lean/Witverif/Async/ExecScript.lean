import Witverif.Async.Task
import Witverif.Async.Subtask
import Witverif.Async.UnitHost
import Witverif.Async.Script
/-
Scripts of harness/rt-native engine `exec` and the model's interpreter for them (C22/C23 tie).
Mirrors harness/rt-native/src/exec.rs.  What is composed here:
  * the executor LTS `Task.step` (Task.lean, the object of the C22/C23 theorems) — one instance per
    component task; this interpreter only *chooses labels* (what user code did, what the host
    answered) and feeds every event a step emits through the host;
  * `Tasks::poll_next` of spawn.rs (`FuturesUnordered` of futures-util 0.3: FIFO ready-to-run queue,
    per-task `queued`/`woken` flags, `AtomicWaker` for the parent, forced yield after `len` polls or
    two self-wakes, destruction from the head of the all-list) and of spawn_disabled.rs;
  * the task bodies: small programs over the runtime's API (`Subtask.lean` futures, wakers, spawn);
  * the mock host (`UnitHost.lean`) and the harness's host loop (`run_start`) / `block_on` driver.
Answers reach a runtime step as inputs: the interpreter peeks the host for the answer, runs the
step, and replays the emitted events on the host (which re-prints built-ins with its own answer).
Import-free.
-/
namespace Witverif.Async.Exec
open Witverif.Async Witverif.Async.Task Witverif.Async.UnitHost Witverif.Generated

inductive Instr
  | new (k : Nat) | poll (k : Nat) | await (k : Nat) | drop (k : Nat) | wait | yield
  | spawn (j : Nat) | capture (n : Nat) | wake (n : Nat) | wdrop (n : Nat) | guard (n : Nat) | ret | detach (k : Nat)
deriving DecidableEq, Repr

inductive Dir
  | adv (k s : Nat) | dlv (k : Nat) | dlvEnd | wake (n : Nat) | wdrop (n : Nat) | start (j : Nat) | cancel (i : Nat) | hold
deriving DecidableEq, Repr

structure Build where
  spawn : Bool
  itw : Bool
deriving DecidableEq, Repr

structure Script where
  driver : Driver
  calls : List CallDecl
  bodies : List (List Instr)
  dirs : List Dir

/-- what a captured `Waker` refers to -/
inductive WRef
  | direct (t : Nat)          -- a clone of the task's own waker (`Arc<SharedTaskState>`)
  | child (t j : Nat)         -- a `FuturesUnordered` task waker (holds only a weak reference to the queue)
deriving DecidableEq, Repr

structure Body where
  started : Bool := false
  task : Nat := 0
  root : Bool := false
  instrs : List Instr := []
  slots : List (Nat × Fut) := []
  guards : List Nat := []
  tc : Bool := false            -- holds an armed `TaskCancelOnDrop`
  over : Bool := false          -- finished or dropped

/-- `FuturesUnordered` (async-spawn) / `Option<BoxFuture>` (otherwise: `linked` has ≤ 1 element) -/
structure FU where
  linked : List Nat := []       -- all-list, head first (most recently linked)
  queue : List Nat := []        -- ready-to-run queue, front first
  released : List Nat := []     -- tasks whose future is gone (`queued` stays true for ever)
  wokenFlag : List Nat := []
  parentReg : Bool := false     -- the queue's `AtomicWaker` holds the parent waker
  dropped : Bool := false

structure TaskRec where
  st : St
  fu : FU := {}
  alive : Bool := true

structure Sys where
  build : Build
  calls : List CallDecl
  host : XHost
  tasks : List TaskRec := []
  bodies : List Body := []
  used : List Nat := []
  wakers : List (Option WRef) := [none, none, none, none]
  opWaker : List (Nat × WRef) := []
  spawned : List Nat := []
  detached : List (Nat × Nat × Fut) := []   -- (call, task it was polled under, future): moved out of their body
  dirs : List Dir := []
  log : List Ev := []
  panicked : Bool := false

namespace Sys

def emit (s : Sys) (evs : List Ev) : Sys := { s with log := s.log ++ evs }

/-- events of the runtime go through the host (built-ins act and are re-printed) into the log -/
def emitHost (s : Sys) (evs : List Ev) : Sys :=
  let (h, o) := s.host.replayAll evs
  { s with host := h, log := s.log ++ o }

/-- a Rust panic starts here (`@panic` is what the harness's panic hook writes at that moment) -/
def panicNow (s : Sys) : Sys := if s.panicked then s else { s with panicked := true, log := s.log ++ [Ev.x .panicAt []] }

def getTask (s : Sys) (t : Nat) : Option TaskRec := if t = 0 then none else s.tasks[t - 1]?
def setTask (s : Sys) (t : Nat) (r : TaskRec) : Sys :=
  if t = 0 then s else { s with tasks := s.tasks.set (t - 1) r }
def getBody (s : Sys) (j : Nat) : Body := s.bodies[j]?.getD {}
def setBody (s : Sys) (j : Nat) (b : Body) : Sys := { s with bodies := s.bodies.set j b }
def modFU (s : Sys) (t : Nat) (f : FU → FU) : Sys :=
  match s.getTask t with
  | some r => s.setTask t { r with fu := f r.fu }
  | none => s

/-- one step of task `t`'s executor LTS; emitted events pass through the host -/
def taskStep (s : Sys) (t : Nat) (l : Task.Label) : Sys :=
  if s.panicked then s else
  match s.getTask t with
  | none => (s.emit [.other "!model-no-such-task"]).panicNow
  | some r =>
    match Task.step r.st l with
    | .ok st evs => (s.setTask t { r with st := st }).emitHost evs
    | .panic _ evs => (s.emitHost evs).panicNow

/-- answer `stream.write` would give on the wake-up stream of task `t` (if its wake writes) -/
def peekWake (s : Sys) (t : Nat) : Nat :=
  match s.getTask t with
  | some r =>
    match r.st.wk.stream with
    | some (_, w) => (s.host.unitWrite w).2.1
    | none => 0
  | none => 0

/-- `Waker::wake_by_ref` -/
def wakeRef (s : Sys) : WRef → Sys
  | .direct t => s.taskStep t (.wake (s.peekWake t))
  | .child t j =>
    match s.getTask t with
    | none => s
    | some r =>
      let fu := r.fu
      -- `Task::wake_by_ref`: the queue is gone with the `FuturesUnordered`
      if fu.dropped then s
      else
        let fu1 := { fu with wokenFlag := ins fu.wokenFlag j }
        if fu.queue.contains j || fu.released.contains j then s.setTask t { r with fu := fu1 }
        else
          let fu2 := { fu1 with queue := fu1.queue ++ [j] }
          if fu2.parentReg then
            (s.setTask t { r with fu := { fu2 with parentReg := false } }).taskStep t (.wake (s.peekWake t))
          else s.setTask t { r with fu := fu2 }

def cloneRef (s : Sys) : WRef → Sys
  | .direct t => s.taskStep t .cloneRef
  | .child _ _ => s
def dropRef (s : Sys) : WRef → Sys
  | .direct t => s.taskStep t .dropRef
  | .child _ _ => s

/-- the harness's `wake_slot(n, tok)`: clone out of the slot, token, wake, drop the clone -/
def wakeSlot (s : Sys) (n : Nat) (some' none' : XTag) : Sys :=
  match s.wakers[n]?.join with
  | none => s.emit [.x none' [n]]
  | some r => ((((s.cloneRef r).emit [.x some' [n]]).wakeRef r).dropRef r)

def dropSlot (s : Sys) (n : Nat) (some' none' : XTag) : Sys :=
  match s.wakers[n]?.join with
  | none => s.emit [.x none' [n]]
  | some r => ({ s with wakers := s.wakers.set n none }.emit [.x some' [n]]).dropRef r

/-- a runtime event that concerns an executor becomes a label of that task's LTS -/
def absorbEv (s : Sys) : Ev → Sys
  | .reg t w _ => s.taskStep t (.reg w s.host.base.next)
  | .unreg t w _ => s.taskStep t (.unreg w)
  | .clone t => s.taskStep t .cloneRef
  | .tdrop t => s.taskStep t .dropRef
  | e => if s.panicked then s else s.emitHost [e]

def absorbEvs (s : Sys) : List Ev → Sys
  | [] => s
  | e :: es => absorbEvs (s.absorbEv e) es

/-- the answer of the first answer-consuming built-in in `evs`, on the state reached by absorbing the
events before it -/
def answerFor (s : Sys) : List Ev → Nat
  | [] => 0
  | .callImport k _ _ :: _ =>
    let st := match s.calls[k]? with | some c => c.st | none => 0
    (s.host.base.importCall k st).2.1
  | .cancel w _ :: _ => (s.host.base.subtaskCancel w).2.1
  | e :: es => answerFor (s.absorbEv e) es

/-- the executors' waitable maps as the `Waitable` model's environment sees them -/
def regs (s : Sys) : List (Nat × Nat) :=
  (s.tasks.zipIdx).flatMap fun (r, i) => r.st.waitables.map fun w => (i + 1, w)

def env (s : Sys) (t : Nat) : Env := ⟨some ⟨t, Limits.wasip3TaskV2⟩, s.regs⟩

/-- run a runtime step that consumes at most one built-in answer -/
def runStep {α} (s : Sys) (f : Nat → Step α) : Sys × Option α :=
  let r := f (s.answerFor (f 0).evs)
  match r with
  | .ok a evs => let s1 := s.absorbEvs evs; (s1, if s1.panicked then none else some a)
  | .panic _ evs => ((s.absorbEvs evs).panicNow, none)

end Sys

def getSlot (b : Body) (k : Nat) : Option Fut := (b.slots.find? (·.1 == k)).map (·.2)
def setSlot (b : Body) (k : Nat) (f : Option Fut) : Body :=
  let rest := b.slots.filter (·.1 != k)
  match f with
  | some f => { b with slots := rest ++ [(k, f)] }
  | none => { b with slots := rest }

inductive BodyRes | next | suspend (again : Bool) | stop
deriving DecidableEq

/-- one poll of call future `k` of body `j` under context waker `cx`; result: completed? -/
def pollSlot (s : Sys) (j k : Nat) (cx : WRef) (f : Fut) : Sys × Option Bool :=
  let t := (s.getBody j).task
  let (s1, r) := s.runStep fun ans => f.poll (s.env t) ans
  match r with
  | none => (s1, none)
  | some (.pending, f', _) =>
    let s2 := (s1.setBody j (setSlot (s1.getBody j) k (some f'))).emit [Ev.poll k .pend]
    ({ s2 with opWaker := (s2.opWaker.filter (·.1 != k)) ++ [(k, cx)] }, some false)
  | some (.ready res, _, _) =>
    ((s1.setBody j (setSlot (s1.getBody j) k none)).emit ([Ev.poll k .ready] ++ res.dropEvs), some true)

def dropSlotFut (s : Sys) (j k : Nat) (f : Fut) : Sys :=
  let t := (s.getBody j).task
  let s0 := s.setBody j (setSlot (s.getBody j) k none)
  (s0.runStep fun ans => f.drop (s0.env t) ans).1

def execInstr (s : Sys) (j : Nat) (cx : WRef) : Instr → Sys × BodyRes
  | .new k =>
    if s.used.contains k then (s.emit [Ev.newSkip k], .next)
    else match s.calls[k]? with
      | none => ((s.emit [Ev.other "!bad-call-index"]).panicNow, .stop)
      | some c =>
        let s1 := { s with used := k :: s.used }
        ((s1.setBody j (setSlot (s1.getBody j) k (some (.unpolled c.spec)))).emit [Ev.newCall k], .next)
  | .poll k =>
    match getSlot (s.getBody j) k with
    | none => (s.emit [Ev.poll k .none], .next)
    | some f =>
      match pollSlot s j k cx f with
      | (s', none) => (s', .stop)
      | (s', some _) => (s', .next)
  | .await k =>
    match getSlot (s.getBody j) k with
    | none => (s.emit [Ev.poll k .none], .next)
    | some f =>
      match pollSlot s j k cx f with
      | (s', none) => (s', .stop)
      | (s', some true) => (s', .next)
      | (s', some false) => (s', .suspend true)
  | .drop k =>
    match getSlot (s.getBody j) k with
    | none => (s.emit [Ev.dropNone k], .next)
    | some f =>
      let s' := dropSlotFut (s.emit [Ev.dropF k]) j k f
      (s', if s'.panicked then .stop else .next)
  | .wait => (s.emit [Ev.suspend], .suspend false)
  | .yield =>
    let s' := (s.emit [Ev.yieldNow]).wakeRef cx
    (s', if s'.panicked then .stop else .suspend false)
  | .spawn c =>
    if !s.build.spawn then (s.emit [.x .spawnOff [c]], .next)
    else
      let b := s.getBody c
      if b.started || c ≥ s.bodies.length then (s.emit [.x .spawnSkip [c]], .next)
      else
        let s1 := s.setBody c { b with started := true, task := (s.getBody j).task }
        ({ s1 with spawned := s1.spawned ++ [c] }.emit [.x .spawn [c]], .next)
  | .capture n =>
    -- `cx.waker().clone()`, token, store; the previous content is dropped afterwards
    let prev := s.wakers[n]?.join
    let s1 := ((s.cloneRef cx).emit [.x .cap [n]])
    let s2 := { s1 with wakers := s1.wakers.set n (some cx) }
    let s3 := match prev with | some p => s2.dropRef p | none => s2
    (s3, if s3.panicked then .stop else .next)
  | .wake n => let s' := s.wakeSlot n .wk .wkNone; (s', if s'.panicked then .stop else .next)
  | .wdrop n => let s' := s.dropSlot n .wdrop .wdropNone; (s', if s'.panicked then .stop else .next)
  | .guard n =>
    let b := s.getBody j
    ((s.setBody j { b with guards := b.guards ++ [n] }).emit [.x .arm [n]], .next)
  | .detach k =>
    match getSlot (s.getBody j) k with
    | none => (s.emit [.x .detachNone [k]], .next)
    | some f =>
      let s1 := s.setBody j (setSlot (s.getBody j) k none)
      ({ s1 with detached := s1.detached ++ [(k, (s.getBody j).task, f)] }.emit [.x .detach [k]], .next)
  | .ret =>
    let b := s.getBody j
    if b.tc then ((s.setBody j { b with tc := false }).emit [.x .taskReturn []], .next)
    else (s.emit [.x .retSkip []], .next)

/-- `drop(loc)`: the wake guards fire in arming order, then the call futures go in slot order -/
def dropLocals (s : Sys) (j : Nat) : Sys :=
  let b := s.getBody j
  let s1 := b.guards.foldl (fun s n => if s.panicked then s else s.wakeSlot n .gwk .gwkNone) (s.setBody j { b with guards := [] })
  let ks := ((s1.getBody j).slots.map (·.1)).foldl (fun acc k => XHost.insertSorted k acc) []
  ks.foldl (fun s k =>
    if s.panicked then s else
    match getSlot (s.getBody j) k with
    | none => s
    | some f => dropSlotFut (s.emit [Ev.edrop k]) j k f) s1

/-- the body's future is dropped before it finished (task cancelled): locals, then the
`TaskCancelOnDrop` declared first -/
def dropBody (s : Sys) (j : Nat) : Sys :=
  let b := s.getBody j
  if b.over || !b.started then s
  else
    let s1 := dropLocals ((s.setBody j { b with over := true }).emit [.x .bodyDrop [j]]) j
    if s1.panicked then s1
    else if (s1.getBody j).tc then (s1.setBody j { (s1.getBody j) with tc := false }).emit [.x .taskCancel []]
    else s1

/-- poll body `j`: run instructions until one suspends; result: finished? -/
def pollBody (s : Sys) (j : Nat) (cx : WRef) : Sys × Bool :=
  let rec go (fuel : Nat) (s : Sys) : Sys × Bool :=
    match fuel with
    | 0 => ((s.emit [.other "!model-fuel"]).panicNow, false)
    | fuel + 1 =>
      if s.panicked then (s, false) else
      let b := s.getBody j
      match b.instrs with
      | [] =>
        let s1 := dropLocals (s.setBody j { b with over := true }) j
        if s1.panicked then (s1, false)
        else
          let b1 := s1.getBody j
          let s2 := if b1.tc then (s1.setBody j { b1 with tc := false }).emit [.x .taskReturn []] else s1
          (s2.emit [.x .bodyFin [j]], true)
      | i :: rest =>
        match execInstr s j cx i with
        | (s', .next) => go fuel (s'.setBody j { (s'.getBody j) with instrs := rest })
        | (s', .suspend true) => (s', false)
        | (s', .suspend false) => (s'.setBody j { (s'.getBody j) with instrs := rest }, false)
        | (s', .stop) => (s', false)
  go ((s.getBody j).instrs.length + 2) (s.emit [.x .bodyIn [j]])

/-! ### `Tasks::poll_next` -/

inductive FuPoll | pending | readyNone | readySome
deriving DecidableEq

/-- `FuturesUnordered::poll_next` of task `t` -/
def fuPollNext (s : Sys) (t : Nat) : Sys × FuPoll :=
  let len := match s.getTask t with | some r => r.fu.linked.length | none => 0
  let rec go (fuel polled yielded : Nat) (s : Sys) : Sys × FuPoll :=
    match fuel with
    | 0 => ((s.emit [.other "!model-fuel"]).panicNow, .pending)
    | fuel + 1 =>
      if s.panicked then (s, .pending) else
      match s.getTask t with
      | none => (s, .readyNone)
      | some r =>
        match r.fu.queue with
        | [] => (s, if r.fu.linked.isEmpty then .readyNone else .pending)
        | j :: q =>
          if r.fu.released.contains j || !r.fu.linked.contains j then
            go fuel polled yielded (s.setTask t { r with fu := { r.fu with queue := q } })
          else
            -- unlink, clear `queued` and `woken`, poll with the task's own waker
            let fu1 : FU := { r.fu with queue := q, linked := r.fu.linked.erase j, wokenFlag := r.fu.wokenFlag.erase j }
            let s1 := s.setTask t { r with fu := fu1 }
            let (s2, done) := pollBody s1 j (.child t j)
            if s2.panicked then (s2, .pending) else
            match s2.getTask t with
            | none => (s2, .pending)
            | some r2 =>
              if done then
                (s2.setTask t { r2 with fu := { r2.fu with released := r2.fu.released ++ [j] } }, .readySome)
              else
                let yielded' := yielded + (if r2.fu.wokenFlag.contains j then 1 else 0)
                let s3 := s2.setTask t { r2 with fu := { r2.fu with linked := j :: r2.fu.linked } }
                if yielded' ≥ 2 || polled + 1 = len then
                  -- `cx.waker().wake_by_ref(); return Poll::Pending`
                  (s3.wakeRef (.direct t), .pending)
                else go fuel (polled + 1) yielded' s3
  go (2 * (len + s.bodies.length) + 4) 0 0 (s.modFU t fun fu => { fu with parentReg := true })

/-- `Tasks::is_empty()` of task `t` -/
def isEmpty (t : Nat) (s : Sys) : Bool := match s.getTask t with | some r => r.fu.linked.isEmpty | none => true

/-- `Tasks::poll_next`: (ready, `is_empty()` afterwards) -/
def tasksPollNext (s : Sys) (t : Nat) : Sys × Bool × Bool :=
  if !s.build.spawn then
    -- spawn_disabled.rs
    match (s.getTask t).bind (·.fu.linked.head?) with
    | none => (s, true, true)
    | some j =>
      let (s1, done) := pollBody s j (.direct t)
      if s1.panicked then (s1, false, false) else
      let s2 := if done then s1.modFU t fun fu => { fu with linked := [] } else s1
      (s2, isEmpty t s2, isEmpty t s2)
  else
    let rec go (fuel : Nat) (s : Sys) : Sys × Bool × Bool :=
      match fuel with
      | 0 => ((s.emit [.other "!model-fuel"]).panicNow, false, false)
      | fuel + 1 =>
        let (s1, p) := fuPollNext s t
        if s1.panicked then (s1, false, false) else
        -- adopt what `spawn_local` queued meanwhile: `push` links at the head and enqueues
        let sp := s1.spawned
        let s2 := { s1 with spawned := [] }.modFU t fun fu =>
          sp.foldl (fun fu c => { fu with linked := c :: fu.linked, queue := fu.queue ++ [c] }) fu
        match p with
        | .pending => if sp.isEmpty then (s2, false, isEmpty t s2) else go fuel s2
        | .readyNone => if sp.isEmpty then (s2, true, isEmpty t s2) else ((s2.emit [.other "!assert-not-spawned"]).panicNow, false, false)
        | .readySome => go fuel s2
    go (2 * s.bodies.length + 4) s

/-- `me.tasks = Default::default()` inside `Drop for TaskState`: every remaining future is dropped;
`FuturesUnordered::drop` releases from the head of the all-list, marking each task released first -/
def dropTasks (s : Sys) (t : Nat) : Sys :=
  let rec go (fuel : Nat) (s : Sys) : Sys :=
    match fuel with
    | 0 => s
    | fuel + 1 =>
      if s.panicked then s else
      match s.getTask t with
      | none => s
      | some r =>
        match r.fu.linked with
        | [] => s
        | j :: rest =>
          let s1 := s.setTask t { r with fu := { r.fu with linked := rest, released := r.fu.released ++ [j] } }
          go fuel (dropBody s1 j)
  let s1 := go (s.bodies.length + 1) s
  if s1.panicked then s1 else s1.modFU t fun fu => { fu with dropped := true }

/-! ### one callback of task `t` -/

/-- the registered C-ABI completion callback (`cabi_wake`) for waitable `w` -/
def runCabiCallback (s : Sys) (w code : Nat) : Sys :=
  match s.host.base.getSub w with
  | none => (s.emit [.other "!model-callback-unknown-waitable"]).panicNow
  | some sub =>
    let k := sub.k
    match (List.range s.bodies.length).find? fun j => (getSlot (s.getBody j) k).isSome with
    | none =>
      -- a future that was moved out of its body
      match s.detached.find? fun (d : Nat × Nat × Fut) => d.1 == k with
      | none => (s.emit [.other "!model-dangling-callback"]).panicNow
      | some (_, t, f) =>
        let (s1, r) := s.runStep fun _ => f.wake code
        match r with
        | none => s1
        | some f' =>
          let s2 := { s1 with detached := s1.detached.map fun (d : Nat × Nat × Fut) => if d.1 == k then (k, t, f') else d }
          match (s2.opWaker.find? (·.1 == k)).map (·.2) with
          | some wr => s2.wakeRef wr
          | none => s2
    | some j =>
      match getSlot (s.getBody j) k with
      | none => s
      | some f =>
        let (s1, r) := s.runStep fun _ => f.wake code
        match r with
        | none => s1
        | some f' =>
          let s2 := s1.setBody j (setSlot (s1.getBody j) k (some f'))
          match (s2.opWaker.find? (·.1 == k)).map (·.2) with
          | some wr => s2.wakeRef wr
          | none => s2

/-- drive the LTS from a running program point back to `idle` / `gone` -/
def runToRest (s : Sys) (t : Nat) : Sys :=
  let rec go (fuel : Nat) (s : Sys) : Sys :=
    match fuel with
    | 0 => (s.emit [.other "!model-fuel"]).panicNow
    | fuel + 1 =>
      if s.panicked then s else
      match s.getTask t with
      | none => s
      | some r =>
        let st := r.st
        let peekCancel : Nat := match st.wk.stream with
          | some (rd, _) =>
            -- the reader leaves the set first: peek on the host after that join
            ((s.host.join rd 0).1.unitCancelRead rd).2.1
          | none => 0
        match st.pc with
        | .idle | .gone | .fresh => s
        | .deliver w c _ =>
          let s1 := s.taskStep t .tau
          match (s1.getTask t).map (·.st.pc) with
          | some (Pc.inCb _) => go fuel ((runCabiCallback s1 w c).taskStep t .cbDone)
          | _ => go fuel s1
        | .inCb _ => go fuel (s.taskStep t .cbDone)
        | .cancelWake => go fuel (s.taskStep t (.cancelRead peekCancel))
        | .setPolling => go fuel (s.taskStep t .tau)
        | .pollTasks =>
          let (s1, ready, empty) := tasksPollNext s t
          go fuel (s1.taskStep t (.pollDone ready empty))
        | .afterPoll _ =>
          let (e, w, c) := match st.set with
            | some x => (s.host.setPoll x false).2.1
            | none => (0, 0, 0)
          go fuel (s.taskStep t (.decide e w c))
        | .sleep =>
          -- answers in the order the built-ins are called: stream.new, stream.read, waitable-set.new
          let (h1, (rd, wr)) : XHost × (Nat × Nat) := match st.wk.stream with
            | some p => (s.host, p)
            | none => let (h, p, _) := s.host.unitNew; (h, p)
          let (h2, ans, _) := h1.unitRead rd
          go fuel (s.taskStep t (.sleepRead rd wr h2.base.next ans))
        | .dropCancelWake => go fuel (s.taskStep t (.cancelRead peekCancel))
        | .dropTasks => go fuel ((dropTasks s t).taskStep t .dropTasksDone)
        | .dropFields => go fuel ((s.modFU t fun fu => { fu with dropped := true }).taskStep t .tau)
  go (4 * (s.bodies.length + s.calls.length) + 40) s

/-! ### driver `start`: the harness as host -/

def newTask (s : Sys) (driver : Driver) (j : Nat) : Sys × Nat :=
  let id := s.tasks.length + 1
  let b := s.getBody j
  let fu : FU := if s.build.spawn then { linked := [j], queue := [j] } else { linked := [j] }
  let rec0 : TaskRec := { st := St.init driver s.build.itw, fu := fu }
  let s1 := { s with tasks := s.tasks ++ [rec0] }
  (s1.setBody j { b with started := true, task := id, root := true, tc := driver == Driver.start }, id)

/-- after a callback of task `t` returned to the harness -/
def afterCall (s : Sys) (t : Nat) : Sys :=
  if s.panicked then s else
  match s.getTask t with
  | none => s
  | some r =>
    if r.st.pc = .gone then
      let s1 := s.setTask t { r with alive := false }
      if r.st.ctx then s1.emit [.other s!"!ctx-left:{t}"] else s1
    else s

def startTask (s : Sys) (j : Nat) : Sys :=
  let b := s.getBody j
  if b.started || j ≥ s.bodies.length then s.emit [.x .startSkip [j]]
  else
    let (s1, id) := newTask s .start j
    let s2 := (s1.emit [.x .curTask [id], .evStart]).taskStep id .start
    afterCall (runToRest (s2.taskStep id (.call 0 0 0)) id) id

def callTask (s : Sys) (t e w c : Nat) : Sys :=
  afterCall (runToRest ((s.emit [.x .curTask [t], .evCb e w c]).taskStep t (.call e w c)) t) t

def cancelTask (s : Sys) (t : Nat) : Sys := callTask (s.emit [.x .cancelTask [t]]) t Host.EVENT_CANCEL 0 0

/-- index+1 of the first live task satisfying `p` -/
def findTask (s : Sys) (p : TaskRec → Bool) : Option Nat :=
  ((s.tasks.zipIdx).find? fun (r, _) => r.alive && p r).map fun (_, i) => i + 1

def waitingOn (s : Sys) (set : Nat) : Option Nat := findTask s fun r => r.st.last == some (.wait set)

def runStart (s : Sys) (dirs : List Dir) : Sys :=
  let rec go (fuel : Nat) (s : Sys) (dirs : List Dir) (hold : Bool) : Sys :=
    match fuel with
    | 0 => s.emit [.other "!livelock"]
    | fuel + 1 =>
      if s.panicked then s else
      if s.host.base.trapped then s.emit [Ev.abort] else
      -- tasks that yielded are resumed first, unless the host holds them back for one directive (`P`)
      match (if hold then none else findTask s fun r => r.st.last == some .yield) with
      | some t =>
        match dirs with
        | .hold :: ds => go fuel (s.emit [.x .hold []]) ds true
        | .cancel c :: ds => if c = t then go fuel (cancelTask s t) ds false else go fuel (callTask s t 0 0 0) dirs false
        | _ => go fuel (callTask s t 0 0 0) dirs false
      | none =>
        match dirs with
        | .adv k st :: ds =>
          let (b, e) := s.host.base.advance k st
          go fuel ({ s with host := { s.host with base := b } }.emit e) ds false
        | .dlv k :: ds =>
          let h := s.host.base.callHandle k
          let set := s.host.setOf h
          match waitingOn s set with
          | some t =>
            if h ≠ 0 ∧ set ≠ 0 ∧ s.host.hasEvent h then
              match s.host.takeEvent h with
              | some ((e, c), host') => go fuel (callTask { s with host := host' } t e h c) ds false
              | none => go fuel (s.emit [Ev.dlvSkip k]) ds false
            else go fuel (s.emit [Ev.dlvSkip k]) ds false
          | none => go fuel (s.emit [Ev.dlvSkip k]) ds false
        | .dlvEnd :: ds =>
          let cand := s.host.ends.filter fun p => p.2.pending.isSome && p.2.set != 0
          match cand.findSome? fun p => (waitingOn s p.2.set).map fun t => (p.1, t) with
          | some (w, t) =>
            match s.host.takeEvent w with
            | some ((e, c), host') => go fuel (callTask { s with host := host' } t e w c) ds false
            | none => go fuel (s.emit [.x .dlvEndSkip []]) ds false
          | none => go fuel (s.emit [.x .dlvEndSkip []]) ds false
        | .wake n :: ds => go fuel (s.wakeSlot n .hwk .hwkNone) ds false
        | .wdrop n :: ds => go fuel (s.dropSlot n .hwdrop .hwdropNone) ds false
        | .start j :: ds => go fuel (startTask s j) ds false
        | .cancel i :: ds =>
          match findTask s fun _ => true with
          | _ =>
            match s.getTask i with
            | some r => if r.alive then go fuel (cancelTask s i) ds false else go fuel (s.emit [.x .cancelTaskSkip [i]]) ds false
            | none => go fuel (s.emit [.x .cancelTaskSkip [i]]) ds false
        | .hold :: ds => go fuel (s.emit [.x .holdSkip []]) ds false
        | [] =>
          if hold then go fuel s [] false else
          match findTask s fun _ => true with
          | some t => go fuel (cancelTask s t) [] false
          | none => s
  go (4 * (dirs.length + s.bodies.foldl (fun n b => n + b.instrs.length) 0) + 40) s dirs false

/-! ### driver `block`: `block_on`, host directives inside `waitable-set.wait` -/

/-- `on_wait(set)` of exec.rs -/
def onWait (s : Sys) (set : Nat) : Sys :=
  let rec go (fuel : Nat) (s : Sys) : Sys :=
    match fuel with
    | 0 => let (h, e) := s.host.trapTok "livelock"; { s with host := h }.emit ([Ev.other "!livelock"] ++ e)
    | fuel + 1 =>
      if s.panicked then s else
      if !(s.host.readyMembers set).isEmpty || s.host.base.trapped then s else
      match s.dirs with
      | .adv k st :: ds =>
        let (b, e) := s.host.base.advance k st
        go fuel ({ s with host := { s.host with base := b }, dirs := ds }.emit e)
      | .dlv k :: ds => go fuel ({ s with dirs := ds }.emit [Ev.dlvSkip k])
      | .dlvEnd :: ds => go fuel ({ s with dirs := ds }.emit [.x .dlvEndSkip []])
      | .wake n :: ds => go fuel ({ s with dirs := ds }.wakeSlot n .hwk .hwkNone)
      | .wdrop n :: ds => go fuel ({ s with dirs := ds }.dropSlot n .hwdrop .hwdropNone)
      | .hold :: ds => go fuel ({ s with dirs := ds }.emit [.x .holdSkip []])
      | .start j :: ds => go fuel ({ s with dirs := ds }.emit [.x .startSkip [j]])
      | .cancel i :: ds => go fuel ({ s with dirs := ds }.emit [.x .cancelTaskSkip [i]])
      | [] =>
        match s.host.base.subs.find? fun p => p.2.set == set && !Host.resolved p.2.state && !p.2.cancelRequested with
        | some p =>
          let (b, e) := s.host.base.advance p.2.k Host.RETURNED
          go fuel ({ s with host := { s.host with base := b } }.emit ([Ev.x .auto [p.2.k]] ++ e))
        | none =>
          match (List.range s.wakers.length).find? fun n => (s.wakers[n]?.join).isSome with
          | some n =>
            let s1 := s.wakeSlot n .autoWk .autoWk
            if s1.panicked then s1
            else if (s1.host.readyMembers set).isEmpty then go fuel (s1.dropSlot n .autoDrop .autoDrop) else go fuel s1
          | none =>
            let (h, e) := s.host.trapTok "deadlock"
            { s with host := h }.emit ([Ev.x .deadlock []] ++ e)
  go (s.dirs.length + s.calls.length + 12) s

def runBlock (s : Sys) : Sys :=
  let b := s.getBody 0
  if b.started || s.bodies.isEmpty then s.emit [.x .startSkip [0]]
  else
    let (s0, t) := newTask s .block 0
    let rec go (fuel : Nat) (s : Sys) : Sys :=
      match fuel with
      | 0 => s.emit [.other "!livelock"]
      | fuel + 1 =>
        if s.panicked then s else
        match s.getTask t with
        | none => s
        | some r =>
          match r.st.pc, r.st.last with
          | .gone, _ =>
            -- `drop(state); break result.unwrap()`: no result if the task was "cancelled"
            if r.st.ev0 = Host.EVENT_CANCEL then s.panicNow else s.emit [.x .blockEnd []]
          | _, some (.wait set) =>
            let s1 := onWait s set
            if s1.panicked then s1
            else if s1.host.base.trapped then
              go fuel (runToRest (s1.taskStep t (.call Host.EVENT_CANCEL 0 0)) t)
            else
              let (e, w, c) := (s1.host.setPoll set true).2.1
              go fuel (runToRest (s1.taskStep t (.call e w c)) t)
          | _, some .yield =>
            let (e, w, c) := match r.st.set with
              | some x => (s.host.setPoll x false).2.1
              | none => (0, 0, 0)
            go fuel (runToRest (s.taskStep t (.call e w c)) t)
          | _, _ => go fuel (runToRest (s.taskStep t (.call 0 0 0)) t)
    go (4 * (s.dirs.length + s.bodies.foldl (fun n b => n + b.instrs.length) 0) + 40) (s0.emit [.x .blockStart []])

/-! ### a whole script -/

def Sys.init (sc : Script) (b : Build) : Sys :=
  { build := b, calls := sc.calls,
    host := XHost.init (fun k => match sc.calls[k]? with | some c => c.cx | none => 0),
    bodies := sc.bodies.map fun is => { instrs := is },
    dirs := if sc.driver = .block then sc.dirs else [] }

def finish (s : Sys) : Sys :=
  -- detached call futures are dropped, outside every task
  let s := s.detached.foldl (fun (s : Sys) (d : Nat × Nat × Fut) =>
    if s.panicked then s else
    let s0 := { s with detached := s.detached.filter fun (x : Nat × Nat × Fut) => x.1 != d.1 }.emit [.x .detachDrop [d.1]]
    (s0.runStep fun ans => d.2.2.drop (s0.env d.2.1) ans).1) s
  -- captured wakers are released (they may hold the last reference to a task's state)
  let s1 := (List.range s.wakers.length).foldl (fun s n =>
    if (s.wakers[n]?.join).isSome then s.dropSlot n .wend .wend else s) { s with panicked := false }
  let s2 := { s1 with panicked := s.panicked || s1.panicked }
  if s2.panicked || s2.host.base.trapped then s2
  else
    let sets := s2.host.base.sets.length
    let subs := s2.host.base.subs.length
    let ends := s2.host.ends.length
    if sets != 0 || subs != 0 || ends != 0 then
      s2.emit [.other s!"!host-leftovers:sets={sets}/subs={subs}/ends={ends}/ctx=0"]
    else s2

/-- predicted trace of a script under a feature build -/
def Script.predict (sc : Script) (b : Build) : List Ev :=
  let s0 := Sys.init sc b
  let s1 := match sc.driver with
    | .start => runStart (startTask s0 0) sc.dirs
    | .block => runBlock s0
  let s2 := finish s1
  s2.log ++ [.endTok (if s2.panicked then none else some 0) 0]

end Witverif.Async.Exec
