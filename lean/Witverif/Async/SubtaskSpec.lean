import Witverif.Async.Host
/-
Specification side of C21 (independent of the model of the runtime): the property "async import
calls release parameters and results exactly once" as a monitor over a trace of events, for one
call `k`.  It reads only what an outside observer sees: the instrumented `Subtask` callbacks, the
built-in calls with the host's answers, deliveries, (un)registrations.  The driver evaluates it on
the IMPLEMENTATION's trace for every call of a script; `Props/C21.lean` proves that the model's
traces never trip it, for all legal host behaviours.

Violation classes ↔ clauses of the property:
  lists-*    parameter lists freed exactly once, and only after the callee started  (params_lists_freed_once_after_start)
  owns-*     owned parameters released iff the call was cancelled before starting   (owned_params_released_iff_cancelled_before_start)
  lift-*     results lifted exactly once iff the call returned                      (results_lifted_once_iff_returned)
  handle-*   subtask handle dropped exactly once, after resolution                  (subtask_handle_dropped_once)
  cancel-*   `subtask.cancel` only for a call still in progress, unregistered first (cancel_only_in_progress)
  area-*     params/results area stays allocated until the call is resolved,
             freed once, and is live whenever it is read or written               (param_area_live_until_started)
Import-free (apart from model-free `Host` constants).
-/
namespace Witverif.Async.SubtaskSpec
open Witverif.Async
open Witverif.Async.Host (STARTING STARTED RETURNED STARTED_CANCELLED RETURNED_CANCELLED resolved)

structure CallMon where
  created : Bool := false
  lowered : Bool := false
  called : Bool := false
  handle : Nat := 0
  reported : Nat := 0            -- last status made known to the guest (call result, event, cancel result)
  listsFreed : Nat := 0          -- `params_dealloc_lists` + `params_dealloc_lists_and_own`
  ownsReleased : Nat := 0        -- `params_dealloc_lists_and_own`
  lifted : Nat := 0
  areaFreed : Nat := 0
  cancels : Nat := 0
  handleDrops : Nat := 0
  registered : Bool := false     -- present in an executor's map / joined to a waitable set
  pdrops : Nat := 0
  rdrops : Nat := 0
deriving DecidableEq, Repr

/-- has the host told the guest that the callee started (so it has read the parameters)? -/
def startedKnown (m : CallMon) : Bool :=
  m.called && (m.reported == STARTED || m.reported == RETURNED || m.reported == RETURNED_CANCELLED)

def resolvedKnown (m : CallMon) : Bool := m.called && resolved m.reported

/-- One event, for call `k`.  Events of other calls / other handles are ignored.
`.error cls` = the property is violated, `cls` names the clause. -/
def step (k : Nat) (m : CallMon) : Ev → Except String CallMon
  | .newCall j => if j = k then .ok { m with created := true } else .ok m
  | .lower j =>
    if j ≠ k then .ok m else
    if m.lowered then .error "lists-lowered-twice" else .ok { m with lowered := true }
  | .callImport j st h =>
    if j ≠ k then .ok m else
    if !m.lowered || m.called then .error "call-order" else
    .ok { m with called := true, handle := h, reported := st }
  | .deallocLists j =>
    if j ≠ k then .ok m else
    if m.listsFreed ≠ 0 then .error "lists-freed-twice" else
    if !startedKnown m then .error "lists-freed-before-start" else
    if m.areaFreed ≠ 0 then .error "area-dead-at-dealloc" else
    .ok { m with listsFreed := 1 }
  | .deallocListsOwn j =>
    if j ≠ k then .ok m else
    if m.listsFreed ≠ 0 then .error "lists-freed-twice" else
    if !(m.called && m.reported == STARTED_CANCELLED) then .error "owns-released-not-cancelled-before-start" else
    if m.areaFreed ≠ 0 then .error "area-dead-at-dealloc" else
    .ok { m with listsFreed := 1, ownsReleased := 1 }
  | .lift j =>
    if j ≠ k then .ok m else
    if m.lifted ≠ 0 then .error "lift-twice" else
    if !(m.called && m.reported == RETURNED) then .error "lift-not-returned" else
    if m.areaFreed ≠ 0 then .error "area-dead-at-lift" else
    .ok { m with lifted := 1 }
  | .free j =>
    if j ≠ k then .ok m else
    if m.areaFreed ≠ 0 then .error "area-freed-twice" else
    if !resolvedKnown m then .error "area-freed-before-resolution" else
    .ok { m with areaFreed := 1 }
  | .rdrop j => if j ≠ k then .ok m else if m.lifted = 0 || m.rdrops ≠ 0 then .error "lift-result-drop" else .ok { m with rdrops := 1 }
  | .pdrop j => if j ≠ k then .ok m else if m.lowered || m.pdrops ≠ 0 then .error "lists-param-drop" else .ok { m with pdrops := 1 }
  | .cancel h ret =>
    if !(m.called && h = m.handle && h ≠ 0) then .ok m else
    if resolvedKnown m then .error "cancel-not-in-progress" else
    if m.cancels ≠ 0 then .error "cancel-twice" else
    if m.registered then .error "cancel-while-registered" else
    .ok { m with cancels := 1, reported := ret }
  | .subDrop h =>
    if !(m.called && h = m.handle && h ≠ 0) then .ok m else
    if m.handleDrops ≠ 0 then .error "handle-dropped-twice" else
    if !resolvedKnown m then .error "handle-dropped-unresolved" else
    .ok { m with handleDrops := 1 }
  | .reg _ w _ => if m.called && w = m.handle && w ≠ 0 then .ok { m with registered := true } else .ok m
  | .unreg _ w _ => if m.called && w = m.handle && w ≠ 0 then .ok { m with registered := false } else .ok m
  | .join w s => if m.called && w = m.handle && w ≠ 0 then .ok { m with registered := s != 0 } else .ok m
  | .dlv h c => if m.called && h = m.handle && h ≠ 0 then .ok { m with registered := false, reported := c } else .ok m
  | .evCb e h c =>
    if e = Host.EVENT_SUBTASK && m.called && h = m.handle && h ≠ 0 then .ok { m with reported := c } else .ok m
  | .setPoll _ e h c | .setWait _ e h c =>
    if e = Host.EVENT_SUBTASK && m.called && h = m.handle && h ≠ 0 then .ok { m with reported := c } else .ok m
  | _ => .ok m

def run (k : Nat) (m : CallMon) : List Ev → Except String CallMon
  | [] => .ok m
  | e :: es => match step k m e with
    | .ok m' => run k m' es
    | .error c => .error c

/-- The end-of-life checks for a call that was lowered: `(violated?, class)` in reporting order. -/
def completeChecks (area : Bool) (m : CallMon) : List (Bool × String) :=
  [ (!m.called, "call-order"),
    (!resolvedKnown m, "handle-unresolved-at-end"),
    (m.listsFreed != 1, "lists-never-freed"),
    ((m.ownsReleased == 1) != (m.reported == STARTED_CANCELLED), "owns-released-not-cancelled-before-start"),
    ((m.lifted == 1) != (m.reported == RETURNED), "lift-not-returned"),
    (m.lifted != m.rdrops, "lift-result-drop"),
    (m.handle != 0 && m.handleDrops != 1, "handle-never-dropped"),
    (area && m.areaFreed != 1, "area-never-freed"),
    (m.registered, "cancel-left-registered") ]

/-- End-of-life clause: once the call's future is gone (completed or dropped) everything it owned
has been released exactly once.  `area` = the call has a non-empty params/results area. -/
def complete (area : Bool) (m : CallMon) : Except String Unit :=
  if !m.created then .ok () else
  if !m.lowered then (if m.pdrops = 1 then .ok () else .error "lists-param-never-dropped") else
  match (completeChecks area m).find? (·.1) with
  | some (_, cls) => .error cls
  | none => .ok ()

end Witverif.Async.SubtaskSpec
