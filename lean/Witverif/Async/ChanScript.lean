import Witverif.Async.Chan
/-
Scripts of harness/rt-native engine `chan` and the model's interpreter for them: the task body as a
program over the channels' operations, the scripted peer (`Mock`: which legal answer the mock host of
chan_host.rs picks), and — for the `cabi1` / `cabi2` modes — the harness as the executor.  Mirrors
harness/rt-native/src/chan.rs and the resolution half of chan_host.rs; every step on a channel is
`ChanSys.step` of Chan.lean (the definitions the C19/C20 theorems are about).

Answers reach the runtime model as in Script.lean: a step is run once with a dummy answer to find the
built-in it calls, the mock's answer is computed from the host state, and the step is run again with it.
Import-free.
-/
namespace Witverif.Async
open Witverif.Async.Host (End CopySt)

structure ChanDecl where
  fut : Bool
  gw : Bool
  kind : PKind
  cx : Nat
  adapter : Bool
  esize : Nat := 1      -- element size in bytes (`elem_layout().size()` of the payload's vtable)
deriving Repr

inductive CInstr
  | opn (c : Nat) | write (c n : Nat) | resume (c : Nat) | intoVec (c : Nat) | writeAll (c n : Nat) | writeOne (c : Nat)
  | read (c n : Nat) | next (c : Nat) | collect (c : Nat) | fut (c : Nat)
  | poll (c : Nat) | await (c : Nat) | cancel (c : Nat) | dropOp (c : Nat) | dropEnd (c : Nat)
  | suspend | yield | task (n : Nat)
deriving DecidableEq, Repr

inductive CDir
  | xfer (c m : Nat) | pdrop (c : Nat) | dlv (c : Nat)
deriving DecidableEq, Repr

inductive CMode
  | cabi (version : Nat) | export
deriving DecidableEq, Repr

structure CScript where
  mode : CMode
  decls : List ChanDecl
  body : List CInstr
  dirs : List CDir

/-- the scripted peer of one channel (resolution state of chan_host.rs) -/
structure Mock where
  cx : Nat
  esize : Nat := 1              -- element size of the channel's payload (bytes)
  peerReady : Nat := 0
  peerDropped : Bool := false
  peerWrote : Bool := false

structure CSys where
  chans : List (ChanSys × Mock)
  cur : Option CurTask
  next : Nat := 1               -- next free handle
  log : List Ev := []
  woken : Bool := false
  panicked : Bool := false

def CSys.emit (s : CSys) (evs : List Ev) : CSys := { s with log := s.log ++ evs }
def CSys.trapped (s : CSys) : Bool := s.chans.any (·.1.h.trapped)
def CSys.registrations (s : CSys) : Nat := (s.chans.map (·.1.env.regs.length)).sum

def CSys.setChan (s : CSys) (c : Nat) (v : ChanSys × Mock) : CSys :=
  { s with chans := s.chans.mapIdx fun i x => if i = c then v else x }

/-! ### The mock's answers -/

inductive Ask
  | copy (n : Nat) | cancel

/-- the first answer-consuming built-in among the events of a (dummy) step -/
def firstAsk : List Ev → Option Ask
  | [] => none
  | .ch .swrite [_, n, _, _] :: _ | .ch .sread [_, n, _, _] :: _ => some (.copy n)
  | .ch .fwrite [_, _] :: _ | .ch .fread [_, _] :: _ => some (.copy 1)
  | .ch .scw [_, _] :: _ | .ch .scr [_, _] :: _ | .ch .fcw [_, _] :: _ | .ch .fcr [_, _] :: _ => some .cancel
  | _ :: es => firstAsk es

/-- the mock's answer (chan_host.rs `copy` / `cancel`); a trapping call answers DROPPED -/
def Mock.answer (m : Mock) (h : HChan) : Ask → Nat
  | .copy n =>
    if h.e.copyTrap.isSome then Host.DROPPED
    else if m.peerReady > 0 then (if h.e.fut then Host.COMPLETED else Host.packCode Host.COMPLETED (min n m.peerReady))
    else if m.peerDropped then Host.DROPPED
    else Host.BLOCKED
  | .cancel =>
    if h.e.cancelTrap.isSome then Host.DROPPED
    else match h.e.pending with
      | some p => p
      | none =>
        let one := min h.e.n 1
        if h.e.fut then
          (if m.cx == 1 || m.cx == 4 then Host.COMPLETED
           else if m.cx == 2 && h.e.writer then Host.DROPPED else Host.CANCELLED)
        else if m.cx == 1 then Host.packCode Host.COMPLETED h.e.n
        else if m.cx == 2 then Host.DROPPED
        else if m.cx == 3 then Host.packCode Host.CANCELLED one
        else if m.cx == 4 then Host.packCode Host.COMPLETED one
        else Host.CANCELLED

/-- the mock's own state after it answered -/
def Mock.after (m : Mock) (h : HChan) (ask : Option Ask) (ans : Nat) : Mock :=
  match ask with
  | none => m
  | some (.copy n) =>
    if h.e.copyTrap.isSome then m
    else if m.peerReady > 0 then
      { m with peerReady := m.peerReady - (if h.e.fut then 1 else min n m.peerReady),
               peerWrote := m.peerWrote || (h.e.fut && !h.e.writer) }
    else m
  | some .cancel =>
    if h.e.cancelTrap.isSome || h.e.pending.isSome then m
    else { m with peerDropped := m.peerDropped || Host.codeBase ans == Host.DROPPED,
                  peerWrote := m.peerWrote || (h.e.fut && !h.e.writer && Host.codeBase ans == Host.COMPLETED) }

/-- run one label of channel `c` with the mock's answer; events go to the log -/
def CSys.runLabel (s : CSys) (c : Nat) (mk : Nat → CLabel) : CSys :=
  match s.chans[c]? with
  | none => s.emit [.other "!bad-channel"]
  | some (cs0, m) =>
    let cs := { cs0 with env := { cs0.env with cur := s.cur } }
    let ask := firstAsk (cs.step (mk 0)).evs
    let ans := match ask with
      | some a => m.answer cs.h a
      | none => 0
    match cs.step (mk ans) with
    | .ok cs' evs => (s.setChan c (cs', m.after cs.h ask ans)).emit (evs.map (Ev.scaleOff m.esize))
    | .panic _ evs => { (s.emit (evs.map (Ev.scaleOff m.esize) ++ [Ev.panic])) with panicked := true }

def CSys.chan? (s : CSys) (c : Nat) : Option ChanSys := (s.chans[c]?).map (·.1)

/-- continue a step that did not finish: an `async fn` that went on without suspending, the default
write of a dropped `FutureWriter` -/
def CSys.settle (s : CSys) (c : Nat) : Nat → CSys
  | 0 => s.emit [.other "!model-fuel"]
  | fuel + 1 =>
    if s.panicked then s else
    match s.chan? c with
    | none => s
    | some cs =>
      if cs.g.running then (s.runLabel c .poll).settle c fuel
      else if cs.g.defer.isSome then (s.runLabel c .deferStart).settle c fuel
      else s

def settleFuel : Nat := 200

def CSys.run1 (s : CSys) (c : Nat) (mk : Nat → CLabel) : CSys := (s.runLabel c mk).settle c settleFuel

/-- is the channel's operation still there after a poll (i.e. the poll returned `Pending`)? -/
def CSys.pending (s : CSys) (c : Nat) : Bool :=
  match s.chan? c with
  | some cs => !cs.g.act.isNone
  | none => false

inductive CBodyRes | next | suspend (again : Bool) | stop
deriving DecidableEq

def execCInstr (s : CSys) : CInstr → CSys × CBodyRes
  | .opn c =>
    match s.chan? c with
    | none => (s.emit [.other "!bad-channel"], .stop)
    | some cs =>
      if cs.g.opened then (s.run1 c fun _ => .opn 0 0, .next)
      else
        let used := if cs.g.gw then 2 else 1
        ({ (s.run1 c fun _ => .opn s.next (s.next + 1)) with next := s.next + used }, .next)
  | .write c n => (s.run1 c fun _ => .write n, .next)
  | .resume c => (s.run1 c fun _ => .resume, .next)
  | .intoVec c => (s.run1 c fun _ => .intoVec, .next)
  | .writeAll c n => (s.run1 c fun _ => .writeAll n, .next)
  | .writeOne c => (s.run1 c fun _ => .writeOne, .next)
  | .read c n => (s.run1 c fun _ => .read n, .next)
  | .next c => (s.run1 c fun _ => .next, .next)
  | .collect c => (s.run1 c fun _ => .collect, .next)
  | .fut c => (s.run1 c fun _ => .fut, .next)
  | .poll c => let s' := s.run1 c .poll; (s', if s'.panicked then .stop else .next)
  | .await c =>
    let s' := s.run1 c .poll
    if s'.panicked then (s', .stop) else if s'.pending c then (s', .suspend true) else (s', .next)
  | .cancel c => let s' := s.run1 c .cancel; (s', if s'.panicked then .stop else .next)
  | .dropOp c => let s' := s.run1 c .dropOp; (s', if s'.panicked then .stop else .next)
  | .dropEnd c => let s' := s.run1 c (.close true); (s', if s'.panicked then .stop else .next)
  | .suspend => (s.emit [Ev.suspend], .suspend false)
  | .yield => ({ s with woken := true }.emit [Ev.yieldNow], .suspend false)
  | .task n =>
    match s.cur with
    | some t => ({ s with cur := some ⟨n, t.version⟩ }.emit [Ev.setTask n], .next)
    | none => (s.emit [Ev.setTaskSkip n], .next)

/-- the body's channels are dropped in order (end of the body, or the body future dropped) -/
def closeAll (s : CSys) : Nat → Nat → CSys
  | 0, _ => s
  | n + 1, c => if s.panicked then s else closeAll (s.run1 c (.close false)) n (c + 1)

def pollCBody (s : CSys) : List CInstr → CSys × Option (List CInstr)
  | [] =>
    let s' := closeAll s s.chans.length 0
    (if s'.panicked then s' else s'.emit [Ev.fin], none)
  | i :: rest =>
    match execCInstr s i with
    | (s', .next) => pollCBody s' rest
    | (s', .suspend true) => (s', some (i :: rest))
    | (s', .suspend false) => (s', some rest)
    | (s', .stop) => (s', none)

/-! ### The peer's directives -/

/-- `T<c>:<m>` (chan_host.rs `peer_transfer`) -/
def peerTransfer (s : CSys) (c m0 : Nat) : CSys :=
  match s.chans[c]? with
  | none => s
  | some (cs, m) =>
    let e := cs.h.e
    let mm := if e.fut then 1 else m0
    if cs.h.handle == 0 || cs.h.gone || m.peerDropped || e.st == .done || (e.fut && !e.writer && m.peerWrote) then
      s.emit [.ch .xfskip [c]]
    else if e.st == .copying && (decide (e.progress < e.n) || (e.n == 0 && e.pending.isNone)) then
      let k := min mm (e.n - e.progress)
      let m' := { m with peerReady := m.peerReady + (mm - k), peerWrote := m.peerWrote || (e.fut && !e.writer) }
      (s.setChan c (cs, m')).runLabel c fun _ => .peerXfer k
    else
      let m' := { m with peerReady := if e.fut then 1 else m.peerReady + mm,
                         peerWrote := m.peerWrote || (e.fut && !e.writer) }
      (s.setChan c (cs, m')).emit [.ch .pready [c, mm]]

/-- `P<c>` (chan_host.rs `peer_drop`) -/
def peerDrop (s : CSys) (c : Nat) : CSys :=
  match s.chans[c]? with
  | none => s
  | some (cs, m) =>
    let e := cs.h.e
    if cs.h.handle == 0 || cs.h.gone || m.peerDropped || (e.fut && !e.writer) || (e.fut && e.st == .done) then
      s.emit [.ch .pdskip [c]]
    else
      (s.setChan c (cs, { m with peerDropped := true, peerReady := 0 })).runLabel c fun _ => .peerDrop

/-- the task (lowest id first) whose map holds a registration for waitable `h` -/
def holderOf (regs : List (Nat × Nat)) (h : Nat) : Option Nat :=
  (regs.filter (·.2 == h)).foldl (fun acc p => match acc with
    | none => some p.1
    | some t => some (min t p.1)) none

/-- `D<c>`: deliver the pending event of channel `c`'s end; returns whether it was delivered -/
def deliverCabi (s : CSys) (c : Nat) : CSys × Bool :=
  match s.chans[c]? with
  | none => (s, false)
  | some (cs, _) =>
    if cs.h.handle != 0 && (holderOf cs.env.regs cs.h.handle).isSome && cs.h.e.pending.isSome && !cs.h.gone then
      (s.runLabel c fun _ => .deliver, true)
    else (s.emit [Ev.dlvSkip c], false)

/-- run directives until one delivers an event -/
def runCDirs (s : CSys) : List CDir → CSys × Bool × List CDir
  | [] => (s, false, [])
  | .xfer c m :: ds => runCDirs (peerTransfer s c m) ds
  | .pdrop c :: ds => runCDirs (peerDrop s c) ds
  | .dlv c :: ds =>
    match deliverCabi s c with
    | (s', true) => (s', true, ds)
    | (s', false) => runCDirs s' ds

/-- the executor loop of `run_cabi`; returns the remaining directives and whether the run was aborted
(host trap) -/
def loopCCabi : Nat → CSys → List CInstr → List CDir → CSys × List CDir × Bool
  | 0, s, _, ds => (s.emit [.other "!model-fuel"], ds, true)
  | fuel + 1, s, body, dirs =>
    match pollCBody { s with woken := false } body with
    | (s1, none) => (s1, dirs, s1.panicked)
    | (s1, some rest) =>
      if s1.trapped then (closeAll (s1.emit [Ev.abort]) s1.chans.length 0, dirs, true)
      else if s1.woken then loopCCabi fuel (s1.emit [Ev.woken]) rest dirs
      else
        match runCDirs s1 dirs with
        | (s2, true, ds) => if s2.panicked then (s2, ds, true) else loopCCabi fuel s2 rest ds
        | (s2, false, _) => (closeAll (s2.emit [Ev.taskCancel]) s2.chans.length 0, [], s2.panicked)

/-- after the body is gone: the remaining directives run while something is registered … -/
def afterBodyDirs : Nat → CSys → List CDir → CSys
  | 0, s, _ => s
  | fuel + 1, s, dirs =>
    if s.registrations == 0 || s.trapped || s.panicked then s
    else match runCDirs s dirs with
      | (s', true, ds) => afterBodyDirs fuel s' ds
      | (s', false, _) => s'

/-- … then the peer completes what is left -/
def drainPass (s : CSys) : Nat → Nat → CSys × Bool
  | 0, _ => (s, false)
  | n + 1, c =>
    match s.chans[c]? with
    | none => (s, false)
    | some (cs, _) =>
      if cs.h.handle != 0 && !cs.h.gone && (holderOf cs.env.regs cs.h.handle).isSome && !s.panicked then
        let s1 := s.emit [.ch .drain [c]]
        let s2 := if cs.h.e.pending.isNone then peerTransfer s1 c 64 else s1
        let (s3, d) := deliverCabi s2 c
        let (s4, d') := drainPass s3 n (c + 1)
        (s4, d || d')
      else drainPass s n (c + 1)

def drainAll : Nat → CSys → CSys
  | 0, s => s
  | fuel + 1, s =>
    if s.registrations == 0 || s.trapped || s.panicked then s
    else match drainPass s s.chans.length 0 with
      | (s', true) => drainAll fuel s'
      | (s', false) => s'

def CSys.init (sc : CScript) (version : Nat) : CSys :=
  { chans := sc.decls.mapIdx fun i d =>
      (⟨{ c := i, fut := d.fut, gw := d.gw, kind := d.kind, adapter := d.adapter, esize := d.esize },
        { e := { fut := d.fut, writer := d.gw } }, ⟨some ⟨1, version⟩, []⟩⟩, { cx := d.cx, esize := d.esize }),
    cur := some ⟨1, version⟩ }

/-- predicted trace of a script; `none` for the `export` mode (real executor: C22's model) -/
def CScript.predict (sc : CScript) : Option (List Ev) :=
  match sc.mode with
  | .export => none
  | .cabi v =>
    let fuel := sc.body.length + sc.dirs.length + 3
    let (s1, ds, aborted) := loopCCabi fuel (CSys.init sc v) sc.body sc.dirs
    let s2 := if aborted then s1 else drainAll (fuel + 8) (afterBodyDirs fuel s1 ds)
    let leftovers : List Ev :=
      if s2.registrations == 0 then [] else [.other s!"!registrations-left:{s2.registrations}"]
    some (s2.log ++ (if s2.panicked then [] else leftovers) ++ [.endTok (if s2.panicked then none else some 0) 0])

end Witverif.Async
