import Witverif.Async.Waitable
/-
Model of the cross-task wakeup of the Rust guest runtime (C23):
  crates/guest-rust/src/rt/async_support.rs          `SLEEP_STATE_*`, `impl Wake for SharedTaskState` (`wake_by_ref`)
  crates/guest-rust/src/rt/async_support/inter_task_wakeup.rs   `State`, `WakerState::wake`,
      `read_inter_task_stream`, `cancel_inter_task_stream_read`, `consume_waitable_event`
  crates/guest-rust/src/rt/async_support/inter_task_wakeup_disabled.rs   (feature off: panics)

The pieces are functions over the small record `Wk` (the fields of `TaskState` / `SharedTaskState`
they touch); `Task.lean` embeds `Wk` in the executor state and calls them at the program points
where the Rust code does.  Answers of the unit-stream built-ins are inputs; a Rust panic is
`Step.panic`.  Numeric constants come from `Generated/Limits.lean` (regenerated from the source).
Import-free.
-/
namespace Witverif.Async.Wakeup
open Witverif.Async Witverif.Generated

/-- `COMPLETED | (1 << 4)`: what `WakerState::wake` asserts the write returns -/
def wroteOne : Nat := Limits.completed + 1 * 16

structure Wk where
  itw : Bool                      -- feature `inter-task-wakeup`
  sleep : Nat                     -- `SharedTaskState::sleep_state`
  stream : Option (Nat × Nat)     -- (reader in `State::stream`, writer in `WakerState::lock`), created together
  reading : Bool                  -- `State::stream_reading`
deriving DecidableEq, Repr

/-- `SharedTaskState::wake_by_ref`; `ans` = what `stream.write` returns if it is called -/
def wakeByRef (k : Wk) (ans : Nat) : Step Wk :=
  -- `self.sleep_state.swap(SLEEP_STATE_WOKEN, Relaxed)`
  let prev := k.sleep
  let k1 := { k with sleep := Limits.sleepStateWoken }
  if prev = Limits.sleepStatePolling ∨ prev = Limits.sleepStateWoken then .ok k1 []
  else if prev ≠ Limits.sleepStateSleeping then .panic "assert_eq!(other, SLEEP_STATE_SLEEPING)" []
  else if !k.itw then .panic "Cannot support cross-component-model-task wakeup (feature inter-task-wakeup off)" []
  else
    -- `WakerState::wake`: `inter_task_stream.as_mut().unwrap()`, write one unit, assert it completed
    match k.stream with
    | none => .panic "WakerState::wake: unwrap on None" []
    | some (_, w) =>
      if ans = wroteOne then .ok k1 [.x .usWrite [w, ans]]
      else .panic "assert_eq!(rc, COMPLETED | (1 << 4))" [.x .usWrite [w, ans]]

/-- `cancel_inter_task_stream_read`; `ans` = what `stream.cancel-read` returns (discarded by the code).
Returns the handle that left the waitable set, if any. -/
def cancelRead (k : Wk) (ans : Nat) : Step (Wk × Option Nat) :=
  if !k.itw || !k.reading then .ok (k, none) []
  else match k.stream with
    | none => .panic "cancel_inter_task_stream_read: unwrap on None" []
    | some (r, _) =>
      -- leave the set first (a synchronous cancel traps on a member of a set), then cancel
      .ok ({ k with reading := false }, some r) [.join r 0, .x .usCancelRead [r, ans]]

/-- `State::consume_waitable_event(waitable, code)` -/
def consume (k : Wk) (waitable : Nat) : Wk × Bool :=
  if !k.itw then (k, false)
  else match k.stream with
    | some (r, _) => if r = waitable then ({ k with reading := false }, true) else (k, false)
    | none => (k, false)

/-- First half of `read_inter_task_stream` (feature on): create the stream lazily and start the read.
`r w` = the handles `stream.new` returns if it is called, `ans` = what `stream.read` returns if it
is called.  Returns the reader handle to add to the waitable set (`none`: a read was already pending). -/
def startRead (k : Wk) (r w ans : Nat) : Step (Wk × Option Nat) :=
  let mk : Step Wk :=
    match k.stream with
    | some _ => .ok k []
    | none =>
      if k.reading then .panic "assert!(!self.inter_task_wakeup.stream_reading)" []
      else .ok { k with stream := some (r, w) } [.x .usNew [r, w]]
  mk.bind fun k1 =>
    if k1.reading then .ok (k1, none) []
    else match k1.stream with
      | none => .panic "unreachable" []
      | some (r1, _) =>
        if ans = Limits.blocked then .ok ({ k1 with reading := true }, some r1) [.x .usRead [r1, ans]]
        else .panic "assert_eq!(rc, BLOCKED)" [.x .usRead [r1, ans]]

end Witverif.Async.Wakeup
