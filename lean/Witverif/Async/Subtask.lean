import Witverif.Async.Waitable
/-
Model of crates/guest-rust/src/rt/async_support/subtask.rs: `SubtaskOps` (the `WaitableOp` of an
async import call), `InProgress::flag_started`, the drop glue of `InProgress`
(`Cleanup` of the params/results area, then `SubtaskHandle::drop` = `subtask.drop`), and the
`async` block of `Subtask::call` that owns the parameters until its first poll.

Trait callbacks of the (instrumented) `Subtask` implementation appear as events:
`lower k`, `callImport k status handle`, `deallocLists k` (`params_dealloc_lists`),
`deallocListsOwn k` (`params_dealloc_lists_and_own`), `lift k` (`results_lift`), `free k` (the
area's `Cleanup` dropped), `rdrop k` (a lifted `Results` value dropped), `pdrop k` (a never-lowered
`Params` value dropped).  Import-free.
-/
namespace Witverif.Async
open Witverif.Generated

/-- what the model needs to know about a call: its index and whether `abi_layout` is non-empty -/
structure CallSpec where
  k : Nat
  area : Bool
deriving DecidableEq, Repr

/-- `InProgress<T>` -/
structure InProgress where
  spec : CallSpec
  started : Bool
  handle : Nat          -- 0 = `subtask: None`
deriving DecidableEq, Repr

/-- `Result<T::Results, ()>`; the `Results` value is identified by the call -/
inductive CallResult
  | ok (k : Nat)
  | err
deriving DecidableEq, Repr

/-- dropping a `Result<Results, ()>` -/
def CallResult.dropEvs : CallResult → List Ev
  | .ok k => [.rdrop k]
  | .err => []

/-- drop glue of `InProgress` (field order: `params_and_results: Option<Cleanup>`, …, `subtask`) -/
def InProgress.dropEvs (ip : InProgress) : List Ev :=
  (if ip.spec.area then [.free ip.spec.k] else []) ++ (if ip.handle ≠ 0 then [.subDrop ip.handle] else [])

/-- `InProgress::flag_started` -/
def InProgress.flagStarted (ip : InProgress) : Step InProgress :=
  if ip.started then .panic "assert!(!self.started)" []
  else .ok { ip with started := true } [.deallocLists ip.spec.k]

/-- `SubtaskOps::in_progress_update` -/
def subtaskUpdate (ip : InProgress) (code : Nat) : Step (CallResult ⊕ InProgress) :=
  if code = Limits.statusStarting then
    if ip.started then .panic "assert!(!state.started)" [] else .ok (.inr ip) []
  else if code = Limits.statusStarted then
    ip.flagStarted.bind fun ip' => .ok (.inr ip') []
  else if code = Limits.statusReturned then
    (if ip.started then Step.pure ip else ip.flagStarted).bind fun ip' =>
      .ok (.inl (.ok ip.spec.k)) ([.lift ip.spec.k] ++ ip'.dropEvs)
  else if code = Limits.statusStartedCancelled then
    if ip.started then .panic "assert!(!state.started)" []
    else .ok (.inl .err) ([.deallocListsOwn ip.spec.k] ++ ip.dropEvs)
  else if code = Limits.statusReturnedCancelled then
    (if ip.started then Step.pure ip else ip.flagStarted).bind fun ip' =>
      .ok (.inl .err) ip'.dropEvs
  else .panic "unknown code" []

/-- `SubtaskOps` as an `Ops` record.  `start`'s answer is the packed return value of the import. -/
def subtaskOps : Ops CallSpec InProgress CallResult CallResult where
  start spec packed :=
    let code := packed % (Limits.subtaskCodeMask + 1)          -- `packed & 0xf`
    let handle := packed / 2 ^ Limits.subtaskHandleShift         -- `packed >> 4`
    ([.lower spec.k, .callImport spec.k code handle], code, ⟨spec, false, handle⟩)
  startCancelled spec := ([.pdrop spec.k], .err)
  update := subtaskUpdate
  waitable ip := if ip.handle = 0 then none else some ip.handle
  cancel ip ans := ([.cancel ip.handle ans], ans)
  intoCancel r := r

/-- The future returned by `Subtask::call`: an `async` block that holds the parameters until its
first poll, then awaits a `WaitableOperation`. -/
inductive Fut
  | unpolled (spec : CallSpec)
  | awaiting (spec : CallSpec) (w : WOp CallSpec InProgress)
  | finished

/-- `Future::poll` of the call future -/
def Fut.poll (f : Fut) (e : Env) (ans : Nat) : Step (PollR CallResult × Fut × Env) :=
  let go (spec : CallSpec) (w : WOp CallSpec InProgress) : Step (PollR CallResult × Fut × Env) :=
    (pollComplete subtaskOps w e ans).bind fun (r, w1, e1) =>
      match r with
      | .pending => .ok (.pending, .awaiting spec w1, e1) []
      | .ready res =>
        -- the `WaitableOperation` temporary is dropped (it is `Done`: only its `task` field acts);
        -- `Err` is `unreachable!("cancellation is not exposed API-wise")`
        (dropOp subtaskOps CallResult.dropEvs w1 e1 0).bind fun e2 =>
          match res with
          | .ok _ => .ok (.ready res, .finished, e2) []
          | .err => .panic "unreachable!(cancellation is not exposed API-wise)" []
  match f with
  | .unpolled spec => go spec (WOp.new spec)
  | .awaiting spec w => go spec w
  | .finished => .panic "`async fn` resumed after completion" []

/-- dropping the call future; `ans` answers `subtask.cancel` if it gets called -/
def Fut.drop (f : Fut) (e : Env) (ans : Nat) : Step Env :=
  match f with
  | .unpolled spec => .ok e [.pdrop spec.k]
  | .awaiting _ w => dropOp subtaskOps CallResult.dropEvs w e ans
  | .finished => .ok e []

/-- delivery of an event to the operation (the executor calls the registered `cabi_wake`) -/
def Fut.wake (f : Fut) (code : Nat) : Step Fut :=
  match f with
  | .awaiting spec w => (cabiWake w code).bind fun w' => .ok (.awaiting spec w') []
  | _ => .panic "delivery to an operation that is not waiting" []


/-! ## One call and its environment as a labelled transition system

The three things that can happen to an import call's future: the task body polls it (`packed` =
what the async-lowered import returns if this poll makes the call), the executor delivers an event
for its subtask (`code`), or it is dropped (`ans` = what `subtask.cancel` returns if the drop has to
cancel).  This is the system the C21 theorems quantify over; the script interpreter performs the
same three steps on the same functions. -/

structure CallSys where
  fut : Fut
  env : Env

inductive Label
  | poll (packed : Nat)
  | deliver (code : Nat)
  | drop (ans : Nat)
deriving DecidableEq, Repr

/-- the subtask handle the future is waiting on (0 = none) -/
def Fut.handle : Fut → Nat
  | .awaiting _ w => match w.state with
    | .inProgress ip => ip.handle
    | _ => 0
  | _ => 0

def CallSys.step (c : CallSys) : Label → Step CallSys
  | .poll packed =>
    (c.fut.poll c.env packed).bind fun (r, f, e) =>
      match r with
      | .pending => .ok ⟨f, e⟩ []
      | .ready res => .ok ⟨f, e⟩ res.dropEvs          -- the caller drops the result value
  | .deliver code =>
    -- the executor takes the registration out of its map and calls the callback
    match c.env.cur with
    | none => .panic "no current task" []
    | some t =>
      let h := c.fut.handle
      if c.env.regs.contains (t.ptr, h) then
        (Step.emit [.dlv h code]).bind fun _ =>
          (c.fut.wake code).bind fun f =>
            .ok ⟨f, { c.env with regs := c.env.regs.filter (· != (t.ptr, h)) }⟩ []
      else .panic "delivery without a registration" []
  | .drop ans =>
    (c.fut.drop c.env ans).bind fun e => .ok ⟨.finished, e⟩ []

def CallSys.init (spec : CallSpec) (task : CurTask) : CallSys := ⟨.unpolled spec, ⟨some task, []⟩⟩

end Witverif.Async
