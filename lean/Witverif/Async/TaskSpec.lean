import Witverif.Async.Host
/-
Specification side of C22 (export task executor) and C23 (cross-task wakeups), independent of the
models `Task.lean` / `Wakeup.lean` / `ExecScript.lean`: the properties as ONE monitor over a trace of
harness/rt-native engine `exec`.  It reads only what an outside observer sees: which task's callback
runs (`T<i>`), the event it got (`ev(...)`), what it answered (`cb=…`), context-slot built-ins,
waitable-set built-ins, the unit-stream built-ins, when a Rust future is polled / finishes / is dropped
(`in<j>`, `fin<j>`, `bdrop<j>`, `sp<j>`), wakes (`y`, `wk<n>`, `gwk<n>`, `hwk<n>`, `autowk<n>` with the
slot → task map from `cap<n>`), `task.return` / `task.cancel`.  The driver evaluates it on the
IMPLEMENTATION's traces; `Props/C22.lean` / `Props/C23.lean` prove the corresponding statements of the
executor model for all behaviours.

Violation classes ↔ clauses
 C22 exit_iff_no_work            exit-with-rust-work, exit-with-registered-waitable, no-exit-without-work, cancel-not-exit
     wait_on_own_set             wait-foreign-set, wait-nothing-pending, second-waitable-set, join-foreign-set
     yield_only_if_woken…        yield-not-woken, yield-without-work
     context_slot_discipline     ctx-sequence (slot not cleared at entry / not restored before WAIT|YIELD / touched
                                 during the callback / restored before EXIT), ctx-in-block-on
     spawned_finish_before_exit  exit-with-rust-work (spawned bodies count as Rust work)
     task_dropped_once           body-ended-twice, body-dropped-without-cancel, task-state-not-dropped, poll-after-exit,
                                 task-cancel-illegal, task-cancel-missing, task-return-twice
     callback_code_encoding      anomaly:!cb-unknown…, wait-foreign-set (a mis-shifted set id names a foreign set)
 C23 sleeping_wake_polls_again   wake-lost (no item written for a wake of a sleeping task), wake-during-poll-lost
     one_item_per_sleep          wakeup-written-twice, wakeup-write-failed, wakeup-write-unexpected, wakeup-read-not-blocked
     wakes_coalesced             wakeup-not-coalesced
     read_cancelled_…            wakeup-read-pending-at-poll, wakeup-read-pending-at-drop, cancel-read-in-set
     wake_after_exit_is_noop     wake-after-exit-not-noop, panic:wake-after-cancelled-sleep
 plus: anomaly:<token> (ledger / host traps), panic[:<suspect>], leak, alloc-errors, host:<rule> (illegal recorded answer).
Import-free (apart from model-free `Host` constants).
-/
namespace Witverif.Async.TaskSpec
open Witverif.Async

def BLOCKED : Nat := 4294967295
def WROTE_ONE : Nat := 16

structure TM where
  id : Nat
  exited : Bool := false
  cancelled : Bool := false          -- EVENT_CANCEL was delivered
  last : Option CbCode := none
  set : Option Nat := none
  hadSet : Bool := false
  members : List Nat := []           -- waitables joined to `set`
  stream : Option (Nat × Nat) := none
  readPending : Bool := false        -- a wake-up read was started and not yet consumed / cancelled
  written : Bool := false            -- an item was written since that read started
  bodies : List Nat := []            -- Rust futures of this task that are started and not over
  returned : Bool := false
  tcancels : Nat := 0
  rootDroppedUnreturned : Bool := false
  wokeInRound : Bool := false
  polledInRound : Bool := false
  wokenSinceSleep : Bool := false
  sleptAtCancel : Bool := false      -- the task was asleep when EVENT_CANCEL arrived
deriving Repr

structure Mon where
  itw : Bool
  spawn : Bool
  block : Bool
  tasks : List TM := []
  cur : Option Nat := none           -- the task whose callback is running
  ev0 : Nat := 0
  isStart : Bool := false
  ctxToks : List (Bool × Bool) := [] -- (isSet, nonnull) seen in the running callback
  seenIn : Bool := false
  lastTok : Option Ev := none
  slot : List (Nat × Nat) := []      -- waker slot ↦ task
  bodyTask : List (Nat × Nat) := []
  ended : List Nat := []
  expectWrite : Option Nat := none   -- the next token must be `us.write(w)=16`
  expectNoop : Option Nat := none    -- the next token must not be a `us.write` (wake of task i had to be a no-op)
  suspect : Option String := none
  frozen : Bool := false             -- a panic started: what follows is unwinding, not judged
  bad : List String := []

def Mon.flag (m : Mon) (c : String) : Mon := { m with bad := m.bad ++ [c] }

def Mon.get (m : Mon) (i : Nat) : TM := (m.tasks.find? (·.id == i)).getD { id := i }
def Mon.put (m : Mon) (t : TM) : Mon :=
  if m.tasks.any (·.id == t.id) then { m with tasks := m.tasks.map fun x => if x.id == t.id then t else x }
  else { m with tasks := m.tasks ++ [t] }
def Mon.upd (m : Mon) (i : Nat) (f : TM → TM) : Mon := m.put (f (m.get i))
def Mon.updAll (m : Mon) (f : TM → TM) : Mon := { m with tasks := m.tasks.map f }

def ins (l : List Nat) (x : Nat) : List Nat := if l.contains x then l else l ++ [x]

def TM.reader (t : TM) : Option Nat := t.stream.map Prod.fst
def TM.writer (t : TM) : Option Nat := t.stream.map Prod.snd
def lookup (l : List (Nat × Nat)) (k : Nat) : Option Nat := (l.find? fun p => p.1 == k).map Prod.snd
def without (l : List (Nat × Nat)) (k : Nat) : List (Nat × Nat) := l.filter fun p => p.1 != k

/-- is task `t` asleep waiting for a wake (answered WAIT with unfinished Rust futures, not woken since)? -/
def TM.sleeping (t : TM) : Bool :=
  (match t.last with | some (.wait _) => true | _ => false) && !t.bodies.isEmpty && !t.wokenSinceSleep

/-- a wake of task `i`'s waker was observed -/
def Mon.wake (m : Mon) (i : Nat) (viaSlot : Bool) : Mon :=
  let t := m.get i
  -- async-spawn: a captured waker is a `FuturesUnordered` task waker; whether it reaches the task's own
  -- waker depends on that future's queue state, which a trace does not show — only `y` is judged
  if m.spawn && viaSlot then
    (if m.block && m.cur == some i && !t.hadSet && m.suspect.isNone then { m with suspect := some "block-on-yield-without-waitable-set" } else m)
  else
  if m.cur == some i then
    -- during its own callback: a no-op on the stream; counts for YIELD unless the task is being destroyed
    let m1 := m.upd i fun t => { t with wokeInRound := true }
    let m2 := if t.cancelled && t.sleptAtCancel then { m1 with suspect := some "wake-after-cancelled-sleep" } else m1
    -- `block_on` answers a YIELD by polling the task's waitable set: is there one?
    let m2 := if m.block && !t.hadSet && m2.suspect.isNone then { m2 with suspect := some "block-on-yield-without-waitable-set" } else m2
    if m.itw then { m2 with expectNoop := some i } else m2
  else if t.exited then
    let m1 := if t.cancelled && t.sleptAtCancel then { m with suspect := some "wake-after-cancelled-sleep" } else m
    if m.itw then { m1 with expectNoop := some i } else m1
  else if t.sleeping then
    if m.itw then
      match t.stream with
      | some (_, w) => { m.upd i fun t => { t with wokenSinceSleep := true } with expectWrite := some w }
      | none => m.flag "wake-lost"
    else m           -- documented: cross-task wake needs the feature (panics)
  else if m.itw then { m with expectNoop := some i } else m

/-- expectations set by the previous token -/
def Mon.checkExpect (m : Mon) (e : Ev) : Mon :=
  let m1 := match m.expectWrite with
    | none => m
    | some w =>
      match e with
      | .x .usWrite [w', c] =>
        if w' = w then (if c = WROTE_ONE then m else m.flag "wakeup-write-failed") else m.flag "wake-lost"
      | _ => m.flag "wake-lost"
  let m2 := match m.expectNoop with
    | none => m1
    | some i =>
      match e with
      | .x .usWrite _ =>
        let t := m1.get i
        if t.exited || t.cancelled then m1.flag "wake-after-exit-not-noop" else m1.flag "wakeup-not-coalesced"
      | _ => m1
  { m2 with expectWrite := none, expectNoop := none }

/-- the context-slot tokens a callback must produce, in order -/
def expectedCtx (isStart exit : Bool) : List (Bool × Bool) :=
  (if isStart then [(false, false), (true, true)] else []) ++ [(false, true), (true, false)] ++
  (if exit then [] else [(true, true)])

/-- a callback of task `i` answered `code` -/
def Mon.answered (m : Mon) (i : Nat) (code : CbCode) : Mon :=
  let t := m.get i
  let m := if m.block then m else
    if m.ctxToks != expectedCtx m.isStart (code == .exit) then m.flag "ctx-sequence"
    else if code != .exit && m.lastTok != some (.ctxSet true) then m.flag "ctx-sequence"
    else m
  let m := match code with
    | .exit =>
      let m := if m.ev0 != Host.EVENT_CANCEL && !t.bodies.isEmpty then m.flag "exit-with-rust-work" else m
      -- (a cancelled task may leave waitables registered through the C ABI by code that outlives it)
      let m := if m.ev0 != Host.EVENT_CANCEL && !t.members.isEmpty then m.flag "exit-with-registered-waitable" else m
      let m := if m.ev0 == Host.EVENT_CANCEL && !t.bodies.isEmpty then m.flag "task-state-not-dropped" else m
      let m := if t.rootDroppedUnreturned && t.tcancels == 0 then m.flag "task-cancel-missing" else m
      m
    | .wait s =>
      let m := if m.ev0 == Host.EVENT_CANCEL then m.flag "cancel-not-exit" else m
      let m := if t.set != some s then m.flag "wait-foreign-set" else m
      let m := if t.members.isEmpty then m.flag "wait-nothing-pending" else m
      let m := if t.bodies.isEmpty && t.members.isEmpty then m.flag "no-exit-without-work" else m
      let m := if t.wokeInRound && !t.bodies.isEmpty then m.flag "wake-during-poll-lost" else m
      m
    | .yield =>
      let m := if m.ev0 == Host.EVENT_CANCEL then m.flag "cancel-not-exit" else m
      let m := if t.bodies.isEmpty then m.flag "yield-without-work" else m
      let m := if !(t.wokeInRound || (m.spawn && t.polledInRound)) then m.flag "yield-not-woken" else m
      m
  let m := m.upd i fun t => { t with last := some code, exited := code == .exit, wokenSinceSleep := false }
  { m with cur := none }

def Mon.beginCb (m : Mon) (i : Nat) (e : Nat) (isStart : Bool) : Mon :=
  let m := m.upd i fun t => { t with wokeInRound := false, polledInRound := false,
                                     sleptAtCancel := if e == Host.EVENT_CANCEL && !t.cancelled then t.sleeping else t.sleptAtCancel,
                                     cancelled := t.cancelled || e == Host.EVENT_CANCEL }
  { m with cur := some i, ev0 := e, isStart := isStart, ctxToks := [], seenIn := false }

def Mon.step (m : Mon) (e : Ev) : Mon :=
  if m.frozen then m else
  -- the suspicion that a wake hit a task cancelled while asleep is about what that very wake does: it lasts
  -- only over the wake's own built-in call (`us.write`) to the start of a panic, not over later, unrelated tokens
  let m := if m.suspect == some "wake-after-cancelled-sleep" then
      (match e with
        | .x .usWrite _ | .x .panicAt _ => m
        | _ => { m with suspect := none })
    else m
  let m := m.checkExpect e
  let m := match e with
    | .x .curTask [i] => { m.put (m.get i) with cur := some i }
    | .evStart =>
      match m.cur with
      | some i => m.beginCb i 0 true
      | none => m.flag "malformed:ev-without-task"
    | .evCb ev w _ =>
      match m.cur with
      | some i =>
        let t := m.get i
        let m := if t.exited then m.flag "callback-after-exit" else m
        let m := if ev != 0 && ev != Host.EVENT_CANCEL then
            m.upd i fun t => if t.reader == some w then { t with readPending := false } else t
          else m
        m.beginCb i ev false
      | none => m.flag "malformed:ev-without-task"
    | .x .blockStart [] => (m.put { id := 1 }).beginCb 1 0 false
    | .x .blockEnd [] =>
      let t := m.get 1
      let m := if !t.bodies.isEmpty then m.flag "exit-with-rust-work" else m
      let m := if !t.members.isEmpty then m.flag "exit-with-registered-waitable" else m
      { m.upd 1 fun t => { t with exited := true, last := some .exit } with cur := none }
    | .ctxGet b => if m.block then m.flag "ctx-in-block-on" else { m with ctxToks := m.ctxToks ++ [(false, b)] }
    | .ctxSet b =>
      if m.block then m.flag "ctx-in-block-on"
      else
        let m := { m with ctxToks := m.ctxToks ++ [(true, b)] }
        -- after the entry sequence the slot may only be written once more, at the very end
        m
    | .cb code =>
      match m.cur with
      | some i => m.answered i code
      | none => m.flag "malformed:cb-without-task"
    | .x .bodyIn [j] =>
      match m.cur with
      | none => m.flag "poll-outside-callback"
      | some i =>
        let m := if !m.block && !m.seenIn && m.ctxToks != expectedCtx m.isStart true then m.flag "ctx-sequence" else m
        -- a new poll: an earlier YIELD was survived; in the async-spawn build every poll that ends `Pending` makes
        -- `FuturesUnordered` wake the task (YIELD), so the risk exists again at once
        let risk := m.block && m.spawn && !(m.get i).hadSet
        let m := { m with seenIn := true,
                          suspect := if m.suspect == some "block-on-yield-without-waitable-set" || m.suspect.isNone then
                                       (if risk then some "block-on-yield-without-waitable-set" else none) else m.suspect }
        let owner := lookup m.bodyTask j
        let m := if owner.isNone then { m with bodyTask := m.bodyTask ++ [(j, i)] } else m
        let ti := owner.getD i
        -- `block_on` without a waitable set: a YIELD is answered by polling again at once, no token marks the
        -- new callback — a poll that starts while no set exists starts a new round
        let m := if m.block && !(m.get ti).hadSet then m.upd ti fun t => { t with wokeInRound := false, polledInRound := false } else m
        let t := m.get ti
        let m := if t.exited then m.flag "poll-after-exit" else m
        let m := if m.ended.contains j then m.flag "poll-after-exit" else m
        let m := if t.readPending then m.flag "wakeup-read-pending-at-poll" else m
        m.upd ti fun t => { t with bodies := if m.ended.contains j then t.bodies else ins t.bodies j, polledInRound := true }
    | .x .spawn [j] =>
      match m.cur with
      | some i => { m.upd i fun t => { t with bodies := ins t.bodies j } with bodyTask := m.bodyTask ++ [(j, i)] }
      | none => m.flag "spawn-outside-callback"
    | .x .bodyFin [j] | .x .bodyDrop [j] =>
      let isDrop := match e with | .x .bodyDrop _ => true | _ => false
      let ti := (lookup m.bodyTask j).getD (m.cur.getD 0)
      let t := m.get ti
      let m := if m.ended.contains j then m.flag "body-ended-twice" else m
      let m := if isDrop && !t.cancelled && !m.block then m.flag "body-dropped-without-cancel" else m
      let m := if isDrop && t.readPending then m.flag "wakeup-read-pending-at-drop" else m
      let isRoot := ((m.bodyTask.filter fun (p : Nat × Nat) => p.2 == ti).head?.map Prod.fst) == some j
      let m := m.upd ti fun t => { t with bodies := t.bodies.erase j,
                                          rootDroppedUnreturned := t.rootDroppedUnreturned || (isDrop && isRoot && !t.returned && !m.block) }
      { m with ended := m.ended ++ [j] }
    | .x .taskReturn [] =>
      match m.cur with
      | some i =>
        let t := m.get i
        let m := if t.returned || t.tcancels != 0 then m.flag "task-return-twice" else m
        m.upd i fun t => { t with returned := true }
      | none => m.flag "task-return-outside-callback"
    | .x .taskCancel [] =>
      match m.cur with
      | some i =>
        let t := m.get i
        let m := if !t.cancelled || t.returned || t.tcancels != 0 then m.flag "task-cancel-illegal" else m
        m.upd i fun t => { t with tcancels := t.tcancels + 1 }
      | none => m.flag "task-cancel-illegal"
    | .x .cap [n] =>
      match m.cur with
      | some i => { m with slot := (without m.slot n) ++ [(n, i)] }
      | none => m
    | .x .wdrop [n] | .x .hwdrop [n] | .x .wend [n] | .x .autoDrop [n] => { m with slot := without m.slot n }
    | .x .wk [n] | .x .gwk [n] | .x .hwk [n] | .x .autoWk [n] =>
      match lookup m.slot n with
      | some i => m.wake i true
      | none => m
    | .yieldNow =>
      match m.cur with
      | some i =>
        m.wake i false
      | none => m
    | .x .usNew [r, w] =>
      match m.cur with
      | some i =>
        let t := m.get i
        let m := if t.stream.isSome then m.flag "wakeup-stream-twice" else m
        m.upd i fun t => { t with stream := some (r, w) }
      | none => m.flag "wakeup-stream-outside-callback"
    | .x .usRead [r, c] =>
      let m := if c != BLOCKED then m.flag "wakeup-read-not-blocked" else m
      m.updAll fun t => if t.reader == some r then { t with readPending := true, written := false } else t
    | .x .usWrite [w, c] =>
      match m.tasks.find? fun (t : TM) => t.writer == some w with
      | none => m.flag "wakeup-write-unexpected"
      | some t =>
        let m := if c == WROTE_ONE && t.written then m.flag "wakeup-written-twice" else m
        let m := if c != WROTE_ONE then m.flag "wakeup-write-failed" else m
        let m := if c == WROTE_ONE && !t.readPending then m.flag "wakeup-write-unexpected" else m
        m.upd t.id fun t => { t with written := true }
    | .x .usCancelRead [r, _] =>
      match m.tasks.find? fun (t : TM) => t.reader == some r with
      | none => m.flag "wakeup-cancel-unexpected"
      | some t =>
        let m := if t.members.contains r then m.flag "cancel-read-in-set" else m
        let m := if !t.readPending then m.flag "wakeup-cancel-unexpected" else m
        m.upd t.id fun t => { t with readPending := false }
    | .x .usDropR [r] =>
      match m.tasks.find? fun (t : TM) => t.reader == some r with
      | none => m
      | some t =>
        let m := if t.readPending then m.flag "wakeup-read-pending-at-drop" else m
        m.upd t.id fun t => { t with members := t.members.erase r }
    | .join w s =>
      if s = 0 then m.updAll fun t => { t with members := t.members.erase w }
      else
        match m.tasks.find? fun (t : TM) => t.set == some s with
        | none => m.flag "join-foreign-set"
        | some t => (m.updAll fun x => { x with members := x.members.erase w }).upd t.id fun t => { t with members := ins (t.members.erase w) w }
    | .setNew s =>
      match m.cur with
      | some i =>
        let t := m.get i
        let m := if t.hadSet then m.flag "second-waitable-set" else m
        m.upd i fun t => { t with set := some s, hadSet := true }
      | none => m.flag "set-new-outside-callback"
    | .setDrop s =>
      match m.tasks.find? fun (t : TM) => t.set == some s with
      | none => m
      | some t =>
        let m := if !t.members.isEmpty then m.flag "set-dropped-nonempty" else m
        m.upd t.id fun t => { t with set := none }
    | .setPoll _ ev w _ =>
      if ev = 0 then
        -- `block_on`: after a NONE poll (the loop's, answering YIELD, or block_on's own) a new round starts
        if m.block then m.upd 1 fun t => { t with wokeInRound := false, polledInRound := false } else m
      else
        -- an event taken by the loop: the round is over, the event's waitable (maybe the wake-up read) is consumed
        m.updAll fun t =>
          let t := if t.reader == some w then { t with readPending := false } else t
          if some t.id == m.cur then { t with wokeInRound := false, polledInRound := false } else t
    | .setWait s ev w _ =>
      -- `block_on` after WAIT: the checks of a WAIT answer, then a new callback with that event
      let t := m.get 1
      let m := if t.set != some s then m.flag "wait-foreign-set" else m
      let m := if t.members.isEmpty then m.flag "wait-nothing-pending" else m
      let m := if t.wokeInRound && !t.bodies.isEmpty then m.flag "wake-during-poll-lost" else m
      let m := m.upd 1 fun t => { t with last := some (.wait s) }
      let m := m.upd 1 fun t => if t.reader == some w && ev != 0 then { t with readPending := false } else t
      (m.upd 1 fun t => { t with wokenSinceSleep := false }).beginCb 1 ev false
    | .subDrop h => m.updAll fun t => { t with members := t.members.erase h }
    | .x .panicAt [] =>
      { (match m.suspect with
          | some sus => m.flag ("panic:" ++ sus)
          | none => m.flag "panic") with frozen := true }
    | .panic =>
      match m.suspect with
      | some sus => m.flag ("panic:" ++ sus)
      | none => m.flag "panic"
    | .other tok => m.flag ("anomaly:" ++ tok)
    | _ => m
  { m with lastTok := some e }

/-- `block_on`: between a WAIT answer and the wait built-in the task is asleep; wakes that happen inside
the built-in (host directives) must write.  The block driver has no `cb` tokens: the first token only the
directive loop inside the wait built-in can produce marks the end of the callback. -/
def Mon.blockSleep (m : Mon) (e : Ev) : Mon :=
  if !m.block then m else
  match e with
  | .adv _ _ | .advSkip _ | .dlvSkip _ | .x .dlvEndSkip _ | .x .hwk _ | .x .hwkNone _ | .x .hwdrop _ | .x .hwdropNone _
  | .x .auto _ | .x .autoWk _ | .x .startSkip _ | .x .cancelTaskSkip _ | .x .deadlock _ =>
    if m.cur.isSome then { m.upd 1 fun t => { t with last := some (.wait (t.set.getD 0)), wokenSinceSleep := false } with cur := none }
    else m
  | _ => m

def run (m : Mon) : List Ev → Mon
  | [] => m
  | e :: es => run ((m.blockSleep e).step e) es

/-- `Host.follow` (legality of the recorded subtask answers); `waitable.join` of handles that are not
subtasks (stream ends) is not its business -/
def followX (evs : List Ev) : List String :=
  (evs.foldl (fun (f : Host.Follow) e =>
    match e with
    | .join w _ => if (f.get w).isNone then f else Host.followStep f e
    | _ => Host.followStep f e) ⟨[], fun _ => 0, []⟩).bad

/-- end of the trace -/
def complete (m : Mon) (panicked : Bool) : List String :=
  if panicked then [] else
  m.tasks.flatMap fun t =>
    (if t.exited && !t.bodies.isEmpty then [s!"task-state-not-dropped@t{t.id}"] else []) ++
    (if !t.exited then [s!"task-never-exited@t{t.id}"] else [])

def dedup (l : List String) : List String := l.foldl (fun acc x => if acc.contains x then acc else acc ++ [x]) []

def verdict (itw spawn block : Bool) (impl : List Ev) : List String :=
  let m := run { itw, spawn, block } impl
  let panicked := impl.any fun e => e == .panic || e == .abort || e == .x .panicAt []
  let host := (followX impl).map fun r => s!"host:{r}"
  let endTok := match impl.getLast? with
    | some (.endTok (some l) errs) => (if l != 0 then [s!"leak:{l}"] else []) ++ (if errs != 0 then [s!"alloc-errors:{errs}"] else [])
    | some (.endTok none errs) => if errs != 0 then [s!"alloc-errors:{errs}"] else []
    | _ => ["malformed-end"]
  dedup (m.bad ++ complete m panicked ++ host ++ endTok)

end Witverif.Async.TaskSpec
