import Witverif.Async.Subtask
import Witverif.Async.WaitableSys
/-
Refinement replay: the PROVED step functions driven along an observed trace.

`Props/C21.lean` is about `CallSys.step`, `Props/C18.lean` about `GSys.step`.  The script interpreter
(`Script.lean`) is built from the same `Fut.poll` / `Fut.drop` / `Fut.wake`, but it is a different
function.  This file closes that gap on the trace level: for every call `k` of a script run in a
harness-executor mode (cabi1/cabi2) the implementation's trace is cut into the steps that concern `k`
— a poll (the runtime events before `P<k>=…`, plus the `rdrop<k>` after a ready poll), a delivery
(`dlv(h,c)`), a drop (the runtime events after `drop<k>` / `edrop<k>`) — the label is read off the
trace (the import's packed return value, the delivered code, `subtask.cancel`'s answer, the current
task), `CallSys.step` resp. `GSys.step subtaskOps` is applied, and the events it returns must be
EXACTLY the events of that step in the implementation's trace.  A divergence is reported with the
index of the token where it was noticed.  Import-free (apart from the definitions of `GSys`).
-/
namespace Witverif.Async.Refine
open Witverif.Async

/-- script/host-level tokens: they delimit the runtime's steps in a trace -/
def isBoundary : Ev → Bool
  | .newCall _ | .newSkip _ | .poll _ _ | .dropF _ | .dropNone _ | .edrop _ | .suspend | .yieldNow | .fin
  | .taskCancel | .woken | .abort | .panic | .setTask _ | .setTaskSkip _ | .adv _ _ | .advSkip _ | .dlv _ _
  | .dlvSkip _ | .endTok _ _ | .other _ => true
  | _ => false

/-- the packed return value of the import if this chunk made the call, else 0 -/
def packedOf (k : Nat) (buf : List Ev) : Nat :=
  match buf.find? (fun e => match e with | .callImport j _ _ => j == k | _ => false) with
  | some (.callImport _ st h) => st + h * 16
  | _ => 0

/-- `subtask.cancel`'s answer if this chunk called it, else 0 -/
def cancelAnsOf (buf : List Ev) : Nat :=
  match buf.find? (fun e => match e with | .cancel _ _ => true | _ => false) with
  | some (.cancel _ r) => r
  | _ => 0

/-- is this runtime event about call `k` / its subtask handle `h`? -/
def mentions (k h : Nat) : Ev → Bool
  | .lower j | .deallocLists j | .deallocListsOwn j | .lift j | .free j | .rdrop j | .pdrop j => j == k
  | .callImport j _ _ => j == k
  | .cancel x _ | .subDrop x | .reg _ x _ | .unreg _ x _ => h != 0 && x == h
  | _ => false

/-- The events of a poll step are the END of the chunk before `P<k>=…` (another call's drop step may
precede them without a script-level token in between); what is in front must not be about `k`. -/
def splitPollChunk (k h : Nat) (buf : List Ev) (n : Nat) : Option (List Ev) :=
  if n > buf.length then none else
  let front := buf.take (buf.length - n)
  if front.any (mentions k h) then none else some (buf.drop (buf.length - n))

inductive Pending
  | none
  | readyTail (tail : List Ev)      -- after `P<k>=ready`: these events must come next (the result's drop)

/-! ## `CallSys.step` (C21) -/

structure CState where
  sys : Option CallSys := none
  cur : Nat := 1
  buf : List Ev := []
  pend : Pending := .none
  bad : Option String := none

/-- the runtime events that follow a marker, up to the next script-level token -/
def chunkAfter (es : List Ev) : List Ev := es.takeWhile (fun e => !isBoundary e)

/-- A drop step: the marker `drop<k>` / `edrop<k>` comes first, the step's events follow it directly
(the next instruction's events may follow those without a script-level token in between, so the
model says how many events belong to the step).  Returns the new system and the number of events
consumed, or the divergence. -/
def cDrop (k v : Nat) (s : CState) (es : List Ev) : Except String (CState × Nat) :=
  match s.sys with
  | none => .ok (s, 0)
  | some c =>
    let c := { c with env := { c.env with cur := some ⟨s.cur, v⟩ } }
    match c.step (.drop (cancelAnsOf (chunkAfter es))) with
    | .ok c' evs =>
      if es.take evs.length == evs then .ok ({ s with sys := some c' }, evs.length)
      else .error s!"drop{k}: step gives [{showTrace evs}], trace continues [{showTrace (es.take (evs.length + 1))}]"
    | .panic m evs => .error s!"drop{k}: model panics ({m}) after [{showTrace evs}]"

def cStep (spec : CallSpec) (v : Nat) (s : CState) (e : Ev) : CState :=
  if s.bad.isSome then s else
  let k := spec.k
  -- a ready poll's tail (the caller drops the result) directly follows the `P<k>=ready` token
  match s.pend with
  | .readyTail (t :: ts) =>
    if e == t then { s with pend := if ts.isEmpty then .none else .readyTail ts }
    else { s with bad := some s!"after P{k}=ready: expected {t.toTok}, trace has {e.toTok}" }
  | _ =>
  if !isBoundary e then
    -- another call's result value dropped by the caller right after its `P<j>=ready`
    (match e with
      | .rdrop j => if j ≠ k && s.buf.isEmpty then s else { s with buf := s.buf ++ [e] }
      | _ => { s with buf := s.buf ++ [e] })
  else
  let s' : CState :=
    match e with
    | .setTask n => { s with cur := n }
    | .newCall j => if j = k then { s with sys := some (CallSys.init spec ⟨s.cur, v⟩) } else s
    | .poll j out =>
      if j ≠ k then s else
      match out, s.sys with
      | .none, _ => s
      | _, none => { s with bad := some s!"P{k} without a live future" }
      | _, some c =>
        let c := { c with env := { c.env with cur := some ⟨s.cur, v⟩ } }
        match c.step (.poll (packedOf k s.buf)) with
        | .panic m evs => { s with bad := some s!"P{k}: model panics ({m}) after [{showTrace evs}]" }
        | .ok c' evs =>
          -- for a ready poll the step's last events (the caller dropping the result) follow the token
          let tail := match out with | .ready => (evs.reverse.takeWhile (fun e => e == .rdrop k)).reverse | _ => []
          let body := evs.take (evs.length - tail.length)
          let h := max c.fut.handle c'.fut.handle
          match splitPollChunk k h s.buf body.length with
          | none => { s with bad := some s!"P{k}: step gives [{showTrace evs}], trace has [{showTrace s.buf}]" }
          | some got =>
            if got != body then { s with bad := some s!"P{k}: step gives [{showTrace evs}], trace has [{showTrace s.buf}]" }
            else { s with sys := some c', pend := if tail.isEmpty then .none else .readyTail tail }
    | .dlv h code =>
      match s.sys with
      | some c =>
        if c.fut.handle = h ∧ h ≠ 0 then
          -- the registration may sit in the other task's map: deliver through the task that holds it
          let holder := (c.env.regs.filter (·.2 == h)).foldl (fun acc p => min acc p.1) ((c.env.regs.filter (·.2 == h)).headD (s.cur, h)).1
          let c1 := { c with env := { c.env with cur := some ⟨holder, v⟩ } }
          match c1.step (.deliver code) with
          | .ok c' evs => if evs == [e] then { s with sys := some c' } else { s with bad := some s!"dlv: step gives [{showTrace evs}]" }
          | .panic m _ => { s with sys := none, bad := if m == "cabi_wake: waker.take().unwrap() on None" then none else some s!"dlv({h},{code}): model panics ({m})" }
        else s
      | none => s
    | _ => s
  { s' with buf := [] }

/-- replay call `spec.k`; `none` = the trace is a run of `CallSys.step`, `some (i, why)` = divergence at token `i` -/
def replayCall (spec : CallSpec) (v : Nat) (tr : List Ev) : Option (Nat × String) :=
  let rec go (fuel : Nat) (s : CState) (i : Nat) (l : List Ev) : Option (Nat × String) :=
    match fuel, l with
    | 0, _ => none
    | _, [] => none
    | fuel + 1, e :: es =>
      if e == .panic || e == .abort then none else        -- the run stops here (unwinding is not modelled)
      if e == .dropF spec.k || e == .edrop spec.k then
        match cDrop spec.k v { s with buf := [] } es with
        | .error w => some (i, w)
        | .ok (s', n) => go fuel s' (i + 1 + n) (es.drop n)
      else
      let s' := cStep spec v s e
      match s'.bad with
      | some w => some (i, w)
      | none => go fuel s' (i + 1) es
  go (tr.length + 1) {} 0 tr

/-! ## `GSys.step subtaskOps` (C18) -/

structure GState where
  sys : Option (GSys CallSpec InProgress) := none
  cur : Nat := 1
  buf : List Ev := []
  pend : Pending := .none
  bad : Option String := none

def gStepOf (v : Nat) (g : GSys CallSpec InProgress) (l : GLabel) : Step (GSys CallSpec InProgress) :=
  g.step subtaskOps CallResult.dropEvs v l

def gDrop (k v : Nat) (s : GState) (es : List Ev) : Except String (GState × Nat) :=
  match s.sys with
  | none => .ok (s, 0)
  | some g =>
    match gStepOf v g (.drop s.cur (cancelAnsOf (chunkAfter es))) with
    | .ok g' evs =>
      if es.take evs.length == evs then .ok ({ s with sys := some g' }, evs.length)
      else .error s!"drop{k}: step gives [{showTrace evs}], trace continues [{showTrace (es.take (evs.length + 1))}]"
    | .panic m evs => .error s!"drop{k}: model panics ({m}) after [{showTrace evs}]"

def gStep (spec : CallSpec) (v : Nat) (s : GState) (e : Ev) : GState :=
  if s.bad.isSome then s else
  let k := spec.k
  if !isBoundary e then
    -- the caller's drop of the result value is outside the `WaitableOperation`
    (match e with
      | .rdrop _ => if s.buf.isEmpty then s else { s with buf := s.buf ++ [e] }
      | _ => { s with buf := s.buf ++ [e] })
  else
  let s' : GState :=
    match e with
    | .setTask n => { s with cur := n }
    | .newCall j => if j = k then { s with sys := some ⟨WOp.new spec, [], false⟩ } else s
    | .poll j out =>
      if j ≠ k then s else
      match out, s.sys with
      | .none, _ => s
      | _, none => { s with bad := some s!"P{k} without a live operation" }
      | _, some g =>
        match gStepOf v g (.poll s.cur (packedOf k s.buf)) with
        | .panic m evs => { s with bad := some s!"P{k}: model panics ({m}) after [{showTrace evs}]" }
        | .ok g' evs =>
          match out with
          | .pend =>
            let h := (g'.waitable subtaskOps).getD 0
            if splitPollChunk k h s.buf evs.length == some evs then { s with sys := some g' }
            else { s with bad := some s!"P{k}=pend: step gives [{showTrace evs}], trace has [{showTrace s.buf}]" }
          | _ =>
            -- completion: the `async` block drops the (done) operation at once
            match gStepOf v g' (.drop s.cur 0) with
            | .ok g'' evs2 =>
              let h := (g.waitable subtaskOps).getD 0
              if splitPollChunk k h s.buf (evs ++ evs2).length == some (evs ++ evs2) then { s with sys := some g'' }
                              else { s with bad := some s!"P{k}=ready: steps give [{showTrace (evs ++ evs2)}], trace has [{showTrace s.buf}]" }
            | .panic m _ => { s with bad := some s!"P{k}=ready: model panics ({m})" }
    | .dlv h code =>
      match s.sys with
      | some g =>
        if g.waitable subtaskOps = some h ∧ !g.gone then
          match gStepOf v g (.deliver code) with
          | .ok g' evs => if evs == [e] then { s with sys := some g' } else { s with bad := some s!"dlv: step gives [{showTrace evs}]" }
          | .panic m _ => { s with sys := none, bad := if m == "cabi_wake: waker.take().unwrap() on None" then none else some s!"dlv({h},{code}): model panics ({m})" }
        else s
      | none => s
    | _ => s
  { s' with buf := [] }

def replayOp (spec : CallSpec) (v : Nat) (tr : List Ev) : Option (Nat × String) :=
  let rec go (fuel : Nat) (s : GState) (i : Nat) (l : List Ev) : Option (Nat × String) :=
    match fuel, l with
    | 0, _ => none
    | _, [] => none
    | fuel + 1, e :: es =>
      if e == .panic || e == .abort then none else
      if e == .dropF spec.k || e == .edrop spec.k then
        match gDrop spec.k v { s with buf := [] } es with
        | .error w => some (i, w)
        | .ok (s', n) => go fuel s' (i + 1 + n) (es.drop n)
      else
      let s' := gStep spec v s e
      match s'.bad with
      | some w => some (i, w)
      | none => go fuel s' (i + 1) es
  go (tr.length + 1) {} 0 tr

end Witverif.Async.Refine
