import Witverif.Async.Task
import Witverif.Async.GlueSpec
/-
Model of the wrapper the Rust backend generates for an async-lifted export (C08)

    pub unsafe fn _export_f_cabi<T: Guest>(args…) -> i32 {
        start_task(async move {
            let _task_cancel = TaskCancelOnDrop::new();
            let result = &{ <lift args>  T::f(args…).await };
            <lower result>
            _task_cancel.forget();
            [task-return]f(…);
        })
    }
    pub unsafe fn __callback_f(e0, e1, e2) -> u32 { callback(e0, e1, e2) }

(crates/rust/src/interface.rs `generate_guest_export`, crates/rust/src/bindgen.rs `CallInterface`
/ `AsyncTaskReturn`, crates/guest-rust/src/rt/async_support.rs `TaskCancelOnDrop`) composed with the
executor model of C22 (`Async/Task.lean`, driver `start`).

The ROOT future of the task is the `async move` block.  Its states:
`unpolled` (created; `_task_cancel` does not exist yet) → `awaiting` (suspended in `T::f(..).await`,
the guard is armed) → `done` (the guard was forgotten and `task.return` called) or `dropped c`
(`c` = the guard's destructor ran: `task.cancel`).  What the user's future answers to a poll is an
INPUT (`ready`), so the theorems hold for every user function.

The combined system `Sys` runs the executor LTS of C22 unchanged; the root future is polled only
while the executor is inside `Tasks::poll_next` (`pollTasks`) and dropped only while it runs
`me.tasks = Default::default()` (`dropTasks`) — the two places where the real executor touches its
futures — and the executor's inputs about its task list are tied to the root's state:
`poll_next` polls a new future at least once, reports `is_empty()` only if every future (so also the
root) is gone, and the destructor leaves no future behind.  `obs` is what the HOST observes of the
call, in the vocabulary of the specification monitor `GlueSpec.expStep`.  Import-free.
-/
namespace Witverif.Async.ExportGlue
open Witverif.Async Witverif.Async.Task Witverif.Async.GlueSpec Witverif.Generated

inductive Fut
  | unpolled
  | awaiting
  | done
  | dropped (cancelled : Bool)
deriving DecidableEq, Repr

def Fut.gone : Fut → Bool
  | .done | .dropped _ => true
  | _ => false

/-- `Future::poll` of the wrapper's `async move` block; `ready` = the user's future completes in this
poll.  `none`: a completed / dropped future is never polled again. -/
def Fut.poll : Fut → Bool → Option (Fut × List ExpEv)
  | .unpolled, false => some (.awaiting, [.user])
  | .unpolled, true => some (.done, [.user, .ret])
  | .awaiting, false => some (.awaiting, [])
  | .awaiting, true => some (.done, [.ret])
  | _, _ => none

/-- drop glue of the block: `_task_cancel` is dropped iff it exists and was not forgotten -/
def Fut.drop : Fut → Option (Fut × List ExpEv)
  | .unpolled => some (.dropped false, [])
  | .awaiting => some (.dropped true, [.cancel])
  | _ => none

structure Sys where
  ex : Task.St
  fut : Fut
  cancelSeen : Bool            -- the host has delivered EVENT_CANCEL
  obs : List ExpEv
deriving Repr

def Sys.init (itw : Bool) : Sys := ⟨St.init .start itw, .unpolled, false, []⟩

inductive Label
  | hostCall                         -- the host invokes `[async-lift]f`: `start_task` = publish the state + `callback(EVENT_NONE, 0, 0)`
  | hostCb (e w c : Nat)             -- the host invokes `[callback][async-lift]f(e, w, c)`
  | rootPoll (ready : Bool)          -- `Tasks::poll_next` polls the root future
  | rootDrop                         -- `me.tasks = Default::default()` drops the root future
  | exec (l : Task.Label)            -- every other step of the executor, and all other user code
deriving Repr

/-- the return code the host sees when an executor step hands control back -/
def cbTokens (ex ex' : Task.St) : List ExpEv :=
  if ex'.pc = .idle ∧ ex.pc ≠ .idle then
    match ex'.last with
    | some .yield => [.cb 1]
    | some (.wait _) => [.cb 2]
    | _ => []
  else if ex'.pc = .gone ∧ ex.pc ≠ .gone then [.cb 0]
  else []

def okOf {α} : Step α → Option α
  | .ok a _ => some a
  | .panic _ _ => none

/-- One step.  `none` = the step is not possible (the executor panics, or the label is not offered in
this state: the side conditions are what the real code / a conforming host guarantee). -/
def Sys.step (s : Sys) : Label → Option Sys
  | .hostCall =>
    if s.ex.pc ≠ .fresh then none else
    match okOf (Task.step s.ex .start) with
    | none => none
    | some e1 =>
      match okOf (Task.step e1 (.call Limits.eventNone 0 0)) with
      | none => none
      | some e2 => some { s with ex := e2, obs := s.obs ++ [.call] }
  | .hostCb e w c =>
    -- a conforming host calls back only between callbacks, and never asks a task that has already
    -- returned its value to cancel
    if s.ex.pc ≠ .idle then none else
    if e = Limits.eventCancel ∧ s.fut = .done then none else
    match okOf (Task.step s.ex (.call e w c)) with
    | none => none
    | some e1 => some { s with ex := e1, cancelSeen := s.cancelSeen || e == Limits.eventCancel, obs := s.obs ++ [.ev e] }
  | .rootPoll ready =>
    if s.ex.pc ≠ .pollTasks then none else
    match s.fut.poll ready with
    | none => none
    | some (f, evs) => some { s with fut := f, obs := s.obs ++ evs }
  | .rootDrop =>
    if s.ex.pc ≠ .dropTasks then none else
    match s.fut.drop with
    | none => none
    | some (f, evs) => some { s with fut := f, obs := s.obs ++ evs }
  | .exec l =>
    match l with
    | .start | .call _ _ _ => none
    | .pollDone _ empty =>
      -- `poll_next` has polled every new future; `is_empty()` only if every future is gone
      if s.fut = .unpolled ∨ (empty = true ∧ s.fut.gone = false) then none else
      match okOf (Task.step s.ex l) with
      | none => none
      | some e1 => some { s with ex := e1, obs := s.obs ++ cbTokens s.ex e1 }
    | .dropTasksDone =>
      if s.fut.gone = false then none else
      match okOf (Task.step s.ex l) with
      | none => none
      | some e1 => some { s with ex := e1, obs := s.obs ++ cbTokens s.ex e1 }
    | _ =>
      match okOf (Task.step s.ex l) with
      | none => none
      | some e1 => some { s with ex := e1, obs := s.obs ++ cbTokens s.ex e1 }

inductive Reach (itw : Bool) : Sys → Prop
  | init : Reach itw (Sys.init itw)
  | step {s s' : Sys} {l : Label} : Reach itw s → s.step l = some s' → Reach itw s'

def run (s : Sys) : List Label → Option Sys
  | [] => some s
  | l :: ls => match s.step l with
    | some s' => run s' ls
    | none => none

end Witverif.Async.ExportGlue
