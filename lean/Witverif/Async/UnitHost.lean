import Witverif.Async.Host
/-
The mock host of harness/rt-native as the engine `exec` sees it: the subtask / waitable-set part of
`Host.lean` extended by the generic table of stream/future ends (`host.rs: Host::ends`) and the unit
stream of the inter-task wakeup (`unit_host.rs`).  Same two layers as `Host.lean`: the functions
below are the *resolution* (what the scripted host answers); the *rules* they must respect for the
unit stream are the stream part of DESIGN Appendix B:
  read/write trap unless the end is idle; a read with no writer waiting blocks (`copying`); a write
  meeting a blocked, not yet satisfied read completes it (write returns COMPLETED|1<<4, the reader
  gets the pending event (EVENT_STREAM_READ, r, COMPLETED|1<<4) and stays `copying` until the event
  is delivered or consumed by cancel-read); otherwise the write blocks; peer dropped → DROPPED|0;
  cancel-read traps unless copying and (R) while the end is in a waitable set, returns the pending
  event's code (consuming it) or CANCELLED|0; drop-* trap while copying; dropping an end removes it
  from its set.
Every operation returns the new host, its answer and the trace tokens the harness prints (a trap
token precedes the token of the call that trapped).  Import-free.
-/
namespace Witverif.Async.UnitHost
open Witverif.Async Witverif.Async.Host

def BLOCKED : Nat := 4294967295
def COMPLETED : Nat := 0
def DROPPED : Nat := 1
def CANCELLED : Nat := 2

inductive USt | idle | copying | dropped
deriving DecidableEq, Repr

structure UnitS where
  r : Nat
  w : Nat
  rs : USt
  ws : USt
deriving DecidableEq, Repr

structure End where
  set : Nat
  pending : Option (Nat × Nat)
deriving DecidableEq, Repr

structure XHost where
  base : Host
  ends : List (Nat × End)       -- ascending by handle
  units : List UnitS

def XHost.init (cx : Nat → Nat) : XHost := ⟨Host.init cx, [], []⟩

namespace XHost

def trapTok (h : XHost) (why : String) : XHost × List Ev :=
  ({ h with base := { h.base with trapped := true } }, [.other ("!trap:" ++ why)])

def getEnd (h : XHost) (w : Nat) : Option End := (h.ends.find? (·.1 == w)).map (·.2)
def setEnd (h : XHost) (w : Nat) (e : End) : XHost :=
  { h with ends := h.ends.map fun p => if p.1 == w then (w, e) else p }
def setPending (h : XHost) (w : Nat) (p : Option (Nat × Nat)) : XHost :=
  match h.getEnd w with
  | some e => h.setEnd w { e with pending := p }
  | none => h
def pendingOf (h : XHost) (w : Nat) : Option (Nat × Nat) := (h.getEnd w).bind (·.pending)

/-- the waitable set `w` is joined to (0 = none / unknown) -/
def setOf (h : XHost) (w : Nat) : Nat :=
  match h.base.getSub w with
  | some s => s.set
  | none => match h.getEnd w with
    | some e => e.set
    | none => 0

def hasEvent (h : XHost) (w : Nat) : Bool :=
  match h.base.getSub w with
  | some s => s.pending.isSome
  | none => (h.pendingOf w).isSome

def insertSorted (x : Nat) : List Nat → List Nat
  | [] => [x]
  | y :: ys => if x ≤ y then x :: y :: ys else y :: insertSorted x ys

/-- members of set `s` with a pending event, ascending -/
def readyMembers (h : XHost) (s : Nat) : List Nat :=
  let a := h.base.readyMembers s
  let b := (h.ends.filter fun p => p.2.set == s && p.2.pending.isSome).map (·.1)
  b.foldl (fun acc x => insertSorted x acc) a

/-- a pending event of a unit-stream end was taken for delivery: the end leaves `copying` -/
def onTake (h : XHost) (w : Nat) : XHost :=
  { h with units := h.units.map fun u =>
      { u with rs := if u.r == w && u.rs == .copying then .idle else u.rs,
               ws := if u.w == w && u.ws == .copying then .idle else u.ws } }

/-- take the pending event of waitable `w`: (event, payload) -/
def takeEvent (h : XHost) (w : Nat) : Option ((Nat × Nat) × XHost) :=
  match h.base.getSub w with
  | some _ =>
    match h.base.takeEvent w with
    | some (c, b) => some ((EVENT_SUBTASK, c), { h with base := b })
    | none => none
  | none =>
    match h.pendingOf w with
    | some ec => some (ec, (h.setPending w none).onTake w)
    | none => none

def join (h : XHost) (w s : Nat) : XHost × List Ev :=
  if s != 0 && !h.base.sets.contains s then let (h', e) := h.trapTok "join-unknown-set"; (h', e ++ [.join w s])
  else match h.base.getSub w with
    | some sub => ({ h with base := h.base.setSub w { sub with set := s } }, [.join w s])
    | none =>
      match h.getEnd w with
      | some e => (h.setEnd w { e with set := s }, [.join w s])
      | none => let (h', e) := h.trapTok "join-unknown-waitable"; (h', e ++ [.join w s])

def setNew (h : XHost) : XHost × Nat × List Ev :=
  let (b, id, e) := h.base.setNew
  ({ h with base := b }, id, e)

def setDrop (h : XHost) (s : Nat) : XHost × List Ev :=
  if !h.base.sets.contains s then let (h', e) := h.trapTok "set-drop-unknown"; (h', e ++ [.setDrop s])
  else if h.base.subs.any (·.2.set == s) || h.ends.any (·.2.set == s) then
    let (h', e) := h.trapTok "set-drop-nonempty"; (h', e ++ [.setDrop s])
  else ({ h with base := { h.base with sets := h.base.sets.filter (· != s) } }, [.setDrop s])

/-- `waitable-set.poll` (`wait = true`: `waitable-set.wait`, which must not block forever) -/
def setPoll (h : XHost) (s : Nat) (wait : Bool) : XHost × (Nat × Nat × Nat) × List Ev :=
  -- host.rs: `waitable_set_wait` checks for an endless wait first, then `set_poll` checks the set
  let (h0, t0) : XHost × List Ev :=
    if wait && (h.readyMembers s).isEmpty then h.trapTok "wait-would-block-forever" else (h, [])
  let (h1, t1) : XHost × List Ev := if !h0.base.sets.contains s then h0.trapTok "poll-unknown-set" else (h0, [])
  let mk (e w c : Nat) : Ev := if wait then .setWait s e w c else .setPoll s e w c
  match h1.readyMembers s with
  | [] => (h1, (EVENT_NONE, 0, 0), t0 ++ t1 ++ [mk EVENT_NONE 0 0])
  | w :: _ =>
    match h1.takeEvent w with
    | none => (h1, (EVENT_NONE, 0, 0), t0 ++ t1 ++ [mk EVENT_NONE 0 0])
    | some ((e, c), h2) => (h2, (e, w, c), t0 ++ t1 ++ [mk e w c])

/-! ### the unit stream -/

def findR (h : XHost) (s : Nat) : Option UnitS := h.units.find? fun u => u.r == s && u.rs != .dropped
def findW (h : XHost) (s : Nat) : Option UnitS := h.units.find? fun u => u.w == s && u.ws != .dropped
def setUnit (h : XHost) (u : UnitS) : XHost :=
  { h with units := h.units.map fun x => if x.r == u.r then u else x }

def unitNew (h : XHost) : XHost × (Nat × Nat) × List Ev :=
  let r := h.base.next
  let w := h.base.next + 1
  ({ h with base := { h.base with next := h.base.next + 2 },
            ends := h.ends ++ [(r, ⟨0, none⟩), (w, ⟨0, none⟩)],
            units := h.units ++ [⟨r, w, .idle, .idle⟩] }, (r, w), [.x .usNew [r, w]])

def unitRead (h : XHost) (s : Nat) : XHost × Nat × List Ev :=
  match h.findR s with
  | none => let (h', e) := h.trapTok "us-read-unknown"; (h', DROPPED, e ++ [.other s!"us.read({s})=trap"])
  | some u =>
    if u.rs != .idle then let (h', e) := h.trapTok "us-read-not-idle"; (h', DROPPED, e ++ [.x .usRead [s, DROPPED]])
    else if u.ws == .dropped then (h, DROPPED, [.x .usRead [s, DROPPED]])
    else if u.ws == .copying && (h.pendingOf u.w).isNone then
      (h.setPending u.w (some (EVENT_STREAM_WRITE, COMPLETED + 16)), COMPLETED + 16, [.x .usRead [s, COMPLETED + 16]])
    else (h.setUnit { u with rs := .copying }, BLOCKED, [.x .usRead [s, BLOCKED]])

def unitWrite (h : XHost) (s : Nat) : XHost × Nat × List Ev :=
  match h.findW s with
  | none => let (h', e) := h.trapTok "us-write-unknown"; (h', DROPPED, e ++ [.other s!"us.write({s})=trap"])
  | some u =>
    if u.ws != .idle then let (h', e) := h.trapTok "us-write-not-idle"; (h', DROPPED, e ++ [.x .usWrite [s, DROPPED]])
    else if u.rs == .dropped then (h, DROPPED, [.x .usWrite [s, DROPPED]])
    else if u.rs == .copying && (h.pendingOf u.r).isNone then
      (h.setPending u.r (some (EVENT_STREAM_READ, COMPLETED + 16)), COMPLETED + 16, [.x .usWrite [s, COMPLETED + 16]])
    else (h.setUnit { u with ws := .copying }, BLOCKED, [.x .usWrite [s, BLOCKED]])

def unitCancelRead (h : XHost) (s : Nat) : XHost × Nat × List Ev :=
  match h.findR s with
  | none => let (h', e) := h.trapTok "us-cancel-unknown"; (h', CANCELLED, e ++ [.other s!"us.cancel-read({s})=trap"])
  | some u =>
    if u.rs != .copying then
      let (h', e) := h.trapTok "us-cancel-read-not-copying"; (h', CANCELLED, e ++ [.x .usCancelRead [s, CANCELLED]])
    else
      let (h0, t0) : XHost × List Ev := if h.setOf s != 0 then h.trapTok "cancel-while-in-set" else (h, [])
      let (c, h1) : Nat × XHost := match h0.pendingOf s with
        | some (_, c) => (c, h0.setPending s none)
        | none => (CANCELLED, h0)
      (h1.setUnit { u with rs := .idle }, c, t0 ++ [.x .usCancelRead [s, c]])

def unitDropR (h : XHost) (s : Nat) : XHost × List Ev :=
  match h.findR s with
  | none => let (h', e) := h.trapTok "us-drop-unknown"; (h', e ++ [.x .usDropR [s]])
  | some u =>
    let (h0, t0) : XHost × List Ev := if u.rs == .copying then h.trapTok "us-drop-r-copying" else (h, [])
    let h1 := { h0 with ends := h0.ends.filter (·.1 != s) }.setUnit { u with rs := .dropped }
    let h2 := if u.ws == .copying && (h1.pendingOf u.w).isNone then h1.setPending u.w (some (EVENT_STREAM_WRITE, DROPPED)) else h1
    (h2, t0 ++ [.x .usDropR [s]])

def unitDropW (h : XHost) (s : Nat) : XHost × List Ev :=
  match h.findW s with
  | none => let (h', e) := h.trapTok "us-drop-unknown"; (h', e ++ [.x .usDropW [s]])
  | some u =>
    let (h0, t0) : XHost × List Ev := if u.ws == .copying then h.trapTok "us-drop-w-copying" else (h, [])
    let h1 := { h0 with ends := h0.ends.filter (·.1 != s) }.setUnit { u with ws := .dropped }
    let h2 := if u.rs == .copying && (h1.pendingOf u.r).isNone then h1.setPending u.r (some (EVENT_STREAM_READ, DROPPED)) else h1
    (h2, t0 ++ [.x .usDropW [s]])

/-- replay one trace event of the runtime on the host: built-in calls change the host state, are
re-printed with the HOST's answer, and may trap; everything else passes through -/
def replay (h : XHost) : Ev → XHost × List Ev
  | .callImport k st _ => let (b, _, e) := h.base.importCall k st; ({ h with base := b }, e)
  | .cancel w _ => let (b, _, e) := h.base.subtaskCancel w; ({ h with base := b }, e)
  | .subDrop w => let (b, e) := h.base.subtaskDrop w; ({ h with base := b }, e)
  | .join w s => h.join w s
  | .setNew _ => let (h', _, e) := h.setNew; (h', e)
  | .setDrop s => h.setDrop s
  | .setPoll s _ _ _ => let (h', _, e) := h.setPoll s false; (h', e)
  -- (the block driver's escape hatch answers EVENT_CANCEL once the host has trapped: no host action)
  | .setWait s ev w c => if ev = EVENT_CANCEL then (h, [.setWait s ev w c]) else let (h', _, e) := h.setPoll s true; (h', e)
  | .x .usNew _ => let (h', _, e) := h.unitNew; (h', e)
  | .x .usRead (s :: _) => let (h', _, e) := h.unitRead s; (h', e)
  | .x .usWrite (s :: _) => let (h', _, e) := h.unitWrite s; (h', e)
  | .x .usCancelRead (s :: _) => let (h', _, e) := h.unitCancelRead s; (h', e)
  | .x .usDropR (s :: _) => h.unitDropR s
  | .x .usDropW (s :: _) => h.unitDropW s
  | e => (h, [e])

def replayAll (h : XHost) : List Ev → XHost × List Ev
  | [] => (h, [])
  | e :: es =>
    let (h1, o1) := h.replay e
    let (h2, o2) := replayAll h1 es
    (h2, o1 ++ o2)

end XHost
end Witverif.Async.UnitHost
