import Witverif.Async.Waitable
/-
Model of `AbiBuffer<O>` (crates/guest-rust/src/rt/async_support/abi_buffer.rs): the owner of the values
of a stream write — the original `Vec<T>` (`rust_storage`), for payloads that need lowering the slab of
lowered values (`alloc: Option<Cleanup>`), and the `cursor` of values already sent.

Values are item ids (`Nat`).  Payload callbacks appear as events: `lo c id` (`lower`), `li c id`
(`lift`), `dli c id` (`dealloc_lists`), `vd c id` (a Rust value dropped), `free c` (the slab's
`Cleanup` dropped).  Import-free.
-/
namespace Witverif.Async

/-- payload kinds of a `StreamVtable`: `lower/lift = None` (canonical, e.g. `u8`), lowering without
owned lists (`dealloc_lists = None`), lowering with owned lists -/
inductive PKind | canon | lifted | lists
deriving DecidableEq, Repr

def PKind.lowers : PKind → Bool
  | .canon => false
  | _ => true

def evLo (c id : Nat) : Ev := .ch .lo [c, id]
def evLi (c id : Nat) : Ev := .ch .li [c, id]
def evDli (c id : Nat) : Ev := .ch .dli [c, id]
def evVd (c id : Nat) : Ev := .ch .vd [c, id]

/-- dropping Rust values (`u8` has no destructor: nothing observable) -/
def valDrops (c : Nat) (k : PKind) (ids : List Nat) : List Ev :=
  if k.lowers then ids.map (evVd c) else []

structure AbiBuffer where
  c : Nat
  kind : PKind
  items : List Nat        -- `rust_storage` (ids of all values of the original vector)
  cursor : Nat
  slab : Bool             -- `alloc.is_some()`
deriving DecidableEq, Repr

namespace AbiBuffer

/-- `AbiBuffer::new`: every value is lowered into a fresh slab unless the payload is canonical; the
slab exists iff its layout is not empty (`Cleanup::new`) -/
def new (c : Nat) (kind : PKind) (items : List Nat) : AbiBuffer × List Ev :=
  if kind.lowers then (⟨c, kind, items, 0, !items.isEmpty⟩, items.map (evLo c))
  else (⟨c, kind, items, 0, false⟩, [])

/-- `remaining()` -/
def remaining (b : AbiBuffer) : Nat := b.items.length - b.cursor

/-- the values `abi_ptr_and_len` exposes (pointer = slab/vector base + cursor, length = remaining) -/
def window (b : AbiBuffer) : List Nat := b.items.drop b.cursor

/-- `advance(amt)` in closed form (`Proofs/AbiBuffer.lean: advanceRust_eq_advance` proves it equal to the code's
loop `advanceRust`) -/
def advance (b : AbiBuffer) (amt : Nat) : Step AbiBuffer :=
  if amt + b.cursor > b.items.length then .panic "assert!(amt + self.cursor <= self.rust_storage.len())" []
  else if b.kind != .lists then .ok { b with cursor := b.cursor + amt } []
  else .ok { b with cursor := b.cursor + amt } ((b.window.take amt).map (evDli b.c))

/-- `advance(amt)` as the code is written (abi_buffer.rs): `assert!(amt + cursor <= len)`; without lists
the cursor jumps; otherwise `abi_ptr_and_len()` is taken once, `assert!(amt <= len)`, and the loop runs
`amt` times: `cursor += 1` FIRST (exception safety), then `dealloc_lists(ptr)`, then `ptr += elem size`.
`ptr` is modelled as the index into `items` it points at (slab base + index · elem size). -/
def advanceLoop (b : AbiBuffer) (ptr : Nat) : Nat → AbiBuffer × List Ev
  | 0 => (b, [])
  | n + 1 =>
    let b1 := { b with cursor := b.cursor + 1 }
    let ev := match b.items[ptr]? with
      | some id => [evDli b.c id]
      | none => []            -- out of bounds: excluded by the asserts
    let (b2, evs) := advanceLoop b1 (ptr + 1) n
    (b2, ev ++ evs)

def advanceRust (b : AbiBuffer) (amt : Nat) : Step AbiBuffer :=
  if amt + b.cursor > b.items.length then .panic "assert!(amt + self.cursor <= self.rust_storage.len())" []
  else if b.kind != .lists then .ok { b with cursor := b.cursor + amt } []
  else
    let ptr := b.cursor                        -- `abi_ptr_and_len().0` = base + cursor · elem size
    let len := b.items.length - b.cursor       -- `abi_ptr_and_len().1`
    if amt > len then .panic "assert!(amt <= len)" []
    else let (b', evs) := advanceLoop b ptr amt; .ok b' evs

/-- `take_vec()`: the unsent values are lifted back (if they were lowered), the slab is released, the
buffer is left empty -/
def takeVec (b : AbiBuffer) : List Nat × AbiBuffer × List Ev :=
  (b.window, { b with items := [], cursor := 0, slab := false },
   (if b.kind.lowers then b.window.map (evLi b.c) else []) ++ (if b.slab then [Ev.free b.c] else []))

/-- `impl Drop`: `take_vec()` and the returned vector is dropped -/
def dropEvs (b : AbiBuffer) : List Ev :=
  let (rest, _, evs) := b.takeVec
  evs ++ valDrops b.c b.kind rest

/-- `into_vec(self)`: `take_vec()`, then `self` (now empty) is dropped — which calls `take_vec()` again -/
def intoVec (b : AbiBuffer) : List Nat × List Ev :=
  let (rest, b', evs) := b.takeVec
  (rest, evs ++ b'.dropEvs)

end AbiBuffer
end Witverif.Async
