/-
Trace tokens of harness/rt-native engine `exec` (C22/C23) that the `script` engine does not have:
one tag per token kind; `Trace.lean` wraps them as `Ev.x tag nums`.  Import-free.
(README.md of the harness lists the tokens; `XTag.fmt` is the printer, `XTag.parse` the reader; the
round-trip guard in `Ev.ofTok` accepts a parse only if it prints back to the same token.)
-/
namespace Witverif.Async

inductive XTag
  -- body level
  | bodyIn | bodyFin | bodyDrop            -- in<j> fin<j> bdrop<j>
  | spawn | spawnSkip | spawnOff           -- sp<j> sp<j>:skip sp<j>:off
  | cap | wk | wkNone | wdrop | wdropNone  -- cap<n> wk<n> wk<n>:none wdrop<n> wdrop<n>:none
  | arm | gwk | gwkNone                    -- arm<n> gwk<n> gwk<n>:none
  | taskReturn | retSkip | taskCancel      -- task.return ret:skip task.cancel
  -- harness as host / outside code
  | hwk | hwkNone | hwdrop | hwdropNone | wend   -- hwk<n> hwk<n>:none hwdrop<n> hwdrop<n>:none wend<n>
  | curTask | cancelTask | cancelTaskSkip | startSkip | dlvEndSkip   -- T<i> X<i> X<i>:skip S<j>:skip dlvU:skip
  | blockStart | blockEnd | auto | autoWk | autoDrop | deadlock       -- block.start block.end auto<k> autowk<n> autodrop<n> deadlock
  -- unit stream built-ins
  | detach | detachNone | detachDrop         -- det<k> det<k>:none detdrop<k>
  | hold | holdSkip                         -- hold hold:skip
  | panicAt                                 -- @panic (the point where a Rust panic started)
  | usNew | usRead | usWrite | usCancelRead | usCancelWrite | usDropR | usDropW
deriving DecidableEq, Repr

def XTag.fmt : XTag → List Nat → String
  | .bodyIn, [j] => s!"in{j}" | .bodyFin, [j] => s!"fin{j}" | .bodyDrop, [j] => s!"bdrop{j}"
  | .spawn, [j] => s!"sp{j}" | .spawnSkip, [j] => s!"sp{j}:skip" | .spawnOff, [j] => s!"sp{j}:off"
  | .cap, [n] => s!"cap{n}" | .wk, [n] => s!"wk{n}" | .wkNone, [n] => s!"wk{n}:none"
  | .wdrop, [n] => s!"wdrop{n}" | .wdropNone, [n] => s!"wdrop{n}:none"
  | .arm, [n] => s!"arm{n}" | .gwk, [n] => s!"gwk{n}" | .gwkNone, [n] => s!"gwk{n}:none"
  | .taskReturn, [] => "task.return" | .retSkip, [] => "ret:skip" | .taskCancel, [] => "task.cancel"
  | .hwk, [n] => s!"hwk{n}" | .hwkNone, [n] => s!"hwk{n}:none"
  | .hwdrop, [n] => s!"hwdrop{n}" | .hwdropNone, [n] => s!"hwdrop{n}:none" | .wend, [n] => s!"wend{n}"
  | .curTask, [i] => s!"T{i}" | .cancelTask, [i] => s!"X{i}" | .cancelTaskSkip, [i] => s!"X{i}:skip"
  | .startSkip, [j] => s!"S{j}:skip" | .dlvEndSkip, [] => "dlvU:skip"
  | .blockStart, [] => "block.start" | .blockEnd, [] => "block.end"
  | .auto, [k] => s!"auto{k}" | .autoWk, [n] => s!"autowk{n}" | .autoDrop, [n] => s!"autodrop{n}"
  | .deadlock, [] => "deadlock" | .panicAt, [] => "@panic"
  | .hold, [] => "hold" | .holdSkip, [] => "hold:skip"
  | .detach, [k] => s!"det{k}" | .detachNone, [k] => s!"det{k}:none" | .detachDrop, [k] => s!"detdrop{k}"
  | .usNew, [r, w] => s!"us.new={r}:{w}" | .usRead, [h, c] => s!"us.read({h})={c}"
  | .usWrite, [h, c] => s!"us.write({h})={c}" | .usCancelRead, [h, c] => s!"us.cancel-read({h})={c}"
  | .usCancelWrite, [h, c] => s!"us.cancel-write({h})={c}"
  | .usDropR, [h] => s!"us.drop-r({h})" | .usDropW, [h] => s!"us.drop-w({h})"
  | _, _ => "?x"

/-- candidates by leading name and number of digit runs; `suffix` = the token ends with `:skip` /
`:none` / `:off` (the caller re-prints and compares, so this may be generous) -/
def XTag.parse (name : String) (nums : List Nat) (rest : String) : Option (XTag × List Nat) :=
  let skip := rest.endsWith ":skip"
  let none' := rest.endsWith ":none"
  let off := rest.endsWith ":off"
  let t : Option XTag :=
    match name, nums.length with
    | "in", 1 => some .bodyIn | "fin", 1 => some .bodyFin | "bdrop", 1 => some .bodyDrop
    | "sp", 1 => some (if skip then .spawnSkip else if off then .spawnOff else .spawn)
    | "cap", 1 => some .cap
    | "wk", 1 => some (if none' then .wkNone else .wk)
    | "wdrop", 1 => some (if none' then .wdropNone else .wdrop)
    | "arm", 1 => some .arm
    | "gwk", 1 => some (if none' then .gwkNone else .gwk)
    | "task.return", 0 => some .taskReturn | "ret", 0 => some .retSkip | "task.cancel", 0 => some .taskCancel
    | "hwk", 1 => some (if none' then .hwkNone else .hwk)
    | "hwdrop", 1 => some (if none' then .hwdropNone else .hwdrop)
    | "wend", 1 => some .wend
    | "T", 1 => some .curTask
    | "X", 1 => some (if skip then .cancelTaskSkip else .cancelTask)
    | "S", 1 => some .startSkip
    | "dlvU", 0 => some .dlvEndSkip
    | "block.start", 0 => some .blockStart | "block.end", 0 => some .blockEnd
    | "auto", 1 => some .auto | "autowk", 1 => some .autoWk | "autodrop", 1 => some .autoDrop
    | "deadlock", 0 => some .deadlock | "@panic", 0 => some .panicAt
    | "hold", 0 => some (if skip then .holdSkip else .hold)
    | "det", 1 => some (if none' then .detachNone else .detach) | "detdrop", 1 => some .detachDrop
    | "us.new", 2 => some .usNew | "us.read", 2 => some .usRead | "us.write", 2 => some .usWrite
    | "us.cancel-read", 2 => some .usCancelRead | "us.cancel-write", 2 => some .usCancelWrite
    | "us.drop-r", 1 => some .usDropR | "us.drop-w", 1 => some .usDropW
    | _, _ => none
  t.map fun t => (t, nums)

end Witverif.Async
