import Witverif.Async.Host
/-
Specification side of C19 / C20 (independent of the model of the runtime): the properties

  C19  "the values a stream writer hands over reach the reader exactly once and in order, each write and
        read reports exactly the count the host transferred, values that were not transferred are
        returned to the writer or dropped once, every heap buffer created to lower a value is released
        exactly once"
  C20  "a future's readable end yields the written value exactly once; a writable end is never dropped
        before it delivered a value or observed that the reader is gone (an unwritten writer or an
        unfinished write delivers the default value instead); cancel reports the outcome the host
        produced"

as a monitor over a trace, for ONE channel.  It reads what an outside observer sees: the body's
instruction echoes and API results, the payload vtable callbacks, the built-ins with the host's
answers, the peer's transfers (`xf`: the ids the host read out of / wrote into guest memory).
The driver evaluates it on the IMPLEMENTATION's trace; `Props/C19.lean`, `Props/C20.lean` prove that
the model's traces never trip it.

Violation classes ↔ clauses:
  fifo-*      transferred items are exactly the next unsent items, in order (no skip, no repeat)
  count-*     a write/read result's count is not what the host moved during that operation
  return-*    the values handed back (`into_vec`, `write_all`, `write_one`, read results) are not exactly
              the untransferred / received ones
  value-*     a Rust value dropped twice / never owned, lowered or lifted out of order
  lists-*     `dealloc_lists` not exactly once per transferred item, in order
  slab-*      slab released twice, early (unsent or undelivered items still in it), or never
  writer-*    (C20) `future.drop-writable` before the value went through or DROPPED was observed;
              writer never dropped
  reader-*    (C20) the peer received more than one value / the guest reader got a value twice
  cancel-*    (C20) cancel outcome differs from the host's code
  end-*       an end dropped twice
Import-free (apart from model-free `Host` constants and rules).
-/
namespace Witverif.Async.ChanSpec
open Witverif.Async
open Witverif.Async.Host (BLOCKED COMPLETED DROPPED CANCELLED codeBase codeCount)

/-- payload kinds as far as the spec needs them -/
structure CSpec where
  c : Nat
  fut : Bool
  gw : Bool
  lowers : Bool      -- the payload needs lower/lift
  lists : Bool       -- … and owns lists (`dealloc_lists`)
deriving DecidableEq, Repr

structure CMon where
  handle : Nat := 0
  awaitNew : Bool := false
  -- values
  rust : List Nat := []       -- ids held by live Rust values
  toLower : List Nat := []    -- fresh values in vector order, not lowered yet
  win : List Nat := []        -- guest-writer: items of the current buffer the peer has not taken (in order)
  back : List Nat := []       -- guest-writer: items lifted back out of the buffer (`take_vec`), not yet reported
  sent : List Nat := []       -- taken by the peer, lists not yet deallocated
  inbuf : List Nat := []      -- guest-reader: items the peer put into the guest buffer, not yet lifted
  got : List Nat := []        -- guest-reader: items in the vector being filled, not yet reported
  slab : Bool := false
  opMoved : Nat := 0          -- items the host moved since the current operation began
  sinceTold : Nat := 0        -- items the host moved since it last told the guest a code
  received : List Nat := []   -- everything the peer got, in order
  given : Nat := 0            -- number of items the peer gave (they are numbered 1,2,…)
  returned : List Nat := []   -- everything the read API reported, in order
  -- what the host told the guest about this end
  lastCode : Option Nat := none
  started : Bool := false     -- the current future operation called its built-in
  doneSeen : Bool := false    -- DROPPED was reported
  valueSent : Bool := false   -- future: COMPLETED was reported
  endDrops : Nat := 0
  dropping : Bool := false    -- the body is dropping the channel's operation (what it still receives is discarded)
deriving DecidableEq, Repr

def told (m : CMon) (code : Nat) : CMon :=
  if code == BLOCKED then { m with started := true, sinceTold := 0 }
  else { m with started := true, lastCode := some code, sinceTold := 0,
                doneSeen := m.doneSeen || codeBase code == DROPPED,
                valueSent := m.valueSent || codeBase code == COMPLETED }

/-- the values a `take_vec` / a read hands back -/
def handedBack (k : CSpec) (m : CMon) : List Nat :=
  if k.gw then (if k.lowers then m.back else m.win) else m.got

def step (k : CSpec) (m : CMon) : Ev → Except String CMon
  -- opening: learn the handle
  | .ch .opn [c] => if c = k.c then .ok { m with awaitNew := true } else .ok m
  | .ch .snew [w, _] | .ch .fnew [w, _] => if m.awaitNew then .ok { m with awaitNew := false, handle := w } else .ok m
  | .ch .given [c, h] => if c = k.c then .ok { m with awaitNew := false, handle := h } else .ok m
  -- fresh values
  | .ch .iw [c, first, n] | .ch .iwa [c, first, n] =>
    if c ≠ k.c then .ok m else
    if k.lowers && (!m.win.isEmpty || !m.back.isEmpty) then .error "return-buffer-lost" else
    let ids := List.range' first n
    if k.lowers then .ok { m with rust := m.rust ++ ids, toLower := ids, opMoved := 0 }
    else .ok { m with win := ids, opMoved := 0 }
  | .ch .iwo [c, first] =>
    if c ≠ k.c then .ok m else
    if k.lowers && (!m.win.isEmpty || !m.back.isEmpty) then .error "return-buffer-lost" else
    if k.lowers then .ok { m with rust := m.rust ++ [first], toLower := [first], opMoved := 0 }
    else .ok { m with win := [first], opMoved := 0 }
  | .ch .ifw [c, id] | .ch .defv [c, id] =>
    if c ≠ k.c then .ok m else .ok { m with rust := m.rust ++ [id], toLower := [id], started := false, lastCode := none }
  | .ch .ib [c] => if c ≠ k.c then .ok m else .ok { m with opMoved := 0 }
  | .ch .ir [c, _] | .ch .inx [c] | .ch .ico [c] => if c ≠ k.c then .ok m else .ok { m with opMoved := 0, dropping := false }
  -- the body drops the channel's operation: canonical items a dropped read had received, or still
  -- receives while it is cancelled, are gone silently (lifted ones are dropped visibly: `vd`)
  | .dropF c | .edrop c =>
    if c ≠ k.c then .ok m else .ok { m with got := if k.lowers then m.got else [], dropping := true }
  | .ch .ifr [c] => if c ≠ k.c then .ok m else .ok { m with started := false, lastCode := none }
  -- payload callbacks
  | .ch .lo [c, id] =>
    if c ≠ k.c then .ok m else
    if m.toLower.head? ≠ some id || !m.rust.contains id then .error "value-lowered-out-of-order" else
    .ok { m with toLower := m.toLower.drop 1, rust := m.rust.erase id, win := m.win ++ [id], slab := true }
  | .ch .li [c, id] =>
    if c ≠ k.c then .ok m else
    if k.gw then
      if m.win.head? ≠ some id then .error "value-lifted-out-of-order" else
      .ok { m with win := m.win.drop 1, back := m.back ++ [id], rust := m.rust ++ [id] }
    else
      if m.inbuf.head? ≠ some id then .error "value-lifted-out-of-order" else
      .ok { m with inbuf := m.inbuf.drop 1, got := m.got ++ [id], rust := m.rust ++ [id] }
  | .ch .dli [c, id] =>
    if c ≠ k.c then .ok m else
    if m.sent.head? ≠ some id then .error "lists-freed-not-sent-or-twice" else .ok { m with sent := m.sent.drop 1 }
  | .ch .vd [c, id] =>
    if c ≠ k.c then .ok m else
    if !m.rust.contains id then .error "value-dropped-twice" else
    .ok { m with rust := m.rust.erase id, back := m.back.erase id, got := m.got.erase id }
  | .free c =>
    if c ≠ k.c then .ok m else
    if !m.slab then .error "slab-freed-twice" else
    if (k.gw && k.lowers && !m.win.isEmpty) || !m.sent.isEmpty || (!k.gw && k.lowers && !m.inbuf.isEmpty) then .error "slab-freed-early"
    else .ok { m with slab := false }
  -- the peer moves items
  | .ch .xf (c :: ids) | .ch .xfr (c :: ids) =>
    if c ≠ k.c then .ok m else
    if k.gw then
      if m.win.take ids.length ≠ ids then .error "fifo-not-next-items" else
      if m.received.length + ids.length > 1 && k.fut then .error "reader-value-twice" else
      .ok { m with win := m.win.drop ids.length, received := m.received ++ ids, opMoved := m.opMoved + ids.length, sinceTold := m.sinceTold + ids.length,
                   sent := if k.lists || k.fut then m.sent ++ ids else m.sent }
    else
      if ids ≠ List.range' (m.given + 1) ids.length then .error "fifo-not-next-items" else
      if m.given + ids.length > 1 && k.fut then .error "reader-value-twice" else
      .ok { m with given := m.given + ids.length, opMoved := m.opMoved + ids.length, sinceTold := m.sinceTold + ids.length,
                   inbuf := if k.lowers then m.inbuf ++ ids else m.inbuf,
                   got := if k.lowers || m.dropping then m.got else m.got ++ ids }
  -- what the host tells the guest
  | .ch .swrite [h, n, code, _] =>
    if h ≠ m.handle || m.handle = 0 then .ok m else
    if n ≠ m.win.length + m.sinceTold then .error "fifo-window-size" else
    .ok { (told m code) with slab := m.slab }
  | .ch .sread [h, n, code, _] =>
    if h ≠ m.handle || m.handle = 0 then .ok m else .ok { (told m code) with slab := m.slab || (k.lowers && n != 0) }
  | .ch .fwrite [h, code] => if h ≠ m.handle || m.handle = 0 then .ok m else .ok (told m code)
  | .ch .fread [h, code] => if h ≠ m.handle || m.handle = 0 then .ok m else .ok { (told m code) with slab := true }
  | .ch .scw [h, code] | .ch .scr [h, code] | .ch .fcw [h, code] | .ch .fcr [h, code] | .dlv h code =>
    if h ≠ m.handle || m.handle = 0 then .ok m else .ok (told m code)
  | .evCb e h code | .setPoll _ e h code | .setWait _ e h code =>
    if e = Host.EVENT_NONE || e = Host.EVENT_CANCEL || h ≠ m.handle || m.handle = 0 then .ok m else .ok (told m code)
  -- API results
  | .ch .wres [c, rc, n, rem] =>
    if c ≠ k.c then .ok m else
    if rc = 0 && n ≠ m.opMoved then .error "count-write-differs-from-host" else
    if rc ≠ 0 && m.opMoved ≠ 0 then .error "count-write-differs-from-host" else
    if rem ≠ m.win.length then .error "return-remaining-differs" else
    .ok { m with opMoved := 0 }
  | .ch .wares (c :: ids) | .ch .wores (c :: ids) | .ch .ivres (c :: ids) =>
    if c ≠ k.c then .ok m else
    if ids ≠ handedBack k m then .error "return-untransferred-values-differ" else
    .ok { m with back := [], win := if k.lowers then m.win else [], opMoved := 0 }
  | .ch .rres (c :: rc :: n :: ids) =>
    if c ≠ k.c then .ok m else
    if rc = 0 && n ≠ m.opMoved then .error "count-read-differs-from-host" else
    if rc ≠ 0 && m.opMoved ≠ 0 then .error "count-read-differs-from-host" else
    if ids ≠ m.got then .error "return-read-values-differ" else
    .ok { m with got := [], returned := m.returned ++ ids, opMoved := 0 }
  | .ch .nxres (c :: ids) | .ch .cores (c :: ids) =>
    if c ≠ k.c then .ok m else
    if ids ≠ m.got then .error "return-read-values-differ" else
    .ok { m with got := [], returned := m.returned ++ ids, opMoved := 0 }
  -- futures: results and cancel outcomes
  | .ch .fwres [c, 0] =>
    if c ≠ k.c then .ok m else
    if m.lastCode.map codeBase ≠ some COMPLETED then .error "cancel-write-ok-not-completed" else .ok m
  | .ch .fwres [c, 1, v] =>
    if c ≠ k.c then .ok m else
    if m.lastCode.map codeBase == some COMPLETED || !m.rust.contains v then .error "cancel-write-err-but-sent" else .ok m
  | .ch .fwc [c, 0] =>
    if c ≠ k.c then .ok m else
    if m.lastCode.map codeBase ≠ some COMPLETED then .error "cancel-already-sent-not-hosts" else .ok m
  | .ch .fwc [c, 1, v] =>
    if c ≠ k.c then .ok m else
    if m.lastCode.map codeBase ≠ some DROPPED || !m.rust.contains v then .error "cancel-dropped-not-hosts" else .ok m
  | .ch .fwc [c, 2, v] =>
    if c ≠ k.c then .ok m else
    if (m.started && m.lastCode.map codeBase ≠ some CANCELLED) || !m.rust.contains v then .error "cancel-cancelled-not-hosts" else .ok m
  | .ch .frres [c, v] | .ch .frc [c, 0, v] =>
    if c ≠ k.c then .ok m else
    if m.lastCode.map codeBase ≠ some COMPLETED || m.got ≠ [v] then .error "reader-value-not-hosts" else
    if !m.returned.isEmpty then .error "reader-value-twice" else
    .ok { m with got := [], returned := [v] }
  | .ch .frc [c, 1] =>
    if c ≠ k.c then .ok m else
    if m.started && m.lastCode.map codeBase ≠ some CANCELLED then .error "cancel-cancelled-not-hosts" else .ok m
  -- ends
  | .ch .fdw [h] =>
    if h ≠ m.handle || m.handle = 0 then .ok m else
    if m.endDrops ≠ 0 then .error "end-dropped-twice" else
    if !(m.valueSent || m.doneSeen) then .error "writer-dropped-unwritten" else .ok { m with endDrops := 1 }
  | .ch .sdw [h] | .ch .sdr [h] | .ch .fdr [h] =>
    if h ≠ m.handle || m.handle = 0 then .ok m else
    if m.endDrops ≠ 0 then .error "end-dropped-twice" else .ok { m with endDrops := 1 }
  | _ => .ok m

def run (k : CSpec) (m : CMon) : List Ev → Except String CMon
  | [] => .ok m
  | e :: es => match step k m e with
    | .ok m' => run k m' es
    | .error c => .error c

/-- end of a trace that ran to its end: everything the channel owned is gone, a future's writer was
not stranded -/
def complete (k : CSpec) (m : CMon) : Except String Unit :=
  if m.handle = 0 then .ok () else
  if !m.rust.isEmpty then .error "value-never-dropped" else
  if k.lowers && (!m.win.isEmpty || !m.inbuf.isEmpty) then .error "return-values-lost-in-slab" else
  if !m.sent.isEmpty then .error "lists-never-freed" else
  if m.slab then .error "slab-never-freed" else
  if k.fut && k.gw && m.endDrops = 0 then .error "writer-stranded" else
  .ok ()

/-- handles of the guest ends that occur in a trace -/
def handles (evs : List Ev) : List Nat :=
  (evs.filterMap fun e => match e with
    | .ch .snew [w, _] | .ch .fnew [w, _] => some w
    | .ch .given [_, h] => some h
    | _ => none).eraseDups

/-! ## Where the guest's pointer points (C19)

The pointer a `stream.write` hands to the host must point at the first value the host has not taken yet: `elements
the host took out of the current buffer × element size` bytes from the base of the buffer's storage (the host
reads `n` elements from there; a pointer elsewhere makes the reader see shifted or repeated data even when every
count is right).  For a `stream.read` into a canonical vector it is the end of the values already received
(`values received into the current vector × element size`), for a lowered payload the base of a fresh slab.
The mock host reports the byte offset of the pointer within the live heap block it lies in (4th number of
`swrite` / `sread`). -/

structure PMon where
  handle : Nat := 0
  awaitNew : Bool := false
  moved : Nat := 0          -- elements the host moved out of the current write buffer / into the current vector
  sinceTold : Nat := 0      -- … of which since the host last told the guest a code (a rendezvous moves the
                            -- elements before the built-in's own token appears in the trace)
deriving DecidableEq, Repr

def ptrStep (k : CSpec) (esize : Nat) (m : PMon) : Ev → Except String PMon
  | .ch .opn [c] => if c = k.c then .ok { m with awaitNew := true } else .ok m
  | .ch .snew [w, _] | .ch .fnew [w, _] => if m.awaitNew then .ok { m with awaitNew := false, handle := w } else .ok m
  | .ch .given [c, h] => if c = k.c then .ok { m with awaitNew := false, handle := h } else .ok m
  -- a new buffer / a new vector
  | .ch .iw [c, _, _] | .ch .iwa [c, _, _] | .ch .iwo [c, _] | .ch .ir [c, _] | .ch .inx [c] | .ch .ico [c] =>
    if c = k.c then .ok { m with moved := 0, sinceTold := 0 } else .ok m
  | .ch .xf (c :: ids) | .ch .xfr (c :: ids) =>
    if c = k.c then .ok { m with moved := m.moved + ids.length, sinceTold := m.sinceTold + ids.length } else .ok m
  | .ch .swrite [h, _, _, off] =>
    if h ≠ m.handle || m.handle = 0 then .ok m else
    if off ≠ (m.moved - m.sinceTold) * esize then .error "fifo-pointer-not-at-cursor" else .ok { m with sinceTold := 0 }
  | .ch .sread [h, _, _, off] =>
    if h ≠ m.handle || m.handle = 0 then .ok m else
    if off ≠ (if k.lowers then 0 else (m.moved - m.sinceTold) * esize) then .error "fifo-pointer-not-at-vector-end"
    else .ok { m with sinceTold := 0 }
  | .ch .scw [h, _] | .ch .scr [h, _] | .dlv h _ =>
    if h ≠ m.handle || m.handle = 0 then .ok m else .ok { m with sinceTold := 0 }
  | .evCb e h _ | .setPoll _ e h _ | .setWait _ e h _ =>
    if e = Host.EVENT_NONE || e = Host.EVENT_CANCEL || h ≠ m.handle || m.handle = 0 then .ok m else .ok { m with sinceTold := 0 }
  | _ => .ok m

def ptrRun (k : CSpec) (esize : Nat) (m : PMon) : List Ev → Except String PMon
  | [] => .ok m
  | e :: es => match ptrStep k esize m e with
    | .ok m' => ptrRun k esize m' es
    | .error c => .error c

/-! ## Legality of the host's recorded answers (`Host.End` rules) on a real trace -/

structure FEnd where
  c : Nat
  h : Nat
  e : Host.End
  pre : Option Nat := none      -- items moved while idle: the copy that follows must report them
  gone : Bool := false

structure Follow where
  ends : List FEnd := []
  opening : Option Nat := none
  decls : Nat → Bool × Bool     -- channel ↦ (future, guest writes)
  bad : List String := []

def Follow.flag (f : Follow) (msg : String) : Follow := { f with bad := f.bad ++ [msg] }

def Follow.upd (f : Follow) (sel : FEnd → Bool) (g : FEnd → FEnd) : Follow :=
  { f with ends := f.ends.map fun x => if sel x then g x else x }

def followCopy (f : Follow) (h n code : Nat) : Follow :=
  match f.ends.find? (fun x => x.h == h && !x.gone) with
  | none => f.flag s!"copy-unknown({h})"
  | some x =>
    match x.e.copyTrap with
    | some t => f.flag ("trap:" ++ t.name)
    | none =>
      let f := if x.e.legalImmediate n code then f else f.flag s!"copy-answer({h},{n},{code})"
      let moved := x.pre.getD 0
      let expect := if code == BLOCKED then 0 else if codeBase code == COMPLETED then (if x.e.fut then 1 else codeCount code) else 0
      let f := if moved == expect || (x.pre.isNone && expect == 0) then f else f.flag s!"copy-count({h},{code},moved {moved})"
      f.upd (fun y => y.h == h && !y.gone) fun y => { y with e := y.e.afterCopy n code, pre := none }

def followStep (f : Follow) : Ev → Follow
  | .ch .opn [c] => { f with opening := some c }
  | .ch .snew [w, _] | .ch .fnew [w, _] =>
    match f.opening with
    | some c => { f with opening := none, ends := f.ends ++ [⟨c, w, { fut := (f.decls c).1, writer := true }, none, false⟩] }
    | none => f.flag "new-without-open"
  | .ch .given [c, h] => { f with opening := none, ends := f.ends ++ [⟨c, h, { fut := (f.decls c).1, writer := false }, none, false⟩] }
  | .ch .swrite [h, n, code, _] | .ch .sread [h, n, code, _] => followCopy f h n code
  | .ch .fwrite [h, code] | .ch .fread [h, code] => followCopy f h 1 code
  | .ch .xf (c :: ids) =>
    match f.ends.find? (fun x => x.c == c && !x.gone) with
    | none => f.flag s!"transfer-unknown({c})"
    | some x =>
      if x.e.st == .copying then
        if x.e.legalXfer ids.length then f.upd (fun y => y.c == c && !y.gone) fun y => { y with e := y.e.afterXfer ids.length }
        else f.flag s!"transfer-illegal({c},{ids.length})"
      else f.upd (fun y => y.c == c && !y.gone) fun y => { y with pre := some ids.length }
  -- a transfer inside a cancel (race) is judged with the cancel's answer
  | .ch .xfr (c :: ids) => f.upd (fun y => y.c == c && !y.gone) fun y => { y with pre := some ids.length }
  | .ch .pd [c] =>
    f.upd (fun y => y.c == c && !y.gone) fun y => if y.e.legalPeerDrop then { y with e := y.e.afterPeerDrop } else y
  | .dlv h code | .evCb _ h code | .setPoll _ _ h code | .setWait _ _ h code =>
    match f.ends.find? (fun x => x.h == h && !x.gone) with
    | none => f
    | some x =>
      match x.e.takeEvent with
      | none => f.flag s!"event-without-pending({h})"
      | some (p, e') => if p = code then f.upd (fun y => y.h == h && !y.gone) fun y => { y with e := e' } else f.flag s!"event-payload({h},{code}≠{p})"
  | .ch .scw [h, code] | .ch .scr [h, code] | .ch .fcw [h, code] | .ch .fcr [h, code] =>
    match f.ends.find? (fun x => x.h == h && !x.gone) with
    | none => f.flag s!"cancel-unknown({h})"
    | some x =>
      match x.e.cancelTrap with
      | some t => f.flag ("trap:" ++ t.name)
      | none =>
        let f := if x.e.legalCancelRet code then f else f.flag s!"cancel-answer({h},{code})"
        let moved := x.pre.getD 0
        let expect := if x.e.pending.isSome then 0 else if x.e.fut then (if codeBase code == COMPLETED then 1 else 0) else codeCount code
        let f := if moved == expect then f else f.flag s!"cancel-count({h},{code},moved {moved})"
        f.upd (fun y => y.h == h && !y.gone) fun y => { y with e := y.e.afterCancel code, pre := none }
  | .ch .sdw [h] | .ch .sdr [h] | .ch .fdw [h] | .ch .fdr [h] =>
    match f.ends.find? (fun x => x.h == h && !x.gone) with
    | none => f.flag s!"drop-unknown({h})"
    | some x =>
      match x.e.dropTrap with
      | some t => f.flag ("trap:" ++ t.name)
      | none => f.upd (fun y => y.h == h && !y.gone) fun y => { y with gone := true }
  | .join w s => f.upd (fun y => y.h == w && !y.gone) fun y => { y with e := { y.e with set := s } }
  | _ => f

def followWith (decls : Nat → Bool × Bool) (evs : List Ev) : List String :=
  (evs.foldl followStep { decls := decls }).bad

end Witverif.Async.ChanSpec
