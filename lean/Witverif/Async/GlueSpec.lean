/-
Specification side of C08 for the two async halves of a function binding, as monitors over what the
HOST observes of one call (CanonicalABI.md: `canon_task_return`, `canon_task_cancel`, `Task.exit`,
`canon_lower` with `async`, `Subtask`).  Nothing here mentions the generator, the runtime or their
models.  The driver `m_c08` evaluates the monitors on the IMPLEMENTATION's observations
(checks/C08.py: real generated bindings + real runtime, natively).  `Props/C08.lean` proves that the
observations of the model wrapper ∥ executor never trip the EXPORT monitor
(`export_task_return_xor_cancel_exactly_once`); the IMPORT monitor is the host's view of the clauses
C21 proves on the runtime's own trace (`Props/C21.lean`, `lowered_params_alive_until_started`) and is
evaluated on the implementation only.  Import-free.

Export call (the host calls an async-lifted export), tokens in order of occurrence:
  `call`        the host invoked `[async-lift]f`
  `user`        the user's function was entered (observed by the stub)
  `ev:<e>`      the host invoked `[callback][async-lift]f` with event code `e` (0 none, 1 subtask, 6 cancel)
  `ret`         the guest called `[task-return]f`
  `cancel`      the guest called `task.cancel`
  `cb:<c>`      `[async-lift]f` / the callback returned code `c` (0 exit, 1 yield, 2 wait)
Import call (the guest calls an async-lowered import), tokens:
  `call:<st>:<h>`   `[async-lower]f` answered status `st` (0 starting, 1 started, 2 returned), handle `h`
  `start:<l>`       the callee starts: the host reads the parameters now; `l` = 1 iff every byte it reads
                    lies in a live guest allocation
  `return:<l>`      the callee returns: the host stores the result now; `l` = 1 iff the result area is live
  `dlv:<st>`        a subtask event with status `st` reached the guest (waitable-set.wait / poll / callback)
  `cancel:<st>`     the guest called `subtask.cancel`, answered `st` (2 returned, 3 start-cancelled, 4 return-cancelled)
  `sdrop`           the guest called `subtask.drop` on the call's handle
  `done:<r>`        the call's future is gone (`r` = 1: it produced a result, 0: it was dropped)
-/
namespace Witverif.Async.GlueSpec

/-! ## export side -/

structure ExpMon where
  called : Bool := false
  users : Nat := 0
  returns : Nat := 0
  cancels : Nat := 0
  cancelReq : Bool := false      -- the host delivered EVENT_CANCEL
  exited : Bool := false
  running : Bool := false        -- between an invocation and its return code
deriving DecidableEq, Repr

inductive ExpEv
  | call | user | ev (e : Nat) | ret | cancel | cb (c : Nat)
deriving DecidableEq, Repr

def expStep (m : ExpMon) : ExpEv → Except String ExpMon
  | .call =>
    if m.called then .error "host:called-twice" else .ok { m with called := true, running := true }
  | .user =>
    if !m.running then .error "user-code-outside-a-call" else
    if m.users ≠ 0 then .error "user-function-entered-twice" else .ok { m with users := 1 }
  | .ev e =>
    if !m.called || m.running then .error "host:callback-while-running" else
    if m.exited then .error "host:callback-after-exit" else
    if e = 6 && m.returns ≠ 0 then .error "host:cancel-after-return" else
    .ok { m with running := true, cancelReq := m.cancelReq || e = 6 }
  | .ret =>
    if !m.running then .error "task-return-outside-a-call" else
    if m.returns ≠ 0 then .error "task-return-twice" else
    if m.cancels ≠ 0 then .error "task-return-after-task-cancel" else
    .ok { m with returns := 1 }
  | .cancel =>
    if !m.running then .error "task-cancel-outside-a-call" else
    if m.cancels ≠ 0 then .error "task-cancel-twice" else
    if m.returns ≠ 0 then .error "task-cancel-after-task-return" else
    if !m.cancelReq then .error "task-cancel-without-request" else
    .ok { m with cancels := 1 }
  | .cb c =>
    if !m.running then .error "host:return-code-without-call" else
    if c = 0 then
      -- `Task.exit`: trap unless the task is resolved
      if m.returns + m.cancels ≠ 1 then .error "exit-without-return-or-cancel" else
      .ok { m with running := false, exited := true }
    else if c = 1 ∨ c = 2 then .ok { m with running := false }
    else .error "unknown-callback-code"

def expRun (m : ExpMon) : List ExpEv → Except String ExpMon
  | [] => .ok m
  | e :: es => match expStep m e with
    | .ok m' => expRun m' es
    | .error c => .error c

/-- end of the observation: the task has exited, resolved exactly once, and a task that was never
asked to cancel returned a value -/
def expComplete (m : ExpMon) : Except String Unit :=
  if !m.exited then .error "task-never-exits" else
  if m.returns + m.cancels ≠ 1 then .error "exit-without-return-or-cancel" else
  if m.cancels = 1 && !m.cancelReq then .error "task-cancel-without-request" else
  if m.users ≠ 1 then .error "user-function-not-entered-once" else .ok ()

def expCheck (evs : List ExpEv) : Except String Unit :=
  match expRun {} evs with
  | .ok m => expComplete m
  | .error c => .error c

/-! ## import side -/

structure ImpMon where
  called : Bool := false
  handle : Nat := 0
  calleeStarted : Bool := false   -- the host has read the parameters
  calleeReturned : Bool := false
  reported : Nat := 0             -- last status the guest was told (call result, event, cancel answer)
  handleDrops : Nat := 0
  cancels : Nat := 0
  done : Bool := false
deriving DecidableEq, Repr

inductive ImpEv
  | call (st h : Nat) | start (live : Bool) | ret (live : Bool) | dlv (st : Nat)
  | cancel (st : Nat) | sdrop | done (result : Bool)
deriving DecidableEq, Repr

def resolvedSt (st : Nat) : Bool := st ≥ 2

def impStep (m : ImpMon) : ImpEv → Except String ImpMon
  | .start live =>
    -- the callee starts (possibly during the call itself): it reads the lowered parameters NOW
    if m.calleeStarted then .error "host:started-twice" else
    if m.done then .error "host:start-after-done" else
    if !live then .error "params-dead-at-start" else
    .ok { m with calleeStarted := true }
  | .ret live =>
    if !m.calleeStarted || m.calleeReturned then .error "host:return-out-of-order" else
    if m.done then .error "host:return-after-done" else
    if !live then .error "result-area-dead-at-return" else
    .ok { m with calleeReturned := true }
  | .call st h =>
    if m.called then .error "import-called-twice" else
    if st > 2 then .error "host:bad-call-status" else
    if (st = 2) ≠ (h = 0) then .error "host:bad-call-handle" else
    .ok { m with called := true, handle := h, reported := st }
  | .dlv st =>
    if !m.called || m.handle = 0 then .error "host:event-without-subtask" else
    if resolvedSt m.reported then .error "host:event-after-resolution" else
    .ok { m with reported := st }
  | .cancel st =>
    if !m.called || m.handle = 0 then .error "cancel-without-subtask" else
    if resolvedSt m.reported then .error "cancel-not-in-progress" else
    if m.cancels ≠ 0 then .error "cancel-twice" else
    .ok { m with cancels := 1, reported := st }
  | .sdrop =>
    if !m.called || m.handle = 0 then .error "drop-without-subtask" else
    if m.handleDrops ≠ 0 then .error "handle-dropped-twice" else
    if !resolvedSt m.reported then .error "handle-dropped-unresolved" else
    .ok { m with handleDrops := 1 }
  | .done result =>
    if m.done then .error "done-twice" else
    if m.called && !resolvedSt m.reported then .error "future-gone-while-call-unresolved" else
    if result && !(m.called && m.reported = 2) then .error "result-without-return" else
    if !result && m.called && m.cancels = 0 then .error "no-result-although-not-cancelled" else
    if m.called && m.handle ≠ 0 && m.handleDrops ≠ 1 then .error "handle-never-dropped" else
    .ok { m with done := true }

def impRun (m : ImpMon) : List ImpEv → Except String ImpMon
  | [] => .ok m
  | e :: es => match impStep m e with
    | .ok m' => impRun m' es
    | .error c => .error c

def impCheck (evs : List ImpEv) : Except String Unit :=
  match impRun {} evs with
  | .ok m => if m.done then .ok () else .error "call-future-never-finishes"
  | .error c => .error c

/-! ## token reader (driver) -/

def natOf (s : String) : Option Nat := s.toNat?

def parseExp (t : String) : Option ExpEv :=
  match t.splitOn ":" with
  | ["call"] => some .call
  | ["user"] => some .user
  | ["ret"] => some .ret
  | ["cancel"] => some .cancel
  | ["ev", e] => (natOf e).map .ev
  | ["cb", c] => (natOf c).map .cb
  | _ => none

def parseImp (t : String) : Option ImpEv :=
  match t.splitOn ":" with
  | ["call", st, h] => do some (.call (← natOf st) (← natOf h))
  | ["start", l] => some (.start (l == "1"))
  | ["return", l] => some (.ret (l == "1"))
  | ["dlv", st] => (natOf st).map .dlv
  | ["cancel", st] => (natOf st).map .cancel
  | ["sdrop"] => some .sdrop
  | ["done", r] => some (.done (r == "1"))
  | _ => none

def verdict : Except String Unit → String
  | .ok _ => "ok"
  | .error c => "fail:" ++ c

def runStr (kind toks : String) : String :=
  let ts := (toks.splitOn " ").filter (· ≠ "")
  if kind == "export" then
    match ts.mapM parseExp with
    | some evs => verdict (expCheck evs)
    | none => "bad-token"
  else if kind == "import" then
    match ts.mapM parseImp with
    | some evs => verdict (impCheck evs)
    | none => "bad-token"
  else "bad-kind"

end Witverif.Async.GlueSpec
