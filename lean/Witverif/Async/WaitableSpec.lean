import Witverif.Async.Host
/-
Specification side of C18 (independent of the model of the runtime): "each pending operation is
registered with the running task while it waits, is removed from every set before it is cancelled or
dropped, has each completion delivered exactly once, and no pointer to freed operation state stays
registered with any task, including when an operation moves between tasks" — as a monitor over a
trace, for one waitable handle `w`.

What it reads: the `wasip3_task` C-ABI calls (`reg`/`unreg`, `clone`/`tdrop`), `waitable.join`, the
deliveries (`dlv` in the harness-executor modes, `ev(...)`/`ws.poll`/`ws.wait` with the real executor),
and the built-ins that end a waitable's life (`subtask.cancel`, `subtask.drop`; stream/future
`cancel-*`/`drop-*` are added with C19/C20).

Violation classes ↔ clauses (DESIGN §7 C18):
  deliver-unregistered     Inv1/Inv3  an event reached the task for a waitable nobody is waiting on
                                      (a second delivery without a re-registration, or a lost registration)
  cancel-while-registered  Inv2       cancel-* / drop-* issued while still in a task's map or a set
  drop-while-registered    Inv2
  registered-in-two-tasks  Inv5       registered under T' without leaving T first
  dangling-registration    Inv4       the waitable is gone (dropped) but a task still holds its callback pointer
  task-ref-leaked          Inv4       a cloned task reference was never dropped
Import-free (apart from model-free `Host` constants).
-/
namespace Witverif.Async.WaitableSpec
open Witverif.Async

structure WMon where
  regs : List Nat := []        -- tasks whose map currently holds a registration for `w`
  set : Nat := 0               -- waitable set `w` is joined to (real executor)
  dropped : Bool := false      -- the waitable's handle has been dropped
deriving DecidableEq, Repr

def registered (m : WMon) : Bool := !m.regs.isEmpty || m.set != 0

/-- One event, for waitable `w`; events about other waitables are ignored. -/
def step (w : Nat) (m : WMon) : Ev → Except String WMon
  | .reg t x _ =>
    if x ≠ w then .ok m else
    if m.dropped then .error "dangling-registration" else
    if m.regs.any (· != t) then .error "registered-in-two-tasks" else
    .ok { m with regs := if m.regs.contains t then m.regs else t :: m.regs }
  | .unreg t x _ => if x ≠ w then .ok m else .ok { m with regs := m.regs.filter (· != t) }
  | .join x s => if x ≠ w then .ok m else .ok { m with set := s }
  | .dlv x _ =>
    if x ≠ w then .ok m else
    if m.regs.isEmpty then .error "deliver-unregistered" else
    -- the executor takes the registration out of the (lowest) task that holds it
    .ok { m with regs := m.regs.filter (· != m.regs.foldl min (m.regs.headD 0)) }
  | .evCb e x _ | .setPoll _ e x _ | .setWait _ e x _ =>
    if e = Host.EVENT_NONE || e = Host.EVENT_CANCEL || x ≠ w then .ok m else
    if m.set = 0 then .error "deliver-unregistered" else .ok m
  | .cancel x _ =>
    if x ≠ w then .ok m else
    if registered m then .error "cancel-while-registered" else .ok m
  | .subDrop x =>
    if x ≠ w then .ok m else
    if registered m then .error "drop-while-registered" else .ok { m with dropped := true }
  -- stream / future ends (C19/C20): cancel-read/cancel-write and drop-readable/drop-writable
  | .ch .scw [x, _] | .ch .scr [x, _] | .ch .fcw [x, _] | .ch .fcr [x, _] =>
    if x ≠ w then .ok m else
    if registered m then .error "cancel-while-registered" else .ok m
  | .ch .sdw [x] | .ch .sdr [x] | .ch .fdw [x] | .ch .fdr [x] =>
    if x ≠ w then .ok m else
    if registered m then .error "drop-while-registered" else .ok { m with dropped := true }
  | _ => .ok m

def run (w : Nat) (m : WMon) : List Ev → Except String WMon
  | [] => .ok m
  | e :: es => match step w m e with
    | .ok m' => run w m' es
    | .error c => .error c

/-- end of the trace: nothing may still point at the operation -/
def complete (m : WMon) : Except String Unit :=
  if registered m then .error "dangling-registration" else .ok ()

/-- balance of `clone`/`tdrop` per task over a whole trace (cloned task references are released) -/
def cloneBalance (t : Nat) (evs : List Ev) : Int :=
  evs.foldl (fun acc e => match e with
    | .clone x => if x = t then acc + 1 else acc
    | .tdrop x => if x = t then acc - 1 else acc
    | _ => acc) 0

/-- waitable handles that occur in a trace (from the host's answers to the async-lowered calls) -/
def handles (evs : List Ev) : List Nat :=
  (evs.filterMap fun e => match e with
    | .callImport _ _ h => if h ≠ 0 then some h else none
    | _ => none).eraseDups

end Witverif.Async.WaitableSpec
