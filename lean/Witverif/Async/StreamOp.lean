import Witverif.Async.AbiBuffer
/-
Model of crates/guest-rust/src/rt/async_support/stream_support.rs: `ReturnCode::decode`,
`StreamWriteOp` / `StreamReadOp` (the two `WaitableOp`s of a stream, as `Ops` records for the generic
`WaitableOperation` machine of `Waitable.lean`), the futures that own them (`RawStreamWrite`,
`RawStreamRead`, and the `async fn`s `write_all`, `write_one`, `next`, `collect` with an explicit
program counter: one step = one `await` point, so no fuel is needed) and the `futures::Stream`
adapter of futures_stream.rs.

Shared memory is explicit: a reader's buffer/slab content written by the host is the field `mem`
(the host model puts the ids there), a writer's buffer content is `AbiBuffer.window`.
Events: built-ins `swrite h n code`, `sread h n code`, `scw h code`, `scr h code`, `sdw h`, `sdr h`
(`Ev.ch`), payload callbacks (`AbiBuffer.lean`).  Import-free.
-/
namespace Witverif.Async
open Witverif.Generated

/-- `ReturnCode` -/
inductive RetCode
  | blocked | completed (k : Nat) | dropped (k : Nat) | cancelled (k : Nat)
deriving DecidableEq, Repr

/-- `ReturnCode::decode`; `none` = `panic!("unknown return code")` -/
def RetCode.decode (val : Nat) : Option RetCode :=
  if val = Limits.blocked then some .blocked
  else
    let amt := val / 16          -- `val >> 4`
    let tag := val % 16          -- `val & 0xf`
    if tag = Limits.completed then some (.completed amt)
    else if tag = Limits.dropped then some (.dropped amt)
    else if tag = Limits.cancelled then some (.cancelled amt)
    else none

/-- `StreamResult` -/
inductive SRes
  | complete (k : Nat) | dropped | cancelled
deriving DecidableEq, Repr

/-- numeric form used in result tokens: `(rc, k)` -/
def SRes.nums : SRes → Nat × Nat
  | .complete k => (0, k)
  | .dropped => (1, 0)
  | .cancelled => (2, 0)

/-! ## The writable end -/

/-- `RawStreamWriter` -/
structure Writer where
  handle : Nat
  done : Bool
deriving DecidableEq, Repr

/-- state of a write (`Start = InProgress = AbiBuffer`; the `&mut RawStreamWriter` the operation holds
is threaded through) -/
structure WSt where
  buf : AbiBuffer
  wr : Writer
deriving DecidableEq, Repr

/-- `StreamWriteOp::in_progress_update` -/
def streamWriteUpdate (p : WSt) (code : Nat) : Step ((SRes × WSt) ⊕ WSt) :=
  match RetCode.decode code with
  | none => .panic "unknown return code" []
  | some .blocked => .ok (.inr p) []
  | some (.dropped 0) => .ok (.inl (.dropped, { p with wr := { p.wr with done := true } })) []
  | some (.cancelled 0) => .ok (.inl (.cancelled, p)) []
  | some (.completed amt) => (p.buf.advance amt).bind fun b => .ok (.inl (.complete amt, { p with buf := b })) []
  | some (.cancelled amt) => (p.buf.advance amt).bind fun b => .ok (.inl (.complete amt, { p with buf := b })) []
  | some (.dropped amt) =>
    (p.buf.advance amt).bind fun b => .ok (.inl (.complete amt, { buf := b, wr := { p.wr with done := true } })) []

/-- the pointer of a `stream.write` / `stream.read` as the host sees it: the model's element offset (cursor / length
of the vector) times the element size = the byte offset from the base of the storage -/
def Ev.scaleOff (esize : Nat) : Ev → Ev
  | .ch .swrite [h, n, a, off] => .ch .swrite [h, n, a, off * esize]
  | .ch .sread [h, n, a, off] => .ch .sread [h, n, a, off * esize]
  | e => e

/-- `start` of a write hands the host `abi_ptr_and_len()`: the LAST component of the `swrite` event is where
the pointer points, counted in ELEMENTS from the base of the buffer's storage (the vector's heap block for a
canonical payload, the slab otherwise) — the cursor; in bytes that is `cursor * element size` (the script layer,
`Ev.scaleOff`, multiplies by the channel's element size; the mock host reports the byte offset it sees). -/
def streamWriteOps : Ops WSt WSt (SRes × WSt) (SRes × WSt) where
  start s ans :=
    if s.wr.done then ([], Limits.dropped, s)
    else ([.ch .swrite [s.wr.handle, min s.buf.remaining Limits.streamMaxLength, ans, s.buf.cursor]], ans, s)
  startCancelled s := ([], (.cancelled, s))
  update := streamWriteUpdate
  waitable p := some p.wr.handle
  cancel p ans := ([.ch .scw [p.wr.handle, ans]], ans)
  intoCancel r := r

/-- does polling this operation call the intrinsic (and so consume a host answer)? -/
def WSt.asks (s : WSt) : Bool := !s.wr.done

/-! ## The readable end -/

/-- `RawStreamReader` (`handle = none` after `take_handle`) -/
structure Reader where
  handle : Nat
  done : Bool
deriving DecidableEq, Repr

/-- state of a read: the vector being filled (`buf`), its spare capacity, the slab (`Option<Cleanup>`)
and what the host has written into the slab / spare capacity so far (`mem`) -/
structure RSt where
  c : Nat
  kind : PKind
  buf : List Nat
  spare : Nat
  slab : Bool
  mem : List Nat
  rd : Reader
deriving DecidableEq, Repr

def RSt.freeSlab (p : RSt) : List Ev := if p.slab then [Ev.free p.c] else []

/-- `StreamReadOp::in_progress_update` -/
def streamReadUpdate (p : RSt) (code : Nat) : Step ((SRes × RSt) ⊕ RSt) :=
  let fin (amt : Nat) (dropped : Bool) : Step ((SRes × RSt) ⊕ RSt) :=
    if amt > p.spare then .panic "assert!(amt <= buf.capacity() - cur_len)" []
    else
      let got := p.mem.take amt
      .ok (.inl (.complete amt, { p with buf := p.buf ++ got, spare := p.spare - amt, slab := false, mem := [],
                                         rd := { p.rd with done := p.rd.done || dropped } }))
        ((if p.kind.lowers then got.map (evLi p.c) else []) ++ p.freeSlab)
  match RetCode.decode code with
  | none => .panic "unknown return code" []
  | some .blocked => .ok (.inr p) []
  | some (.dropped 0) => .ok (.inl (.dropped, { p with slab := false, mem := [], rd := { p.rd with done := true } })) p.freeSlab
  | some (.cancelled 0) => .ok (.inl (.cancelled, { p with slab := false, mem := [] })) p.freeSlab
  | some (.completed amt) => fin amt false
  | some (.cancelled amt) => fin amt false
  | some (.dropped amt) => fin amt true

/-- `start` of a read hands the host the spare capacity: for a canonical payload `vec.as_mut_ptr() + len`
(element offset = the number of values already in the vector), otherwise the base of a fresh slab (offset 0) -/
def streamReadOps : Ops RSt RSt (SRes × RSt) (SRes × RSt) where
  start s ans :=
    if s.rd.done then ([], Limits.dropped, { s with slab := false })
    else ([.ch .sread [s.rd.handle, min s.spare Limits.streamMaxLength, ans, if s.kind.lowers then 0 else s.buf.length]], ans,
          { s with slab := s.kind.lowers && s.spare != 0 })
  startCancelled s := ([], (.cancelled, s))
  update := streamReadUpdate
  waitable p := some p.rd.handle
  cancel p ans := ([.ch .scr [p.rd.handle, ans]], ans)
  intoCancel r := r

def RSt.asks (s : RSt) : Bool := !s.rd.done

/-- dropping the `(StreamResult, Vec<T>)` a read yields -/
def RSt.dropVec (p : RSt) : List Ev := valDrops p.c p.kind p.buf

/-! ## Dropping an operation and getting its cancel result back

`impl Drop for WaitableOperation` (cancel unless done; the cancel result is dropped) followed by the
drop glue of the `task` field — `Waitable.dropOp`, but the caller learns the cancel result (the
`&mut` writer/reader state the operation updated). -/

def dropOpC {S P C : Type} (cancelF : WOp S P → Env → Nat → Step (C × WOp S P × Env)) (dropC : C → List Ev)
    (w : WOp S P) (e : Env) (ans : Nat) : Step (Option C × Env) :=
  let taskDrop (c : Option C) (w1 : WOp S P) (e1 : Env) : Step (Option C × Env) :=
    match w1.task with
    | none => .ok (c, e1) []
    | some t => let (e2, evs) := t.dropEvs e1; .ok (c, e2) evs
  match w.state with
  | .done => taskDrop none w e
  | _ => (cancelF w e ans).bind fun (c, w1, e1) => (Step.emit (dropC c)).bind fun _ => taskDrop (some c) w1 e1

/-- drop glue of a finished operation's `task` field (`CabiTask`) -/
def taskDropEvs {S P : Type} (w : WOp S P) (e : Env) : Env × List Ev :=
  match w.task with
  | none => (e, [])
  | some t => t.dropEvs e

/-- does dropping / cancelling this operation call the cancel intrinsic? (in progress, no code queued) -/
def WOp.cancelAsks {S P : Type} (w : WOp S P) : Bool :=
  match w.state with
  | .inProgress _ => w.code.isNone
  | _ => false

end Witverif.Async
