import Witverif.Async.Trace
/-
Model of the component-model host as far as the Rust async runtime uses it (DESIGN Appendix B),
and of the scripted mock host of harness/rt-native (src/host.rs), which must behave identically.

Two layers:
* **Rules** (`Sub.legal*`, `Trap`): what *any* conforming host may answer and when it traps —
  transcribed from the canonical-ABI async definitions; rules taken from comments/assertions of the
  repository rather than from the spec text are marked (R).
* **Resolution** (`Host.importCall`, `advance`, `subtaskCancel`, …): the deterministic way the mock
  host picks one legal answer from the script.  `Props.C21.host_cancel_answer_legal` shows the resolved
  `subtask.cancel` answer is legal (the other resolutions are legal by their guards: `importCall` only
  answers the scripted STARTING/STARTED/RETURNED, `advance` applies `legalAdvance`); the driver re-checks
  every answer recorded in a real trace against the rules (`follow`).

Numeric codes here are the *specification's* (hand-written, not generated from the runtime):
a runtime whose private constants drift makes the correspondence run and the theorems that mention
both sides fail.  Import-free.
-/
namespace Witverif.Async.Host

/-! ## Codes (component-model canonical ABI) -/
def EVENT_NONE : Nat := 0
def EVENT_SUBTASK : Nat := 1
def EVENT_STREAM_READ : Nat := 2
def EVENT_STREAM_WRITE : Nat := 3
def EVENT_FUTURE_READ : Nat := 4
def EVENT_FUTURE_WRITE : Nat := 5
def EVENT_CANCEL : Nat := 6
def STARTING : Nat := 0
def STARTED : Nat := 1
def RETURNED : Nat := 2
def STARTED_CANCELLED : Nat := 3
def RETURNED_CANCELLED : Nat := 4

/-- a subtask is resolved once it returned or its cancellation took effect -/
def resolved (s : Nat) : Bool := s ≥ RETURNED

inductive Trap
  | unknownHandle | cancelResolvedDelivered | cancelTwice | cancelInSet
  | dropUnresolved | setDropNonEmpty | unknownSet | waitForever
deriving DecidableEq, Repr

def Trap.name : Trap → String
  | .unknownHandle => "unknown-handle" | .cancelResolvedDelivered => "cancel-resolved-delivered"
  | .cancelTwice => "cancel-twice" | .cancelInSet => "cancel-while-in-set"
  | .dropUnresolved => "drop-unresolved" | .setDropNonEmpty => "set-drop-nonempty"
  | .unknownSet => "unknown-set" | .waitForever => "wait-would-block-forever"

/-! ## One subtask -/

/-- Host-side state of one subtask (an async-lowered import call that did not return at once). -/
structure Sub where
  k : Nat                       -- which call of the script
  state : Nat                   -- the callee's state as the host knows it
  pending : Option Nat          -- status of the not-yet-delivered event (a later change overwrites it)
  resolvedDelivered : Bool      -- a resolved status has reached the guest (event or `subtask.cancel` result)
  cancelRequested : Bool
  set : Nat                     -- waitable set it is joined to (0 = none)
deriving DecidableEq, Repr

namespace Sub

/-- Rule: an async-lowered call returns `status | handle << 4` with status STARTING/STARTED/RETURNED
and a handle exactly when it did not return yet. -/
def legalStart (st h : Nat) : Bool := (st == STARTING || st == STARTED || st == RETURNED) && ((h == 0) == (st == RETURNED))

/-- Rule: the callee's state only moves forward, `STARTING < STARTED < RETURNED`; after a cancel
request the host resolves it inside `subtask.cancel` (synchronous form) and not by an event. -/
def legalAdvance (s : Sub) (to : Nat) : Bool :=
  (to == STARTED || to == RETURNED) && decide (s.state < to) && !resolved s.state && !s.cancelRequested

/-- Rule: `subtask.cancel` traps if the subtask's resolution was already delivered or a cancel was
already requested; (R) and if the waitable is still a member of a set. -/
def cancelTrap (s : Sub) : Option Trap :=
  if s.resolvedDelivered then some .cancelResolvedDelivered
  else if s.cancelRequested then some .cancelTwice
  else if s.set != 0 then some .cancelInSet
  else none

/-- Rule: what a (synchronous) `subtask.cancel` may return: the undelivered resolved status if there
is one; otherwise the host resolves the callee now — STARTED_CANCELLED only if it never started,
else RETURNED_CANCELLED, or RETURNED if it finished first. -/
def legalCancelRet (s : Sub) (ret : Nat) : Bool :=
  if resolved s.state then ret == s.state
  else if s.state == STARTING then ret == STARTED_CANCELLED || ret == RETURNED_CANCELLED || ret == RETURNED
  else ret == RETURNED_CANCELLED || ret == RETURNED

/-- Rule: `subtask.drop` traps unless the resolution has been delivered. -/
def dropTrap (s : Sub) : Option Trap := if s.resolvedDelivered then none else some .dropUnresolved

/-- Resolution: the mock host's answer to a cancel, from the script's choice `cx` ∈ {0,1,2}. -/
def cancelAnswer (s : Sub) (cx : Nat) : Nat :=
  if resolved s.state then s.pending.getD s.state
  else if s.state == STARTING && cx == 0 then STARTED_CANCELLED
  else if cx == 2 then RETURNED
  else RETURNED_CANCELLED

def afterCancel (s : Sub) (ret : Nat) : Sub :=
  { s with state := if resolved s.state then s.state else ret, pending := none,
           resolvedDelivered := true, cancelRequested := true }

def afterAdvance (s : Sub) (to : Nat) : Sub := { s with state := to, pending := some to }

/-- taking the pending event for delivery -/
def takeEvent (s : Sub) : Option (Nat × Sub) :=
  match s.pending with
  | none => none
  | some p => some (p, { s with pending := none, resolvedDelivered := s.resolvedDelivered || resolved p })

end Sub

/-! ## The handle table -/

structure Host where
  next : Nat                         -- next free handle (sets and waitables share one index space)
  subs : List (Nat × Sub)            -- waitables (subtasks), ascending by handle
  sets : List Nat                    -- live waitable sets
  ctx0 : Bool                        -- context slot 0 is non-null
  callHandle : Nat → Nat             -- per call index: handle of its subtask (0 = none)
  callCx : Nat → Nat                 -- per call index: scripted answer to `subtask.cancel`
  trapped : Bool

def Host.init (cx : Nat → Nat) : Host := ⟨1, [], [], false, fun _ => 0, cx, false⟩

namespace Host

def getSub (h : Host) (w : Nat) : Option Sub := (h.subs.find? (·.1 == w)).map (·.2)

def setSub (h : Host) (w : Nat) (s : Sub) : Host :=
  { h with subs := h.subs.map fun p => if p.1 == w then (w, s) else p }

def trap (h : Host) (t : Trap) : Host × List Ev := ({ h with trapped := true }, [.other ("!trap:" ++ t.name)])

/-- the async-lowered import call itself; `st` is the script's choice -/
def importCall (h : Host) (k st : Nat) : Host × Nat × List Ev :=
  if st == RETURNED then (h, RETURNED, [.callImport k st 0])
  else
    let id := h.next
    let sub : Sub := ⟨k, st, none, false, false, 0⟩
    ({ h with next := id + 1, subs := h.subs ++ [(id, sub)],
              callHandle := fun j => if j = k then id else h.callHandle j },
     st + id * 16, [.callImport k st id])

/-- host directive `A<k>:<s>` -/
def advance (h : Host) (k s : Nat) : Host × List Ev :=
  match h.getSub (h.callHandle k) with
  | none => (h, [.advSkip k])
  | some sub =>
    if h.callHandle k != 0 && sub.legalAdvance s then (h.setSub (h.callHandle k) (sub.afterAdvance s), [.adv k s])
    else (h, [.advSkip k])

def hasEvent (h : Host) (w : Nat) : Bool :=
  match h.getSub w with
  | some s => s.pending.isSome
  | none => false

def takeEvent (h : Host) (w : Nat) : Option (Nat × Host) :=
  match h.getSub w with
  | none => none
  | some s =>
    match s.takeEvent with
    | none => none
    | some (p, s') => some (p, h.setSub w s')

def subtaskCancel (h : Host) (w : Nat) : Host × Nat × List Ev :=
  match h.getSub w with
  | none => let (h', e) := h.trap .unknownHandle; (h', RETURNED_CANCELLED, e ++ [.other s!"cancel({w})=trap"])
  | some s =>
    match s.cancelTrap with
    | some t => let (h', e) := h.trap t; (h', RETURNED_CANCELLED, e ++ [.other s!"cancel({w})=trap"])
    | none =>
      let ret := s.cancelAnswer (h.callCx s.k)
      (h.setSub w (s.afterCancel ret), ret, [.cancel w ret])

def subtaskDrop (h : Host) (w : Nat) : Host × List Ev :=
  match h.getSub w with
  | none => let (h', e) := h.trap .unknownHandle; (h', e ++ [.subDrop w])
  | some s =>
    match s.dropTrap with
    | some t => let (h', e) := h.trap t; (h', e ++ [.subDrop w])
    | none => ({ h with subs := h.subs.filter (·.1 != w) }, [.subDrop w])

def setNew (h : Host) : Host × Nat × List Ev :=
  ({ h with next := h.next + 1, sets := h.sets ++ [h.next] }, h.next, [.setNew h.next])

def setDrop (h : Host) (s : Nat) : Host × List Ev :=
  if !h.sets.contains s then let (h', e) := h.trap .unknownSet; (h', e ++ [.setDrop s])
  else if h.subs.any (·.2.set == s) then let (h', e) := h.trap .setDropNonEmpty; (h', e ++ [.setDrop s])
  else ({ h with sets := h.sets.filter (· != s) }, [.setDrop s])

def join (h : Host) (w s : Nat) : Host × List Ev :=
  if s != 0 && !h.sets.contains s then let (h', e) := h.trap .unknownSet; (h', e ++ [.join w s])
  else match h.getSub w with
    | none => let (h', e) := h.trap .unknownHandle; (h', e ++ [.join w s])
    | some sub => (h.setSub w { sub with set := s }, [.join w s])

/-- members of set `s` with a pending event, ascending -/
def readyMembers (h : Host) (s : Nat) : List Nat :=
  (h.subs.filter fun p => p.2.set == s && p.2.pending.isSome).map (·.1)

/-- `waitable-set.poll`: deterministic choice = the ready member with the smallest handle -/
def setPoll (h : Host) (s : Nat) : Host × (Nat × Nat × Nat) × List Ev :=
  match h.readyMembers s with
  | [] => (h, (EVENT_NONE, 0, 0), [.setPoll s EVENT_NONE 0 0])
  | w :: _ =>
    match h.takeEvent w with
    | none => (h, (EVENT_NONE, 0, 0), [.setPoll s EVENT_NONE 0 0])
    | some (c, h') => (h', (EVENT_SUBTASK, w, c), [.setPoll s EVENT_SUBTASK w c])

end Host

/-! ## Following a real trace (legality check of the mock host's recorded answers)

`follow` replays the host-visible events of an implementation trace on the rule layer: every recorded
answer must be one the rules allow in the state reached so far, and every built-in the runtime called
must not trap.  Returns the list of violated rules (empty = legal). -/

structure Follow where
  subs : List (Nat × Sub)
  callHandle : Nat → Nat
  bad : List String

def Follow.get (f : Follow) (w : Nat) : Option Sub := (f.subs.find? (·.1 == w)).map (·.2)
def Follow.set (f : Follow) (w : Nat) (s : Sub) : Follow :=
  { f with subs := f.subs.map fun p => if p.1 == w then (w, s) else p }
def Follow.flag (f : Follow) (msg : String) : Follow := { f with bad := f.bad ++ [msg] }

def followStep (f : Follow) : Ev → Follow
  | .callImport k st h =>
    let f := if Sub.legalStart st h then f else f.flag s!"start-answer({st},{h})"
    if h = 0 then f
    else if (f.get h).isSome then f.flag s!"handle-reused({h})"
    else { f with subs := f.subs ++ [(h, ⟨k, st, none, false, false, 0⟩)],
                  callHandle := fun j => if j = k then h else f.callHandle j }
  | .adv k s =>
    match f.get (f.callHandle k) with
    | none => f.flag s!"advance-unknown({k})"
    | some sub => if sub.legalAdvance s then f.set (f.callHandle k) (sub.afterAdvance s) else f.flag s!"advance-illegal({k},{s})"
  | .dlv h c | .evCb 1 h c | .setPoll _ 1 h c | .setWait _ 1 h c =>
    match f.get h with
    | none => f.flag s!"event-unknown({h})"
    | some sub =>
      match sub.takeEvent with
      | none => f.flag s!"event-without-pending({h})"
      | some (p, sub') => if p = c then f.set h sub' else f.flag s!"event-payload({h},{c}≠{p})"
  | .cancel h r =>
    match f.get h with
    | none => f.flag s!"cancel-unknown({h})"
    | some sub =>
      match sub.cancelTrap with
      | some t => f.flag ("trap:" ++ t.name)
      | none => if sub.legalCancelRet r then f.set h (sub.afterCancel r) else f.flag s!"cancel-answer({h},{r})"
  | .subDrop h =>
    match f.get h with
    | none => f.flag s!"drop-unknown({h})"
    | some sub =>
      match sub.dropTrap with
      | some t => f.flag ("trap:" ++ t.name)
      | none => { f with subs := f.subs.filter (·.1 != h) }
  | .join w s =>
    match f.get w with
    | none => f.flag s!"join-unknown({w})"
    | some sub => f.set w { sub with set := s }
  | _ => f

def follow (evs : List Ev) : List String :=
  (evs.foldl followStep ⟨[], fun _ => 0, []⟩).bad

end Witverif.Async.Host

/-! ## Stream / future ends (DESIGN Appendix B, copy state machine) — C19 / C20

One guest end of a payload stream or future whose peer is the host (harness/rt-native/src/chan_host.rs
is the same text).  Rule layer only: what any conforming host may answer and when it traps; the
scripted resolution (which legal answer the mock picks) is `Async/ChanScript.lean`. -/
namespace Witverif.Async.Host

def BLOCKED : Nat := 4294967295
def COMPLETED : Nat := 0
def DROPPED : Nat := 1
def CANCELLED : Nat := 2

/-- `code | count << 4` -/
def packCode (base k : Nat) : Nat := base + 16 * k
def codeBase (code : Nat) : Nat := code % 16
def codeCount (code : Nat) : Nat := code / 16

inductive CopySt | idle | copying | done
deriving DecidableEq, Repr

inductive ETrap
  | copyWhileCopying | copyAfterDone | cancelNotCopying | cancelInSet | dropWhileCopying | futureWriterUnwritten
deriving DecidableEq, Repr

def ETrap.name : ETrap → String
  | .copyWhileCopying => "copy-while-copying" | .copyAfterDone => "copy-after-done"
  | .cancelNotCopying => "cancel-not-copying" | .cancelInSet => "cancel-while-in-set"
  | .dropWhileCopying => "drop-while-copying" | .futureWriterUnwritten => "future-writer-dropped-unwritten"

structure End where
  fut : Bool                   -- future (one value, codes carry no count) / stream
  writer : Bool                -- the guest holds the writable end
  st : CopySt := .idle
  n : Nat := 0                 -- size of the guest buffer of the copy in flight
  progress : Nat := 0          -- items moved so far in that copy
  pending : Option Nat := none -- code of the not-yet-delivered event
  set : Nat := 0
deriving DecidableEq, Repr

namespace End

/-- the event code of this kind of end -/
def eventCode (e : End) : Nat :=
  match e.fut, e.writer with
  | false, false => EVENT_STREAM_READ | false, true => EVENT_STREAM_WRITE
  | true, false => EVENT_FUTURE_READ | true, true => EVENT_FUTURE_WRITE

/-- Rule: `read`/`write` trap unless the end is idle. -/
def copyTrap (e : End) : Option ETrap :=
  match e.st with
  | .idle => none
  | .copying => some .copyWhileCopying
  | .done => some .copyAfterDone

/-- Rule: the immediate answer to a copy of `n` items: BLOCKED, COMPLETED|k with `k ≤ n` and `k ≥ 1`
unless `n = 0`, or DROPPED (the peer was already gone: nothing moved).  Futures: `n = 1`, no count in
the code, and a reader never sees DROPPED (a future's writer cannot be dropped before it wrote). -/
def legalImmediate (e : End) (n ans : Nat) : Bool :=
  if e.fut then ans == BLOCKED || ans == COMPLETED || (e.writer && ans == DROPPED)
  else ans == BLOCKED || ans == DROPPED ||
    (codeBase ans == COMPLETED && decide (codeCount ans ≤ n) && (decide (1 ≤ codeCount ans) || n == 0))

/-- the state of an end after the guest learned `code` (at once, by event, or as a cancel result) -/
def stAfter (fut : Bool) (code : Nat) : CopySt :=
  if code == BLOCKED then .copying
  else if codeBase code == DROPPED || (fut && codeBase code == COMPLETED) then .done
  else .idle

def afterCopy (e : End) (n ans : Nat) : End :=
  if ans == BLOCKED then { e with st := .copying, n := n, progress := 0, pending := none }
  else { e with st := stAfter e.fut ans, n := 0, progress := 0, pending := none }

/-- Rule: while the end is copying the peer may move `k` more items (`progress + k ≤ n`; a copy of
zero items is completed by a zero move, once); the ONE pending event then carries the total. -/
def legalXfer (e : End) (k : Nat) : Bool :=
  e.st == .copying && decide (e.progress + k ≤ e.n) &&
  (decide (1 ≤ k) || (e.n == 0 && e.pending.isNone)) &&
  -- nothing moves after the peer dropped
  (match e.pending with | some p => codeBase p != DROPPED | none => true)

def afterXfer (e : End) (k : Nat) : End :=
  { e with progress := e.progress + k,
           pending := some (if e.fut then COMPLETED else packCode COMPLETED (e.progress + k)) }

/-- Rule: the peer may drop while the end is copying: the pending event becomes DROPPED|progress
(a future whose value already went through stays COMPLETED). -/
def legalPeerDrop (e : End) : Bool :=
  e.st == .copying && (e.writer || !e.fut) &&
  (match e.pending with | some p => codeBase p != DROPPED | none => true)

def afterPeerDrop (e : End) : End :=
  if e.fut && e.pending.isSome then e
  else { e with pending := some (if e.fut then DROPPED else packCode DROPPED e.progress) }

/-- taking the pending event for delivery: the end leaves `copying` -/
def takeEvent (e : End) : Option (Nat × End) :=
  match e.pending with
  | none => none
  | some p => some (p, { e with pending := none, st := stAfter e.fut p, n := 0, progress := 0 })

/-- Rule: `cancel-read` / `cancel-write` trap unless copying; (R) and if the end is still in a waitable set. -/
def cancelTrap (e : End) : Option ETrap :=
  if e.st != .copying then some .cancelNotCopying
  else if e.set != 0 then some .cancelInSet
  else none

/-- Rule: what a (synchronous) cancel may return: the undelivered event's code if there is one;
otherwise the host resolves the race now — CANCELLED|k, COMPLETED|k or DROPPED|k with `k ≤ n`
(`k ≥ 1` for a COMPLETED unless `n = 0`); futures: CANCELLED, COMPLETED, and DROPPED for a writer. -/
def legalCancelRet (e : End) (ans : Nat) : Bool :=
  match e.pending with
  | some p => ans == p
  | none =>
    if e.fut then ans == CANCELLED || ans == COMPLETED || (e.writer && ans == DROPPED)
    else decide (codeCount ans ≤ e.n) &&
      (codeBase ans == CANCELLED || codeBase ans == DROPPED ||
       (codeBase ans == COMPLETED && (decide (1 ≤ codeCount ans) || e.n == 0)))

def afterCancel (e : End) (ans : Nat) : End :=
  { e with st := stAfter e.fut ans, n := 0, progress := 0, pending := none }

/-- Rule: `drop-readable` / `drop-writable` trap while copying; `future.drop-writable` also unless done. -/
def dropTrap (e : End) : Option ETrap :=
  if e.st == .copying then some .dropWhileCopying
  else if e.fut && e.writer && e.st != .done then some .futureWriterUnwritten
  else none

end End
end Witverif.Async.Host
