import Witverif.Async.Wakeup
/-
Model of the export-task executor of the Rust guest runtime (C22):
  crates/guest-rust/src/rt/async_support.rs   `TaskState::{new, callback, remaining_work,
      deliver_waitable_event, with_p3_task_set}`, `impl Drop for TaskState`, `SharedTaskState::
      {add_waitable, waitable_register, waitable_unregister, cabi_clone, cabi_drop}`, `start_task`,
      `callback`, `block_on`, `CallbackCode::encode`, context slot 0 (`task_state::{get,set}`)
as a **small-step labelled transition system** `step : St → Label → Step St` with an explicit program
counter for the body of `TaskState::callback`:

    idle ─call→ [deliver → inCb] → cancelWake → setPolling → pollTasks ─pollDone→ afterPoll
                                                   ↑  (event from waitable-set.poll: deliver, `continue`)  │
                                                   └──────────────────────────────────────────────────────┤
         afterPoll → Wait/Yield (→ idle)   |   → sleep → Wait (→ idle)   |   → Exit: dropCancelWake → dropTasks → dropFields → gone

Everything the executor does not decide itself is an INPUT carried by the label:
* what the polled Rust futures do while user code runs (`pollTasks`, the C-ABI completion callback
  `inCb`, destructors `dropTasks`): registering / unregistering waitables through the `wasip3_task`
  C ABI (`reg`, `unreg`), cloning / dropping references to the task (`cloneRef`, `dropRef`: C-ABI
  `clone`/`drop` and `Waker` clones), waking (`wake`), and trace events that do not concern the
  executor (`tok`); then the result of `Tasks::poll_next` (`pollDone ready empty`);
* every answer of a canonical built-in (`waitable-set.poll/wait`, `waitable-set.new`, the unit
  stream built-ins).
So the theorems of `Props/C22.lean` / `Props/C23.lean`, which quantify over all label sequences,
hold for EVERY behaviour of the polled futures (any task body, any `FuturesUnordered` polling order)
and every host answer.  `wake`, `reg`, `unreg`, `cloneRef`, `dropRef`, `tok` are accepted wherever code outside
the executor can run (`userPc`): inside user code called by the executor, and between callbacks /
after exit (other tasks run while this one is idle; wakers outlive the task).
The script interpreter `ExecScript.lean` drives this very `step` with the labels a script produces;
its output is compared with the real runtime's trace.  Import-free.
-/
namespace Witverif.Async.Task
open Witverif.Async Witverif.Generated Witverif.Async.Wakeup

inductive Driver | start | block
deriving DecidableEq, Repr

/-- where `deliver_waitable_event` continues: the first delivery of a callback goes on to
`cancel_inter_task_stream_read`, a delivery inside the loop `continue`s -/
inductive Next | cancelWake | setPolling
deriving DecidableEq, Repr

inductive Pc
  | fresh                                   -- `TaskState::new` done, `start_task` not yet run
  | idle                                    -- between callbacks
  | deliver (w c : Nat) (next : Next)       -- about to run `deliver_waitable_event(w, c)`
  | inCb (next : Next)                      -- the registered C-ABI callback is running (user code)
  | cancelWake | setPolling
  | pollTasks                               -- `tasks.poll_next(cx)` is running (user code)
  | afterPoll (ready : Bool)
  | sleep
  | dropCancelWake                          -- `Drop for TaskState`, first statement
  | dropTasks                               -- `me.tasks = Default::default()` (user destructors)
  | dropFields                              -- drop glue of the fields
  | gone                                    -- the `TaskState` is freed
deriving DecidableEq, Repr

def Next.pc : Next → Pc
  | .cancelWake => .cancelWake
  | .setPolling => .setPolling

structure St where
  driver : Driver
  pc : Pc
  wk : Wk                        -- sleep state + inter-task stream (Wakeup.lean)
  waitables : List Nat           -- keys of `SharedTaskState::waitables`
  set : Option Nat               -- `SharedTaskState::waitable_set`
  tasksEmpty : Bool              -- `self.tasks.is_empty()`
  clones : Nat                   -- strong references to the `Arc<SharedTaskState>` held OUTSIDE the `TaskState`
                                 -- (waker clones, C-ABI `clone`s); the `TaskState` itself holds two (`shared`, `waker`)
  sharedGone : Bool              -- the `SharedTaskState` has been dropped
  ctx : Bool                     -- this task's context slot 0 is non-null
  last : Option CbCode           -- what the previous callback answered
  -- ghost state (never read by `step`'s control flow; used to state the theorems)
  ev0 : Nat                      -- event0 of the running / last callback
  woken : Bool                   -- `wake_by_ref` ran since the last store of SLEEP_STATE_POLLING
  polled : Bool                  -- `tasks.poll_next` ran in the current callback
  members : List Nat             -- waitables this executor has joined to `set` and not removed
  drops : Nat                    -- how many times the `TaskState` destructor ran
  sleeps : Nat                   -- how often SLEEP_STATE_SLEEPING was stored
  reads : Nat                    -- `stream.read` calls on the wake-up stream
  writes : Nat                   -- `stream.write` calls on the wake-up stream
deriving DecidableEq, Repr

def St.init (driver : Driver) (itw : Bool) : St :=
  { driver, pc := if driver = .start then .fresh else .idle,
    wk := ⟨itw, 0, none, false⟩, waitables := [], set := none, tasksEmpty := false,
    clones := 0, sharedGone := false, ctx := false, last := none,
    ev0 := 0, woken := false, polled := false, members := [], drops := 0, sleeps := 0, reads := 0, writes := 0 }

inductive Label
  | start
  | call (e w c : Nat)
  | tau
  | tok (e : Ev)
  | reg (w newSet : Nat) | unreg (w : Nat)
  | cloneRef | dropRef
  | wake (ans : Nat)
  | cbDone
  | cancelRead (ans : Nat)
  | pollDone (ready empty : Bool)
  | decide (e w c : Nat)
  | sleepRead (r w newSet ans : Nat)
  | dropTasksDone
deriving DecidableEq, Repr

def ins (l : List Nat) (x : Nat) : List Nat := if l.contains x then l else l ++ [x]

/-- `CallbackCode::encode` (`u32` arithmetic: `2 | (waitable << 4)` loses the bits shifted out) -/
def encode : CbCode → Nat
  | .exit => Limits.callbackExit
  | .yield => Limits.callbackYield
  | .wait s => (Limits.callbackWaitTag + s * 2 ^ Limits.callbackWaitShift) % 2 ^ 32

/-- how the host (and the harness) reads a callback code back: `code & 0xf`, `code >> 4` -/
def decode (n : Nat) : Option CbCode :=
  if n = 0 then some .exit else if n = 1 then some .yield
  else if n % 16 = 2 then some (.wait (n / 16)) else none

/-- `SharedTaskState::add_waitable`: `set.get_or_insert_with(WaitableSet::new).join(waitable)`;
`newSet` = what `waitable-set.new` returns if it is called -/
def addWaitable (s : St) (w newSet : Nat) : Step St :=
  match s.set with
  | some x => .ok { s with members := ins s.members w } [.join w x]
  | none =>
    if newSet = 0 then .panic "NonZeroU32::new(waitable-set.new()).unwrap()" [.setNew newSet]
    else .ok { s with set := some newSet, members := ins s.members w } [.setNew newSet, .join w newSet]

/-- what the callback returns to the host when it does not exit: the state goes back into the
context slot (`start_task`/`callback`) or stays with `block_on` -/
def answer (s : St) (code : CbCode) : Step St :=
  match s.driver with
  | .start => .ok { s with pc := .idle, last := some code, ctx := true } [.ctxSet true, .cb code]
  | .block => .ok { s with pc := .idle, last := some code } []

/-- drop glue of `SharedTaskState` (fields `inter_task_stream`, `waitables`, `waitable_set`) -/
def sharedDropEvs (s : St) : List Ev :=
  (match s.wk.stream with | some (_, w) => [.x .usDropW [w]] | none => []) ++
  (match s.set with | some x => [.setDrop x] | none => [])

/-- the last strong reference went away: `SharedTaskState` is dropped -/
def dropShared (s : St) : Step St := .ok { s with sharedGone := true } (sharedDropEvs s)

/-- `TaskState::callback(e, w, c)` after the context-slot handling of its caller -/
def enter (s : St) (e w c : Nat) : Step St :=
  let s := { s with ev0 := e, polled := false }
  if e = Limits.eventCancel then .ok { s with pc := .dropCancelWake } []
  else if e > Limits.eventCancel then .panic "unreachable!() (unknown event)" []
  else
    let s1 := { s with wk := { s.wk with sleep := Limits.sleepStateWoken } }
    if e ≠ Limits.eventNone then .ok { s1 with pc := .deliver w c .cancelWake } []
    else .ok { s1 with pc := .cancelWake } []

/-- program points at which code outside the executor can run: user code called by the executor (the
C-ABI completion callback, polled futures, destructors), and — while no callback of this task runs —
other tasks and the host (`fresh`, `idle`, `gone`).  The runtime is single-threaded: nothing else runs
between the other program points. -/
def userPc : Pc → Bool
  | .inCb _ | .pollTasks | .dropTasks | .fresh | .idle | .gone => true
  | _ => false

def step (s : St) (l : Label) : Step St :=
  match l with
  -- ---------------------------------------------------------------- code outside the executor
  | .tok e => if !userPc s.pc then .panic "model: user code cannot run here" [] else .ok s [e]
  | .wake ans =>
    if !userPc s.pc then .panic "model: user code cannot run here" []
    else if s.sharedGone then .panic "model: wake through a dangling reference" []
    else (wakeByRef s.wk ans).bind fun k =>
      .ok { s with wk := k, woken := true,
                   writes := if s.wk.sleep = Limits.sleepStateSleeping then s.writes + 1 else s.writes } []
  | .cloneRef =>
    if !userPc s.pc then .panic "model: user code cannot run here" []
    else if s.sharedGone then .panic "model: clone of a dangling reference" [] else .ok { s with clones := s.clones + 1 } []
  | .dropRef =>
    if !userPc s.pc then .panic "model: user code cannot run here" []
    else if s.sharedGone then .panic "model: drop of a dangling reference" []
    else if s.clones = 0 then .panic "model: drop of a reference nobody holds" []
    else if s.clones = 1 ∧ s.pc = .gone then dropShared { s with clones := 0 }
    else .ok { s with clones := s.clones - 1 } []
  | .reg w newSet =>
    -- `SharedTaskState::waitable_register`
    if !userPc s.pc then .panic "model: user code cannot run here" []
    else if s.sharedGone then .panic "model: register through a dangling reference" []
    else (addWaitable s w newSet).bind fun s1 => .ok { s1 with waitables := ins s1.waitables w } []
  | .unreg w =>
    -- `SharedTaskState::waitable_unregister`
    if !userPc s.pc then .panic "model: user code cannot run here" []
    else if s.sharedGone then .panic "model: unregister through a dangling reference" []
    else .ok { s with waitables := (s.waitables.filter (· != w)), members := (s.members.filter (· != w)) } [.join w 0]
  -- ---------------------------------------------------------------- the executor proper
  | .start =>
    match s.pc, s.driver with
    | .fresh, .start =>
      -- `start_task`: `assert!(task_state::get().is_null()); task_state::set(state)`
      if s.ctx then .panic "assert!(task_state::get().is_null())" [.ctxGet true]
      else .ok { s with pc := .idle, ctx := true } [.ctxGet false, .ctxSet true]
    | _, _ => .panic "model: start out of place" []
  | .call e w c =>
    match s.pc with
    | .idle =>
      match s.driver with
      | .start =>
        -- `callback`: take the state out of the context slot, null while running
        if !s.ctx then .panic "assert!(!state.is_null())" [.ctxGet false]
        else (Step.emit [.ctxGet true, .ctxSet false]).bind fun _ => enter { s with ctx := false } e w c
      | .block =>
        -- `block_on`: the event comes from the task's own waitable set
        match s.last with
        | none => enter s Limits.eventNone 0 0
        | some .yield =>
          -- the waitable set is created lazily: without one there cannot be an event, poll again
          match s.set with
          | none => enter s Limits.eventNone 0 0
          | some x => (Step.emit [.setPoll x e w c]).bind fun _ => enter s e w c
        | some (.wait _) =>
          match s.set with
          | none => .panic "block_on: waitable_set.as_ref().unwrap() on None (Wait)" []
          | some x => (Step.emit [.setWait x e w c]).bind fun _ => enter s e w c
        | some .exit => .panic "model: call after exit" []
    | _ => .panic "model: call while not idle" []
  | .tau =>
    match s.pc with
    | .deliver w _ next =>
      -- `deliver_waitable_event`: leave every set, then the wake-up stream or the registered callback
      let s1 := { s with members := (s.members.filter (· != w)) }
      let (k, mine) := consume s.wk w
      if mine then .ok { s1 with wk := k, pc := next.pc } [.join w 0]
      else if s.waitables.contains w then
        .ok { s1 with waitables := (s.waitables.filter (· != w)), pc := .inCb next } [.join w 0]
      else .panic "waitables.remove(&waitable).unwrap()" [.join w 0]
    | .setPolling =>
      .ok { s with wk := { s.wk with sleep := Limits.sleepStatePolling }, woken := false, pc := .pollTasks } []
    | .dropFields =>
      -- fields in declaration order: tasks (empty), shared, waker, inter_task_wakeup (the reader)
      (if s.clones = 0 then dropShared s else .ok s []).bind fun s1 =>
        let rd : List Ev := match s.wk.stream with | some (r, _) => [.x .usDropR [r]] | none => []
        let fin : List Ev := match s.driver with | .start => [.cb .exit] | .block => []
        .ok { s1 with pc := .gone, last := some .exit } (rd ++ fin)
    | _ => .panic "model: tau out of place" []
  | .cbDone =>
    match s.pc with
    | .inCb next => .ok { s with pc := next.pc } []
    | _ => .panic "model: cbDone out of place" []
  | .cancelRead ans =>
    match s.pc with
    | .cancelWake =>
      (cancelRead s.wk ans).bind fun (k, left) =>
        .ok { s with wk := k, members := match left with | some r => (s.members.filter (· != r)) | none => s.members,
                     pc := .setPolling } []
    | .dropCancelWake =>
      -- `Drop for TaskState`: first the sleep state is set to WOKEN (no later wake may write to the wake-up
      -- stream: the task is never polled again), then `cancel_inter_task_stream_read`
      (cancelRead { s.wk with sleep := Limits.sleepStateWoken } ans).bind fun (k, left) =>
        .ok { s with wk := k, members := match left with | some r => (s.members.filter (· != r)) | none => s.members,
                     drops := s.drops + 1, pc := if s.tasksEmpty then .dropFields else .dropTasks } []
    | _ => .panic "model: cancelRead out of place" []
  | .pollDone ready empty =>
    match s.pc with
    | .pollTasks => .ok { s with tasksEmpty := empty, polled := true, pc := .afterPoll ready } []
    | _ => .panic "model: pollDone out of place" []
  | .decide e w c =>
    match s.pc with
    | .afterPoll true =>
      if !s.tasksEmpty then .panic "assert!(me.tasks.is_empty())" []
      else if !s.waitables.isEmpty then
        match s.set with
        | none => .panic "waitable_set.as_ref().unwrap() on None" []
        | some x => answer s (.wait x)
      else .ok { s with pc := .dropCancelWake } []
    | .afterPoll false =>
      if s.tasksEmpty then .panic "assert!(!me.tasks.is_empty())" []
      else if s.wk.sleep = Limits.sleepStateWoken then
        if !s.waitables.isEmpty then
          match s.set with
          | none => .panic "waitable_set.as_ref().unwrap() on None" []
          | some x =>
            (Step.emit [.setPoll x e w c]).bind fun _ =>
              if e ≠ Limits.eventNone then .ok { s with pc := .deliver w c .setPolling } []
              else answer s .yield
        else answer s .yield
      else .ok { s with wk := { s.wk with sleep := Limits.sleepStateSleeping }, sleeps := s.sleeps + 1, pc := .sleep } []
    | _ => .panic "model: decide out of place" []
  | .sleepRead r w newSet ans =>
    match s.pc with
    | .sleep =>
      if !s.wk.itw then
        -- inter_task_wakeup_disabled.rs: `assert!(self.remaining_work(), …)`
        if s.waitables.isEmpty then .panic "Rust task cannot sleep waiting only on Rust-originating events" []
        else match s.set with
          | none => .panic "waitable_set.as_ref().unwrap() on None" []
          | some x => answer s (.wait x)
      else
        (startRead s.wk r w ans).bind fun (k, h) =>
          let s1 := { s with wk := k, reads := if h.isSome then s.reads + 1 else s.reads }
          (match h with
            | some rh => addWaitable s1 rh newSet
            | none => .ok s1 []).bind fun s2 =>
            match s2.set with
            | none => .panic "waitable_set.as_ref().unwrap() on None" []
            | some x => answer s2 (.wait x)
    | _ => .panic "model: sleepRead out of place" []
  | .dropTasksDone =>
    match s.pc with
    | .dropTasks => .ok { s with tasksEmpty := true, pc := .dropFields } []
    | _ => .panic "model: dropTasksDone out of place" []

/-- `remaining_work()` -/
def St.remainingWork (s : St) : Bool := !s.waitables.isEmpty

/-- states reachable from the initial state by labels whose step does not panic -/
inductive Reach (driver : Driver) (itw : Bool) : St → Prop
  | init : Reach driver itw (St.init driver itw)
  | step {s s' : St} {l : Label} {evs : List Ev} : Reach driver itw s → step s l = .ok s' evs → Reach driver itw s'

end Witverif.Async.Task
