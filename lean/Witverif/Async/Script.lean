import Witverif.Async.Host
import Witverif.Async.Subtask
/-
Scripts of the rt-native harness (engine `script`) and the model's interpreter for them: the task
body as a small program over the runtime's public API, the host's choices, and — for the `cabi1` /
`cabi2` modes — the harness itself as the executor (it installs its own `wasip3_task`, polls the
body, delivers events by calling the registered callbacks).  Mirrors harness/rt-native/src/script.rs;
the runtime pieces it drives are `Fut.poll` / `Fut.drop` / `Fut.wake` of `Subtask.lean` (the same
definitions the C21 theorems are about), the host is `Host.lean`.

How the host's answers reach the runtime model ("answers as inputs"): a runtime step takes the
intrinsic's return value as an argument.  The interpreter runs the step once with a dummy answer,
replays the events *before* the answer-consuming built-in on the host, computes the real answer from
the host state at that point, and re-runs the step with it (`withAnswer`).  All built-in events are
then replayed on the host, which is how the host state advances and host traps enter the trace.
Import-free.
-/
namespace Witverif.Async
open Witverif.Async.Host (Host)

structure CallDecl where
  spec : CallSpec
  st : Nat        -- status the host reports at once
  cx : Nat        -- the host's choice when `subtask.cancel` is called
deriving Repr

inductive Instr
  | new (k : Nat) | poll (k : Nat) | await (k : Nat) | drop (k : Nat) | wait | yield | task (n : Nat)
deriving DecidableEq, Repr

inductive Dir
  | adv (k s : Nat) | dlv (k : Nat)
deriving DecidableEq, Repr

inductive Mode
  | cabi (version : Nat) | export
deriving DecidableEq, Repr

structure Script where
  mode : Mode
  calls : List CallDecl
  body : List Instr
  dirs : List Dir

/-- harness task id (`ptr` field of its `wasip3_task`) -/
def TID : Nat := 1

structure Sys where
  host : Host
  env : Env
  slots : Nat → Option Fut
  used : Nat → Bool
  log : List Ev
  woken : Bool
  panicked : Bool

def Sys.emit (s : Sys) (evs : List Ev) : Sys := { s with log := s.log ++ evs }

/-- replay one event on the host: built-in calls change the host state and may trap -/
def hostReplay (h : Host) : Ev → Host × List Ev
  | .callImport k st _ => let (h', _, e) := h.importCall k st; (h', e)
  | .cancel w _ => let (h', _, e) := h.subtaskCancel w; (h', e)
  | .subDrop w => h.subtaskDrop w
  | .join w s => h.join w s
  | .setDrop s => h.setDrop s
  | e => (h, [e])

def hostReplayAll (h : Host) : List Ev → Host × List Ev
  | [] => (h, [])
  | e :: es =>
    let (h1, o1) := hostReplay h e
    let (h2, o2) := hostReplayAll h1 es
    (h2, o1 ++ o2)

/-- the answer of the first answer-consuming built-in in `evs`, computed on the host state reached by
replaying the events before it (0 if there is none) -/
def answerFor (calls : List CallDecl) (h : Host) : List Ev → Nat
  | [] => 0
  | .callImport k _ _ :: _ =>
    let st := match calls[k]? with | some c => c.st | none => 0
    (h.importCall k st).2.1
  | .cancel w _ :: _ => (h.subtaskCancel w).2.1
  | e :: es => answerFor calls (hostReplay h e).1 es

/-- run a runtime step that consumes at most one intrinsic answer -/
def withAnswer {α} (calls : List CallDecl) (h : Host) (f : Nat → Step α) : Step α :=
  f (answerFor calls h (f 0).evs)

/-- apply the outcome of a runtime step to the system: events go through the host into the log -/
def Sys.absorb {α} (s : Sys) (r : Step α) : Sys × Option α :=
  match r with
  | .ok a evs => let (h, o) := hostReplayAll s.host evs; ({ s with host := h, log := s.log ++ o }, some a)
  | .panic _ evs =>
    let (h, o) := hostReplayAll s.host evs
    ({ s with host := h, log := s.log ++ o ++ [Ev.panic], panicked := true }, none)

def setSlot (f : Nat → Option Fut) (k : Nat) (v : Option Fut) : Nat → Option Fut := fun j => if j = k then v else f j

inductive BodyRes | next | suspend (again : Bool) | stop
deriving DecidableEq

/-- one poll of call future `k` (shared by `p<k>` and `a<k>`); returns whether it completed -/
def Sys.pollSlot (calls : List CallDecl) (s : Sys) (k : Nat) (f : Fut) : Sys × Option Bool :=
  let (s1, r) := s.absorb (withAnswer calls s.host fun ans => f.poll s.env ans)
  match r with
  | none => (s1, none)
  | some (.pending, f', e') => ({ s1 with slots := setSlot s1.slots k (some f'), env := e' }.emit [Ev.poll k .pend], some false)
  | some (.ready res, _, e') =>
    ({ s1 with slots := setSlot s1.slots k none, env := e' }.emit ([Ev.poll k .ready] ++ res.dropEvs), some true)

def Sys.dropSlot (calls : List CallDecl) (s : Sys) (k : Nat) (f : Fut) : Sys :=
  let s0 := { s with slots := setSlot s.slots k none }
  let (s1, r) := s0.absorb (withAnswer calls s0.host fun ans => f.drop s0.env ans)
  match r with
  | none => s1
  | some e' => { s1 with env := e' }

def execInstr (calls : List CallDecl) (s : Sys) : Instr → Sys × BodyRes
  | .new k =>
    if s.used k then (s.emit [Ev.newSkip k], .next)
    else match calls[k]? with
      | none => (s.emit [Ev.other "!bad-call-index"], .stop)
      | some c => ({ s with used := fun j => j = k || s.used j, slots := setSlot s.slots k (some (.unpolled c.spec)) }.emit [Ev.newCall k], .next)
  | .poll k =>
    match s.slots k with
    | none => (s.emit [Ev.poll k .none], .next)
    | some f =>
      match s.pollSlot calls k f with
      | (s', none) => (s', .stop)
      | (s', some _) => (s', .next)
  | .await k =>
    match s.slots k with
    | none => (s.emit [Ev.poll k .none], .next)
    | some f =>
      match s.pollSlot calls k f with
      | (s', none) => (s', .stop)
      | (s', some true) => (s', .next)
      | (s', some false) => (s', .suspend true)
  | .drop k =>
    match s.slots k with
    | none => (s.emit [Ev.dropNone k], .next)
    | some f =>
      let s' := (s.emit [Ev.dropF k]).dropSlot calls k f
      (s', if s'.panicked then .stop else .next)
  | .wait => (s.emit [Ev.suspend], .suspend false)
  | .yield => ({ s with woken := true }.emit [Ev.yieldNow], .suspend false)
  | .task n =>
    -- cabi modes: the body continues under harness task `n` (same C-ABI version)
    match s.env.cur with
    | some t => ({ s with env := { s.env with cur := some ⟨n, t.version⟩ } }.emit [Ev.setTask n], .next)
    | none => (s.emit [Ev.setTaskSkip n], .next)

/-- drop every remaining call future in slot order (end of the body, or the body future dropped) -/
def dropAll (calls : List CallDecl) (s : Sys) : Nat → Nat → Sys
  | 0, _ => s
  | n + 1, k =>
    if s.panicked then s else
    match s.slots k with
    | none => dropAll calls s n (k + 1)
    | some f => dropAll calls ((s.emit [Ev.edrop k]).dropSlot calls k f) n (k + 1)

/-- poll the body: run instructions until one suspends; `none` = finished (or stopped by a panic) -/
def pollBody (calls : List CallDecl) (s : Sys) : List Instr → Sys × Option (List Instr)
  | [] =>
    let s' := dropAll calls s calls.length 0
    (if s'.panicked then s' else s'.emit [Ev.fin], none)
  | i :: rest =>
    match execInstr calls s i with
    | (s', .next) => pollBody calls s' rest
    | (s', .suspend true) => (s', some (i :: rest))
    | (s', .suspend false) => (s', some rest)
    | (s', .stop) => (s', none)

/-- host directives while the body is suspended (harness = executor); returns whether an event was
delivered and the remaining directives -/
def runDirsCabi (s : Sys) : List Dir → Sys × Bool × List Dir
  | [] => (s, false, [])
  | .adv k st :: ds =>
    let (h, e) := s.host.advance k st
    runDirsCabi ({ s with host := h }.emit e) ds
  | .dlv k :: ds =>
    let h := s.host.callHandle k
    -- the task (lowest id first) whose map holds a registration for this waitable
    let holder := (s.env.regs.filter (·.2 == h)).foldl (fun acc p => match acc with
      | none => some p.1
      | some t => some (min t p.1)) none
    if h ≠ 0 ∧ holder.isSome ∧ s.host.hasEvent h then
      match s.host.takeEvent h, holder with
      | some (code, host'), some tid =>
        let s1 := { s with host := host', env := { s.env with regs := s.env.regs.filter (· != (tid, h)) } }.emit [Ev.dlv h code]
        match s1.slots k with
        | none => ({ s1 with panicked := true }.emit [Ev.panic], true, ds)
        | some f =>
          match s1.absorb (f.wake code) with
          | (s2, none) => (s2, true, ds)
          | (s2, some f') => ({ s2 with slots := setSlot s2.slots k (some f') }, true, ds)
      | _, _ => (s.emit [Ev.dlvSkip k], false, ds)       -- unreachable: `hasEvent`, `holder.isSome`
    else runDirsCabi (s.emit [Ev.dlvSkip k]) ds

/-- the executor loop of `run_cabi` -/
def loopCabi (calls : List CallDecl) : Nat → Sys → List Instr → List Dir → Sys
  | 0, s, _, _ => s.emit [Ev.other "!model-fuel"]
  | fuel + 1, s, body, dirs =>
    match pollBody calls { s with woken := false } body with
    | (s1, none) => s1
    | (s1, some rest) =>
      if s1.host.trapped then dropAll calls (s1.emit [Ev.abort]) calls.length 0
      else if s1.woken then loopCabi calls fuel (s1.emit [Ev.woken]) rest dirs
      else
        match runDirsCabi s1 dirs with
        | (s2, true, ds) => if s2.panicked then s2 else loopCabi calls fuel s2 rest ds
        | (s2, false, _) => dropAll calls (s2.emit [Ev.taskCancel]) calls.length 0

def Sys.init (sc : Script) (version : Nat) : Sys :=
  { host := Host.init (fun k => match sc.calls[k]? with | some c => c.cx | none => 0),
    env := ⟨some ⟨TID, version⟩, []⟩, slots := fun _ => none, used := fun _ => false,
    log := [], woken := false, panicked := false }

/-- predicted trace of a script; `none` for modes the model does not predict (`export`: the real
executor is modelled by the C22 builder) -/
def Script.predict (sc : Script) : Option (List Ev) :=
  match sc.mode with
  | .export => none
  | .cabi v =>
    let s := loopCabi sc.calls (sc.body.length + sc.dirs.length + 3) (Sys.init sc v) sc.body sc.dirs
    let leftovers : List Ev :=
      (if s.env.regs.isEmpty then [] else [.other s!"!registrations-left:{s.env.regs.length}"])
    some (s.log ++ (if s.panicked then [] else leftovers) ++ [.endTok (if s.panicked then none else some 0) 0])

end Witverif.Async
