import Witverif.Async.Trace
import Witverif.Generated.Limits
/-
Model of `WaitableOperation<S>` (crates/guest-rust/src/rt/async_support/waitable.rs): the generic
state machine `Start | InProgress | Done` behind every stream/future read/write and every async
import call, with its registration with the current task through the `wasip3_task` C ABI.

Effects are explicit: a function takes the environment `Env` (the `wasip3_task_set` pointer and the
executors' waitable maps as far as this model needs them) and the *answers* of the intrinsics it
calls, and returns the events it produced (`List Ev`: built-in calls, C-ABI calls, trait callbacks).
A Rust panic (`unwrap`, `assert!`, `unreachable!`) is `Step.panic`.
The operation-specific half (`WaitableOp` trait) is the record `Ops`.  Import-free.
-/
namespace Witverif.Async
open Witverif.Generated

/-- Result of a model step: new value + events, or a panic (events up to the panic kept). -/
inductive Step (α : Type)
  | ok (a : α) (evs : List Ev)
  | panic (msg : String) (evs : List Ev)

namespace Step
def bind {α β} (x : Step α) (f : α → Step β) : Step β :=
  match x with
  | .panic m e => .panic m e
  | .ok a e => match f a with
    | .ok b e' => .ok b (e ++ e')
    | .panic m e' => .panic m (e ++ e')
def evs {α} : Step α → List Ev
  | .ok _ e => e
  | .panic _ e => e
def emit (e : List Ev) : Step Unit := .ok () e
def pure {α} (a : α) : Step α := .ok a []
end Step

/-- the `wasip3_task` the executor published through `wasip3_task_set` -/
structure CurTask where
  ptr : Nat
  version : Nat
deriving DecidableEq, Repr

/-- Environment of an operation: the current task and which `(task, waitable)` pairs are present in
the executors' waitable maps. -/
structure Env where
  cur : Option CurTask
  regs : List (Nat × Nat)
deriving DecidableEq, Repr

/-- `CabiTask`: a cloned (v2) task pointer and whether a waitable is registered through it -/
structure CabiTask where
  ptr : Nat
  registered : Option Nat
deriving DecidableEq, Repr

/-- The `WaitableOp` trait: operation-specific callbacks.  `ans` arguments are the return values of
the intrinsics the callback invokes (the environment's answer). -/
structure Ops (S P R C : Type) where
  start : S → (ans : Nat) → List Ev × Nat × P
  startCancelled : S → List Ev × C
  update : P → (code : Nat) → Step (R ⊕ P)
  waitable : P → Option Nat
  cancel : P → (ans : Nat) → List Ev × Nat
  intoCancel : R → C

inductive OpState (S P : Type)
  | start (s : S)
  | inProgress (p : P)
  | done

/-- `WaitableOperation<S>` minus the `op` field (which is `Ops`, immutable here). -/
structure WOp (S P : Type) where
  state : OpState S P
  code : Option Nat          -- completion_status.code
  waker : Bool               -- completion_status.waker.is_some()
  task : Option CabiTask

def WOp.new {S P} (s : S) : WOp S P := ⟨.start s, none, false, none⟩

inductive PollR (R : Type) | ready (r : R) | pending

/-- `impl Drop for CabiTask` -/
def CabiTask.dropEvs (t : CabiTask) (e : Env) : Env × List Ev :=
  match t.registered with
  | some w => ({ e with regs := e.regs.filter (· != (t.ptr, w)) },
               [.unreg t.ptr w (e.regs.contains (t.ptr, w)), .tdrop t.ptr])
  | none => (e, [.tdrop t.ptr])

variable {S P R C : Type}

/-- `register_waker` -/
def registerWaker (w : WOp S P) (e : Env) (waitable : Nat) : Step (WOp S P × Env) :=
  match e.cur with
  | none => .panic "assert!(!task.is_null())" []
  | some t =>
    if t.version < Limits.wasip3TaskV1 then .panic "assert!((*task).version >= WASIP3_TASK_V1)" [] else
    -- v2+: keep a clone of the task so that unregistering works from another task
    let (task', e1, evs1) : Option CabiTask × Env × List Ev :=
      if t.version ≥ Limits.wasip3TaskV2 then
        match w.task with
        | some prev =>
          if prev.ptr = t.ptr then (some { prev with registered := some waitable }, e, [])
          else
            -- `last_task.insert(CabiTask::new(task))`: clone first, then the old value is dropped
            let (e', d) := prev.dropEvs e
            (some ⟨t.ptr, some waitable⟩, e', [.clone t.ptr] ++ d)
        | none => (some ⟨t.ptr, some waitable⟩, e, [.clone t.ptr])
      else (w.task, e, [])
    let prev := e1.regs.contains (t.ptr, waitable)
    let e2 := if prev then e1 else { e1 with regs := e1.regs ++ [(t.ptr, waitable)] }
    .ok ({ w with waker := true, task := task' }, e2) (evs1 ++ [.reg t.ptr waitable prev])

/-- `unregister_waker` -/
def unregisterWaker (w : WOp S P) (e : Env) (waitable : Nat) : Step (WOp S P × Env) :=
  match w.task with
  | some prev =>
    let had := e.regs.contains (prev.ptr, waitable)
    .ok ({ w with task := some { prev with registered := none } },
         { e with regs := e.regs.filter (· != (prev.ptr, waitable)) }) [.unreg prev.ptr waitable had]
  | none =>
    match e.cur with
    | none => .panic "assert!(!task.is_null())" []
    | some t =>
      if t.version < Limits.wasip3TaskV1 then .panic "assert!((*task).version >= WASIP3_TASK_V1)" [] else
      let had := e.regs.contains (t.ptr, waitable)
      .ok (w, { e with regs := e.regs.filter (· != (t.ptr, waitable)) }) [.unreg t.ptr waitable had]

/-- `poll_complete_with_code(cx, optional_code)`; `cx = true` when a context is supplied -/
def pollCompleteWithCode (ops : Ops S P R C) (w : WOp S P) (e : Env) (cx : Bool) (code : Option Nat) :
    Step (PollR R × WOp S P × Env) :=
  -- `if let Some(code) = optional_code { … }`
  let afterCode : Step (Option R × WOp S P) :=
    match code with
    | none => .ok (none, w) []
    | some c =>
      let w1 : WOp S P := { w with task := w.task.map (fun t => ({ t with registered := none } : CabiTask)) }
      match w1.state with
      | .inProgress p =>
        (ops.update p c).bind fun r =>
          match r with
          | .inl res => .ok (some res, { w1 with state := .done }) []
          | .inr p' => .ok (none, { w1 with state := .inProgress p' }) []
      | _ => .panic "unreachable!() (code without an in-progress state)" []
  afterCode.bind fun (res, w2) =>
    match res with
    | some r => .ok (.ready r, w2, e) []
    | none =>
      match w2.state with
      | .inProgress p =>
        if cx then
          match ops.waitable p with
          | none => .panic "in_progress_waitable: unwrap on None" []
          | some h => (registerWaker w2 e h).bind fun (w3, e3) => .ok (.pending, w3, e3) []
        else .ok (.pending, w2, e) []
      | _ => .panic "unreachable!() (not in progress)" []

/-- `poll_complete(cx)`; `ans` answers the start intrinsic if this poll starts the operation -/
def pollComplete (ops : Ops S P R C) (w : WOp S P) (e : Env) (ans : Nat) : Step (PollR R × WOp S P × Env) :=
  match w.state with
  | .start s =>
    let (evs, code, p) := ops.start s ans
    (Step.emit evs).bind fun _ =>
      pollCompleteWithCode ops { w with state := .inProgress p } e true (some code)
  | .inProgress _ => pollCompleteWithCode ops { w with code := none } e true w.code
  | .done => .panic "cannot re-poll after operation completes" []

/-- First half of `cancel()` for an in-progress operation: everything that happens *before* the
cancel intrinsic may be called — a queued completion code is processed (which may already finish the
operation: `some c`), otherwise the waker is unregistered from the task. -/
def cancelPrepare (ops : Ops S P R C) (w : WOp S P) (e : Env) (p0 : P) : Step (Option C × WOp S P × Env) :=
  -- `match completion_status.code.take()`
  match w.code with
  | some c =>
    (pollCompleteWithCode ops { w with code := none } e false (some c)).bind fun (r, w1, e1) =>
      match r with
      | .ready res => .ok (some (ops.intoCancel res), w1, e1) []
      | .pending => .ok (none, w1, e1) []
  | none =>
    match ops.waitable p0 with
    | none => .panic "in_progress_waitable: unwrap on None" []
    | some h => (unregisterWaker w e h).bind fun (w1, e1) => .ok (none, w1, e1) []

/-- `cancel()`; `ans` answers the cancel intrinsic if it is invoked -/
def cancel (ops : Ops S P R C) (w : WOp S P) (e : Env) (ans : Nat) : Step (C × WOp S P × Env) :=
  match w.state with
  | .start s =>
    let (evs, c) := ops.startCancelled s
    .ok (c, { w with state := .done }, e) evs
  | .done => .panic "cannot cancel operation after completing it" []
  | .inProgress p0 =>
    (cancelPrepare ops w e p0).bind fun (done, w1, e1) =>
      match done with
      | some c => .ok (c, w1, e1) []
      | none =>
        match w1.state with
        | .inProgress p =>
          let (evs, code) := ops.cancel p ans
          (Step.emit evs).bind fun _ =>
            (pollCompleteWithCode ops w1 e1 false (some code)).bind fun (r, w2, e2) =>
              match r with
              | .ready res => .ok (ops.intoCancel res, w2, e2) []
              | .pending => .panic "unreachable!() (cancel left the operation pending)" []
        | _ => .panic "unreachable!()" []

/-- `impl Drop for WaitableOperation`: cancel unless done, and drop the cancel result.
`dropC` = events of dropping the cancel result that `Drop::drop` discards. -/
def dropCancel (ops : Ops S P R C) (dropC : C → List Ev) (w : WOp S P) (e : Env) (ans : Nat) : Step (WOp S P × Env) :=
  match w.state with
  | .done => .ok (w, e) []
  | _ => (cancel ops w e ans).bind fun (c, w1, e1) => .ok (w1, e1) (dropC c)

/-- the destructor of a `WaitableOperation`: `Drop::drop`, then the drop glue of its fields (`task`) -/
def dropOp (ops : Ops S P R C) (dropC : C → List Ev) (w : WOp S P) (e : Env) (ans : Nat) : Step Env :=
  (dropCancel ops dropC w e ans).bind fun (w1, e1) =>
    match w1.task with
    | none => .ok e1 []
    | some t => let (e2, evs) := t.dropEvs e1; .ok e2 evs

/-- the completion callback `cabi_wake(ptr, code)` the executor invokes on delivery:
`ptr.code = Some(code); ptr.waker.take().unwrap().wake()` -/
def cabiWake (w : WOp S P) (code : Nat) : Step (WOp S P) :=
  if w.waker then .ok { w with code := some code, waker := false } []
  else .panic "cabi_wake: waker.take().unwrap() on None" []

end Witverif.Async
