import Witverif.Async.Waitable
/-
One `WaitableOperation` — for an ARBITRARY operation kind `Ops` — together with the part of the
executors' waitable maps that concerns it, as a labelled transition system (`GSys`, `GLabel`,
`GSys.step`).  This is the system the C18 theorems (`Props/C18.lean`, invariant in
`Proofs/WaitableReg.lean`) quantify over, and the one the driver replays along real traces
(`Async/Refine.lean`).  Import-free.
-/
namespace Witverif.Async
open Witverif.Generated

variable {S P R C : Type}

/-- what the generic machine needs from an operation: the waitable of an in-progress state does not
change when a status update leaves it in progress (the `WaitableOp` trait's documented obligation
"`in_progress_waitable` must always return the same value") -/
def Ops.Stable (ops : Ops S P R C) : Prop :=
  ∀ p c p' evs, ops.update p c = .ok (.inr p') evs → ops.waitable p' = ops.waitable p

/-- One `WaitableOperation` and the executors' maps, as far as this operation is concerned. -/
structure GSys (S P : Type) where
  w : WOp S P
  regs : List (Nat × Nat)
  gone : Bool                -- the operation has been dropped

inductive GLabel
  | poll (task : Nat) (ans : Nat)      -- polled while `task` is the current task
  | deliver (code : Nat)               -- the executor holding the registration delivers an event
  | drop (task : Nat) (ans : Nat)      -- dropped while `task` is the current task
deriving DecidableEq, Repr

/-- the waitable an in-progress operation waits on -/
def GSys.waitable (ops : Ops S P R C) (g : GSys S P) : Option Nat :=
  match g.w.state with
  | .inProgress p => ops.waitable p
  | _ => none

def GSys.step (ops : Ops S P R C) (dropC : C → List Ev) (v : Nat) (g : GSys S P) : GLabel → Step (GSys S P)
  | .poll t ans =>
    (pollComplete ops g.w ⟨some ⟨t, v⟩, g.regs⟩ ans).bind fun (_, w', e') => .ok ⟨w', e'.regs, false⟩ []
  | .deliver code =>
    match g.waitable ops with
    | none => .panic "no waitable" []
    | some h =>
      match g.regs.find? (·.2 == h) with
      | none => .panic "delivery without a registration" []
      | some (tp, _) =>
        (Step.emit [.dlv h code]).bind fun _ =>
          (cabiWake g.w code).bind fun w' => .ok ⟨w', g.regs.filter (· != (tp, h)), false⟩ []
  | .drop t ans =>
    (dropOp ops dropC g.w ⟨some ⟨t, v⟩, g.regs⟩ ans).bind fun e' => .ok ⟨g.w, e'.regs, true⟩ []

end Witverif.Async
