/-
Trace tokens of harness/rt-native engine `chan` (C19/C20: stream and future operations against a
scripted peer): one tag per token kind; `Trace.lean` wraps them as `Ev.ch tag nums`.  Import-free.
Token syntax is uniform: `<name><n0>:<n1>:…` (name = letters, numbers in decimal), e.g.
`swrite3:2:16` = `stream.write(handle 3, 2 items) = 16` (COMPLETED | 1<<4), `xf0:5:6` = the peer moved
items 5 and 6 of channel 0.  (README.md of the harness lists the tokens.)
-/
namespace Witverif.Async

inductive CTag
  -- opening a channel
  | opn | snew | fnew | moved | given            -- open<c> snew<w>:<r> fnew<w>:<r> moved<r> given<c>:<h>
  -- instruction echoes (the body is about to do this)
  | iw | ib | iv | iwa | iwo | ir | inx | ico | ifw | ifr | ix | ie | skip
  -- API-visible results
  | wres | rres | wares | wores | nxres | cores | fwres | frres | fwc | frc | ivres
  -- payload vtable callbacks / values
  | lo | li | dli | vd | defv                    -- lo<c>:<id> li<c>:<id> dli<c>:<id> vd<c>:<id> def<c>:<id>
  -- canonical built-ins answered by the mock host
  | swrite | sread | fwrite | fread              -- swrite<h>:<n>:<code> sread<h>:<n>:<code> fwrite<h>:<code> fread<h>:<code>
  | scw | scr | fcw | fcr                        -- cancel-write / cancel-read:  scw<h>:<code> …
  | sdw | sdr | fdw | fdr                        -- drop-writable / drop-readable: sdw<h> …
  -- the peer (host directives)
  | xf | xfr | xfskip | pd | pdskip | pready | drain   -- xf<c>:<ids…> (xfr: inside a cancel, race) xfskip<c> pd<c> pdskip<c> pready<c>:<m> drain<c>
deriving DecidableEq, Repr

def CTag.name : CTag → String
  | .opn => "open" | .snew => "snew" | .fnew => "fnew" | .moved => "moved" | .given => "given"
  | .iw => "iw" | .ib => "ib" | .iv => "iv" | .iwa => "iwa" | .iwo => "iwo" | .ir => "ir" | .inx => "inx"
  | .ico => "ico" | .ifw => "ifw" | .ifr => "ifr" | .ix => "ix" | .ie => "ie" | .skip => "skip"
  | .wres => "wres" | .rres => "rres" | .wares => "wares" | .wores => "wores" | .nxres => "nxres"
  | .cores => "cores" | .fwres => "fwres" | .frres => "frres" | .fwc => "fwc" | .frc => "frc" | .ivres => "ivres"
  | .lo => "lo" | .li => "li" | .dli => "dli" | .vd => "vd" | .defv => "def"
  | .swrite => "swrite" | .sread => "sread" | .fwrite => "fwrite" | .fread => "fread"
  | .scw => "scw" | .scr => "scr" | .fcw => "fcw" | .fcr => "fcr"
  | .sdw => "sdw" | .sdr => "sdr" | .fdw => "fdw" | .fdr => "fdr"
  | .xf => "xf" | .xfr => "xfr" | .xfskip => "xfskip" | .pd => "pd" | .pdskip => "pdskip" | .pready => "pready" | .drain => "drain"

def CTag.all : List CTag :=
  [.opn, .snew, .fnew, .moved, .given, .iw, .ib, .iv, .iwa, .iwo, .ir, .inx, .ico, .ifw, .ifr, .ix, .ie, .skip,
   .wres, .rres, .wares, .wores, .nxres, .cores, .fwres, .frres, .fwc, .frc, .ivres, .lo, .li, .dli, .vd, .defv,
   .swrite, .sread, .fwrite, .fread, .scw, .scr, .fcw, .fcr, .sdw, .sdr, .fdw, .fdr,
   .xf, .xfr, .xfskip, .pd, .pdskip, .pready, .drain]

def CTag.fmt (t : CTag) (ns : List Nat) : String := t.name ++ ":".intercalate (ns.map toString)

/-- by leading name; the caller re-prints and compares (round-trip guard), so `nums` is taken as is -/
def CTag.parse (name : String) (nums : List Nat) : Option (CTag × List Nat) :=
  (CTag.all.find? (·.name == name)).map fun t => (t, nums)

end Witverif.Async
