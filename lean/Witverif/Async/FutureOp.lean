import Witverif.Async.StreamOp
/-
Model of crates/guest-rust/src/rt/async_support/future_support.rs: `FutureWriteOp` / `FutureReadOp`
(`Ops` records for the generic `WaitableOperation` machine), `RawFutureWrite::poll` / `cancel`
(`WriteComplete` → `Result<(), FutureWriteError>` / `RawFutureWriteCancel`, the raw writer is dropped
where the code drops it), `RawFutureRead::poll` / `cancel`, and the typed layer `FutureWriter` /
`FutureWrite` (`Drop` impls: default value through `write_and_forget` = `DeferredWrite`).
Values are item ids; the value a reader's slab holds is `mem` (written by the host model).
Events: built-ins `fwrite h code`, `fread h code`, `fcw h code`, `fcr h code`, `fdw h`, `fdr h`,
payload callbacks `lo/li/dli/vd`, `def c id` (the `default` constructor), `free c` (slab).  Import-free.
-/
namespace Witverif.Async
open Witverif.Generated

/-! ## Write -/

/-- `Start = (RawFutureWriter, value)`; `InProgress = (RawFutureWriter, Option<Cleanup>)`: the slab holds
the lowered value `v` (every payload layout of the harness is non-empty, so the slab exists) -/
structure FWSt where
  c : Nat
  handle : Nat
  v : Nat
deriving DecidableEq, Repr

/-- `WriteComplete<T>` (with the writer) -/
inductive WriteComplete
  | written | dropped (v : Nat) | cancelled (v : Nat)
deriving DecidableEq, Repr

/-- `RawFutureWriteCancel` (`cancelled` carries the writer's handle: the writer is handed back) -/
inductive FWCancel
  | alreadySent | dropped (v : Nat) | cancelled (v : Nat) (handle : Nat)
deriving DecidableEq, Repr

def evFdw (h : Nat) : Ev := .ch .fdw [h]
def evFdr (h : Nat) : Ev := .ch .fdr [h]

/-- `FutureWriteOp::in_progress_update`: the match is on the raw code -/
def futureWriteUpdate (p : FWSt) (code : Nat) : Step ((WriteComplete × FWSt) ⊕ FWSt) :=
  if code = Limits.blocked then .ok (.inr p) []
  else if code = Limits.dropped then .ok (.inl (.dropped p.v, p)) [evLi p.c p.v, Ev.free p.c]
  else if code = Limits.cancelled then .ok (.inl (.cancelled p.v, p)) [evLi p.c p.v, Ev.free p.c]
  else if code = Limits.completed then .ok (.inl (.written, p)) [evDli p.c p.v, Ev.free p.c]
  else .panic "unreachable!(unexpected code)" []

def futureWriteOps : Ops FWSt FWSt (WriteComplete × FWSt) FWCancel where
  start s ans := ([evLo s.c s.v, .ch .fwrite [s.handle, ans]], ans, s)
  startCancelled s := ([], .cancelled s.v s.handle)
  update := futureWriteUpdate
  waitable p := some p.handle
  cancel p ans := ([.ch .fcw [p.handle, ans]], ans)
  -- `result_into_cancel`: the writer is dropped unless it is handed back
  intoCancel r :=
    match r.1 with
    | .written => .alreadySent
    | .dropped v => .dropped v
    | .cancelled v => .cancelled v r.2.handle

/-- events of `result_into_cancel` dropping the writer (not expressible inside `Ops.intoCancel`) -/
def fwIntoCancelEvs (r : WriteComplete × FWSt) : List Ev :=
  match r.1 with
  | .cancelled _ => []
  | _ => [evFdw r.2.handle]

/-- `RawFutureWrite::poll`: on completion the raw writer is dropped; yields `none` = `Ok(())` or the
value handed back in `Err(FutureWriteError { value })` -/
def futureWritePoll (w : WOp FWSt FWSt) (e : Env) (ans : Nat) : Step (PollR (Option Nat) × WOp FWSt FWSt × Env) :=
  (pollComplete futureWriteOps w e ans).bind fun (r, w1, e1) =>
    match r with
    | .pending => .ok (.pending, w1, e1) []
    | .ready (res, st) =>
      (Step.emit [evFdw st.handle]).bind fun _ =>
        match res with
        | .written => .ok (.ready none, w1, e1) []
        | .dropped v => .ok (.ready (some v), w1, e1) []
        | .cancelled v => .ok (.ready (some v), w1, e1) []

/-- `WaitableOperation::cancel` for a future write, including the writer drop of `result_into_cancel`.
The generic `cancel` applies `intoCancel` to the result of the last `update`; the drop events of that
conversion are recovered from the cancel outcome. -/
def futureWriteCancel (w : WOp FWSt FWSt) (e : Env) (ans : Nat) : Step (FWCancel × WOp FWSt FWSt × Env) :=
  let h : Nat := match w.state with
    | .start s => s.handle
    | .inProgress p => p.handle
    | .done => 0
  (cancel futureWriteOps w e ans).bind fun (c, w1, e1) =>
    match c, w.state with
    | .cancelled _ _, _ => .ok (c, w1, e1) []
    | _, .start _ => .ok (c, w1, e1) []
    | _, _ => .ok (c, w1, e1) [evFdw h]

/-! ## Read -/

structure FRSt where
  c : Nat
  handle : Nat
  slab : Bool
  mem : Option Nat        -- the value the host wrote into the slab
deriving DecidableEq, Repr

/-- `ReadComplete<T>` -/
inductive ReadComplete
  | value (v : Nat) | cancelled
deriving DecidableEq, Repr

/-- `FutureReadOp::in_progress_update` -/
def futureReadUpdate (p : FRSt) (code : Nat) : Step ((ReadComplete × FRSt) ⊕ FRSt) :=
  let freeSlab : List Ev := if p.slab then [Ev.free p.c] else []
  match RetCode.decode code with
  | some .blocked => .ok (.inr p) []
  | some (.cancelled 0) => .ok (.inl (.cancelled, { p with slab := false })) freeSlab
  | some (.completed 0) =>
    match p.mem with
    | some v => .ok (.inl (.value v, { p with slab := false, mem := none })) ([evLi p.c v] ++ freeSlab)
    | none => .panic "lift of a value the host never wrote" []
  | _ => .panic "unexpected code" []

/-- `Cancel = Result<Payload, RawFutureReader>`: `inl v` = `Ok(value)`, `inr h` = `Err(reader)` -/
def futureReadOps : Ops FRSt FRSt (ReadComplete × FRSt) (Nat ⊕ Nat) where
  start s ans := ([.ch .fread [s.handle, ans]], ans, { s with slab := true })
  startCancelled s := ([], .inr s.handle)
  update := futureReadUpdate
  waitable p := some p.handle
  cancel p ans := ([.ch .fcr [p.handle, ans]], ans)
  intoCancel r :=
    match r.1 with
    | .value v => .inl v
    | .cancelled => .inr r.2.handle

/-- `RawFutureRead::poll`: on completion the reader is dropped (`_reader`) -/
def futureReadPoll (w : WOp FRSt FRSt) (e : Env) (ans : Nat) : Step (PollR Nat × WOp FRSt FRSt × Env) :=
  (pollComplete futureReadOps w e ans).bind fun (r, w1, e1) =>
    match r with
    | .pending => .ok (.pending, w1, e1) []
    | .ready (res, st) =>
      match res with
      | .value v => .ok (.ready v, w1, e1) [evFdr st.handle]
      | .cancelled => .panic "cannot poll after cancelling" [evFdr st.handle]

/-- `cancel`, including the reader drop of `result_into_cancel` when the value arrived -/
def futureReadCancel (w : WOp FRSt FRSt) (e : Env) (ans : Nat) : Step ((Nat ⊕ Nat) × WOp FRSt FRSt × Env) :=
  let h : Nat := match w.state with
    | .start s => s.handle
    | .inProgress p => p.handle
    | .done => 0
  (cancel futureReadOps w e ans).bind fun (c, w1, e1) =>
    match c with
    | .inl _ => .ok (c, w1, e1) [evFdr h]
    | .inr _ => .ok (c, w1, e1) []

end Witverif.Async
