import Witverif.Async.Host
import Witverif.Async.FutureOp
/-
One *channel* (a payload stream or future of which the guest holds one end, the host being the peer)
as a labelled transition system: the guest side (`GChan`: the end, the operation future the task body
holds — `RawStreamWrite`, `RawStreamRead`, the `async fn`s `write_all` / `write_one` / `next` /
`collect` with an explicit program counter, the `futures::Stream` adapter, `FutureWrite` / `FutureRead`,
the background `DeferredWrite` — built from the `Ops` records of StreamOp/FutureOp on the generic
`WaitableOperation` machine of Waitable.lean) composed with the host's rule-level state of the end
(`HChan`: `Host.End` + what is in the shared buffers).  Mirrors harness/rt-native/src/chan.rs (guest
side) and chan_host.rs (host side).

Labels carry the host's answers (`poll ans`, `cancel ans`, …): theorems quantify over every answer the
rules of `Host.End` allow; the scripted resolution that picks one is ChanScript.lean.
One step calls at most one answer-consuming built-in: `async fn`s that continue synchronously set
`running`, a dropped `FutureWriter` sets `defer` (the default write starts in the next step).
Import-free.
-/
namespace Witverif.Async
open Witverif.Async.Host (End CopySt)

/-! ## Guest side -/

/-- `write_all` / `write_one`: not yet polled (holds the values), or awaiting a write (`first` = the
write before the `while` loop) -/
inductive AllSt
  | unpolled (items : List Nat)
  | awaiting (first : Bool) (w : WOp WSt WSt)

/-- `next()`: the reader is borrowed (its state travels in `RSt.rd`) -/
inductive NextSt
  | unpolled
  | awaiting (w : WOp RSt RSt)

/-- `collect(self)`: owns the reader -/
inductive CollSt
  | unpolled (rd : Reader)
  | awaiting (w : WOp RSt RSt)

/-- `StreamAdapterState` (futures_stream.rs); `reading` = the boxed `async { reader.next().await }` -/
inductive AdSt
  | idle (rd : Reader)
  | reading (w : WOp RSt RSt)
  | complete

/-- the operation future the task body holds for this channel -/
inductive Act
  | idle
  | swrite (w : WOp WSt WSt)
  | sall (one : Bool) (st : AllSt)
  | sread (w : WOp RSt RSt)
  | snext (st : NextSt)
  | scoll (st : CollSt)
  | adnext
  | fwrite (w : WOp FWSt FWSt)
  | fread (w : WOp FRSt FRSt)

def Act.isNone : Act → Bool
  | .idle => true
  | _ => false

structure GChan where
  c : Nat
  fut : Bool
  gw : Bool
  kind : PKind
  adapter : Bool
  opened : Bool := false
  nextId : Nat := 1
  act : Act := .idle
  kept : Option AbiBuffer := none          -- buffer a completed `write` handed back
  sw : Option Writer := none               -- `StreamWriter`
  sr : Option Reader := none               -- `StreamReader`
  ad : Option AdSt := none                 -- `StreamReaderStream`
  fw : Option Nat := none                  -- `FutureWriter` (its handle; `should_write_default_value` is true)
  fr : Option Nat := none                  -- `FutureReader`
  deferred : Option (WOp FWSt FWSt) := none   -- `DeferredWrite` in flight
  defaults : Nat := 0
  running : Bool := false                  -- the polled `async fn` continues without suspending
  defer : Option (Nat × List Ev) := none   -- a `FutureWriter` is being dropped: (handle, events after the default write started)
  incoming : List Nat := []                -- what the host writes into the buffer of the read this step starts
  esize : Nat := 1                         -- element size of the payload in bytes (`size_of::<T>()`; only `collect`'s vector growth depends on it)

/-- std's `RawVec` amortised growth for `reserve(1)` on a full vector; the minimum non-zero capacity is 8 for
1-byte elements, 4 for elements up to 1024 bytes, else 1 -/
def growCap (esize : Nat) (cap : Nat) : Nat :=
  max (max (2 * cap) (cap + 1)) (if esize == 1 then 8 else if esize ≤ 1024 then 4 else 1)

/-! ## Host side (rule level) -/

structure HChan where
  e : End
  handle : Nat := 0
  gone : Bool := false            -- the guest end was dropped
  window : List Nat := []         -- guest-writer: ids in the guest buffer of the copy in flight
  nextItem : Nat := 1             -- guest-reader: id of the next item the peer writes
  received : List Nat := []       -- guest-writer: what the peer got, in order
  given : List Nat := []          -- guest-reader: what the peer put into guest buffers, in order
  trapped : Bool := false

structure ChanSys where
  g : GChan
  h : HChan
  env : Env

inductive CLabel
  | opn (h1 h2 : Nat)             -- handles the host allocates (writer channel: writable h1, readable h2)
  | write (n : Nat) | resume | intoVec | writeAll (n : Nat) | writeOne
  | read (n : Nat) | next | collect | fut
  | poll (ans : Nat) | cancel (ans : Nat) | dropOp (ans : Nat) | close (explicit : Bool) (ans : Nat)
  | deferStart (ans : Nat)
  | peerXfer (k : Nat) | peerDrop | deliver
deriving DecidableEq, Repr

def evP (c : Nat) (o : PollOut) : Ev := .poll c o
def evSkip (c : Nat) : Ev := .ch .skip [c]
def evXf (c : Nat) (ids : List Nat) : Ev := .ch .xf (c :: ids)
def evTrap (t : Host.ETrap) : Ev := .other ("!trap:" ++ t.name)

/-! ### The host's reaction to the guest's built-in calls

Every event of a guest step passes through the host in order: built-ins change the end's state, may
trap, and a transfer decided by the answer (`COMPLETED|k` at once, a cancel race) is performed — the
`xf` token precedes the built-in's token, as in the harness. -/

def HChan.trap (h : HChan) (t : Host.ETrap) : HChan × List Ev := ({ h with trapped := true }, [evTrap t])

/-- ids the peer moves when `k` items are transferred now (guest-writer: read from the buffer at
`progress`; guest-reader: freshly numbered) -/
def HChan.moveIds (h : HChan) (k : Nat) : List Nat :=
  if h.e.writer then (h.window.drop h.e.progress).take k else List.range' h.nextItem k

def HChan.moved (h : HChan) (ids : List Nat) : HChan :=
  if h.e.writer then { h with received := h.received ++ ids }
  else { h with given := h.given ++ ids, nextItem := h.nextItem + ids.length }

/-- number of items an answer to a copy moves at once -/
def copyMoves (fut : Bool) (ans : Nat) : Option Nat :=
  if ans == Host.BLOCKED then none
  else if Host.codeBase ans == Host.COMPLETED then some (if fut then 1 else Host.codeCount ans)
  else none

/-- number of items a cancel answer moves (only when no event was pending) -/
def cancelMoves (fut : Bool) (e : End) (ans : Nat) : Option Nat :=
  if e.pending.isSome then none
  else if fut then (if Host.codeBase ans == Host.COMPLETED then some 1 else none)
  else if Host.codeCount ans > 0 then some (Host.codeCount ans) else none

def hostCopy (c : Nat) (h : HChan) (n ans : Nat) (tok : Ev) : HChan × List Ev :=
  match h.e.copyTrap with
  | some t => let (h', e) := h.trap t; (h', e ++ [tok])
  | none =>
    let h0 := { h with e := { h.e with progress := 0 } }
    match copyMoves h.e.fut ans with
    | some k =>
      let ids := h0.moveIds k
      ({ (h0.moved ids) with e := h.e.afterCopy n ans }, [evXf c ids, tok])
    | none => ({ h0 with e := h.e.afterCopy n ans }, [tok])

def hostCancel (c : Nat) (h : HChan) (ans : Nat) (tok : Ev) : HChan × List Ev :=
  match h.e.cancelTrap with
  | some t => let (h', e) := h.trap t; (h', e ++ [tok])
  | none =>
    match cancelMoves h.e.fut h.e ans with
    | some k =>
      let ids := h.moveIds k
      ({ (h.moved ids) with e := h.e.afterCancel ans }, [.ch .xfr (c :: ids), tok])
    | none => ({ h with e := h.e.afterCancel ans }, [tok])

def hostDrop (h : HChan) (tok : Ev) : HChan × List Ev :=
  match h.e.dropTrap with
  | some t => let (h', e) := h.trap t; ({ h' with gone := true }, e ++ [tok])
  | none => ({ h with gone := true }, [tok])

/-- one guest event through the host (`c` = channel index, for the `xf` token) -/
def hostApply (c : Nat) (h : HChan) (ev : Ev) : HChan × List Ev :=
  match ev with
  | .ch .swrite [_, n, ans, _] | .ch .sread [_, n, ans, _] => hostCopy c h n ans ev
  | .ch .fwrite [_, ans] | .ch .fread [_, ans] => hostCopy c h 1 ans ev
  | .ch .scw [_, ans] | .ch .scr [_, ans] | .ch .fcw [_, ans] | .ch .fcr [_, ans] => hostCancel c h ans ev
  | .ch .sdw [_] | .ch .sdr [_] | .ch .fdw [_] | .ch .fdr [_] => hostDrop h ev
  | e => (h, [e])

def hostApplyAll (c : Nat) (h : HChan) : List Ev → HChan × List Ev
  | [] => (h, [])
  | e :: es =>
    let (h1, o1) := hostApply c h e
    let (h2, o2) := hostApplyAll c h1 es
    (h2, o1 ++ o2)

/-! ### Shared memory

Before a guest step runs, the part of memory the host is about to touch during that step is made
consistent: the host learns the guest's write window; a reader's `mem` receives the items the host
writes while answering (`COMPLETED|k` at once, a cancel race). -/

/-- the window a write operation exposes (the buffer of the operation that is active / about to
start); `none` = the channel's operation is not a write -/
def Act.window : Act → Option (List Nat)
  | .swrite w => match w.state with
    | .start s => some s.buf.window
    | .inProgress p => some p.buf.window
    | .done => none
  | .sall _ (.awaiting _ w) => match w.state with
    | .start s => some s.buf.window
    | .inProgress p => some p.buf.window
    | .done => none
  | .sall _ (.unpolled items) => some items
  | .fwrite w => match w.state with
    | .start s => some [s.v]
    | .inProgress p => some [p.v]
    | .done => none
  | _ => none

def rstPut (ids : List Nat) (w : WOp RSt RSt) : WOp RSt RSt :=
  match w.state with
  | .start s => { w with state := .start { s with mem := s.mem ++ ids } }
  | .inProgress p => { w with state := .inProgress { p with mem := p.mem ++ ids } }
  | .done => w

def frPut (ids : List Nat) (w : WOp FRSt FRSt) : WOp FRSt FRSt :=
  match ids.head?, w.state with
  | some v, .start s => { w with state := .start { s with mem := some v } }
  | some v, .inProgress p => { w with state := .inProgress { p with mem := some v } }
  | _, _ => w

/-- the host writes `ids` into the buffer of the channel's read operation -/
def GChan.put (g : GChan) (ids : List Nat) : GChan :=
  match g.act with
  | .sread w => { g with act := .sread (rstPut ids w) }
  | .snext (.awaiting w) => { g with act := .snext (.awaiting (rstPut ids w)) }
  | .scoll (.awaiting w) => { g with act := .scoll (.awaiting (rstPut ids w)) }
  | .fread w => { g with act := .fread (frPut ids w) }
  | _ =>
    match g.ad with
    | some (.reading w) => { g with ad := some (.reading (rstPut ids w)) }
    | _ => { g with incoming := ids }      -- the read is created by the step itself (`mkRSt`)

/-- will polling the channel's operation start a copy (call `read`/`write`) in this step? -/
def wopStarting {S P : Type} (w : WOp S P) : Bool :=
  match w.state with
  | .start _ => true
  | _ => false

def GChan.starting (g : GChan) : Bool :=
  match g.act with
  | .idle => false
  | .swrite w => wopStarting w
  | .sall _ (.unpolled _) => true
  | .sall _ (.awaiting _ w) => wopStarting w
  | .sread w => wopStarting w
  | .snext .unpolled => true
  | .snext (.awaiting w) => wopStarting w
  | .scoll (.unpolled _) => true
  | .scoll (.awaiting w) => wopStarting w
  | .adnext =>
    match g.ad with
    | some (.idle _) => true
    | some (.reading w) => wopStarting w
    | _ => false
  | .fwrite w => wopStarting w
  | .fread w => wopStarting w

/-! ### Guest steps -/

def GChan.skip (g : GChan) : Step GChan := .ok g [evSkip g.c]

/-- fresh item ids `nextId, …` -/
def GChan.fresh (g : GChan) (n : Nat) : List Nat × GChan :=
  (List.range' g.nextId n, { g with nextId := g.nextId + n })

def GChan.keptDrop (g : GChan) : List Ev :=
  match g.kept with
  | some b => b.dropEvs
  | none => []

def mkRSt (g : GChan) (rd : Reader) (buf : List Nat) (spare : Nat) : RSt :=
  ⟨g.c, g.kind, buf, spare, false, g.incoming, rd⟩

/-- result tokens -/
def evWres (c : Nat) (r : SRes) (rem : Nat) : Ev := .ch .wres [c, r.nums.1, r.nums.2, rem]
def evRres (c : Nat) (r : SRes) (ids : List Nat) : Ev := .ch .rres ([c, r.nums.1, r.nums.2] ++ ids)

/-- a finished write future handed its result to the body: `(StreamResult, AbiBuffer)` -/
def GChan.writeDone (g : GChan) (res : SRes) (st : WSt) : GChan × List Ev :=
  ({ g with act := .idle, kept := some st.buf, sw := g.sw.map fun _ => st.wr }, [evWres g.c res st.buf.remaining])

def GChan.readDone (g : GChan) (res : SRes) (st : RSt) : GChan × List Ev :=
  ({ g with act := .idle, sr := g.sr.map fun _ => st.rd }, [evRres g.c res st.buf] ++ st.dropVec)

/-- end of `write_all` / `write_one`: `assert!`, `into_vec()`, (`pop()`), the values are dropped by the body -/
def GChan.allFinish (g : GChan) (one : Bool) (status : SRes) (st : WSt) : Step GChan :=
  if st.buf.remaining != 0 && status != .dropped then
    .panic "assert!(buf.remaining() == 0 || matches!(status, StreamResult::Dropped))" []
  else
    let (rest, evs) := st.buf.intoVec
    -- `write_one`: `.pop()` yields the last value, the rest of the vector (nothing for one value) is dropped first
    let (early, res) : List Nat × List Nat := if one then (rest.dropLast, rest.getLast?.toList) else ([], rest)
    .ok { g with act := .idle, running := false, sw := g.sw.map fun _ => st.wr }
      (evs ++ valDrops g.c g.kind early ++ [evP g.c .ready, .ch (if one then .wores else .wares) (g.c :: res)] ++
       valDrops g.c g.kind res)

/-- what `write_all` / `write_one` does after one of its writes completed with `(res, st)`: the `while`
loop goes on with the SAME buffer (`write_buf`) as long as writes complete and something remains;
otherwise the function ends (`allFinish`) -/
def GChan.allAfter (g : GChan) (one first : Bool) (res : SRes) (st : WSt) : Step GChan :=
  let status : SRes := if !first && res == .cancelled then .complete 0 else res
  match status with
  | .complete _ =>
    if st.buf.remaining == 0 then g.allFinish one status st
    else .ok { g with act := .sall one (.awaiting false (WOp.new st)), running := true } []
  | _ => g.allFinish one status st

/-- one `await` point of `write_all` / `write_one` -/
def GChan.pollAll (g : GChan) (e : Env) (one : Bool) (first : Bool) (w : WOp WSt WSt) (ans : Nat) : Step (GChan × Env) :=
  (pollComplete streamWriteOps w e ans).bind fun (r, w1, e1) =>
    match r with
    | .pending => .ok ({ g with act := .sall one (.awaiting first w1), running := false }, e1) [evP g.c .pend]
    | .ready (res, st) =>
      -- the `RawStreamWrite` temporary of the `await` is dropped
      let (e2, tevs) := taskDropEvs w1 e1
      (Step.emit tevs).bind fun _ => (g.allAfter one first res st).bind fun g' => .ok (g', e2) []

/-- end of `next()` (and of the adapter's `async` block around it): `buf.pop()` -/
def popLast (c : Nat) (kind : PKind) (buf : List Nat) : List Ev × List Nat :=
  (valDrops c kind buf.dropLast, buf.getLast?.toList)

def GChan.pollNext (g : GChan) (e : Env) (w : WOp RSt RSt) (ans : Nat) : Step (GChan × Env) :=
  (pollComplete streamReadOps w e ans).bind fun (r, w1, e1) =>
    match r with
    | .pending => .ok ({ g with act := .snext (.awaiting w1) }, e1) [evP g.c .pend]
    | .ready (_, st) =>
      let (e2, tevs) := taskDropEvs w1 e1
      let (early, res) := popLast g.c g.kind st.buf
      .ok ({ g with act := .idle, sr := g.sr.map fun _ => st.rd }, e2)
        (tevs ++ early ++ [evP g.c .ready, .ch .nxres (g.c :: res)] ++ valDrops g.c g.kind res)

/-- the read a `collect` loop iteration starts on `ret` (`reserve(1)` when full) -/
def collRead (g : GChan) (rd : Reader) (ret : List Nat) (spare : Nat) : WOp RSt RSt :=
  let spare' := if spare == 0 then growCap g.esize ret.length - ret.length else spare
  WOp.new (mkRSt g rd ret spare')

def GChan.pollColl (g : GChan) (e : Env) (w : WOp RSt RSt) (ans : Nat) : Step (GChan × Env) :=
  (pollComplete streamReadOps w e ans).bind fun (r, w1, e1) =>
    match r with
    | .pending => .ok ({ g with act := .scoll (.awaiting w1), running := false }, e1) [evP g.c .pend]
    | .ready (res, st) =>
      let (e2, tevs) := taskDropEvs w1 e1
      (Step.emit tevs).bind fun _ =>
        match res with
        | .complete _ =>
          .ok ({ g with act := .scoll (.awaiting (collRead { g with incoming := [] } st.rd st.buf st.spare)), running := true }, e2) []
        | .dropped =>
          .ok ({ g with act := .idle, running := false }, e2)
            ([.ch .sdr [st.rd.handle], evP g.c .ready, .ch .cores (g.c :: st.buf)] ++ valDrops g.c g.kind st.buf)
        | .cancelled => .panic "unreachable!()" []

/-- `poll_next` of the adapter, one `await` point -/
def GChan.pollAd (g : GChan) (e : Env) (w : WOp RSt RSt) (ans : Nat) : Step (GChan × Env) :=
  (pollComplete streamReadOps w e ans).bind fun (r, w1, e1) =>
    match r with
    | .pending => .ok ({ g with ad := some (.reading w1) }, e1) [evP g.c .pend]
    | .ready (_, st) =>
      let (e2, tevs) := taskDropEvs w1 e1
      let (early, res) := popLast g.c g.kind st.buf
      match res with
      | [] =>
        -- `Poll::Ready((_reader, None))`: the reader is dropped, the stream is complete
        .ok ({ g with act := .idle, ad := some .complete }, e2)
          (tevs ++ early ++ [.ch .sdr [st.rd.handle], evP g.c .ready, .ch .nxres [g.c]])
      | _ =>
        .ok ({ g with act := .idle, ad := some (.idle st.rd) }, e2)
          (tevs ++ early ++ [evP g.c .ready, .ch .nxres (g.c :: res)] ++ valDrops g.c g.kind res)

/-- one poll of the channel's operation (one `await` point) -/
def GChan.poll (g : GChan) (e : Env) (ans : Nat) : Step (GChan × Env) :=
  match g.act with
  | .idle => .ok (g, e) [evP g.c .none]
  | .swrite w =>
    (pollComplete streamWriteOps w e ans).bind fun (r, w1, e1) =>
      match r with
      | .pending => .ok ({ g with act := .swrite w1 }, e1) [evP g.c .pend]
      | .ready (res, st) =>
        let (e2, tevs) := taskDropEvs w1 e1
        let (g', revs) := g.writeDone res st
        .ok (g', e2) ([evP g.c .ready] ++ tevs ++ revs)
  | .sall one (.unpolled items) =>
    let wr := g.sw.getD ⟨0, false⟩
    let (buf, levs) := AbiBuffer.new g.c g.kind items
    (Step.emit levs).bind fun _ => g.pollAll e one true (WOp.new ⟨buf, wr⟩) ans
  | .sall one (.awaiting first w) => g.pollAll e one first w ans
  | .sread w =>
    (pollComplete streamReadOps w e ans).bind fun (r, w1, e1) =>
      match r with
      | .pending => .ok ({ g with act := .sread w1 }, e1) [evP g.c .pend]
      | .ready (res, st) =>
        let (e2, tevs) := taskDropEvs w1 e1
        let (g', revs) := g.readDone res st
        .ok (g', e2) ([evP g.c .ready] ++ tevs ++ revs)
  | .snext .unpolled => g.pollNext e (WOp.new (mkRSt g (g.sr.getD ⟨0, false⟩) [] 1)) ans
  | .snext (.awaiting w) => g.pollNext e w ans
  | .scoll (.unpolled rd) => g.pollColl e (collRead g rd [] 0) ans
  | .scoll (.awaiting w) => g.pollColl e w ans
  | .adnext =>
    match g.ad with
    | some (.idle rd) => g.pollAd e (WOp.new (mkRSt g rd [] 1)) ans
    | some (.reading w) => g.pollAd e w ans
    | _ => .ok ({ g with act := .idle }, e) [evP g.c .ready, .ch .nxres [g.c]]
  | .fwrite w =>
    (futureWritePoll w e ans).bind fun (r, w1, e1) =>
      match r with
      | .pending => .ok ({ g with act := .fwrite w1 }, e1) [evP g.c .pend]
      | .ready res =>
        let (e2, tevs) := taskDropEvs w1 e1
        .ok ({ g with act := .idle }, e2)
          ([evP g.c .ready] ++ tevs ++
            (match res with
             | none => [.ch .fwres [g.c, 0]]
             | some v => [.ch .fwres [g.c, 1, v], evVd g.c v]))
  | .fread w =>
    (futureReadPoll w e ans).bind fun (r, w1, e1) =>
      match r with
      | .pending => .ok ({ g with act := .fread w1 }, e1) [evP g.c .pend]
      | .ready v =>
        let (e2, tevs) := taskDropEvs w1 e1
        .ok ({ g with act := .idle }, e2) ([evP g.c .ready] ++ tevs ++ [.ch .frres [g.c, v], evVd g.c v])

/-- `cancel()` of the four cancellable futures -/
def GChan.cancelOp (g : GChan) (e : Env) (ans : Nat) : Step (GChan × Env) :=
  match g.act with
  | .swrite w =>
    (Step.emit [.ch .ix [g.c]]).bind fun _ =>
      (cancel streamWriteOps w e ans).bind fun ((res, st), w1, e1) =>
        let (e2, tevs) := taskDropEvs w1 e1
        let (g', revs) := g.writeDone res st
        .ok (g', e2) (tevs ++ revs)
  | .sread w =>
    (Step.emit [.ch .ix [g.c]]).bind fun _ =>
      (cancel streamReadOps w e ans).bind fun ((res, st), w1, e1) =>
        let (e2, tevs) := taskDropEvs w1 e1
        let (g', revs) := g.readDone res st
        .ok (g', e2) (tevs ++ revs)
  | .fwrite w =>
    (Step.emit [.ch .ix [g.c]]).bind fun _ =>
      (futureWriteCancel w e ans).bind fun (c, w1, e1) =>
        let (e2, tevs) := taskDropEvs w1 e1
        match c with
        | .alreadySent => .ok ({ g with act := .idle }, e2) (tevs ++ [.ch .fwc [g.c, 0]])
        | .dropped v => .ok ({ g with act := .idle }, e2) (tevs ++ [.ch .fwc [g.c, 1, v], evVd g.c v])
        | .cancelled v h => .ok ({ g with act := .idle, fw := some h }, e2) (tevs ++ [.ch .fwc [g.c, 2, v], evVd g.c v])
  | .fread w =>
    (Step.emit [.ch .ix [g.c]]).bind fun _ =>
      (futureReadCancel w e ans).bind fun (c, w1, e1) =>
        let (e2, tevs) := taskDropEvs w1 e1
        match c with
        | .inl v => .ok ({ g with act := .idle }, e2) (tevs ++ [.ch .frc [g.c, 0, v], evVd g.c v])
        | .inr h => .ok ({ g with act := .idle, fr := some h }, e2) (tevs ++ [.ch .frc [g.c, 1]])
  | _ => (g.skip).bind fun g' => .ok (g', e) []

def dropWrite (g : GChan) (e : Env) (w : WOp WSt WSt) (ans : Nat) : Step (GChan × Env) :=
  (dropOpC (cancel streamWriteOps) (fun c => c.2.buf.dropEvs) w e ans).bind fun (c, e1) =>
    .ok ({ g with act := .idle, running := false, sw := match c with
      | some (_, st) => g.sw.map fun _ => st.wr
      | none => g.sw }, e1) []

def dropRead (g : GChan) (e : Env) (w : WOp RSt RSt) (ans : Nat) : Step (Option Reader × Env) :=
  (dropOpC (cancel streamReadOps) (fun c => c.2.dropVec) w e ans).bind fun (c, e1) =>
    .ok (c.map (·.2.rd), e1) []

/-- the body drops the channel's operation future -/
def GChan.dropAct (g : GChan) (e : Env) (ans : Nat) : Step (GChan × Env) :=
  match g.act with
  | .idle => .ok (g, e) []
  | .swrite w => dropWrite g e w ans
  | .sall _ (.unpolled items) => .ok ({ g with act := .idle }, e) (valDrops g.c g.kind items)
  | .sall _ (.awaiting _ w) => dropWrite g e w ans
  | .sread w =>
    (dropRead g e w ans).bind fun (rd, e1) =>
      .ok ({ g with act := .idle, sr := match rd with | some r => g.sr.map fun _ => r | none => g.sr }, e1) []
  | .snext .unpolled => .ok ({ g with act := .idle }, e) []
  | .snext (.awaiting w) =>
    (dropRead g e w ans).bind fun (rd, e1) =>
      .ok ({ g with act := .idle, sr := match rd with | some r => g.sr.map fun _ => r | none => g.sr }, e1) []
  | .scoll (.unpolled rd) => .ok ({ g with act := .idle }, e) [.ch .sdr [rd.handle]]
  | .scoll (.awaiting w) =>
    let h : Nat := match w.state with
      | .start s => s.rd.handle
      | .inProgress p => p.rd.handle
      | .done => 0
    (dropRead g e w ans).bind fun (_, e1) => .ok ({ g with act := .idle, running := false }, e1) [.ch .sdr [h]]
  | .adnext => .ok ({ g with act := .idle }, e) []
  | .fwrite w =>
    -- `impl Drop for FutureWrite`: `cancel()`, the outcome is dropped (a handed-back `FutureWriter` writes the default)
    match w.state with
    | .done => let (e1, tevs) := taskDropEvs w e; .ok ({ g with act := .idle }, e1) tevs
    | _ =>
      (futureWriteCancel w e ans).bind fun (c, w1, e1) =>
        let (e2, tevs) := taskDropEvs w1 e1
        match c with
        | .alreadySent => .ok ({ g with act := .idle }, e2) tevs
        | .dropped v => .ok ({ g with act := .idle }, e2) ([evVd g.c v] ++ tevs)
        | .cancelled v h => .ok ({ g with act := .idle, defer := some (h, tevs) }, e2) [evVd g.c v]
  | .fread w =>
    (dropOpC futureReadCancel (fun c => match c with
        | .inl v => [evVd g.c v]
        | .inr h => [evFdr h]) w e ans).bind fun (_, e1) => .ok ({ g with act := .idle }, e1) []

/-- `e<c>` / end of the body: the operation, the kept buffer, the end(s) -/
def GChan.close (g : GChan) (e : Env) (explicit : Bool) (ans : Nat) : Step (GChan × Env) :=
  let any := !g.act.isNone || g.kept.isSome || g.sw.isSome || g.sr.isSome || g.ad.isSome || g.fw.isSome || g.fr.isSome
  if explicit && !any then (g.skip).bind fun g' => .ok (g', e) []
  else
    (Step.emit ((if explicit then [.ch .ie [g.c]] else []) ++ (if g.act.isNone then [] else [Ev.edrop g.c]))).bind fun _ =>
      (g.dropAct e ans).bind fun (g1, e1) =>
        let kevs := g1.keptDrop
        let swevs : List Ev := match g1.sw with | some w => [.ch .sdw [w.handle]] | none => []
        let srevs : List Ev := match g1.sr with | some r => [.ch .sdr [r.handle]] | none => []
        let g2 := { g1 with kept := none, sw := none, sr := none }
        (Step.emit (kevs ++ swevs ++ srevs)).bind fun _ =>
          -- the adapter: a read in flight is dropped with it, then the reader
          (match g2.ad with
            | some (.idle rd) => Step.ok ({ g2 with ad := none }, e1) [.ch .sdr [rd.handle]]
            | some (.reading w) =>
              let h : Nat := match w.state with
                | .start s => s.rd.handle
                | .inProgress p => p.rd.handle
                | .done => 0
              (dropRead g2 e1 w ans).bind fun (_, e2) => .ok ({ g2 with ad := none }, e2) [.ch .sdr [h]]
            | some .complete => .ok ({ g2 with ad := none }, e1) []
            | none => .ok (g2, e1) []).bind fun (g3, e3) =>
          let g4 : GChan := match g3.fw with
            | some h => { g3 with fw := none, defer := some (h, []) }
            | none => g3
          let frevs : List Ev := match g4.fr with | some h => [evFdr h] | none => []
          .ok ({ g4 with fr := none }, e3) frevs

/-- the default write of a dropped `FutureWriter` starts: `default()`, `write_and_forget` =
`DeferredWrite::wake` polls the write once -/
def GChan.deferStart (g : GChan) (e : Env) (ans : Nat) : Step (GChan × Env) :=
  match g.defer with
  | none => .ok (g, e) []
  | some (h, tail) =>
    let id := 900 + g.defaults
    let g0 := { g with defer := none, defaults := g.defaults + 1 }
    (Step.emit [.ch .defv [g.c, id]]).bind fun _ =>
      (futureWritePoll (WOp.new ⟨g.c, h, id⟩) e ans).bind fun (r, w1, e1) =>
        match r with
        | .pending => .ok ({ g0 with deferred := some w1 }, e1) tail
        | .ready res =>
          let (e2, tevs) := taskDropEvs w1 e1
          .ok (g0, e2) ((match res with | some v => [evVd g.c v] | none => []) ++ tevs ++ tail)

/-- the waitable handle of the operation that is registered (if any) -/
def wopHandle {S P : Type} (f : P → Nat) (w : WOp S P) : Nat :=
  match w.state with
  | .inProgress p => f p
  | _ => 0

/-- the executor calls the registered `cabi_wake`: the code is stored in the operation that waits on
the channel's end; a `DeferredWrite` is its own waker and polls its write at once -/
def GChan.wake (g : GChan) (e : Env) (code : Nat) : Step (GChan × Env) :=
  match g.deferred with
  | some w =>
    (cabiWake w code).bind fun w' =>
      (futureWritePoll w' e 0).bind fun (r, w1, e1) =>
        match r with
        | .pending => .ok ({ g with deferred := some w1 }, e1) []
        | .ready res =>
          let (e2, tevs) := taskDropEvs w1 e1
          .ok ({ g with deferred := none }, e2) ((match res with | some v => [evVd g.c v] | none => []) ++ tevs)
  | none =>
    match g.act with
    | .swrite w => (cabiWake w code).bind fun w' => .ok ({ g with act := .swrite w' }, e) []
    | .sall one (.awaiting f w) => (cabiWake w code).bind fun w' => .ok ({ g with act := .sall one (.awaiting f w') }, e) []
    | .sread w => (cabiWake w code).bind fun w' => .ok ({ g with act := .sread w' }, e) []
    | .snext (.awaiting w) => (cabiWake w code).bind fun w' => .ok ({ g with act := .snext (.awaiting w') }, e) []
    | .scoll (.awaiting w) => (cabiWake w code).bind fun w' => .ok ({ g with act := .scoll (.awaiting w') }, e) []
    | .fwrite w => (cabiWake w code).bind fun w' => .ok ({ g with act := .fwrite w' }, e) []
    | .fread w => (cabiWake w code).bind fun w' => .ok ({ g with act := .fread w' }, e) []
    | _ =>
      match g.ad with
      | some (.reading w) => (cabiWake w code).bind fun w' => .ok ({ g with ad := some (.reading w') }, e) []
      | _ => .panic "delivery to a channel nobody waits on" []

/-! ### The composed step -/

/-- a guest step's result through the host -/
def ChanSys.absorb (s : ChanSys) (r : Step (GChan × Env)) : Step ChanSys :=
  match r with
  | .ok (g, e) evs => let (h, o) := hostApplyAll s.g.c s.h evs; .ok ⟨g, h, e⟩ o
  | .panic m evs => let (_, o) := hostApplyAll s.g.c s.h evs; .panic m o

/-- make the shared memory consistent for a guest step that may call a copy built-in answered `ans` -/
def ChanSys.syncCopy (s : ChanSys) (ans : Nat) : ChanSys :=
  if !s.g.starting then s
  else if s.h.e.writer then
    match s.g.act.window with
    | some win => { s with h := { s.h with window := win } }
    | none => s
  else
    match copyMoves s.h.e.fut ans with
    | some k => { s with g := s.g.put (List.range' s.h.nextItem k) }
    | none => s

def ChanSys.syncCancel (s : ChanSys) (ans : Nat) : ChanSys :=
  if s.h.e.writer || s.h.e.st != .copying then s
  else
    match cancelMoves s.h.e.fut s.h.e ans with
    | some k => { s with g := s.g.put (List.range' s.h.nextItem k) }
    | none => s

def ChanSys.step (s : ChanSys) : CLabel → Step ChanSys
  | .opn h1 h2 =>
    let g := s.g
    if g.opened then s.absorb ((g.skip).bind fun g' => .ok (g', s.env) [])
    else
      let g1 := { g with opened := true }
      match g.fut, g.gw with
      | false, true =>
        .ok ⟨{ g1 with sw := some ⟨h1, false⟩ }, { s.h with handle := h1 }, s.env⟩
          [.ch .opn [g.c], .ch .snew [h1, h2], .ch .moved [h2]]
      | false, false =>
        .ok ⟨(if g.adapter then { g1 with ad := some (.idle ⟨h1, false⟩) } else { g1 with sr := some ⟨h1, false⟩ }),
             { s.h with handle := h1 }, s.env⟩ [.ch .opn [g.c], .ch .given [g.c, h1]]
      | true, true =>
        .ok ⟨{ g1 with fw := some h1 }, { s.h with handle := h1 }, s.env⟩
          [.ch .opn [g.c], .ch .fnew [h1, h2], .ch .moved [h2]]
      | true, false =>
        .ok ⟨{ g1 with fr := some h1 }, { s.h with handle := h1 }, s.env⟩ [.ch .opn [g.c], .ch .given [g.c, h1]]
  | .write n =>
    let g := s.g
    match g.sw with
    | some wr =>
      if !g.act.isNone then s.absorb ((g.skip).bind fun g' => .ok (g', s.env) [])
      else
        let (items, g1) := g.fresh n
        let (buf, levs) := AbiBuffer.new g.c g.kind items
        s.absorb (.ok ({ g1 with kept := none, act := .swrite (WOp.new ⟨buf, wr⟩) }, s.env)
          (g.keptDrop ++ [.ch .iw [g.c, g.nextId, n]] ++ levs))
    | none => s.absorb ((g.skip).bind fun g' => .ok (g', s.env) [])
  | .writeAll n =>
    let g := s.g
    if g.sw.isNone || !g.act.isNone then s.absorb ((g.skip).bind fun g' => .ok (g', s.env) [])
    else
      let (items, g1) := g.fresh n
      s.absorb (.ok ({ g1 with kept := none, act := .sall false (.unpolled items) }, s.env)
        (g.keptDrop ++ [.ch .iwa [g.c, g.nextId, n]]))
  | .writeOne =>
    let g := s.g
    if g.sw.isNone || !g.act.isNone then s.absorb ((g.skip).bind fun g' => .ok (g', s.env) [])
    else
      let (items, g1) := g.fresh 1
      s.absorb (.ok ({ g1 with kept := none, act := .sall true (.unpolled items) }, s.env)
        (g.keptDrop ++ [.ch .iwo [g.c, g.nextId]]))
  | .resume =>
    let g := s.g
    match g.sw, g.kept with
    | some wr, some buf =>
      if !g.act.isNone then s.absorb ((g.skip).bind fun g' => .ok (g', s.env) [])
      else s.absorb (.ok ({ g with kept := none, act := .swrite (WOp.new ⟨buf, wr⟩) }, s.env) [.ch .ib [g.c]])
    | _, _ => s.absorb ((g.skip).bind fun g' => .ok (g', s.env) [])
  | .intoVec =>
    let g := s.g
    match g.kept with
    | some buf =>
      let (rest, evs) := buf.intoVec
      s.absorb (.ok ({ g with kept := none }, s.env)
        ([.ch .iv [g.c]] ++ evs ++ [.ch .ivres (g.c :: rest)] ++ valDrops g.c g.kind rest))
    | none => s.absorb ((g.skip).bind fun g' => .ok (g', s.env) [])
  | .read n =>
    let g := s.g
    match g.sr with
    | some rd =>
      if !g.act.isNone then s.absorb ((g.skip).bind fun g' => .ok (g', s.env) [])
      else s.absorb (.ok ({ g with act := .sread (WOp.new (mkRSt g rd [] n)) }, s.env) [.ch .ir [g.c, n]])
    | none => s.absorb ((g.skip).bind fun g' => .ok (g', s.env) [])
  | .next =>
    let g := s.g
    if !g.act.isNone then s.absorb ((g.skip).bind fun g' => .ok (g', s.env) [])
    else if g.ad.isSome then s.absorb (.ok ({ g with act := .adnext }, s.env) [.ch .inx [g.c]])
    else if g.sr.isSome then s.absorb (.ok ({ g with act := .snext .unpolled }, s.env) [.ch .inx [g.c]])
    else s.absorb ((g.skip).bind fun g' => .ok (g', s.env) [])
  | .collect =>
    let g := s.g
    match g.sr with
    | some rd =>
      if !g.act.isNone then s.absorb ((g.skip).bind fun g' => .ok (g', s.env) [])
      else s.absorb (.ok ({ g with sr := none, act := .scoll (.unpolled rd) }, s.env) [.ch .ico [g.c]])
    | none => s.absorb ((g.skip).bind fun g' => .ok (g', s.env) [])
  | .fut =>
    let g := s.g
    if !g.act.isNone || !g.fut then s.absorb ((g.skip).bind fun g' => .ok (g', s.env) [])
    else if g.gw then
      match g.fw with
      | some h =>
        let (items, g1) := g.fresh 1
        s.absorb (.ok ({ g1 with fw := none, act := .fwrite (WOp.new ⟨g.c, h, items.headD 0⟩) }, s.env) [.ch .ifw [g.c, g.nextId]])
      | none => s.absorb ((g.skip).bind fun g' => .ok (g', s.env) [])
    else
      match g.fr with
      | some h => s.absorb (.ok ({ g with fr := none, act := .fread (WOp.new ⟨g.c, h, false, none⟩) }, s.env) [.ch .ifr [g.c]])
      | none => s.absorb ((g.skip).bind fun g' => .ok (g', s.env) [])
  | .poll ans =>
    let s1 := s.syncCopy ans
    (s1.absorb (s1.g.poll s1.env ans)).bind fun s2 => .ok { s2 with g := { s2.g with incoming := [] } } []
  | .cancel ans => let s1 := s.syncCancel ans; s1.absorb (s1.g.cancelOp s1.env ans)
  | .dropOp ans =>
    let s1 := s.syncCancel ans
    if s1.g.act.isNone then s1.absorb (.ok (s1.g, s1.env) [Ev.dropNone s1.g.c])
    else if (match s1.g.act with | .adnext => true | _ => false) then
      -- the adapter's `Next` future only borrows the adapter: the read lives on inside it
      s1.absorb ((s1.g.skip).bind fun g' => .ok (g', s1.env) [])
    else s1.absorb ((Step.emit [Ev.dropF s1.g.c]).bind fun _ => s1.g.dropAct s1.env ans)
  | .close explicit ans => let s1 := s.syncCancel ans; s1.absorb (s1.g.close s1.env explicit ans)
  | .deferStart ans =>
    let s1 := { s with h := { s.h with window := [900 + s.g.defaults] } }
    s1.absorb (s1.g.deferStart s1.env ans)
  | .peerXfer k =>
    let ids := s.h.moveIds k
    let h1 := { (s.h.moved ids) with e := s.h.e.afterXfer k }
    .ok ⟨(if s.h.e.writer then s.g else s.g.put ids), h1, s.env⟩ [evXf s.g.c ids]
  | .peerDrop =>
    .ok { s with h := { s.h with e := if s.h.e.st == .copying then s.h.e.afterPeerDrop else s.h.e } } [.ch .pd [s.g.c]]
  | .deliver =>
    match s.h.e.takeEvent, s.env.cur with
    | some (code, e'), some _ =>
      -- the task (lowest id first) whose map holds the registration gives it up
      let holder := (s.env.regs.filter (·.2 == s.h.handle)).foldl (fun acc p => match acc with
        | none => some p.1
        | some t => some (min t p.1)) none
      let regs := match holder with
        | some tid => s.env.regs.filter (· != (tid, s.h.handle))
        | none => s.env.regs
      let s1 : ChanSys := ⟨s.g, { s.h with e := e' }, { s.env with regs := regs }⟩
      (Step.emit [Ev.dlv s.h.handle code]).bind fun _ => s1.absorb (s1.g.wake s1.env code)
    | _, _ => .panic "nothing to deliver" []

end Witverif.Async
