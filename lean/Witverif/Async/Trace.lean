import Witverif.Async.ExecTag
import Witverif.Async.ChanTag
/-
Trace events of the async runtime harness (harness/rt-native, engine `script`): one constructor
per token the harness can write.  The runtime models (`Waitable`, `Subtask`, `Script`) *emit*
`Ev`s, the spec monitors *read* `Ev`s parsed from the implementation's trace; `toTok`/`ofTok` are
the two directions of the line protocol (README.md of the harness lists the tokens).
Import-free.
-/
namespace Witverif.Async

inductive PollOut | pend | ready | none
deriving DecidableEq, Repr

inductive CbCode | exit | yield | wait (set : Nat)
deriving DecidableEq, Repr

inductive Ev
  -- body / script level
  | newCall (k : Nat) | newSkip (k : Nat)
  | poll (k : Nat) (o : PollOut)
  | dropF (k : Nat) | dropNone (k : Nat) | edrop (k : Nat)
  | suspend | yieldNow | fin | taskCancel | woken | abort | panic
  | setTask (n : Nat) | setTaskSkip (n : Nat)
  -- `Subtask` trait callbacks (instrumented implementation) and ledger
  | lower (k : Nat) | callImport (k st h : Nat)
  | deallocLists (k : Nat) | deallocListsOwn (k : Nat) | lift (k : Nat)
  | free (k : Nat) | rdrop (k : Nat) | pdrop (k : Nat)
  -- canonical built-ins answered by the mock host
  | cancel (h ret : Nat) | subDrop (h : Nat)
  | setNew (s : Nat) | setDrop (s : Nat) | join (w s : Nat)
  | setWait (s e w c : Nat) | setPoll (s e w c : Nat)
  | ctxGet (nonnull : Bool) | ctxSet (nonnull : Bool)
  -- `wasip3_task` C ABI calls into the executor
  | reg (t w : Nat) (prev : Bool) | unreg (t w : Nat) (prev : Bool) | clone (t : Nat) | tdrop (t : Nat)
  -- host / executor actions
  | adv (k s : Nat) | advSkip (k : Nat) | dlv (h c : Nat) | dlvSkip (k : Nat)
  | evStart | evCb (e w c : Nat) | cb (c : CbCode)
  -- end of script: leaked blocks (none = unknown after a panic), allocator contract errors
  | endTok (leak : Option Int) (errs : Nat)
  -- anything else (ledger anomalies `…!reason`, host traps `!trap:…`)
  | other (s : String)
  -- tokens of engine `exec` (C22/C23): executor, spawn, wakers, unit stream — see ExecTag.lean
  | x (t : XTag) (ns : List Nat)
  -- tokens of engine `chan` (C19/C20): stream / future operations, payload callbacks, peer — see ChanTag.lean
  | ch (t : CTag) (ns : List Nat)
deriving DecidableEq, Repr

def b01 (b : Bool) : String := if b then "1" else "0"

def Ev.toTok : Ev → String
  | .newCall k => s!"new{k}" | .newSkip k => s!"new{k}:skip"
  | .poll k .pend => s!"P{k}=pend" | .poll k .ready => s!"P{k}=ready" | .poll k .none => s!"P{k}=none"
  | .dropF k => s!"drop{k}" | .dropNone k => s!"drop{k}:none" | .edrop k => s!"edrop{k}"
  | .suspend => "w" | .yieldNow => "y" | .fin => "fin" | .taskCancel => "X" | .woken => "woken" | .abort => "abort" | .panic => "panic"
  | .setTask n => s!"task{n}" | .setTaskSkip n => s!"task{n}:skip"
  | .lower k => s!"lower{k}" | .callImport k st h => s!"call{k}={st}:{h}"
  | .deallocLists k => s!"dl{k}" | .deallocListsOwn k => s!"dlo{k}" | .lift k => s!"lift{k}"
  | .free k => s!"free{k}" | .rdrop k => s!"rdrop{k}" | .pdrop k => s!"pdrop{k}"
  | .cancel h r => s!"cancel({h})={r}" | .subDrop h => s!"sdrop({h})"
  | .setNew s => s!"ws.new={s}" | .setDrop s => s!"ws.drop({s})" | .join w s => s!"join({w},{s})"
  | .setWait s e w c => s!"ws.wait({s})={e}:{w}:{c}" | .setPoll s e w c => s!"ws.poll({s})={e}:{w}:{c}"
  | .ctxGet b => if b then "ctx.get=p" else "ctx.get=0" | .ctxSet b => if b then "ctx.set(p)" else "ctx.set(0)"
  | .reg t w p => s!"reg({t},{w})={b01 p}" | .unreg t w p => s!"unreg({t},{w})={b01 p}"
  | .clone t => s!"clone({t})" | .tdrop t => s!"tdrop({t})"
  | .adv k s => s!"adv{k}:{s}" | .advSkip k => s!"adv{k}:skip" | .dlv h c => s!"dlv({h},{c})" | .dlvSkip k => s!"dlv{k}:skip"
  | .evStart => "ev(start)" | .evCb e w c => s!"ev({e},{w},{c})"
  | .cb .exit => "cb=exit" | .cb .yield => "cb=yield" | .cb (.wait s) => s!"cb=wait:{s}"
  | .endTok none errs => s!"end:?:{errs}" | .endTok (some l) errs => s!"end:{l}:{errs}"
  | .other s => s
  | .x t ns => t.fmt ns
  | .ch t ns => t.fmt ns

/-! ### Parsing a token back (total: what is not recognised becomes `.other`) -/

def isDigit (c : Char) : Bool := '0' ≤ c && c ≤ '9'

/-- leading name: characters up to the first digit, `(`, `=` or `:` -/
def splitName : List Char → List Char × List Char
  | [] => ([], [])
  | c :: cs =>
    if isDigit c || c == '(' || c == '=' || c == ':' then ([], c :: cs)
    else let (a, b) := splitName cs; (c :: a, b)

/-- all maximal digit runs, in order -/
def digitRuns : List Char → Option Nat → List Nat
  | [], none => []
  | [], some n => [n]
  | c :: cs, acc =>
    if isDigit c then digitRuns cs (some (acc.getD 0 * 10 + (c.toNat - 48)))
    else match acc with
      | none => digitRuns cs none
      | some n => n :: digitRuns cs none

def endsWith (s suf : List Char) : Bool := s.reverse.take suf.length == suf.reverse

def Ev.ofTok (tok : String) : Ev :=
  let cs := tok.toList
  if cs.contains '!' then .other tok else
  let (name, rest) := splitName cs
  let nums := digitRuns rest none
  let nm := String.ofList name
  let rs := String.ofList rest
  let r : Option Ev :=
    match nm, nums with
    | "new", [k] => if rs == s!"{k}" then some (.newCall k) else if endsWith rest ":skip".toList then some (.newSkip k) else none
    | "P", [k] =>
      if endsWith rest "=pend".toList then some (.poll k .pend)
      else if endsWith rest "=ready".toList then some (.poll k .ready)
      else if endsWith rest "=none".toList then some (.poll k .none) else none
    | "drop", [k] => if rs == s!"{k}" then some (.dropF k) else if endsWith rest ":none".toList then some (.dropNone k) else none
    | "edrop", [k] => some (.edrop k)
    | "w", [] => if rest.isEmpty then some .suspend else none
    | "y", [] => if rest.isEmpty then some .yieldNow else none
    | "fin", [] => some .fin
    | "X", [] => some .taskCancel
    | "woken", [] => some .woken
    | "abort", [] => some .abort
    | "panic", [] => some .panic
    | "task", [n] => if rs == s!"{n}" then some (.setTask n) else if endsWith rest ":skip".toList then some (.setTaskSkip n) else none
    | "lower", [k] => some (.lower k)
    | "call", [k, st, h] => some (.callImport k st h)
    | "dl", [k] => some (.deallocLists k)
    | "dlo", [k] => some (.deallocListsOwn k)
    | "lift", [k] => some (.lift k)
    | "free", [k] => some (.free k)
    | "rdrop", [k] => some (.rdrop k)
    | "pdrop", [k] => some (.pdrop k)
    | "cancel", [h, r] => some (.cancel h r)
    | "sdrop", [h] => some (.subDrop h)
    | "ws.new", [s] => some (.setNew s)
    | "ws.drop", [s] => some (.setDrop s)
    | "join", [w, s] => some (.join w s)
    | "ws.wait", [s, e, w, c] => some (.setWait s e w c)
    | "ws.poll", [s, e, w, c] => some (.setPoll s e w c)
    | "ctx.get", [0] => some (.ctxGet false)
    | "ctx.get", [] => if rs == "=p" then some (.ctxGet true) else none
    | "ctx.set", [0] => some (.ctxSet false)
    | "ctx.set", [] => if rs == "(p)" then some (.ctxSet true) else none
    | "reg", [t, w, p] => some (.reg t w (p != 0))
    | "unreg", [t, w, p] => some (.unreg t w (p != 0))
    | "clone", [t] => some (.clone t)
    | "tdrop", [t] => some (.tdrop t)
    | "adv", [k, s] => some (.adv k s)
    | "adv", [k] => if endsWith rest ":skip".toList then some (.advSkip k) else none
    | "dlv", [h, c] => if rest.head? == some '(' then some (.dlv h c) else none
    | "dlv", [k] => if endsWith rest ":skip".toList then some (.dlvSkip k) else none
    | "ev", [] => if rs == "(start)" then some .evStart else none
    | "ev", [e, w, c] => some (.evCb e w c)
    | "cb", [] => if rs == "=exit" then some (.cb .exit) else if rs == "=yield" then some (.cb .yield) else none
    | "cb", [s] => if rs == s!"=wait:{s}" then some (.cb (.wait s)) else none
    | "end", [errs] => if rs == s!":?:{errs}" then some (.endTok none errs) else none
    | "end", [l, errs] =>
      if rs == s!":{l}:{errs}" then some (.endTok (some (Int.ofNat l)) errs)
      else if rs == s!":-{l}:{errs}" then some (.endTok (some (-(Int.ofNat l))) errs) else none
    | _, _ =>
      ((XTag.parse nm nums rs).map fun (t, ns) => Ev.x t ns).orElse fun _ =>
        (CTag.parse nm nums).map fun (t, ns) => Ev.ch t ns
  -- accept only tokens that print back to themselves (round-trip guard of the protocol)
  match r with
  | some e => if e.toTok == tok then e else .other tok
  | none => .other tok

def parseTrace (line : String) : List Ev := ((line.splitOn " ").filter (· ≠ "")).map Ev.ofTok
def showTrace (evs : List Ev) : String := " ".intercalate (evs.map Ev.toTok)

end Witverif.Async
