import Witverif.Abi.Spec
/-
Host side of the native runs of generated C bindings (C10, C11): the canonical ABI of `Spec.lean`
acts as the component-model host.  `Spec.lowerFlat` / `Spec.store` produce core values and a
memory image in *model* addresses; the C process lives at other addresses, so the image travels
as a list of blocks plus the positions that hold pointers (`ptrSlots`, `flatPtrs`), and the
harness relocates.  Nothing here mentions the generator (spec side).  Import-free apart from Spec.
-/
namespace Witverif.Abi.CHost
open Witverif.Abi Witverif.Abi.Spec

/-- concatenate `f a` over `n` consecutive elements of size `sz` -/
def manyAt (f : Nat → List Nat) (sz a : Nat) : Nat → List Nat
  | 0 => []
  | n + 1 => f a ++ manyAt f sz (a + sz) n

mutual
/-- addresses (model space) of every pointer-typed slot reachable from a value of type `t` stored
at `a`: the `ptr` word of each string / list / map, recursively through list elements -/
def ptrSlots (p : Nat) (m : Mem) : Ty → Nat → List Nat
  | .string, a => [a]
  | .list e, a =>
      a :: manyAt (ptrSlots p m e) (elemSize p e) (m.loadLE a p) (m.loadLE (a + p) p)
  | .map k v, a =>
      let ptr := m.loadLE a p
      let n := m.loadLE (a + p) p
      let esz := elemSize p (.tuple [k, v])
      let vo := alignTo (elemSize p k) (alignment p v)
      a :: (manyAt (ptrSlots p m k) esz ptr n ++ manyAt (ptrSlots p m v) esz (ptr + vo) n)
  | .flist e n, a => manyAt (ptrSlots p m e) (elemSize p e) a n
  | .record fs, a => ptrSlotsFields p m fs a 0
  | .tuple ts, a => ptrSlotsFields p m ts a 0
  | .variant cs, a =>
      let tag := discriminant cs.length
      ptrSlotsCase p m cs (m.loadLE a tag.size) (a + payloadOffset p tag cs)
  | .option t, a =>
      if m.loadLE a 1 == 1 then ptrSlots p m t (a + payloadOffset p .u8 [none, some t]) else []
  | .result ok err, a =>
      let po := a + payloadOffset p .u8 [ok, err]
      if m.loadLE a 1 == 0 then ptrSlotsOpt p m ok po else ptrSlotsOpt p m err po
  | _, _ => []
def ptrSlotsFields (p : Nat) (m : Mem) : List Ty → Nat → Nat → List Nat
  | [], _, _ => []
  | t :: ts, a, cur =>
      let o := alignTo cur (alignment p t)
      ptrSlots p m t (a + o) ++ ptrSlotsFields p m ts a (o + elemSize p t)
def ptrSlotsOpt (p : Nat) (m : Mem) : Option Ty → Nat → List Nat
  | none, _ => []
  | some t, a => ptrSlots p m t a
def ptrSlotsCase (p : Nat) (m : Mem) : List (Option Ty) → Nat → Nat → List Nat
  | [], _, _ => []
  | c :: _, 0, a => ptrSlotsOpt p m c a
  | _ :: cs, i + 1, a => ptrSlotsCase p m cs i a
end

def padTo (xs : List Bool) (n : Nat) : List Bool := xs ++ List.replicate (n - xs.length) false

mutual
/-- which of the flat core values of `lowerFlat p t v` are pointers (aligned with `Spec.flatten p t`) -/
def flatPtrs (p : Nat) : Ty → Val → List Bool
  | .string, _ | .list _, _ | .map _ _, _ => [true, false]
  | .flist e _, .list vs => flatPtrsAll p e vs
  | .record fs, .record vs => flatPtrsFields p fs vs
  | .tuple ts, .record vs => flatPtrsFields p ts vs
  | .variant cs, .variant i pv =>
      false :: padTo (match cs[i]? with
        | some c => flatPtrsOpt p c pv
        | none => []) (Spec.flattenCases p cs).length
  | .option t, .variant _ pv =>
      false :: padTo (match pv with
        | some v => flatPtrs p t v
        | none => []) (Spec.flatten p t).length
  | .result ok err, .variant i pv =>
      false :: padTo (if i = 0 then flatPtrsOpt p ok pv else flatPtrsOpt p err pv)
        (Spec.joinFlat (Spec.flattenOpt p ok) (Spec.flattenOpt p err)).length
  | t, _ => List.replicate (Spec.flatten p t).length false
def flatPtrsAll (p : Nat) : Ty → List Val → List Bool
  | _, [] => []
  | t, v :: vs => flatPtrs p t v ++ flatPtrsAll p t vs
def flatPtrsFields (p : Nat) : List Ty → List Val → List Bool
  | t :: ts, v :: vs => flatPtrs p t v ++ flatPtrsFields p ts vs
  | _, _ => []
def flatPtrsOpt (p : Nat) : Option Ty → Option Val → List Bool
  | some t, some v => flatPtrs p t v
  | _, _ => []
end

/-- one block of the image: address, size, alignment, bytes -/
structure Block where
  addr : Nat
  size : Nat
  align : Nat
  bytes : List Nat
deriving Repr

def blocksOf (st : St) : List Block :=
  st.heap.blocks.reverse.map fun (a, sz, al) => ⟨a, sz, al, loadBytes st.mem a sz⟩

/-- result of asking the host to encode a value -/
structure Image where
  flat : List CVal            -- core values (flat mode) or `[address of the area]` (memory mode)
  flatPtr : List Bool         -- which of them are pointers
  blocks : List Block         -- allocation order; in memory mode the first block is the area itself
  slots : List Nat            -- model addresses of pointer slots inside the blocks
deriving Repr

/-- `n` chunks of `k` core values walked with `f` -/
def manyFlat (f : List CVal → List Nat) (k : Nat) : Nat → List CVal → List Nat
  | 0, _ => []
  | n + 1, vs => f (vs.take k) ++ manyFlat f k n (vs.drop k)

mutual
/-- pointer slots *inside the buffers* referenced by flat core values of type `t` (same shape as
`Spec.liftFlat`): the flat pointers themselves are reported by `flatPtrs` -/
def flatSlots (p : Nat) (m : Mem) : Ty → List CVal → List Nat
  | .list e, [a, n] => manyAt (ptrSlots p m e) (elemSize p e) a.bits n.bits
  | .map k v, [a, n] =>
      let esz := elemSize p (.tuple [k, v])
      let vo := alignTo (elemSize p k) (alignment p v)
      manyAt (ptrSlots p m k) esz a.bits n.bits ++ manyAt (ptrSlots p m v) esz (a.bits + vo) n.bits
  | .flist e n, vs => manyFlat (flatSlots p m e) (Spec.flatten p e).length n vs
  | .record fs, vs => flatSlotsFields p m fs vs
  | .tuple ts, vs => flatSlotsFields p m ts vs
  | .variant cs, d :: vs => flatSlotsCase p m cs d.bits vs
  | .option t, d :: vs => if d.bits == 1 then flatSlots p m t (coerceBack vs (Spec.flatten p t)) else []
  | .result ok err, d :: vs => if d.bits == 0 then flatSlotsOpt p m ok vs else flatSlotsOpt p m err vs
  | _, _ => []
def flatSlotsFields (p : Nat) (m : Mem) : List Ty → List CVal → List Nat
  | [], _ => []
  | t :: ts, vs =>
      let k := (Spec.flatten p t).length
      flatSlots p m t (vs.take k) ++ flatSlotsFields p m ts (vs.drop k)
def flatSlotsOpt (p : Nat) (m : Mem) : Option Ty → List CVal → List Nat
  | none, _ => []
  | some t, vs => flatSlots p m t (coerceBack vs (Spec.flatten p t))
def flatSlotsCase (p : Nat) (m : Mem) : List (Option Ty) → Nat → List CVal → List Nat
  | [], _, _ => []
  | c :: _, 0, vs => flatSlotsOpt p m c vs
  | _ :: cs, i + 1, vs => flatSlotsCase p m cs i vs
end

/-- the host lowers `v : t` to flat core values (`lower_flat`) -/
def encodeFlat (p : Nat) (t : Ty) (v : Val) : Image :=
  let (cs, st) := lowerFlat p t v {}
  ⟨cs, flatPtrs p t v, blocksOf st, flatSlots p st.mem t cs⟩

/-- the host stores `v : t` into a fresh area (`store`), as for indirect parameters / results -/
def encodeMem (p : Nat) (t : Ty) (v : Val) : Image :=
  let (area, heap) := ({} : Heap).alloc (elemSize p t) (alignment p t)
  let st := store p t v area { mem := [], heap }
  ⟨[pcv p area], [true], blocksOf st, ptrSlots p st.mem t area⟩

/-- build a memory from dumped blocks `(addr, bytes)` -/
def memOf (blocks : List (Nat × List Nat)) : Mem :=
  blocks.foldl (fun m (a, bs) => storeBytes m a bs) []

/-- the host lifts what the guest produced -/
def decodeFlat (p : Nat) (t : Ty) (bits : List Nat) (m : Mem) : Option Val :=
  let tys := Spec.flatten p t
  if tys.length != bits.length then none
  else liftFlat p m t (List.zipWith (fun ty b => ⟨ty, b % 2 ^ ty.width⟩) tys bits)

def decodeMem (p : Nat) (t : Ty) (addr : Nat) (m : Mem) : Option Val :=
  if addr % alignment p t != 0 then none else load p m t addr

end Witverif.Abi.CHost
