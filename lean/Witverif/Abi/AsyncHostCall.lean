import Witverif.Abi.HostCall
/-
The component-model host at *function* granularity for the ASYNC calling conventions (spec side of
C08).  CanonicalABI.md `flatten_functype` with `opts.async_`:

* `canon lower … async`  (the guest calls an imported function through `[async-lower]f`):
  at most MAX_FLAT_ASYNC_PARAMS = 4 flat parameters, otherwise ONE pointer to the parameter tuple
  in linear memory; a function with a result additionally passes ONE pointer to where the host
  `store`s the result when the callee returns; the core function returns a packed status.
* `canon lift … async` (the host calls an exported function through `[async-lift]f`): parameters
  as for a synchronous lift (MAX_FLAT_PARAMS = 16, else a `realloc`-allocated tuple); the result
  travels as the PARAMETERS of `task.return` (again MAX_FLAT_PARAMS = 16, else one pointer).

Also here: what the canonical ABI requires of the memory an async-lowered call hands to the host
(`areaOk`) — the host `load`s the parameter tuple at the parameter pointer when the callee STARTS and
`store`s the result at the result pointer when it RETURNS, so both regions have to be aligned, in
bounds of the guest's allocation, and must not overlap.
Nothing here mentions the generator or the Rust backend.  Import-free apart from the spec.
-/
namespace Witverif.Abi.AsyncHost
open Witverif.Abi Witverif.Abi.Spec Witverif.Abi.CHost Witverif.Abi.HostCall

def maxFlatAsyncParams : Nat := 4

/-- `canon lower async`: do the parameters travel through memory? -/
def paramsIndirect (p : Nat) (ps : List Ty) : Bool :=
  decide ((Spec.flatten p (paramsTy ps)).length > maxFlatAsyncParams)

/-- guest → host: the arguments of an async-lowered import call (`bits` = the core arguments without
the result pointer) -/
def liftArgs (p : Nat) (ps : List Ty) (bits : List Nat) (m : Mem) : Option Val :=
  if paramsIndirect p ps then
    match bits with
    | [a] => decodeMem p (paramsTy ps) a m
    | _ => none
  else decodeFlat p (paramsTy ps) bits m

/-- host → guest: the result of an async-lowered import call is always `store`d (first block of the
image = the result area, which the harness places at the pointer the guest passed) -/
def lowerResult (p : Nat) (r : Ty) (v : Val) : Image := encodeMem p r v

/-- `task.return`: does the result travel through memory? -/
def taskReturnIndirect (p : Nat) (r : Ty) : Bool :=
  decide ((Spec.flatten p r).length > HostCall.maxFlatParams)

/-- guest → host: the operands of `task.return` -/
def liftTaskReturn (p : Nat) (r : Ty) (bits : List Nat) (m : Mem) : Option Val :=
  if taskReturnIndirect p r then
    match bits with
    | [a] => decodeMem p r a m
    | _ => none
  else decodeFlat p r bits m

/-- memory read by lifting the arguments of an async-lowered call -/
def readsArgs (p : Nat) (ps : List Ty) (bits : List Nat) (m : Mem) : List (Nat × Nat × Nat) :=
  reads p (paramsIndirect p ps) (paramsTy ps) bits m

def readsTaskReturn (p : Nat) (r : Ty) (bits : List Nat) (m : Mem) : List (Nat × Nat × Nat) :=
  reads p (taskReturnIndirect p r) r bits m

/-! ### the parameter / result area of an async-lowered call

The guest passes `base` (when the parameters are indirect) and `base + roff` (when there is a result)
out of ONE allocation `(size, align)` at `base` (`align ∣ base`).  The requirements below are what
makes the host's `load (tuple ps) base` at STARTED and `store r (base + roff)` at RETURNED legal and
independent of each other. -/

/-- end of the last byte the host reads when loading the parameter tuple (fields only: padding is
never read) -/
def paramsExtent (p : Nat) (ps : List Ty) : Nat := recordEnd p 0 ps

def areaOk (p : Nat) (ps : List Ty) (r : Option Ty) (size align roff : Nat) : Bool :=
  let ind := paramsIndirect p ps
  -- the parameter pointer is `base`: aligned for the tuple, the whole tuple in bounds
  (!ind || (align % alignment p (paramsTy ps) == 0 && elemSize p (paramsTy ps) ≤ size)) &&
  (match r with
   | none => true
   | some t =>
     -- the result pointer `base + roff`: aligned, in bounds, after every byte of the parameters
     align % alignment p t == 0 && roff % alignment p t == 0 && roff + elemSize p t ≤ size &&
     (!ind || paramsExtent p ps ≤ roff)) &&
  decide (0 < align)

end Witverif.Abi.AsyncHost
