import Witverif.Abi.Gen
/-
C13, specification side: the *legacy* core-name mangling of the component model, transcribed from
wit-parser 0.257 (`Resolve::wasm_import_name`, `Resolve::wasm_export_name` with
`ManglingAndAbi::Legacy(..)`, `Function::task_return_import`, `Function::find_futures_and_streams`,
`Resolve::name_world_key` / `id_of_name`, `ast/resolve.rs` for `[method]…` function names) and the
core signatures `wit_component::dummy_module` attaches to these names (`Resolve::wasm_signature`,
already modelled as `wasmSignature` in `Abi/Gen.lean`, plus the fixed intrinsic signatures).

Nothing in this file mentions a binding generator.  The tie to the real wit-parser /
wit-component is the correspondence run of `./check C13` (every labelled entry produced by
`Spec.entries` is compared with what wit-parser computes for the same world item; the set
`Spec.allImports/allExports` is compared with the parsed dummy modules).

Import-free apart from `Abi/*`.
-/
namespace Witverif.Abi.Names

/-! ### worlds, abstractly -/

/-- `ns:pkg/iface@ver` -/
structure IfaceId where
  ns : String
  pkg : String
  iface : String
  ver : Option String
deriving Repr, DecidableEq

/-- `Option<&WorldKey>`: `root` = `None` (world-level function / type), `name` = `WorldKey::Name`
(inline interface), `id` = `WorldKey::Interface`. -/
inductive Key where
  | root
  | name (s : String)
  | id (i : IfaceId)
deriving Repr, DecidableEq

/-- `Resolve::id_of_name` -/
def IfaceId.str (i : IfaceId) : String :=
  i.ns ++ ":" ++ i.pkg ++ "/" ++ i.iface ++ (match i.ver with | some v => "@" ++ v | none => "")

/-- `Resolve::name_world_key` (for a present key); `None` has no name. -/
def Key.worldKey : Key → Option String
  | .root => none
  | .name s => some s
  | .id i => some i.str

inductive FKind where
  | free | method | static | ctor
deriving Repr, DecidableEq

/-- A WIT function as the name mangling sees it.  `sel` is the *configuration*: whether the
generator was asked (`--async` filter / the WIT `async` keyword) to bind this function
asynchronously in the direction at hand.  `sig.params` includes `self` for methods. -/
structure Fn where
  kind : FKind
  res : String
  item : String
  witAsync : Bool
  sel : Bool
  sig : Func
  /-- wit-parser type ids of the payload sites (`find_futures_and_streams`), used by generators
  that de-duplicate per type; not used by the specification -/
  tids : List Nat := []
deriving Repr

/-- `Function::name` as built by wit-parser's `resolve_resource_func` / `resolve_function`. -/
def Fn.name (f : Fn) : String :=
  match f.kind with
  | .free => f.item
  | .method => "[method]" ++ f.res ++ "." ++ f.item
  | .static => "[static]" ++ f.res ++ "." ++ f.item
  | .ctor => "[constructor]" ++ f.res

structure Iface where
  key : Key
  funcs : List Fn
  res : List String
deriving Repr

inductive Item where
  | iface (i : Iface)
  | func (f : Fn)
  | rtype (r : String)      -- world-level `use`d / defined resource type
  | other                   -- world-level non-resource type
deriving Repr

structure World where
  imports : List Item
  exports : List Item
deriving Repr

/-! ### payload sites: `Function::find_futures_and_streams` -/

/-- a payload site: `stream<…>` or `future<…>`, with or without payload type -/
structure Site where
  stream : Bool
  unit : Bool
deriving Repr, DecidableEq

mutual
/-- depth-first, payload before the future/stream itself -/
def sitesTy : Ty → List Site
  | .list e => sitesTy e
  | .flist e _ => sitesTy e
  | .option e => sitesTy e
  | .map k v => sitesTy k ++ sitesTy v
  | .record fs => sitesTys fs
  | .tuple ts => sitesTys ts
  | .variant cs => sitesOptTys cs
  | .result a b => sitesOpt a ++ sitesOpt b
  | .future p => sitesOpt p ++ [⟨false, p.isNone⟩]
  | .stream p => sitesOpt p ++ [⟨true, p.isNone⟩]
  | .bool | .s8 | .u8 | .s16 | .u16 | .s32 | .u32 | .s64 | .u64 | .f32 | .f64 | .char | .string
  | .errctx | .flags _ | .enum _ | .own | .borrow => []
def sitesTys : List Ty → List Site
  | [] => []
  | t :: ts => sitesTy t ++ sitesTys ts
def sitesOpt : Option Ty → List Site
  | none => []
  | some t => sitesTy t
def sitesOptTys : List (Option Ty) → List Site
  | [] => []
  | t :: ts => sitesOpt t ++ sitesOptTys ts
end

def Fn.sites (f : Fn) : List Site := sitesTys f.sig.params ++ sitesOpt f.sig.result

/-! ### core declarations -/

/-- wasm32 core type of a wit-parser `WasmType` -/
def CoreTy.wasm32 : CoreTy → CoreTy
  | .ptr | .len => .i32
  | .p64 => .i64
  | t => t

def norm (ts : List CoreTy) : List CoreTy := ts.map CoreTy.wasm32

structure Imp where
  module : String
  name : String
  params : List CoreTy
  results : List CoreTy
deriving Repr, DecidableEq

structure Exp where
  name : String
  params : List CoreTy
  results : List CoreTy
deriving Repr, DecidableEq

/-- wit-parser `LiftLowerAbi` -/
inductive LLAbi where
  | sync | asyncCallback | asyncStackful
deriving Repr, DecidableEq

def LLAbi.importPrefix : LLAbi → String
  | .sync => ""
  | _ => "[async-lower]"
def LLAbi.exportPrefix : LLAbi → String
  | .sync => ""
  | .asyncCallback => "[async-lift]"
  | .asyncStackful => "[async-lift-stackful]"
def LLAbi.importVariant : LLAbi → Variant
  | .sync => .guestImport
  | _ => .guestImportAsync
def LLAbi.exportVariant : LLAbi → Variant
  | .sync => .guestExport
  | .asyncCallback => .guestExportAsync
  | .asyncStackful => .guestExportAsyncStackful

inductive ResIntr where
  | importedDrop | exportedDrop | exportedNew | exportedRep
deriving Repr, DecidableEq

inductive FsOp where
  | new | read | write | cancelRead | cancelWrite | dropReadable | dropWritable
deriving Repr, DecidableEq

/-- the `N` / `unit` of `[future-new-N]f` -/
inductive FsIdx where
  | idx (n : Nat)
  | unit
deriving Repr, DecidableEq

inductive ExpKind where
  | normal | postReturn | callback
deriving Repr, DecidableEq

def FsOp.str : FsOp → String
  | .new => "new" | .read => "read" | .write => "write"
  | .cancelRead => "cancel-read" | .cancelWrite => "cancel-write"
  | .dropReadable => "drop-readable" | .dropWritable => "drop-writable"

/-- ops that may carry `[async-lower]` (wit-parser asserts `!async_` for the others) -/
def FsOp.mayAsync : FsOp → Bool
  | .read | .write | .cancelRead | .cancelWrite => true
  | _ => false

def FsIdx.str : FsIdx → String
  | .idx n => toString n
  | .unit => "unit"

namespace Spec

/-- `match interface { Some(key) => name_world_key(key), None => "$root" }` -/
def moduleOf (k : Key) : String :=
  match k.worldKey with
  | some s => s
  | none => "$root"

/-- `WasmImport::Func` -/
def funcImport (abi : LLAbi) (k : Key) (f : Fn) : Imp :=
  let s := wasmSignature abi.importVariant f.sig
  ⟨moduleOf k, abi.importPrefix ++ f.name, norm s.params, norm s.results⟩

/-- `WasmImport::ResourceIntrinsic`; `none` where wit-parser `assert_eq!(prefix, "")` fails.
Signatures as in `dummy_module`. -/
def resourceIntrinsic (abi : LLAbi) (k : Key) (r : String) (i : ResIntr) : Option Imp :=
  let (pfx, nm, ps, rs) : String × String × List CoreTy × List CoreTy :=
    match i with
    | .importedDrop => ("", "[resource-drop]" ++ r, [.i32], [])
    | .exportedDrop => ("[export]", "[resource-drop]" ++ r, [.i32], [])
    | .exportedNew => ("[export]", "[resource-new]" ++ r, [.i32], [.i32])
    | .exportedRep => ("[export]", "[resource-rep]" ++ r, [.i32], [.i32])
  match k.worldKey with
  | some s => some ⟨pfx ++ s, abi.importPrefix ++ nm, ps, rs⟩
  | none => if pfx = "" then some ⟨"$root", abi.importPrefix ++ nm, ps, rs⟩ else none

def fsSig (stream : Bool) : FsOp → List CoreTy × List CoreTy
  | .new => ([], [.i64])
  | .read | .write => (if stream then [.i32, .i32, .i32] else [.i32, .i32], [.i32])
  | .cancelRead | .cancelWrite => ([.i32], [.i32])
  | .dropReadable | .dropWritable => ([.i32], [])

/-- `WasmImport::FutureIntrinsic` / `StreamIntrinsic` for function name `fname`. -/
def fsIntrinsic (k : Key) (fname : String) (stream : Bool) (ix : FsIdx) (op : FsOp)
    (exported async : Bool) : Option Imp :=
  if async && !op.mayAsync then none else
  let pfx := if exported then "[export]" else ""
  let kind := if stream then "stream" else "future"
  let sg := fsSig stream op
  some ⟨pfx ++ moduleOf k,
        (if async then "[async-lower]" else "") ++ "[" ++ kind ++ "-" ++ op.str ++ "-" ++ ix.str ++ "]" ++ fname,
        sg.1, sg.2⟩

/-- is `ix` a payload site of `f` of the right kind (wit-component `prefixed_payload`:
`find_futures_and_streams(..).get(N)`, or the `unit` payload) -/
def siteOk (f : Fn) (stream : Bool) : FsIdx → Bool
  | .unit => true
  | .idx n => (f.sites[n]?.map Site.stream) == some stream

/-- `if let Some(interface) = interface { name.push_str(&name_world_key(interface)); name.push_str("#") }
name.push_str(&func.name)` -/
def exportTail (k : Key) (f : Fn) : String :=
  (match k.worldKey with | some s => s ++ "#" | none => "") ++ f.name

/-- `WasmExport::Func`; `none` where wit-parser asserts (callback needs `AsyncCallback`). -/
def funcExport (abi : LLAbi) (k : Key) (f : Fn) (kind : ExpKind) : Option Exp :=
  let tail := exportTail k f
  match kind with
  | .normal =>
      let s := wasmSignature abi.exportVariant f.sig
      some ⟨abi.exportPrefix ++ tail, norm s.params, norm s.results⟩
  | .postReturn =>
      let s := wasmSignature abi.exportVariant f.sig
      some ⟨abi.exportPrefix ++ "cabi_post_" ++ tail, norm s.results, []⟩
  | .callback =>
      if abi = .asyncCallback then
        some ⟨"[callback]" ++ abi.exportPrefix ++ tail, [.i32, .i32, .i32], [.i32]⟩
      else none

/-- `WasmExport::ResourceDtor` (the interface key is mandatory in wit-parser's type). -/
def dtor (abi : LLAbi) (k : Key) (r : String) : Option Exp :=
  match k.worldKey with
  | some s => some ⟨abi.exportPrefix ++ s ++ "#[dtor]" ++ r, [.i32], []⟩
  | none => none

/-- `Function::task_return_import` -/
def taskReturn (k : Key) (f : Fn) : Imp :=
  let s := wasmSignature .guestImport ⟨f.sig.isMethod, f.sig.result.toList, none⟩
  ⟨"[export]" ++ moduleOf k, "[task-return]" ++ f.name, norm s.params, norm s.results⟩

def realloc : Exp := ⟨"cabi_realloc", [.i32, .i32, .i32, .i32], [.i32]⟩
def initExport : Exp := ⟨"_initialize", [], []⟩
def memoryName : String := "memory"

/-- world-independent built-ins of the legacy scheme with the signatures `dummy_module` gives them
(`push_root_async_intrinsics`, including the ones it lists as deferred) -/
def fixedBuiltins : List Imp := [
  ⟨"[export]$root", "[task-cancel]", [], []⟩,
  ⟨"$root", "[backpressure-inc]", [], []⟩,
  ⟨"$root", "[backpressure-dec]", [], []⟩,
  ⟨"$root", "[waitable-set-new]", [], [.i32]⟩,
  ⟨"$root", "[waitable-set-wait]", [.i32, .i32], [.i32]⟩,
  ⟨"$root", "[waitable-set-poll]", [.i32, .i32], [.i32]⟩,
  ⟨"$root", "[waitable-set-drop]", [.i32], []⟩,
  ⟨"$root", "[waitable-join]", [.i32, .i32], []⟩,
  ⟨"$root", "[thread-yield]", [], [.i32]⟩,
  ⟨"$root", "[subtask-drop]", [.i32], []⟩,
  ⟨"$root", "[subtask-cancel]", [.i32], [.i32]⟩,
  ⟨"$root", "[async-lower][subtask-cancel]", [.i32], [.i32]⟩,
  ⟨"$root", "[context-get-0]", [], [.i32]⟩,
  ⟨"$root", "[context-set-0]", [.i32], []⟩,
  ⟨"$root", "[context-get-1]", [], [.i32]⟩,
  ⟨"$root", "[context-set-1]", [.i32], []⟩,
  ⟨"$root", "[cancellable][waitable-set-wait]", [.i32, .i32], [.i32]⟩,
  ⟨"$root", "[cancellable][waitable-set-poll]", [.i32, .i32], [.i32]⟩,
  ⟨"$root", "[cancellable][thread-yield]", [], [.i32]⟩,
  ⟨"$root", "[error-context-new-utf8]", [.i32, .i32], [.i32]⟩,
  ⟨"$root", "[error-context-new-utf16]", [.i32, .i32], [.i32]⟩,
  ⟨"$root", "[error-context-new-latin1+utf16]", [.i32, .i32], [.i32]⟩,
  ⟨"$root", "[error-context-debug-message-utf8]", [.i32, .i32], []⟩,
  ⟨"$root", "[error-context-debug-message-utf16]", [.i32, .i32], []⟩,
  ⟨"$root", "[error-context-debug-message-latin1+utf16]", [.i32, .i32], []⟩,
  ⟨"$root", "[error-context-drop]", [.i32], []⟩
]

/-! ### the complete sets of a world -/

def allOps : List FsOp := [.new, .read, .write, .cancelRead, .cancelWrite, .dropReadable, .dropWritable]

/-- `[stream-new-unit]` … with no function name: wit-component's `prefixed_payload` does not look
the function up for the `unit` payload, so these are world-independent too -/
def unitBuiltins : List Imp :=
  [false, true].flatMap fun s =>
    allOps.flatMap fun op =>
      (fsIntrinsic .root "" s .unit op false false).toList ++
      (fsIntrinsic .root "" s .unit op false true).toList

def rootBuiltins : List Imp := fixedBuiltins ++ unitBuiltins

/-- every future/stream intrinsic the world assigns to function `f` (all site indices of the
right kind, the `unit` payload, sync and async-lowered forms) -/
def fsAll (k : Key) (f : Fn) (exported : Bool) : List Imp :=
  let idxs : List (Bool × FsIdx) :=
    (f.sites.zipIdx.map fun (s, i) => (s.stream, FsIdx.idx i)) ++ [(false, .unit), (true, .unit)]
  idxs.flatMap fun (s, ix) =>
    allOps.flatMap fun op =>
      (fsIntrinsic k f.name s ix op exported false).toList ++
      (fsIntrinsic k f.name s ix op exported true).toList

/-- The async ABI may only be used for functions whose *type* is async (wasmparser 0.257:
"the `async` canonical option requires an async function type"; `ManglingAndAbi::for_func` in
wit-parser forces the sync ABI for the others).  The sync ABI is available for every function. -/
def abiAllowed (f : Fn) (abi : LLAbi) : Bool := abi == .sync || f.witAsync

def importsOfFn (k : Key) (f : Fn) : List Imp :=
  [funcImport .sync k f] ++ (if f.witAsync then [funcImport .asyncCallback k f] else []) ++ fsAll k f false

/-- (`task.return` itself carries no `async` option: `dummy_module` imports it for every exported
function as soon as the ABI is async, and the encoder accepts it) -/
def importsOfExportedFn (k : Key) (f : Fn) : List Imp :=
  taskReturn k f :: fsAll k f true

def importsOfItem : Item → List Imp
  | .iface i =>
      i.funcs.flatMap (importsOfFn i.key) ++
      i.res.flatMap fun r => (resourceIntrinsic .sync i.key r .importedDrop).toList
  | .func f => importsOfFn .root f
  | .rtype r =>
      (resourceIntrinsic .sync .root r .importedDrop).toList ++
      -- wit-parser cannot name it (`assert_eq!(prefix, "")`), but wit-component resolves
      -- `[export]$root` `[resource-drop]r` against the world's own resource types and accepts it
      [⟨"[export]$root", "[resource-drop]" ++ r, [.i32], []⟩]
  | .other => []

def importsOfExportItem : Item → List Imp
  | .iface i =>
      i.funcs.flatMap (importsOfExportedFn i.key) ++
      i.res.flatMap fun r =>
        (resourceIntrinsic .sync i.key r .exportedDrop).toList ++
        (resourceIntrinsic .sync i.key r .exportedNew).toList ++
        (resourceIntrinsic .sync i.key r .exportedRep).toList
  | .func f => importsOfExportedFn .root f
  | _ => []

/-- every core import the legacy scheme assigns to an item of the world (any ABI choice) -/
def allImports (w : World) : List Imp :=
  w.imports.flatMap importsOfItem ++ w.exports.flatMap importsOfExportItem ++ rootBuiltins

def exportsOfFn (k : Key) (f : Fn) : List Exp :=
  (funcExport .sync k f .normal).toList ++ (funcExport .sync k f .postReturn).toList ++
  (if f.witAsync then
    (funcExport .asyncCallback k f .normal).toList ++ (funcExport .asyncCallback k f .callback).toList ++
    (funcExport .asyncStackful k f .normal).toList
   else [])

def exportsOfItem : Item → List Exp
  | .iface i =>
      i.funcs.flatMap (exportsOfFn i.key) ++
      i.res.flatMap fun r =>
        -- wit-component strips `[async-lift]` / `[async-lift-stackful]` before matching a destructor
        (dtor .sync i.key r).toList ++ (dtor .asyncCallback i.key r).toList ++ (dtor .asyncStackful i.key r).toList
  | .func f => exportsOfFn .root f
  | _ => []

/-- every core function export the legacy scheme recognises for the world -/
def allExports (w : World) : List Exp :=
  w.exports.flatMap exportsOfItem ++ [realloc, initExport]

/-- the ABI a configuration selects for a function (generators only produce the callback form) -/
def abiOf (f : Fn) : LLAbi := if f.sel then .asyncCallback else .sync

def requiredOfFn (k : Key) (f : Fn) : List Exp :=
  (funcExport (abiOf f) k f .normal).toList ++
  (if f.sel then (funcExport .asyncCallback k f .callback).toList else [])

def requiredOfItem : Item → List Exp
  | .iface i => i.funcs.flatMap (requiredOfFn i.key)
  | .func f => requiredOfFn .root f
  | _ => []

/-- the exports a component built for `w` under the configuration cannot do without -/
def requiredExports (w : World) : List Exp := w.exports.flatMap requiredOfItem

end Spec

end Witverif.Abi.Names
