import Witverif.Abi.Layout
/-
The Component Model canonical ABI (CanonicalABI.md: `despecialize`, `flatten_type`, `join`,
`lower_flat`, `lift_flat`, `store`, `load`), transcribed as total executable functions
parameterised by the pointer width `p` (4 = the published wasm32 ABI, 8 = the wasm64 layout that
wit-parser's `ArchitectureSize`/`Alignment::Pointer` intends).  This file is the *specification
side*: nothing here mentions the generator.

Values: integers as mathematical `Int`/`Nat` with a typing predicate, floats as raw bit patterns
(NaN payloads are preserved: stronger than the spec's "any NaN"), strings as UTF-8 bytes.
-/
namespace Witverif.Abi

/-- interface-level values -/
inductive Val where
  | bool (b : Bool)
  | int (n : Int)                 -- s8 … u64
  | f32 (bits : Nat)
  | f64 (bits : Nat)
  | char (c : Nat)
  | str (bytes : List Nat)        -- UTF-8
  | list (vs : List Val)          -- list, fixed-length list, map (entries = `record [k, v]`)
  | record (vs : List Val)        -- record, tuple
  | flags (bs : List Bool)
  | variant (case : Nat) (payload : Option Val)   -- variant, option (0 = none), result (0 = ok)
  | enum (case : Nat)
  | handle (h : Nat)              -- own, borrow, future, stream, error-context
deriving Repr, Inhabited, BEq

/-- core wasm value types of the published ABI -/
inductive FT where
  | i32 | i64 | f32 | f64
deriving Repr, DecidableEq, Inhabited

/-- a core wasm value: its type and its bit pattern (`bits < 2^width`) -/
structure CVal where
  ty : FT
  bits : Nat
deriving Repr, DecidableEq, Inhabited, BEq

def FT.width : FT → Nat
  | .i32 | .f32 => 32
  | .i64 | .f64 => 64

def ptrFT (p : Nat) : FT := if p = 8 then .i64 else .i32

/-- forget wit-parser's provenance refinement -/
def CoreTy.erase (p : Nat) : CoreTy → FT
  | .i32 => .i32 | .i64 => .i64 | .f32 => .f32 | .f64 => .f64
  | .ptr | .len => ptrFT p
  | .p64 => .i64

namespace Spec

/-- spec `join` -/
def join (a b : FT) : FT :=
  if a = b then a
  else if (a = .i32 ∧ b = .f32) ∨ (a = .f32 ∧ b = .i32) then .i32
  else .i64

def joinFlat : List FT → List FT → List FT
  | [], bs => bs
  | as, [] => as
  | a :: as, b :: bs => join a b :: joinFlat as bs

def rep (f : List FT) : Nat → List FT
  | 0 => []
  | n + 1 => f ++ rep f n

mutual
/-- spec `flatten_type` -/
def flatten (p : Nat) : Ty → List FT
  | .bool | .s8 | .u8 | .s16 | .u16 | .s32 | .u32 | .char | .errctx => [.i32]
  | .s64 | .u64 => [.i64]
  | .f32 => [.f32]
  | .f64 => [.f64]
  | .string | .list _ | .map _ _ => [ptrFT p, ptrFT p]
  | .flist e n => rep (flatten p e) n
  | .record fs => flattenList p fs
  | .tuple ts => flattenList p ts
  | .flags n => List.replicate (flagsRepr n).count .i32
  | .enum _ => [.i32]
  | .variant cs => .i32 :: flattenCases p cs
  | .option t => .i32 :: flatten p t
  | .result a b => .i32 :: joinFlat (flattenOpt p a) (flattenOpt p b)
  | .own | .borrow | .future _ | .stream _ => [.i32]
def flattenList (p : Nat) : List Ty → List FT
  | [] => []
  | t :: ts => flatten p t ++ flattenList p ts
def flattenOpt (p : Nat) : Option Ty → List FT
  | none => []
  | some t => flatten p t
def flattenCases (p : Nat) : List (Option Ty) → List FT
  | [] => []
  | c :: cs => joinFlat (flattenOpt p c) (flattenCases p cs)
end

/-! ### scalar conversions (spec `lower_flat_*` / `lift_flat_*`) -/

def wrap (w : Nat) (n : Int) : Nat := (n % (2 ^ w : Nat)).toNat

/-- two's complement interpretation of the low `w` bits -/
def signed (w : Nat) (n : Nat) : Int :=
  let m := n % 2 ^ w
  if m < 2 ^ (w - 1) then (m : Int) else (m : Int) - (2 ^ w : Nat)

def isChar (c : Nat) : Bool := c < 0xD800 || (0xDFFF < c && c < 0x110000)

/-! ### typing -/

def intRange : Ty → Option (Int × Int)
  | .s8 => some (-128, 127) | .u8 => some (0, 255)
  | .s16 => some (-32768, 32767) | .u16 => some (0, 65535)
  | .s32 => some (-2147483648, 2147483647) | .u32 => some (0, 4294967295)
  | .s64 => some (-9223372036854775808, 9223372036854775807) | .u64 => some (0, 18446744073709551615)
  | _ => none

mutual
/-- `v` is a value of type `t` -/
def hasTy : Ty → Val → Bool
  | .bool, .bool _ => true
  | .s8, .int n => -128 ≤ n && n ≤ 127
  | .u8, .int n => 0 ≤ n && n ≤ 255
  | .s16, .int n => -32768 ≤ n && n ≤ 32767
  | .u16, .int n => 0 ≤ n && n ≤ 65535
  | .s32, .int n => -2147483648 ≤ n && n ≤ 2147483647
  | .u32, .int n => 0 ≤ n && n ≤ 4294967295
  | .s64, .int n => -9223372036854775808 ≤ n && n ≤ 9223372036854775807
  | .u64, .int n => 0 ≤ n && n ≤ 18446744073709551615
  | .f32, .f32 b => b < 2 ^ 32
  | .f64, .f64 b => b < 2 ^ 64
  | .char, .char c => isChar c
  | .string, .str bs => bs.all (· < 256)
  | .errctx, .handle h => h < 2 ^ 32
  | .list e, .list vs => hasTyAll e vs
  | .flist e n, .list vs => vs.length == n && hasTyAll e vs
  | .map k v, .list vs => hasTyEntries k v vs
  | .record fs, .record vs => hasTys fs vs
  | .tuple ts, .record vs => hasTys ts vs
  | .flags n, .flags bs => bs.length == n
  | .enum n, .enum i => i < n
  | .variant cs, .variant i pv => match cs[i]? with
    | some c => hasTyOpt c pv
    | none => false
  | .option _, .variant 0 none => true
  | .option t, .variant 1 (some v) => hasTy t v
  | .result a _, .variant 0 pv => hasTyOpt a pv
  | .result _ b, .variant 1 pv => hasTyOpt b pv
  | .own, .handle h | .borrow, .handle h | .future _, .handle h | .stream _, .handle h => h < 2 ^ 32
  | _, _ => false
def hasTyAll : Ty → List Val → Bool
  | _, [] => true
  | t, v :: vs => hasTy t v && hasTyAll t vs
def hasTyEntries : Ty → Ty → List Val → Bool
  | _, _, [] => true
  | k, v, .record [a, b] :: vs => hasTy k a && hasTy v b && hasTyEntries k v vs
  | _, _, _ => false
def hasTys : List Ty → List Val → Bool
  | [], [] => true
  | t :: ts, v :: vs => hasTy t v && hasTys ts vs
  | _, _ => false
def hasTyOpt : Option Ty → Option Val → Bool
  | none, none => true
  | some t, some v => hasTy t v
  | _, _ => false
end

/-! ### memory -/

/-- linear memory as an association list (latest write first); unwritten bytes read as 0 -/
abbrev Mem := List (Nat × Nat)

def Mem.read (m : Mem) (a : Nat) : Nat :=
  match m.find? (·.1 == a) with
  | some (_, b) => b % 256      -- a byte, whatever the list holds
  | none => 0

def Mem.write (m : Mem) (a : Nat) (b : Nat) : Mem := (a, b % 256) :: m

/-- little-endian store of the low `n` bytes of `v` -/
def Mem.storeLE (m : Mem) (a : Nat) (v : Nat) : Nat → Mem
  | 0 => m
  | n + 1 => (m.write a (v % 256)).storeLE (a + 1) (v / 256) n

def Mem.loadLE (m : Mem) (a : Nat) : Nat → Nat
  | 0 => 0
  | n + 1 => m.read a + 256 * m.loadLE (a + 1) n

/-- bump allocator: next free address (never 0), and the blocks handed out so far -/
structure Heap where
  next : Nat := 16
  blocks : List (Nat × Nat × Nat) := []     -- (addr, size, align)
deriving Repr, Inhabited

/-- `realloc(0, 0, align, size)` of ONE fixed bump allocator (not an arbitrary allocator oracle): the
next aligned address; every request — zero-sized ones too — is recorded in the ledger of blocks. -/
def Heap.alloc (h : Heap) (size align : Nat) : Nat × Heap :=
  let a := alignTo h.next (Nat.max align 1)
  (a, { next := a + size, blocks := (a, size, align) :: h.blocks })

structure St where
  mem : Mem := []
  heap : Heap := {}
deriving Inhabited

def storeBytes (m : Mem) (a : Nat) : List Nat → Mem
  | [] => m
  | b :: bs => storeBytes (m.write a b) (a + 1) bs

def flagsWord (bs : List Bool) (w : Nat) : Nat :=
  ((List.range 32).map fun i => if (bs.getD (32 * w + i) false) then 2 ^ i else 0).sum

def flagsOfWords (n : Nat) (ws : List Nat) : List Bool :=
  (List.range n).map fun i => (ws.getD (i / 32) 0 / 2 ^ (i % 32)) % 2 == 1

mutual
/-- spec `store(v, t, ptr)` -/
def store (p : Nat) : Ty → Val → Nat → St → St
  | .bool, .bool b, a, s => { s with mem := s.mem.storeLE a (if b then 1 else 0) 1 }
  | .s8, .int n, a, s | .u8, .int n, a, s => { s with mem := s.mem.storeLE a (wrap 8 n) 1 }
  | .s16, .int n, a, s | .u16, .int n, a, s => { s with mem := s.mem.storeLE a (wrap 16 n) 2 }
  | .s32, .int n, a, s | .u32, .int n, a, s => { s with mem := s.mem.storeLE a (wrap 32 n) 4 }
  | .s64, .int n, a, s | .u64, .int n, a, s => { s with mem := s.mem.storeLE a (wrap 64 n) 8 }
  | .f32, .f32 b, a, s => { s with mem := s.mem.storeLE a b 4 }
  | .f64, .f64 b, a, s => { s with mem := s.mem.storeLE a b 8 }
  | .char, .char c, a, s => { s with mem := s.mem.storeLE a c 4 }
  | .string, .str bs, a, s =>
      let (ptr, heap) := s.heap.alloc bs.length 1
      let mem := storeBytes s.mem ptr bs
      { mem := (mem.storeLE a ptr p).storeLE (a + p) bs.length p, heap }
  | .list e, .list vs, a, s =>
      let (ptr, heap) := s.heap.alloc (vs.length * elemSize p e) (alignment p e)
      let s := storeElems p e vs ptr { s with heap }
      { s with mem := (s.mem.storeLE a ptr p).storeLE (a + p) vs.length p }
  | .map k v, .list vs, a, s =>
      let et := Ty.tuple [k, v]
      let (ptr, heap) := s.heap.alloc (vs.length * elemSize p et) (alignment p et)
      let s := storeEntries p k v vs ptr { s with heap }
      { s with mem := (s.mem.storeLE a ptr p).storeLE (a + p) vs.length p }
  | .flist e _, .list vs, a, s => storeElems p e vs a s
  | .record fs, .record vs, a, s => storeFields p fs vs a 0 s
  | .tuple ts, .record vs, a, s => storeFields p ts vs a 0 s
  | .flags n, .flags bs, a, s =>
      match flagsRepr n with
      | .u8 => { s with mem := s.mem.storeLE a (flagsWord bs 0) 1 }
      | .u16 => { s with mem := s.mem.storeLE a (flagsWord bs 0) 2 }
      | .u32 k => { s with mem := (List.range k).foldl (fun m w => m.storeLE (a + 4 * w) (flagsWord bs w) 4) s.mem }
  | .enum n, .enum i, a, s => { s with mem := s.mem.storeLE a i (discriminant n).size }
  | .variant cs, .variant i pv, a, s =>
      let tag := discriminant cs.length
      let s := { s with mem := s.mem.storeLE a i tag.size }
      match cs[i]? with
      | some c => storeOpt p c pv (a + payloadOffset p tag cs) s
      | none => s
  | .option t, .variant i pv, a, s =>
      let s := { s with mem := s.mem.storeLE a i 1 }
      match pv with
      | some v => store p t v (a + payloadOffset p .u8 [none, some t]) s
      | none => s
  | .result ok err, .variant i pv, a, s =>
      let s := { s with mem := s.mem.storeLE a i 1 }
      let po := a + payloadOffset p .u8 [ok, err]
      if i = 0 then storeOpt p ok pv po s else storeOpt p err pv po s
  | .own, .handle h, a, s | .borrow, .handle h, a, s | .future _, .handle h, a, s
  | .stream _, .handle h, a, s | .errctx, .handle h, a, s => { s with mem := s.mem.storeLE a h 4 }
  | _, _, _, s => s
def storeElems (p : Nat) : Ty → List Val → Nat → St → St
  | _, [], _, s => s
  | t, v :: vs, a, s => storeElems p t vs (a + elemSize p t) (store p t v a s)
def storeEntries (p : Nat) : Ty → Ty → List Val → Nat → St → St
  | k, v, .record [x, y] :: vs, a, s =>
      let s := store p k x a s
      let s := store p v y (a + alignTo (elemSize p k) (alignment p v)) s
      storeEntries p k v vs (a + elemSize p (.tuple [k, v])) s
  | _, _, _, _, s => s
def storeFields (p : Nat) : List Ty → List Val → Nat → Nat → St → St
  | t :: ts, v :: vs, a, cur, s =>
      let o := alignTo cur (alignment p t)
      storeFields p ts vs a (o + elemSize p t) (store p t v (a + o) s)
  | _, _, _, _, s => s
def storeOpt (p : Nat) : Option Ty → Option Val → Nat → St → St
  | some t, some v, a, s => store p t v a s
  | _, _, _, s => s
end

def pcv (p : Nat) (v : Nat) : CVal := ⟨ptrFT p, v⟩
def ci32 (v : Nat) : CVal := ⟨.i32, v⟩

/-- spec coercion of one lowered payload slot into the joined slot type -/
def coerceSlot (have_ want : FT) (v : CVal) : CVal :=
  ⟨want, if have_.width = 32 ∧ want.width = 64 then v.bits % 2 ^ 32 else v.bits⟩

/-- payload slots coerced to the joined types, then zero padding (`lower_flat_variant`) -/
def coercePayload : List CVal → List FT → List CVal
  | v :: vs, w :: ws => coerceSlot v.ty w v :: coercePayload vs ws
  | [], ws => ws.map fun w => ⟨w, 0⟩
  | _, [] => []

mutual
/-- spec `lower_flat(v, t)`; strings/lists allocate and store (`lower_flat_string/list`) -/
def lowerFlat (p : Nat) : Ty → Val → St → List CVal × St
  | .bool, .bool b, s => ([ci32 (if b then 1 else 0)], s)
  | .s8, .int n, s | .u8, .int n, s | .s16, .int n, s | .u16, .int n, s | .s32, .int n, s
  | .u32, .int n, s => ([ci32 (wrap 32 n)], s)
  | .s64, .int n, s | .u64, .int n, s => ([⟨.i64, wrap 64 n⟩], s)
  | .f32, .f32 b, s => ([⟨.f32, b⟩], s)
  | .f64, .f64 b, s => ([⟨.f64, b⟩], s)
  | .char, .char c, s => ([ci32 c], s)
  | .string, .str bs, s =>
      let (ptr, heap) := s.heap.alloc bs.length 1
      ([pcv p ptr, pcv p bs.length], { mem := storeBytes s.mem ptr bs, heap })
  | .list e, .list vs, s =>
      let (ptr, heap) := s.heap.alloc (vs.length * elemSize p e) (alignment p e)
      ([pcv p ptr, pcv p vs.length], storeElems p e vs ptr { s with heap })
  | .map k v, .list vs, s =>
      let et := Ty.tuple [k, v]
      let (ptr, heap) := s.heap.alloc (vs.length * elemSize p et) (alignment p et)
      ([pcv p ptr, pcv p vs.length], storeEntries p k v vs ptr { s with heap })
  | .flist e _, .list vs, s => lowerAll p e vs s
  | .record fs, .record vs, s => lowerFields p fs vs s
  | .tuple ts, .record vs, s => lowerFields p ts vs s
  | .flags n, .flags bs, s => ((List.range (flagsRepr n).count).map fun w => ci32 (flagsWord bs w), s)
  | .enum _, .enum i, s => ([ci32 i], s)
  | .variant cs, .variant i pv, s =>
      let (payload, s) := match cs[i]? with
        | some c => lowerOpt p c pv s
        | none => ([], s)
      (ci32 i :: coercePayload payload (flattenCases p cs), s)
  | .option t, .variant i pv, s =>
      match pv with
      | some v =>
          let (payload, s) := lowerFlat p t v s
          (ci32 i :: coercePayload payload (flatten p t), s)
      | none => (ci32 i :: coercePayload [] (flatten p t), s)
  | .result ok err, .variant i pv, s =>
      let (payload, s) := if i = 0 then lowerOpt p ok pv s else lowerOpt p err pv s
      (ci32 i :: coercePayload payload (joinFlat (flattenOpt p ok) (flattenOpt p err)), s)
  | .own, .handle h, s | .borrow, .handle h, s | .future _, .handle h, s | .stream _, .handle h, s
  | .errctx, .handle h, s => ([ci32 h], s)
  | _, _, s => ([], s)
def lowerAll (p : Nat) : Ty → List Val → St → List CVal × St
  | _, [], s => ([], s)
  | t, v :: vs, s =>
      let (a, s) := lowerFlat p t v s
      let (b, s) := lowerAll p t vs s
      (a ++ b, s)
def lowerFields (p : Nat) : List Ty → List Val → St → List CVal × St
  | t :: ts, v :: vs, s =>
      let (a, s) := lowerFlat p t v s
      let (b, s) := lowerFields p ts vs s
      (a ++ b, s)
  | _, _, s => ([], s)
def lowerOpt (p : Nat) : Option Ty → Option Val → St → List CVal × St
  | some t, some v, s => lowerFlat p t v s
  | _, _, s => ([], s)
end

/-! ### lifting (partial: `none` = trap) -/

def loadBytes (m : Mem) (a : Nat) : Nat → List Nat
  | 0 => []
  | n + 1 => m.read a :: loadBytes m (a + 1) n

/-- `n` consecutive elements of size `sz` read with `f` -/
def loadMany (f : Nat → Option Val) (sz : Nat) (a : Nat) : Nat → Option (List Val)
  | 0 => some []
  | n + 1 => do
      let v ← f a
      let vs ← loadMany f sz (a + sz) n
      pure (v :: vs)

/-- `n` consecutive map entries (key at 0, value at `vo`, entry size `sz`) -/
def loadManyEntries (fk fv : Nat → Option Val) (vo sz : Nat) (a : Nat) : Nat → Option (List Val)
  | 0 => some []
  | n + 1 => do
      let x ← fk a
      let y ← fv (a + vo)
      let rest ← loadManyEntries fk fv vo sz (a + sz) n
      pure (.record [x, y] :: rest)

mutual
/-- spec `load(t, ptr)` -/
def load (p : Nat) (m : Mem) : Ty → Nat → Option Val
  | .bool, a => some (.bool (m.loadLE a 1 != 0))
  | .u8, a => some (.int (m.loadLE a 1))
  | .s8, a => some (.int (signed 8 (m.loadLE a 1)))
  | .u16, a => some (.int (m.loadLE a 2))
  | .s16, a => some (.int (signed 16 (m.loadLE a 2)))
  | .u32, a => some (.int (m.loadLE a 4))
  | .s32, a => some (.int (signed 32 (m.loadLE a 4)))
  | .u64, a => some (.int (m.loadLE a 8))
  | .s64, a => some (.int (signed 64 (m.loadLE a 8)))
  | .f32, a => some (.f32 (m.loadLE a 4))
  | .f64, a => some (.f64 (m.loadLE a 8))
  | .char, a => let c := m.loadLE a 4; if isChar c then some (.char c) else none
  | .string, a => some (.str (loadBytes m (m.loadLE a p) (m.loadLE (a + p) p)))
  | .list e, a =>
      let ptr := m.loadLE a p
      if ptr % alignment p e != 0 then none
      else (loadMany (load p m e) (elemSize p e) ptr (m.loadLE (a + p) p)).map .list
  | .map k v, a =>
      let ptr := m.loadLE a p
      if ptr % alignment p (.tuple [k, v]) != 0 then none
      else (loadManyEntries (load p m k) (load p m v) (alignTo (elemSize p k) (alignment p v))
              (elemSize p (.tuple [k, v])) ptr (m.loadLE (a + p) p)).map .list
  | .flist e n, a => (loadMany (load p m e) (elemSize p e) a n).map .list
  | .record fs, a => (loadFields p m fs a 0).map .record
  | .tuple ts, a => (loadFields p m ts a 0).map .record
  | .flags n, a =>
      match flagsRepr n with
      | .u8 => some (.flags (flagsOfWords n [m.loadLE a 1]))
      | .u16 => some (.flags (flagsOfWords n [m.loadLE a 2]))
      | .u32 k => some (.flags (flagsOfWords n ((List.range k).map fun w => m.loadLE (a + 4 * w) 4)))
  | .enum n, a => let i := m.loadLE a (discriminant n).size; if i < n then some (.enum i) else none
  | .variant cs, a =>
      let tag := discriminant cs.length
      let i := m.loadLE a tag.size
      if i < cs.length then (loadCase p m cs i (a + payloadOffset p tag cs)).map (.variant i) else none
  | .option t, a =>
      match m.loadLE a 1 with
      | 0 => some (.variant 0 none)
      | 1 => (load p m t (a + payloadOffset p .u8 [none, some t])).map fun v => .variant 1 (some v)
      | _ => none
  | .result ok err, a =>
      let po := a + payloadOffset p .u8 [ok, err]
      match m.loadLE a 1 with
      | 0 => (loadOpt p m ok po).map (.variant 0)
      | 1 => (loadOpt p m err po).map (.variant 1)
      | _ => none
  | .own, a | .borrow, a | .future _, a | .stream _, a | .errctx, a => some (.handle (m.loadLE a 4))
def loadFields (p : Nat) (m : Mem) : List Ty → Nat → Nat → Option (List Val)
  | [], _, _ => some []
  | t :: ts, a, cur => do
      let o := alignTo cur (alignment p t)
      let v ← load p m t (a + o)
      let vs ← loadFields p m ts a (o + elemSize p t)
      pure (v :: vs)
def loadOpt (p : Nat) (m : Mem) : Option Ty → Nat → Option (Option Val)
  | none, _ => some none
  | some t, a => (load p m t a).map some
def loadCase (p : Nat) (m : Mem) : List (Option Ty) → Nat → Nat → Option (Option Val)
  | [], _, _ => none
  | c :: _, 0, a => loadOpt p m c a
  | _ :: cs, i + 1, a => loadCase p m cs i a
end

/-- coerce the joined slots back to the payload's own flat types (`CoerceValueIter`) -/
def coerceBack : List CVal → List FT → List CVal
  | v :: vs, w :: ws =>
      ⟨w, if v.ty.width = 64 ∧ w.width = 32 then v.bits % 2 ^ 32 else v.bits⟩ :: coerceBack vs ws
  | _, _ => []

/-- `n` chunks of `k` core values lifted with `f` -/
def liftMany (f : List CVal → Option Val) (k : Nat) : Nat → List CVal → Option (List Val)
  | 0, _ => some []
  | n + 1, vs => do
      let v ← f (vs.take k)
      let rest ← liftMany f k n (vs.drop k)
      pure (v :: rest)

mutual
/-- spec `lift_flat(t)` on exactly `flatten t` many core values (`none` = trap / ill-formed) -/
def liftFlat (p : Nat) (m : Mem) : Ty → List CVal → Option Val
  | .bool, [v] => some (.bool (v.bits % 2 ^ 32 != 0))
  | .u8, [v] => some (.int (v.bits % 2 ^ 8))
  | .s8, [v] => some (.int (signed 8 v.bits))
  | .u16, [v] => some (.int (v.bits % 2 ^ 16))
  | .s16, [v] => some (.int (signed 16 v.bits))
  | .u32, [v] => some (.int (v.bits % 2 ^ 32))
  | .s32, [v] => some (.int (signed 32 v.bits))
  | .u64, [v] => some (.int (v.bits % 2 ^ 64))
  | .s64, [v] => some (.int (signed 64 v.bits))
  | .f32, [v] => some (.f32 v.bits)
  | .f64, [v] => some (.f64 v.bits)
  | .char, [v] => if isChar v.bits then some (.char v.bits) else none
  | .string, [a, n] => some (.str (loadBytes m a.bits n.bits))
  | .list e, [a, n] =>
      if a.bits % alignment p e != 0 then none
      else (loadMany (load p m e) (elemSize p e) a.bits n.bits).map .list
  | .map k v, [a, n] =>
      if a.bits % alignment p (.tuple [k, v]) != 0 then none
      else (loadManyEntries (load p m k) (load p m v) (alignTo (elemSize p k) (alignment p v))
              (elemSize p (.tuple [k, v])) a.bits n.bits).map .list
  | .flist e n, vs => (liftMany (liftFlat p m e) (flatten p e).length n vs).map .list
  | .record fs, vs => (liftFields p m fs vs).map .record
  | .tuple ts, vs => (liftFields p m ts vs).map .record
  | .flags n, vs => some (.flags (flagsOfWords n (vs.map (·.bits))))
  | .enum n, [v] => if v.bits < n then some (.enum v.bits) else none
  | .variant cs, d :: vs =>
      if d.bits < cs.length then (liftCase p m cs d.bits vs).map (.variant d.bits) else none
  | .option t, d :: vs =>
      match d.bits with
      | 0 => some (.variant 0 none)
      | 1 => (liftFlat p m t (coerceBack vs (flatten p t))).map fun v => .variant 1 (some v)
      | _ => none
  | .result ok err, d :: vs =>
      match d.bits with
      | 0 => (liftOpt p m ok vs).map (.variant 0)
      | 1 => (liftOpt p m err vs).map (.variant 1)
      | _ => none
  | .own, [v] | .borrow, [v] | .future _, [v] | .stream _, [v] | .errctx, [v] => some (.handle v.bits)
  | _, _ => none
def liftFields (p : Nat) (m : Mem) : List Ty → List CVal → Option (List Val)
  | [], _ => some []
  | t :: ts, vs => do
      let k := (flatten p t).length
      let v ← liftFlat p m t (vs.take k)
      let rest ← liftFields p m ts (vs.drop k)
      pure (v :: rest)
def liftOpt (p : Nat) (m : Mem) : Option Ty → List CVal → Option (Option Val)
  | none, _ => some none
  | some t, vs => (liftFlat p m t (coerceBack vs (flatten p t))).map some
def liftCase (p : Nat) (m : Mem) : List (Option Ty) → Nat → List CVal → Option (Option Val)
  | [], _, _ => none
  | c :: _, 0, vs => liftOpt p m c vs
  | _ :: cs, i + 1, vs => liftCase p m cs i vs
end

/-! ### calling convention (`flatten_functype`) -/

inductive Ctx where
  | lift | lower
deriving Repr, DecidableEq

/-- spec `flatten_functype(opts, ft, context)`: core parameter and result types.
`callback` distinguishes the callback (stackless) async lift ABI from the stackful one. -/
def flattenFunctype (p : Nat) (async callback : Bool) (ctx : Ctx) (params : List Ty) (result : Option Ty) :
    List FT × List FT :=
  let fp := flattenList p params
  let fr := flattenOpt p result
  if !async then
    let fp' := if fp.length > 16 then [ptrFT p] else fp
    if fr.length > 1 then
      match ctx with
      | .lift => (fp', [ptrFT p])
      | .lower => (fp' ++ [ptrFT p], [])
    else (fp', fr)
  else
    match ctx with
    | .lift => (if fp.length > 16 then [ptrFT p] else fp, if callback then [.i32] else [])
    | .lower =>
        let fp' := if fp.length > 4 then [ptrFT p] else fp
        (if fr.length > 0 then fp' ++ [ptrFT p] else fp', [.i32])

end Spec
end Witverif.Abi
