import Witverif.Abi.RustProfile
/-
Ownership ledger of the code the Rust backend emits (C06).

A value crossing the boundary is abstracted to its **buffer tree**: one node per value position,
remembering which kind of buffer instruction handles it (string / canonical list / element-wise
list — `elemsZ` when the Rust element type is zero-sized, so that `Vec` never allocates — / map /
fixed-length list / variant-like node `arm` (its payload is lowered inside a block) / anything else), whether a heap block exists for it (`buf`: the
string or list is non-empty) and — for values built by user code — whether the Rust collection has
spare capacity (`spare`: `into_boxed_slice` then reallocates).

Every heap block the generated code or its peers ever touch is named by the position of its node
and a tag saying *which* allocation of that node it is, so block identities are unique by
construction:
  host   buffer the host allocated through `cabi_realloc` (arguments of exports, results of imports)
  vec    storage of the Rust `Vec`/map built by an element-wise lift
  user   storage of a `String`/`Vec`/map built by user code
  shrunk the reallocation `into_boxed_slice` performs when there is spare capacity
  out    the buffer an element-wise lowering allocates (`alloc::alloc`, guarded by `Cleanup`)
  area   the parameter record of a call with more than 16 flat parameters

A call is a sequence of **phases**; each phase walks the tree (own events, children, own events)
and what a node emits depends only on its own data and on whether it lies below a fixed-length
list — this is the ownership profile of crates/rust/src/bindgen.rs, one table per phase:

  export:  hostAlloc args · lift args · user drops args · user builds result · lower result (realloc)
           · post-return (model of abi.rs `deallocate_indirect`: NOTHING below a fixed-length list)
  import:  user builds args · lower args (borrowing; `Cleanup` temporaries) · hostAlloc result
           · lift result · cleanup temporaries · caller drops result · caller drops args
-/
namespace Witverif.Abi.RustLedger
open Witverif.Abi

inductive Kind where
  | str | canon | elems | elemsZ | map | flist | area | arm | plain
deriving DecidableEq, Repr

/-- buffer tree -/
inductive Tree where
  | node (k : Kind) (buf : Bool) (spare : Bool) (kids : List Tree)
deriving Repr

inductive Tag where
  | host | vec | user | shrunk | out | area
deriving DecidableEq, Repr

structure Id where
  tag : Tag
  path : List Nat
deriving DecidableEq, Repr

inductive Ev where
  | alloc (i : Id)
  | free (i : Id)
deriving DecidableEq, Repr

/-- what a phase looks at in a node: kind, has-a-block, spare capacity, below-a-fixed-length-list -/
structure Info where
  k : Kind
  buf : Bool
  spare : Bool
  uf : Bool
deriving DecidableEq, Repr

/-- local events of a node: `(isAlloc, tag)` before and after the children -/
structure Local where
  pre : List (Bool × Tag) := []
  post : List (Bool × Tag) := []

abbrev Table := Info → Local

def evs (π : List Nat) (l : List (Bool × Tag)) : List Ev :=
  l.map fun (a, g) => if a then Ev.alloc ⟨g, π⟩ else Ev.free ⟨g, π⟩

mutual
/-- one phase over a tree rooted at path `π` (`uf`: a fixed-length list lies above) -/
def phase (f : Table) (uf : Bool) (π : List Nat) : Tree → List Ev
  | .node k b s kids =>
      evs π (f ⟨k, b, s, uf⟩).pre ++ phaseKids f (uf || k == .flist) π 0 kids ++ evs π (f ⟨k, b, s, uf⟩).post
def phaseKids (f : Table) (uf : Bool) (π : List Nat) (i : Nat) : List Tree → List Ev
  | [] => []
  | t :: ts => phase f uf (π ++ [i]) t ++ phaseKids f uf π (i + 1) ts
end

/-! ### the ownership profile (one table per phase) -/

def isBufKind (k : Kind) : Bool := k == .str || k == .canon || k == .elems || k == .elemsZ || k == .map

/-- the host allocates every non-empty buffer of a value it lowers (`Spec.store/lowerFlat`) -/
def hostAlloc : Table := fun n =>
  if n.k == .area then { pre := [(true, .area)] }
  else if isBufKind n.k && n.buf then { pre := [(true, .host)] } else {}

/-- generated lifting code: strings and canonical lists take the buffer over
(`Vec::from_raw_parts`); element-wise lists and maps build a new collection and free the incoming
buffer (`cabi_dealloc`) after the element loop; the parameter record is freed after the last read -/
def lift : Table := fun n =>
  if n.k == .area then { post := [(false, .area)] }
  else if (n.k == .elems || n.k == .map) && n.buf then { pre := [(true, .vec)], post := [(false, .host)] }
  else if n.k == .elemsZ && n.buf then { post := [(false, .host)] } else {}

/-- dropping a value that was produced by `lift` -/
def dropLifted : Table := fun n =>
  if (n.k == .str || n.k == .canon) && n.buf then { post := [(false, .host)] }
  else if (n.k == .elems || n.k == .map) && n.buf then { post := [(false, .vec)] } else {}

/-- user code builds a value -/
def build : Table := fun n =>
  if isBufKind n.k && n.k != .elemsZ && n.buf then { pre := [(true, .user)] } else {}

/-- generated lowering code with `realloc` (results of exports): `into_boxed_slice` + `forget` for
strings and canonical lists (reallocating when there is spare capacity); a fresh buffer for
element-wise lists and maps, the collection's own storage being released after the loop -/
def lowerOwned : Table := fun n =>
  if (n.k == .str || n.k == .canon) && n.buf then
    (if n.spare then { pre := [(false, .user), (true, .shrunk)] } else {})
  else if (n.k == .elems || n.k == .map) && n.buf then { pre := [(true, .out)], post := [(false, .user)] }
  else if n.k == .elemsZ && n.buf then { pre := [(true, .out)] } else {}

/-- the block that represents the node in the lowered image -/
def imageTag (n : Info) : Option Tag :=
  if (n.k == .str || n.k == .canon) && n.buf then some (if n.spare then .shrunk else .user)
  else if (n.k == .elems || n.k == .elemsZ || n.k == .map) && n.buf then some .out else none

/-- generated `cabi_post_*` = abi.rs `deallocate_indirect`: frees the image block of every buffer
node **except below a fixed-length list, where it emits nothing** -/
def postReturn : Table := fun n =>
  if n.uf then {} else
  match imageTag n with
  | some g => { post := [(false, g)] }
  | none => {}

/-- what post-return would have to do (spec side): free every image block -/
def postReturnSpec : Table := fun n =>
  match imageTag n with
  | some g => { post := [(false, g)] }
  | none => {}

/-- generated lowering code without `realloc` (arguments of imports): strings and canonical lists
are borrowed; element-wise lists and maps get a temporary buffer guarded by `Cleanup` -/
def lowerBorrow : Table := fun n =>
  if (n.k == .elems || n.k == .elemsZ || n.k == .map) && n.buf then { pre := [(true, .out)] } else {}

/-- the `Cleanup` guards run when the wrapper returns -/
def cleanup : Table := fun n =>
  if (n.k == .elems || n.k == .elemsZ || n.k == .map) && n.buf then { post := [(false, .out)] } else {}

/-- dropping a value that was produced by `build` -/
def dropBuilt : Table := fun n =>
  if isBufKind n.k && n.k != .elemsZ && n.buf then { post := [(false, .user)] } else {}

/-! ### calls -/

/-- export call: `args` = buffer tree of the argument tuple (rooted at path [0]),
`res` = buffer tree of the value the user function returns (rooted at path [1]) -/
def exportTrace (post : Table) (args res : Tree) : List Ev :=
  phase hostAlloc false [0] args ++ phase lift false [0] args ++ phase dropLifted false [0] args ++
  phase build false [1] res ++ phase lowerOwned false [1] res ++ phase post false [1] res

/-- import call -/
def importTrace (args res : Tree) : List Ev :=
  phase build false [0] args ++ phase lowerBorrow false [0] args ++
  phase hostAlloc false [1] res ++ phase lift false [1] res ++
  phase cleanup false [0] args ++ phase dropLifted false [1] res ++ phase dropBuilt false [0] args

/-! ### ledger discipline (spec side) -/

/-- the events of one block, in order: `true` = alloc, `false` = free -/
def proj (i : Id) : List Ev → List Bool
  | [] => []
  | .alloc j :: es => if j = i then true :: proj i es else proj i es
  | .free j :: es => if j = i then false :: proj i es else proj i es

/-- a block's history is fine: never touched, or allocated once and then freed once -/
def blockOk (h : List Bool) : Bool := h == [] || h == [true, false]
/-- a block leaks: allocated once, never freed -/
def blockLeaks (h : List Bool) : Bool := h == [true]

/-- no leak, no double free, no free of something not allocated, no reuse of a live block -/
def Balanced (tr : List Ev) : Prop := ∀ i, blockOk (proj i tr) = true

/-! ### buffer trees of values -/

/-- the stub's capacity rule (harness/bind-native/rt `Build`): capacity = len + len % 3 -/
def spareOf (len : Nat) : Bool := len % 3 != 0

mutual
/-- the Rust type generated for `t` is zero-sized (`enum V { C0 }`, tuples / records / arrays of
such): a `Vec` of it never allocates -/
def rustZst : Ty → Bool
  | .variant [none] => true
  | .variant [some t] => rustZst t
  | .record fs | .tuple fs => rustZstAll fs
  | .flist e n => n == 0 || rustZst e
  | _ => false
def rustZstAll : List Ty → Bool
  | [] => true
  | t :: ts => rustZst t && rustZstAll ts
end

mutual
/-- buffer tree of `v : t` under the Rust canonical-list rule -/
def shape : Ty → Val → Tree
  | .string, .str bs => .node .str (bs.length != 0) (spareOf bs.length) []
  | .list e, .list vs =>
      if RustProfile.rustCanon e then .node .canon (vs.length != 0) (spareOf vs.length) []
      else .node (if rustZst e then .elemsZ else .elems) (vs.length != 0) (spareOf vs.length) (shapeAll e vs)
  | .map k v, .list vs => .node .map (vs.length != 0) false (shapeEntries k v vs)
  | .flist e _, .list vs => .node .flist false false (shapeAll e vs)
  | .record fs, .record vs => .node .plain false false (shapeFields fs vs)
  | .tuple fs, .record vs => .node .plain false false (shapeFields fs vs)
  | .variant cs, .variant i pv => .node .arm false false (match cs[i]? with
      | some c => shapeOpt c pv
      | none => [])
  | .option t, .variant _ (some v) => .node .arm false false [shape t v]
  | .result a _, .variant 0 pv => .node .arm false false (shapeOpt a pv)
  | .result _ b, .variant _ pv => .node .arm false false (shapeOpt b pv)
  | _, _ => .node .plain false false []
def shapeAll : Ty → List Val → List Tree
  | _, [] => []
  | t, v :: vs => shape t v :: shapeAll t vs
def shapeEntries : Ty → Ty → List Val → List Tree
  | k, v, .record [x, y] :: vs => shape k x :: shape v y :: shapeEntries k v vs
  | _, _, _ => []
def shapeFields : List Ty → List Val → List Tree
  | t :: ts, v :: vs => shape t v :: shapeFields ts vs
  | _, _ => []
def shapeOpt : Option Ty → Option Val → List Tree
  | some t, some v => [shape t v]
  | _, _ => []
end

/-- the argument tuple of a call; `indirect`: the parameters travel through a record in memory -/
def argsTree (indirect : Bool) (ps : List Ty) (vs : List Val) : Tree :=
  .node (if indirect then .area else .plain) false false (shapeFields ps vs)

mutual
/-- a block-carrying node lies below a fixed-length list -/
def dirty (uf : Bool) : Tree → Bool
  | .node k b _ kids => (uf && isBufKind k && b) || dirtyKids (uf || k == .flist) kids
def dirtyKids (uf : Bool) : List Tree → Bool
  | [] => false
  | t :: ts => dirty uf t || dirtyKids uf ts
end

/-- counts for the correspondence with native runs: (allocations, frees) of a trace by tag -/
def countTag (g : Tag) (isAlloc : Bool) (tr : List Ev) : Nat :=
  (tr.filter fun e => match e with
    | .alloc i => isAlloc && i.tag == g
    | .free i => !isAlloc && i.tag == g).length


mutual
/-- no string / list / map below a fixed-length list (`uf`: one lies above) -/
def cleanTy (uf : Bool) : Ty → Bool
  | .string => !uf
  | .list e => !uf && cleanTy uf e
  | .map k v => !uf && cleanTy uf k && cleanTy uf v
  | .flist e _ => cleanTy true e
  | .record fs | .tuple fs => cleanAll uf fs
  | .variant cs => cleanAllOpt uf cs
  | .option t => cleanTy uf t
  | .result a b => cleanOpt uf a && cleanOpt uf b
  | _ => true
def cleanAll (uf : Bool) : List Ty → Bool
  | [] => true
  | t :: ts => cleanTy uf t && cleanAll uf ts
def cleanOpt (uf : Bool) : Option Ty → Bool
  | none => true
  | some t => cleanTy uf t
def cleanAllOpt (uf : Bool) : List (Option Ty) → Bool
  | [] => true
  | t :: ts => cleanOpt uf t && cleanAllOpt uf ts
end


def isGuestTag (g : Tag) : Bool := g == .vec || g == .user || g == .shrunk || g == .out

def countEv (p : Ev → Bool) (tr : List Ev) : Nat := (tr.filter p).length

/-- what the model predicts a ledger allocator observes for one export call of the stub:
(guest allocations during the call, frees of host blocks during the call, frees of guest blocks
during the call, frees during post-return, blocks still live after post-return) -/
def exportCounts (args res : Tree) : Nat × Nat × Nat × Nat × Nat :=
  let call := phase hostAlloc false [0] args ++ phase lift false [0] args ++ phase dropLifted false [0] args ++
    phase build false [1] res ++ phase lowerOwned false [1] res
  let post := phase postReturn false [1] res
  let postSpec := phase postReturnSpec false [1] res
  (countEv (fun e => match e with | .alloc i => isGuestTag i.tag | _ => false) call,
   countEv (fun e => match e with | .free i => !isGuestTag i.tag | _ => false) call,
   countEv (fun e => match e with | .free i => isGuestTag i.tag | _ => false) call,
   post.length, postSpec.length - post.length)

mutual
/-- number of temporary buffers of a borrowing lowering that are created *inside a block* (list
element, variant arm, fixed-length list lowered to memory): their `Cleanup` guards cannot live in a
local of the wrapper and are pushed onto its `cleanup_list` vector (bindgen.rs `cleanup`) -/
def nestedTmp (block mem : Bool) : Tree → Nat
  | .node k b _ kids =>
      (if block && (k == .elems || k == .elemsZ || k == .map) && b then 1 else 0) +
        nestedTmpKids (block || k == .elems || k == .elemsZ || k == .map || k == .arm || (k == .flist && mem))
          (mem || k == .elems || k == .elemsZ || k == .map || k == .area) kids
def nestedTmpKids (block mem : Bool) : List Tree → Nat
  | [] => 0
  | t :: ts => nestedTmp block mem t + nestedTmpKids block mem ts
end

/-- (re)allocations of a `Vec` that receives `k` single pushes (`RawVec`: capacity 4, then doubling) -/
def vecGrowth (k : Nat) : Nat :=
  if k = 0 then 0 else
  let rec go (cap n : Nat) : Nat → Nat
    | 0 => n
    | fuel + 1 => if k ≤ cap then n else go (2 * cap) (n + 1) fuel
  go 4 1 64

/-- … and for one import call, counted from the moment the caller has built the arguments:
(guest allocations = `Cleanup` temporaries of the borrowing lowering + collections built by lifting
the result, frees of host blocks, frees of those guest blocks) — the phases `lowerBorrow`, `hostAlloc`,
`lift`, `cleanup`, `dropLifted` of `importTrace` -/
def importCounts (args res : Tree) : Nat × Nat × Nat :=
  let tr := phase lowerBorrow false [0] args ++ phase hostAlloc false [1] res ++ phase lift false [1] res ++
    phase cleanup false [0] args ++ phase dropLifted false [1] res
  -- the wrapper's own `cleanup_list` vector is not part of `importTrace` (it is not a block of the value);
  -- each growth step is one allocation and one free (the last block is freed when the wrapper returns)
  let g := vecGrowth (nestedTmp false false args)
  (countEv (fun e => match e with | .alloc i => i.tag == .out || i.tag == .vec | _ => false) tr + g,
   countEv (fun e => match e with | .free i => i.tag == .host | _ => false) tr,
   countEv (fun e => match e with | .free i => i.tag == .out || i.tag == .vec | _ => false) tr + g)

mutual
def hasMap : Ty → Bool
  | .map _ _ => true
  | .list e | .flist e _ | .option e => hasMap e
  | .record fs | .tuple fs => hasMapAny fs
  | .variant cs => hasMapAnyOpt cs
  | .result a b => hasMapOpt a || hasMapOpt b
  | _ => false
def hasMapAny : List Ty → Bool
  | [] => false
  | t :: ts => hasMap t || hasMapAny ts
def hasMapOpt : Option Ty → Bool
  | none => false
  | some t => hasMap t
def hasMapAnyOpt : List (Option Ty) → Bool
  | [] => false
  | t :: ts => hasMapOpt t || hasMapAnyOpt ts
end

end Witverif.Abi.RustLedger
