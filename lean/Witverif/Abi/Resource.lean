/-
placeholder replaced below in this session (C07 model) — keeps `m_host` linking while C05 is wired
-/
namespace Witverif.Abi.Resource
def runScript (_s : String) : String := "unimplemented"
end Witverif.Abi.Resource
