/-
Resource and handle ownership of generated Rust bindings (C07).  Import-free.

Two things live here.

**Spec side (`HostSpec`)** — the component-model host's view of one guest instance: its handle table
(own / scoped-borrow entries), the exported resources that are alive, and the rules every canonical
built-in and every lift/lower of a handle obeys.  It replays a *trace* recorded from a native run
and rejects the first event a real host would trap on (or that the host itself must not do).

**Model of the glue (`Sys`)** — the generated code of crates/rust/src/{lib.rs (Resource<T>),
interface.rs (type_resource), bindgen.rs (HandleLift/HandleLower, handle_decls)} together with
safe user code, as a transition system over the same events:
  * a *cell* is one live `Resource<T>` wrapper value (`from_handle`); `take_handle` (lowering an
    `own`) ends it without a `resource-drop`, `Drop` ends it with exactly one `resource-drop`,
    `handle()` (lowering a `borrow`, calling a method) leaves it alone;
  * borrows of imported resources received by an export are *temporary* cells of the glue
    (`handle_decls`), ended before the export returns; borrows of exported resources are bare
    representation pointers — no cell, no built-in call;
  * `Res::new(val)` boxes the user's value (a live *rep*) and asks the host for a handle;
    the `[dtor]` export unboxes and drops it.
`Sys.step` answers `ok s'`, `trap` (the host / the heap rejects what the glue does: a violation of
C07) or `disabled` (the model cannot produce this event here).  Props/C07.lean proves that no
reachable state can trap and derives the six ownership statements; `runScript` checks that a
recorded native trace is accepted by `HostSpec` and is a trace of `Sys`.
-/
namespace Witverif.Abi.Resource

/-! ### tiny association lists (keys `Nat`) -/

abbrev Map (α : Type) := List (Nat × α)

def Map.get {α : Type} : Map α → Nat → Option α
  | [], _ => none
  | (k, v) :: m, x => if k = x then some v else Map.get m x

def Map.del {α : Type} : Map α → Nat → Map α
  | [], _ => []
  | (k, v) :: m, x => if k = x then Map.del m x else (k, v) :: Map.del m x

def Map.put {α : Type} (m : Map α) (k : Nat) (v : α) : Map α := (k, v) :: m.del k

abbrev NSet := Map Unit
def NSet.has (s : NSet) (x : Nat) : Bool := (Map.get s x).isSome

/-! ### events of a history -/

inductive Res where
  | imp (obj : Nat)      -- resource implemented by the host (imported by the guest)
  | exp (rep : Nat)      -- resource implemented by the guest (exported), identified by its representation
deriving DecidableEq, Repr

def Res.isExp : Res → Bool
  | .exp _ => true
  | .imp _ => false

inductive Entry where
  | own (r : Res)
  | borrow (r : Res) (scope : Nat)
deriving DecidableEq, Repr

inductive Ev where
  | ownPlus (h : Nat) (r : Res)             -- host lowers an `own` into the guest (export argument / import result)
  | borPlus (h : Nat) (r : Res) (k : Nat)   -- host lowers a `borrow` of an imported resource, scoped to export call k
  | callBegin (k : Nat)
  | callEnd (k : Nat)
  | ownMinus (h : Nat)                      -- guest lowers an `own` (import argument / export result): `take_handle`
  | lend (h : Nat)                          -- guest lowers a `borrow` (import argument, method receiver): `handle()`
  | mk (pid : Nat)                          -- user code creates a payload value (the `T` of `Res::new::<T>`)
  | new (h : Nat) (rep : Nat) (pid : Nat)   -- `Res::new(val)`: val boxed at `rep` (`Some(val)`), `[resource-new](rep)` answered with h
  | rep (h : Nat) (rep : Nat)               -- `[resource-rep](h)` answered with rep
  | take (h : Nat) (pid : Nat)              -- `Res::into_inner`: `rep_take` moves the payload out of the slot (`Option::take`)
  | drop (h : Nat) (dropped : Option Nat)   -- `[resource-drop](h)`; for an own handle of an exported resource the
                                            --   host runs `[dtor]` at once (folded into this event by `fold`);
                                            --   `dropped` = the payload the destructor was observed to drop
  | hostDrop (rep : Nat) (dropped : Option Nat)  -- the host drops an exported resource it owns: `[dtor](rep)`
  | udrop (pid : Nat)                       -- user code drops a payload it holds (e.g. the one `into_inner` returned)
  | use (rep : Nat)                         -- host passes a borrow of an exported resource (method receiver, argument)
  | done                                    -- every Rust value has been dropped, the host has dropped what it owned
deriving DecidableEq, Repr

/-! ### spec side: the host -/

structure Host where
  table : Map Entry := []
  live : NSet := []          -- exported resources not yet destroyed
  scopes : NSet := []        -- open export calls
deriving Repr

namespace HostSpec

def tableHasRep (t : Map Entry) (rep : Nat) : Bool := t.any fun (_, e) => e == .own (.exp rep)

/-- one event against the host's rules; `Except.error` = trap / protocol violation -/
def step (s : Host) : Ev → Except String Host
  | .ownPlus h r =>
      if (s.table.get h).isSome then .error "host reuses a live index" else
      match r with
      | .exp rep =>
          if !s.live.has rep then .error "own handle of a destroyed resource"
          else if tableHasRep s.table rep then .error "second own handle to the same exported resource"
          else .ok { s with table := s.table.put h (.own r) }
      | .imp _ => .ok { s with table := s.table.put h (.own r) }
  | .borPlus h r k =>
      if (s.table.get h).isSome then .error "host reuses a live index"
      else if !s.scopes.has k then .error "borrow outside a call"
      else .ok { s with table := s.table.put h (.borrow r k) }
  | .callBegin k => if s.scopes.has k then .error "call id reused" else .ok { s with scopes := s.scopes.put k () }
  | .callEnd k =>
      if !s.scopes.has k then .error "return from unknown call"
      else if s.table.any (fun (_, e) => match e with | .borrow _ k' => k' == k | _ => false) then
        .error "trap: borrow handle still present when the export returns"
      else .ok { s with scopes := s.scopes.del k }
  | .ownMinus h =>
      match s.table.get h with
      | some (.own _) => .ok { s with table := s.table.del h }
      | some (.borrow _ _) => .error "trap: borrow handle passed as own"
      | none => .error "trap: own transfer of an index the guest does not hold"
  | .lend h => if (s.table.get h).isSome then .ok s else .error "trap: borrow of an index the guest does not hold"
  | .mk _ | .take _ _ | .udrop _ => .ok s          -- not visible to the host
  | .new h rep _ =>
      if (s.table.get h).isSome then .error "host reuses a live index"
      else if s.live.has rep then .error "resource.new on a representation that is already live"
      else .ok { s with table := s.table.put h (.own (.exp rep)), live := s.live.put rep () }
  | .rep h rep =>
      match s.table.get h with
      | some (.own (.exp r)) => if r = rep then .ok s else .error "resource.rep answered with another representation"
      | _ => .error "trap: resource.rep on an index that is not an own handle of an exported resource"
  | .drop h _ =>
      match s.table.get h with
      | some (.own (.exp rep)) =>
          if s.live.has rep then .ok { s with table := s.table.del h, live := s.live.del rep }
          else .error "destructor of a destroyed resource"
      | some _ => .ok { s with table := s.table.del h }
      | none => .error "trap: resource.drop of an index the guest does not hold"
  | .hostDrop rep _ =>
      if !s.live.has rep then .error "destructor of a destroyed resource"
      else if tableHasRep s.table rep then .error "host drops a resource whose own handle the guest holds"
      else .ok { s with live := s.live.del rep }
  | .use rep => if s.live.has rep then .ok s else .error "host lends a destroyed resource"
  | .done =>
      if s.table.isEmpty && s.live.isEmpty && s.scopes.isEmpty then .ok s
      else .error "handles / resources / calls left over at the end"

def run (s : Host) : List Ev → Except (Nat × String) Host
  | [] => .ok s
  | e :: es =>
      match step s e with
      | .ok s' => (run s' es).mapError fun (i, m) => (i + 1, m)
      | .error m => .error (0, m)

end HostSpec

/-! ### model of the glue + safe user code -/

/-- one live `Resource<T>` wrapper value (keyed by the handle it holds) -/
structure Cell where
  exported : Bool          -- wrapper of the guest's own (exported) resource type
  temp : Option Nat        -- `some k`: glue temporary for a borrowed argument of export call k
deriving DecidableEq, Repr

/-- where a payload value is -/
inductive Loc where
  | held              -- owned by user code (just created, or returned by `into_inner`)
  | inSlot (rep : Nat)
  | dead              -- its `Drop` has run
deriving DecidableEq, Repr

structure Sys where
  table : Map Entry := []     -- the host's table for this guest
  cells : Map Cell := []      -- live wrapper values, by handle
  heap : NSet := []           -- reps holding a live user value (`Box<Option<T>>`)
  hostOwned : NSet := []      -- exported resources whose own handle the host holds
  scopes : NSet := []
  slot : Map Nat := []        -- rep ↦ the payload in the rep's `Option<T>` (absent: `None`, i.e. taken by `into_inner`)
  loc : Map Loc := []         -- where each payload ever created is: held by user code / in the slot of a rep / dropped
  dropLog : List Nat := []    -- payloads whose `Drop` has run, in order (the drop-count observable)
deriving Repr

inductive Outcome where
  | ok (s : Sys)
  | trap (why : String)        -- the host or the heap rejects what the glue / user code does: C07 is violated
  | disabled (why : String)    -- this event is not a possible next event of the model in this state
deriving Repr

def hasBorrowOf (t : Map Entry) (k : Nat) : Bool :=
  t.any fun (_, e) => match e with | .borrow _ k' => k' == k | _ => false
def hasTempOf (c : Map Cell) (k : Nat) : Bool :=
  c.any fun (_, x) => x.temp == some k

namespace Sys

/-- the transition function.  Host-initiated events are enabled under the host's own rules
(a correct host); guest-initiated events are enabled by the guest's state (which wrapper values
exist) and then *checked* against the host's table and the heap. -/
def step (s : Sys) : Ev → Outcome
  | .ownPlus h r =>
      if (s.table.get h).isSome || (s.cells.get h).isSome then .disabled "index in use" else
      match r with
      | .exp rep =>
          if !s.hostOwned.has rep then .disabled "host does not own this resource"
          else .ok { s with table := s.table.put h (.own r), cells := s.cells.put h ⟨true, none⟩,
                            hostOwned := s.hostOwned.del rep }
      | .imp _ => .ok { s with table := s.table.put h (.own r), cells := s.cells.put h ⟨false, none⟩ }
  | .borPlus h r k =>
      if (s.table.get h).isSome || (s.cells.get h).isSome then .disabled "index in use"
      else if r.isExp then .disabled "borrows of exported resources are representations, not handles"
      else if !s.scopes.has k then .disabled "no such call"
      else .ok { s with table := s.table.put h (.borrow r k), cells := s.cells.put h ⟨false, some k⟩ }
  | .callBegin k => if s.scopes.has k then .disabled "call id in use" else .ok { s with scopes := s.scopes.put k () }
  | .callEnd k =>
      if !s.scopes.has k then .disabled "no such call"
      -- MODELLING ASSUMPTION (control flow of the glue, Rust scoping): the `handle_decls` temporaries go out of
      -- scope before the export returns, so `callEnd` is not a possible event while one is alive; validated on
      -- real runs by trace acceptance (a real return with a live temporary would be `disabled` = rejected)
      else if hasTempOf s.cells k then .disabled "the glue has not dropped its temporaries yet"
      else if hasBorrowOf s.table k then .trap "borrow handle still present when the export returns"
      else .ok { s with scopes := s.scopes.del k }
  | .ownMinus h =>
      match s.cells.get h with
      | some ⟨_, none⟩ =>
          match s.table.get h with
          | some (.own (.exp rep)) =>
              .ok { s with table := s.table.del h, cells := s.cells.del h, hostOwned := s.hostOwned.put rep () }
          | some (.own (.imp _)) => .ok { s with table := s.table.del h, cells := s.cells.del h }
          | _ => .trap "own transfer of an index the guest does not own"
      | _ => .disabled "no owned wrapper value holds this handle"
  | .lend h =>
      match s.cells.get h with
      | some _ => if (s.table.get h).isSome then .ok s else .trap "borrow of an index the guest does not hold"
      | none => .disabled "no wrapper value holds this handle"
  | .mk pid =>
      if (s.loc.get pid).isSome then .disabled "payload identity in use" else .ok { s with loc := s.loc.put pid Loc.held }
  | .new h rep pid =>
      if (s.table.get h).isSome || (s.cells.get h).isSome then .disabled "index in use"
      else if s.heap.has rep then .disabled "the allocator returned a live address"
      else if s.loc.get pid ≠ some .held then .disabled "user code does not hold this payload"
      else .ok { s with table := s.table.put h (.own (.exp rep)), cells := s.cells.put h ⟨true, none⟩,
                        heap := s.heap.put rep (), slot := s.slot.put rep pid, loc := s.loc.put pid (.inSlot rep) }
  | .take h pid =>
      -- `into_inner(self)`: `rep_take` = `(*ptr).take().unwrap()`; the wrapper is dropped right after (`drop h`)
      match s.cells.get h, s.table.get h with
      | some ⟨true, none⟩, some (.own (.exp rep)) =>
          if s.slot.get rep = some pid then .ok { s with slot := s.slot.del rep, loc := s.loc.put pid Loc.held }
          else .disabled "the slot of this resource does not hold this payload (safe code calls into_inner once)"
      | _, _ => .disabled "no owned wrapper value of the exported resource holds this handle"
  | .udrop pid =>
      if s.loc.get pid = some .held then .ok { s with loc := s.loc.put pid Loc.dead, dropLog := pid :: s.dropLog }
      else .disabled "user code does not hold this payload (dropping it now would be a second drop)"
  | .rep h rep =>
      match s.cells.get h with
      | some ⟨true, none⟩ =>
          match s.table.get h with
          | some (.own (.exp r)) =>
              if r ≠ rep then .disabled "host answered with another representation"
              else if s.heap.has rep then .ok s else .trap "use of a destroyed representation"
          | _ => .trap "resource.rep on an index that is not an own handle of the exported resource"
      | _ => .disabled "no wrapper value of the exported resource holds this handle"
  | .drop h dropped =>
      match s.cells.get h with
      | some c =>
          match s.table.get h with
          | some (.own (.exp rep)) =>
              -- the host runs the destructor at once: `Box::from_raw(rep)` is dropped, and with it the payload
              -- if (and only if) the slot still holds one
              if !s.heap.has rep then .trap "destructor on a destroyed representation (double free)"
              else if s.slot.get rep ≠ dropped then
                .disabled "the destructor dropped a payload that is not in the slot / did not drop the one that is"
              else
                match dropped with
                | some pid => .ok { s with table := s.table.del h, cells := s.cells.del h, heap := s.heap.del rep, slot := s.slot.del rep, loc := s.loc.put pid Loc.dead, dropLog := pid :: s.dropLog }
                | none => .ok { s with table := s.table.del h, cells := s.cells.del h, heap := s.heap.del rep }
          | some _ => .ok { s with table := s.table.del h, cells := s.cells.del h }
          | none => let _ := c; .trap "resource.drop of an index the guest does not hold"
      | none => .disabled "no wrapper value holds this handle"
  | .hostDrop rep dropped =>
      if !s.hostOwned.has rep then .disabled "host does not own this resource"
      else if !s.heap.has rep then .trap "destructor on a destroyed representation (double free)"
      else if s.slot.get rep ≠ dropped then
        .disabled "the destructor dropped a payload that is not in the slot / did not drop the one that is"
      else
        match dropped with
        | some pid => .ok { s with hostOwned := s.hostOwned.del rep, heap := s.heap.del rep, slot := s.slot.del rep, loc := s.loc.put pid Loc.dead, dropLog := pid :: s.dropLog }
        | none => .ok { s with hostOwned := s.hostOwned.del rep, heap := s.heap.del rep }
  | .use rep =>
      if !s.hostOwned.has rep then .disabled "host does not own this resource"
      else if s.heap.has rep then .ok s else .trap "use of a destroyed representation"
  | .done =>
      if !s.cells.isEmpty then .disabled "Rust values are still alive"
      else if !s.hostOwned.isEmpty then .disabled "the host still owns resources"
      else if !s.scopes.isEmpty then .disabled "calls still open"
      else if !s.table.isEmpty then .trap "handles leaked: the table is not empty although no Rust value is alive"
      else if !s.heap.isEmpty then .trap "user values leaked: representations alive without any handle"
      else if s.loc.any (fun (_, l) => l == .held) then .disabled "user code still holds payloads"
      else .ok s

inductive RunResult where
  | ok (s : Sys)
  | trap (at_ : Nat) (why : String)
  | disabled (at_ : Nat) (why : String)

def run (s : Sys) : List Ev → Nat → RunResult
  | [], _ => .ok s
  | e :: es, i =>
      match step s e with
      | .ok s' => run s' es (i + 1)
      | .trap w => .trap i w
      | .disabled w => .disabled i w

end Sys

/-! ### reading a recorded trace

Raw trace (what checks/C07.py records), `;`-separated:
`own+ h i:o|e:rep` `bor+ h i:o k` `call+ k` `call- k` `own- h` `lend h` `new h rep` `rep h rep`
`drop h` `dtor rep` `dudrop id` (payload Drop inside that destructor run) `mk id` `take id` `udrop id`
`use rep` `end`.  `fold` turns `drop h; dtor rep; [dudrop i]` (own handle of an exported resource) into
`drop h (dropped)`, a stand-alone `dtor rep; [dudrop i]` into `hostDrop rep (dropped)`, and
`take i; rep h r` (what `into_inner` does) into `rep h r; take h i`. -/

inductive Raw where
  | ev (e : Ev)
  | dtor (rep : Nat)
  | dudrop (id : Nat)     -- a payload `Drop` that ran inside a destructor call
  | takeNote (id : Nat)   -- the stub is about to call `into_inner` on the resource holding payload id
deriving Repr

def parseRes (s : String) : Option Res :=
  match s.splitOn ":" with
  | ["i", o] => o.toNat?.map .imp
  | ["e", r] => r.toNat?.map .exp
  | _ => none

def parseRaw (s : String) : Option Raw :=
  match s.splitOn " " with
  | ["own+", h, r] => do pure (.ev (.ownPlus (← h.toNat?) (← parseRes r)))
  | ["bor+", h, r, k] => do pure (.ev (.borPlus (← h.toNat?) (← parseRes r) (← k.toNat?)))
  | ["call+", k] => k.toNat?.map fun k => .ev (.callBegin k)
  | ["call-", k] => k.toNat?.map fun k => .ev (.callEnd k)
  | ["own-", h] => h.toNat?.map fun h => .ev (.ownMinus h)
  | ["lend", h] => h.toNat?.map fun h => .ev (.lend h)
  | ["new", h, r, i] => do pure (.ev (.new (← h.toNat?) (← r.toNat?) (← i.toNat?)))
  | ["mk", i] => i.toNat?.map fun i => .ev (.mk i)
  | ["take", i] => i.toNat?.map .takeNote
  | ["dudrop", i] => i.toNat?.map .dudrop
  | ["rep", h, r] => do pure (.ev (.rep (← h.toNat?) (← r.toNat?)))
  | ["drop", h] => h.toNat?.map fun h => .ev (.drop h none)
  | ["dtor", r] => r.toNat?.map .dtor
  | ["udrop", i] => i.toNat?.map fun i => .ev (.udrop i)
  | ["use", r] => r.toNat?.map fun r => .ev (.use r)
  | ["end"] => some (.ev .done)
  | _ => none

/-- fold destructor runs into the event that causes them, tracking which handles are own handles of
exported resources (only what is needed to tell the two forms of `dtor` apart) -/
def fold : List Raw → Map Nat → Option (List Ev)
  | [], _ => some []
  | .ev (.drop h _) :: rest, expOwn =>
      match expOwn.get h with
      | some rep =>
          match rest with
          | .dtor r :: .dudrop i :: rest' => if r = rep then (fold rest' (expOwn.del h)).map (Ev.drop h (some i) :: ·) else none
          | .dtor r :: rest' => if r = rep then (fold rest' (expOwn.del h)).map (Ev.drop h none :: ·) else none
          | _ => none
      | none => (fold rest expOwn).map (Ev.drop h none :: ·)
  | .dtor r :: .dudrop i :: rest, expOwn => (fold rest expOwn).map (Ev.hostDrop r (some i) :: ·)
  | .dtor r :: rest, expOwn => (fold rest expOwn).map (Ev.hostDrop r none :: ·)
  | .dudrop _ :: _, _ => none
  | .takeNote i :: .ev (.rep h r) :: rest, expOwn => (fold rest expOwn).map (fun es => Ev.rep h r :: Ev.take h i :: es)
  | .takeNote _ :: _, _ => none
  | .ev (.ownPlus h (.exp rep)) :: rest, expOwn => (fold rest (expOwn.put h rep)).map (Ev.ownPlus h (.exp rep) :: ·)
  | .ev (.new h rep i) :: rest, expOwn => (fold rest (expOwn.put h rep)).map (Ev.new h rep i :: ·)
  | .ev (.ownMinus h) :: rest, expOwn => (fold rest (expOwn.del h)).map (Ev.ownMinus h :: ·)
  | .ev e :: rest, expOwn => (fold rest expOwn).map (e :: ·)

/-- `resource|<trace>` of the driver `m_host` -/
def runScript (s : String) : String :=
  match (s.splitOn ";").mapM parseRaw with
  | none => "unparsable-trace"
  | some raws =>
    match fold raws [] with
    | none => "malformed: a destructor run / user drop that is not caused by a drop of an exported resource's own handle"
    | some evs =>
      match HostSpec.run {} evs with
      | .error (i, m) => "host-spec rejects event " ++ toString i ++ " (" ++ toString (repr (evs.getD i .done)) ++ "): " ++ m
      | .ok _ =>
        match Sys.run {} evs 0 with
        | .ok _ => "ok"
        | .trap i w => "model traps at event " ++ toString i ++ ": " ++ w
        | .disabled i w => "not a trace of the glue model, event " ++ toString i ++ " (" ++ toString (repr (evs.getD i .done)) ++ "): " ++ w

end Witverif.Abi.Resource
