import Witverif.Abi.Gen
import Witverif.Abi.Sem
import Witverif.Abi.Validate
import Witverif.Abi.HostCall
/-
The Rust backend's profile of the shared ABI generator (C05, C06): the one decision the Rust
generator feeds into `abi.rs` (`is_list_canonical`, crates/rust/src/interface.rs), the layout facts
that justify it, and the ownership discipline of the code it emits for each buffer-carrying
instruction (crates/rust/src/bindgen.rs):

* lifting a string / canonical list **takes over** the incoming buffer (`Vec::from_raw_parts(ptr, len, len)`);
* lifting a non-canonical list or a map builds a fresh Rust collection and **frees** the incoming
  buffer (`cabi_dealloc(base, len * size, align)`);
* lowering with `realloc` (results of exports): an owned string / canonical list is shrunk to its
  length and **forgotten** (`into_boxed_slice` + `mem::forget`), a non-canonical list gets a fresh
  buffer whose `Cleanup` guard is forgotten; both are released later by `cabi_post_*`;
* lowering without `realloc` (arguments of imports): strings / canonical lists are **borrowed**,
  non-canonical lists get a temporary buffer released by its `Cleanup` guard when the call returns.
-/
namespace Witverif.Abi.RustProfile
open Witverif.Abi

mutual
/-- `TypeInfo::has_resource` restricted to value types: a handle occurs somewhere inside -/
def hasHandle : Ty → Bool
  | .own | .borrow | .future _ | .stream _ | .errctx => true
  | .list e | .flist e _ | .option e => hasHandle e
  | .map k v => hasHandle k || hasHandle v
  | .record fs | .tuple fs => hasHandleAny fs
  | .variant cs => hasHandleAnyOpt cs
  | .result a b => hasHandleOpt a || hasHandleOpt b
  | _ => false
def hasHandleAny : List Ty → Bool
  | [] => false
  | t :: ts => hasHandle t || hasHandleAny ts
def hasHandleOpt : Option Ty → Bool
  | none => false
  | some t => hasHandle t
def hasHandleAnyOpt : List (Option Ty) → Bool
  | [] => false
  | t :: ts => hasHandleOpt t || hasHandleAnyOpt ts
end

mutual
/-- `TypeInfo::has_tuple` (crates/core/src/types.rs): a tuple occurs somewhere inside (future/stream
payloads are not inspected: "these are all u32 handles regardless of payload type") -/
def hasTuple : Ty → Bool
  | .tuple _ => true
  | .list e | .flist e _ | .option e => hasTuple e
  | .map k v => hasTuple k || hasTuple v
  | .record fs => hasTupleAny fs
  | .variant cs => hasTupleAnyOpt cs
  | .result a b => hasTupleOpt a || hasTupleOpt b
  | _ => false
def hasTupleAny : List Ty → Bool
  | [] => false
  | t :: ts => hasTuple t || hasTupleAny ts
def hasTupleOpt : Option Ty → Bool
  | none => false
  | some t => hasTuple t
def hasTupleAnyOpt : List (Option Ty) → Bool
  | [] => false
  | t :: ts => hasTupleOpt t || hasTupleAnyOpt ts
end

/-- `InterfaceGenerator::is_list_canonical` of the Rust backend:
`all_bits_valid(ty) && !info.has_resource && !info.has_tuple` (primitives: `all_bits_valid` alone —
they contain neither). -/
def rustCanon (t : Ty) : Bool := allBitsValid t && !hasHandle t && !hasTuple t

mutual
/-- size and alignment of the Rust type generated for `t` **when the language fixes them**:
primitives, `#[repr(C)]` records (emitted for `Copy` records), arrays.  `none` = unspecified
(`repr(Rust)` tuples, enums, collections, handles wrappers with `Drop`). -/
def reprC (p : Nat) : Ty → Option (Nat × Nat)
  | .u8 | .s8 => some (1, 1)
  | .u16 | .s16 => some (2, 2)
  | .u32 | .s32 | .f32 => some (4, 4)
  | .u64 | .s64 | .f64 => some (8, 8)
  | .flist e n => (reprC p e).map fun (sz, al) => (n * sz, al)
  | .record fs => (reprCFields p fs 0).map fun (cur, al) => (alignTo cur al, al)
  | _ => none
/-- C struct layout of the remaining fields placed from offset `cur`: (end offset, max alignment) -/
def reprCFields (p : Nat) : List Ty → Nat → Option (Nat × Nat)
  | [], cur => some (cur, 1)
  | t :: ts, cur =>
      match reprC p t with
      | some (sz, a) => (reprCFields p ts (alignTo cur a + sz)).map fun (e, al) => (e, Nat.max a al)
      | none => none
end

/-! ### `FlagsLift` as rendered by the Rust backend (crates/rust/src/bindgen.rs)

`Name::empty() | Name::from_bits_retain(((op_i as u32 as REPR) << 32*i) as _) | …` where each `op_i`
is an `i32` and `REPR` is `u8/u16/u32/u64/u128`.  Before /repo commit 1288bae the cast was
`op_i as REPR`, which sign-extends a *signed* 32-bit operand into a wider unsigned type
(`signExt = true` below; finding `flags-lift-sign-extends-word`).  The check reads the rendering off
the generated text and evaluates the matching variant. -/

/-- width in bits of `RustFlagsRepr` -/
def flagsReprBits (n : Nat) : Nat :=
  if n ≤ 8 then 8 else if n ≤ 16 then 16 else if n ≤ 32 then 32 else if n ≤ 64 then 64 else 128

/-- `(w as i32) as uN` for a 32-bit pattern `w` (rendering before 1288bae) -/
def castI32 (bits : Nat) (w : Nat) : Nat :=
  let w := w % 2 ^ 32
  if bits ≤ 32 then w % 2 ^ bits
  else if w < 2 ^ 31 then w else w + (2 ^ bits - 2 ^ 32)

/-- `(w as i32) as u32 as uN` (current rendering) -/
def castU32 (bits : Nat) (w : Nat) : Nat := (w % 2 ^ 32) % 2 ^ bits

/-- the OR of the shifted words, in the representation type -/
def rustFlagsBits (signExt : Bool) (bits : Nat) : List Nat → Nat → Nat
  | [], _ => 0
  | w :: ws, i =>
      (((if signExt then castI32 bits w else castU32 bits w) * 2 ^ (32 * i)) % 2 ^ bits) |||
        rustFlagsBits signExt bits ws (i + 1)

/-- the flags value the generated code produces from the core words -/
def flagsLiftRust (signExt : Bool) (n : Nat) (ws : List Nat) : List Bool :=
  (List.range n).map fun i => (rustFlagsBits signExt (flagsReprBits n) ws 0).testBit i

mutual
/-- what the Rust code observes when the host sends `v : t` (host → guest direction): the identity
except for the `FlagsLift` rendering above -/
def rustObserve (sx : Bool) : Ty → Val → Val
  | .flags n, .flags bs =>
      .flags (flagsLiftRust sx n ((List.range (flagsRepr n).count).map fun w => Spec.flagsWord bs w))
  | .list e, .list vs => .list (rustObserveAll sx e vs)
  | .flist e _, .list vs => .list (rustObserveAll sx e vs)
  | .map k v, .list vs => .list (rustObserveEntries sx k v vs)
  | .record fs, .record vs => .record (rustObserveFields sx fs vs)
  | .tuple fs, .record vs => .record (rustObserveFields sx fs vs)
  | .variant cs, .variant i pv => .variant i (match cs[i]? with
      | some c => rustObserveOpt sx c pv
      | none => pv)
  | .option t, .variant i (some v) => .variant i (some (rustObserve sx t v))
  | .result a _, .variant 0 pv => .variant 0 (rustObserveOpt sx a pv)
  | .result _ b, .variant i pv => .variant i (rustObserveOpt sx b pv)
  | _, v => v
def rustObserveAll (sx : Bool) : Ty → List Val → List Val
  | _, [] => []
  | t, v :: vs => rustObserve sx t v :: rustObserveAll sx t vs
def rustObserveEntries (sx : Bool) : Ty → Ty → List Val → List Val
  | k, v, .record [x, y] :: vs => .record [rustObserve sx k x, rustObserve sx v y] :: rustObserveEntries sx k v vs
  | _, _, vs => vs
def rustObserveFields (sx : Bool) : List Ty → List Val → List Val
  | t :: ts, v :: vs => rustObserve sx t v :: rustObserveFields sx ts vs
  | _, vs => vs
def rustObserveOpt (sx : Bool) : Option Ty → Option Val → Option Val
  | some t, some v => some (rustObserve sx t v)
  | _, pv => pv
end

/-! ### the cleanup the generated `cabi_post_*` performs (model of the code: `Gen.postReturn` run in
the reference machine on the memory the guest produced) -/

/-- blocks `(addr, size, align)` passed to a deallocation by the post-return of `f`, given the
return-area address and the guest memory; `none` = the generator panics / the machine is stuck -/
def postFrees (p : Nat) (f : Func) (retArea : Nat) (m : Spec.Mem) : Option (List (Nat × Nat × Nat)) :=
  match postReturn f with
  | .error _ => none
  | .ok ss =>
    match runBlock { p, args := [.c (Spec.pcv p retArea)] } { st := { mem := m } } (ss, []) with
    | some (_, s) => some s.freed.reverse
    | none => none

/-- spec side: what the lowering of the result allocated = every block reachable from the result -/
def resultBlocks (p : Nat) (r : Ty) (retArea : Nat) (m : Spec.Mem) : List (Nat × Nat × Nat) :=
  reachBlocks false p m r retArea

/-- classification of the known defect: exactly what lies below fixed-length lists is missed -/
def resultBlocksSkippingFlists (p : Nat) (r : Ty) (retArea : Nat) (m : Spec.Mem) : List (Nat × Nat × Nat) :=
  reachBlocks true p m r retArea

end Witverif.Abi.RustProfile
