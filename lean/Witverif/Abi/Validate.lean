import Witverif.Abi.Sem
import Witverif.Abi.Gen
/-
Property monitors for C01/C03 on a *given* tree (the real generator's, or the model's):
run the tree in the reference machine on a concrete value and compare with the specification
(`Spec.lowerFlat/store/load/liftFlat`, ledger of allocated blocks).  These are the executable
forms of the statements proved in `Props/C01.lean`, `Props/C03.lean`; the check evaluates them on the
implementation's trees for seeded values (search for a failing input, and validation of the
machine/spec pair on the unchanged tree).
-/
namespace Witverif.Abi
open Spec

def sortBlocks (bs : List (Nat × Nat × Nat)) : List (Nat × Nat × Nat) :=
  (bs.filter fun b => b.2.1 > 0).mergeSort fun a b => a.1 < b.1 || (a.1 == b.1 && a.2.1 ≤ b.2.1)

/-- memory agrees on every address the spec wrote -/
def memAgreesOn (spec impl : Mem) : Bool :=
  spec.all fun (a, _) => spec.read a == impl.read a

mutual
/-- handles that the `ListsAndOwn` cleanup must drop: `own`, `future`, `stream` positions -/
def ownedHandles : Ty → Val → List Nat
  | .own, .handle h | .future _, .handle h | .stream _, .handle h => [h]
  | .list e, .list vs | .flist e _, .list vs => ownedHandlesAll e vs
  | .map k v, .list vs => ownedHandlesEntries k v vs
  | .record fs, .record vs | .tuple fs, .record vs => ownedHandlesFields fs vs
  | .variant cs, .variant i pv => match cs[i]? with
    | some c => ownedHandlesOpt c pv
    | none => []
  | .option t, .variant _ (some v) => ownedHandles t v
  | .result a _, .variant 0 pv => ownedHandlesOpt a pv
  | .result _ b, .variant _ pv => ownedHandlesOpt b pv
  | _, _ => []
def ownedHandlesAll : Ty → List Val → List Nat
  | _, [] => []
  | t, v :: vs => ownedHandles t v ++ ownedHandlesAll t vs
def ownedHandlesEntries : Ty → Ty → List Val → List Nat
  | k, v, .record [x, y] :: vs => ownedHandles k x ++ ownedHandles v y ++ ownedHandlesEntries k v vs
  | _, _, _ => []
def ownedHandlesFields : List Ty → List Val → List Nat
  | t :: ts, v :: vs => ownedHandles t v ++ ownedHandlesFields ts vs
  | _, _ => []
def ownedHandlesOpt : Option Ty → Option Val → List Nat
  | some t, some v => ownedHandles t v
  | _, _ => []
end

/-- concatenate `f a` over `n` consecutive elements of size `sz` -/
def reachMany (f : Nat → List (Nat × Nat × Nat)) (sz a : Nat) : Nat → List (Nat × Nat × Nat)
  | 0 => []
  | n + 1 => f a ++ reachMany f sz (a + sz) n

/-- `f` holds at `n` consecutive elements of size `sz` -/
def allMany (f : Nat → Bool) (sz a : Nat) : Nat → Bool
  | 0 => true
  | n + 1 => f a && allMany f sz (a + sz) n

mutual
/-- heap blocks (addr, size, align) reachable from a value of type `t` stored at `a` (spec layout).
`skipFlist = true` ignores everything below a fixed-length list — what a cleanup that does nothing
for fixed-length lists would free; used only to *classify* a failure as the known defect. -/
def reachBlocks (skipFlist : Bool) (p : Nat) (m : Mem) : Ty → Nat → List (Nat × Nat × Nat)
  | .string, a => [(m.loadLE a p, m.loadLE (a + p) p, 1)]
  | .list e, a =>
      let ptr := m.loadLE a p
      let n := m.loadLE (a + p) p
      (ptr, n * elemSize p e, alignment p e) :: reachMany (reachBlocks skipFlist p m e) (elemSize p e) ptr n
  | .map k v, a =>
      let ptr := m.loadLE a p
      let n := m.loadLE (a + p) p
      let esz := elemSize p (.tuple [k, v])
      let vo := alignTo (elemSize p k) (alignment p v)
      (ptr, n * esz, alignment p (.tuple [k, v])) ::
        (reachMany (reachBlocks skipFlist p m k) esz ptr n ++ reachMany (reachBlocks skipFlist p m v) esz (ptr + vo) n)
  | .flist e n, a => if skipFlist then [] else reachMany (reachBlocks skipFlist p m e) (elemSize p e) a n
  | .record fs, a => reachFields skipFlist p m fs a 0
  | .tuple ts, a => reachFields skipFlist p m ts a 0
  | .variant cs, a =>
      let tag := discriminant cs.length
      reachCase skipFlist p m cs (m.loadLE a tag.size) (a + payloadOffset p tag cs)
  | .option t, a =>
      if m.loadLE a 1 == 1 then reachBlocks skipFlist p m t (a + payloadOffset p .u8 [none, some t]) else []
  | .result ok err, a =>
      let po := a + payloadOffset p .u8 [ok, err]
      if m.loadLE a 1 == 0 then reachOpt skipFlist p m ok po else reachOpt skipFlist p m err po
  | _, _ => []
def reachFields (skipFlist : Bool) (p : Nat) (m : Mem) : List Ty → Nat → Nat → List (Nat × Nat × Nat)
  | [], _, _ => []
  | t :: ts, a, cur =>
      let o := alignTo cur (alignment p t)
      reachBlocks skipFlist p m t (a + o) ++ reachFields skipFlist p m ts a (o + elemSize p t)
def reachOpt (skipFlist : Bool) (p : Nat) (m : Mem) : Option Ty → Nat → List (Nat × Nat × Nat)
  | none, _ => []
  | some t, a => reachBlocks skipFlist p m t a
def reachCase (skipFlist : Bool) (p : Nat) (m : Mem) : List (Option Ty) → Nat → Nat → List (Nat × Nat × Nat)
  | [], _, _ => []
  | c :: _, 0, a => reachOpt skipFlist p m c a
  | _ :: cs, i + 1, a => reachCase skipFlist p m cs i a
end

mutual
/-- heap blocks released by a complete lists-only cleanup of the value of type `t` stored at `a`, in
release order (the buffers of a list's elements before the list's own buffer).  Spec side of C03:
defined by the memory layout only. -/
def cleanupBlocks (p : Nat) (m : Mem) : Ty → Nat → List (Nat × Nat × Nat)
  | .string, a => [(m.loadLE a p, m.loadLE (a + p) p, 1)]
  | .list e, a =>
      let ptr := m.loadLE a p
      let n := m.loadLE (a + p) p
      reachMany (cleanupBlocks p m e) (elemSize p e) ptr n ++ [(ptr, n * elemSize p e, alignment p e)]
  | .map k v, a =>
      let ptr := m.loadLE a p
      let n := m.loadLE (a + p) p
      let esz := elemSize p (.tuple [k, v])
      let vo := alignTo (elemSize p k) (alignment p v)
      reachMany (fun b => cleanupBlocks p m k b ++ cleanupBlocks p m v (b + vo)) esz ptr n
        ++ [(ptr, n * esz, alignment p (.tuple [k, v]))]
  | .flist e n, a => reachMany (cleanupBlocks p m e) (elemSize p e) a n
  | .record fs, a => cleanupFields p m fs a 0
  | .tuple ts, a => cleanupFields p m ts a 0
  | .variant cs, a =>
      let tag := discriminant cs.length
      cleanupCase p m cs (m.loadLE a tag.size) (a + payloadOffset p tag cs)
  | .option t, a =>
      if m.loadLE a 1 == 1 then cleanupBlocks p m t (a + payloadOffset p .u8 [none, some t]) else []
  | .result ok err, a =>
      let po := a + payloadOffset p .u8 [ok, err]
      if m.loadLE a 1 == 0 then cleanupOpt p m ok po else if m.loadLE a 1 == 1 then cleanupOpt p m err po else []
  | _, _ => []
def cleanupFields (p : Nat) (m : Mem) : List Ty → Nat → Nat → List (Nat × Nat × Nat)
  | [], _, _ => []
  | t :: ts, a, cur =>
      let o := alignTo cur (alignment p t)
      cleanupBlocks p m t (a + o) ++ cleanupFields p m ts a (o + elemSize p t)
def cleanupOpt (p : Nat) (m : Mem) : Option Ty → Nat → List (Nat × Nat × Nat)
  | none, _ => []
  | some t, a => cleanupBlocks p m t a
def cleanupCase (p : Nat) (m : Mem) : List (Option Ty) → Nat → Nat → List (Nat × Nat × Nat)
  | [], _, _ => []
  | c :: _, 0, a => cleanupOpt p m c a
  | _ :: cs, i + 1, a => cleanupCase p m cs i a
end

mutual
/-- every discriminant the cleanup inspects is in range (what a successful `Spec.load` guarantees) -/
def validDiscs (p : Nat) (m : Mem) : Ty → Nat → Bool
  | .list e, a => allMany (validDiscs p m e) (elemSize p e) (m.loadLE a p) (m.loadLE (a + p) p)
  | .map k v, a =>
      let vo := alignTo (elemSize p k) (alignment p v)
      allMany (fun b => validDiscs p m k b && validDiscs p m v (b + vo)) (elemSize p (.tuple [k, v]))
        (m.loadLE a p) (m.loadLE (a + p) p)
  | .record fs, a => validFields p m fs a 0
  | .tuple ts, a => validFields p m ts a 0
  | .variant cs, a =>
      let tag := discriminant cs.length
      m.loadLE a tag.size < cs.length && validCase p m cs (m.loadLE a tag.size) (a + payloadOffset p tag cs)
  | .option t, a =>
      m.loadLE a 1 < 2 && (m.loadLE a 1 != 1 || validDiscs p m t (a + payloadOffset p .u8 [none, some t]))
  | .result ok err, a =>
      let po := a + payloadOffset p .u8 [ok, err]
      m.loadLE a 1 < 2 && (if m.loadLE a 1 == 0 then validOpt p m ok po else validOpt p m err po)
  | _, _ => true
def validFields (p : Nat) (m : Mem) : List Ty → Nat → Nat → Bool
  | [], _, _ => true
  | t :: ts, a, cur =>
      let o := alignTo cur (alignment p t)
      validDiscs p m t (a + o) && validFields p m ts a (o + elemSize p t)
def validOpt (p : Nat) (m : Mem) : Option Ty → Nat → Bool
  | none, _ => true
  | some t, a => validDiscs p m t a
def validCase (p : Nat) (m : Mem) : List (Option Ty) → Nat → Nat → Bool
  | [], _, _ => true
  | c :: _, 0, a => validOpt p m c a
  | _ :: cs, i + 1, a => validCase p m cs i a
end

mutual
/-- `ownedHandles` ignoring everything below a fixed-length list (classification only) -/
def ownedHandlesNoFlist : Ty → Val → List Nat
  | .own, .handle h | .future _, .handle h | .stream _, .handle h => [h]
  | .list e, .list vs => ownedHandlesNoFlistAll e vs
  | .map k v, .list vs => ownedHandlesNoFlistEntries k v vs
  | .record fs, .record vs | .tuple fs, .record vs => ownedHandlesNoFlistFields fs vs
  | .variant cs, .variant i pv => match cs[i]? with
    | some c => ownedHandlesNoFlistOpt c pv
    | none => []
  | .option t, .variant _ (some v) => ownedHandlesNoFlist t v
  | .result a _, .variant 0 pv => ownedHandlesNoFlistOpt a pv
  | .result _ b, .variant _ pv => ownedHandlesNoFlistOpt b pv
  | _, _ => []
def ownedHandlesNoFlistAll : Ty → List Val → List Nat
  | _, [] => []
  | t, v :: vs => ownedHandlesNoFlist t v ++ ownedHandlesNoFlistAll t vs
def ownedHandlesNoFlistEntries : Ty → Ty → List Val → List Nat
  | k, v, .record [x, y] :: vs =>
      ownedHandlesNoFlist k x ++ ownedHandlesNoFlist v y ++ ownedHandlesNoFlistEntries k v vs
  | _, _, _ => []
def ownedHandlesNoFlistFields : List Ty → List Val → List Nat
  | t :: ts, v :: vs => ownedHandlesNoFlist t v ++ ownedHandlesNoFlistFields ts vs
  | _, _ => []
def ownedHandlesNoFlistOpt : Option Ty → Option Val → List Nat
  | some t, some v => ownedHandlesNoFlist t v
  | _, _ => []
end

def mvsStr (xs : List MV) : String :=
  " ".intercalate (xs.map fun
    | .c x => (match x.ty with | .i32 => "i32:" | .i64 => "i64:" | .f32 => "f32:" | .f64 => "f64:") ++ toString x.bits
    | .v _ => "<val>")

/-- C01, flat lowering: machine(tree)(v) against `Spec.lowerFlat` -/
def checkLowerFlat (p : Nat) (t : Ty) (v : Val) (b : Block) : String :=
  match runBlock { p, inputs := [.v v] } {} b with
  | none => "FAIL machine-stuck"
  | some (rs, s) =>
    match cvals rs with
    | none => "FAIL non-core-result"
    | some cs =>
      let (fs, ss) := Spec.lowerFlat p t v {}
      if cs.map (·.ty) != Spec.flatten p t then "FAIL flat-types got=" ++ mvsStr rs
      else if Spec.liftFlat p s.st.mem t cs != some v then "FAIL spec-lift-of-lowered got=" ++ mvsStr rs
      else if cs != fs then "FAIL flat-values got=" ++ mvsStr rs ++ " want=" ++ mvsStr (fs.map .c)
      else if !memAgreesOn ss.mem s.st.mem then "FAIL memory-bytes"
      else if sortBlocks s.st.heap.blocks != sortBlocks ss.heap.blocks then "FAIL allocations"
      else "ok"

/-- C01, lowering to memory: machine(tree)(v, addr) against `Spec.store` -/
def checkLowerMem (p : Nat) (t : Ty) (v : Val) (b : Block) : String :=
  let (addr, s0) := ({} : MSt).alloc (elemSize p t) (alignment p t)
  match runBlock { p, inputs := [.v v, .c (pcv p addr)] } s0 b with
  | none => "FAIL machine-stuck"
  | some (_, s) =>
    let ss := Spec.store p t v addr s0.st
    if Spec.load p s.st.mem t addr != some v then "FAIL spec-load-of-stored"
    else if !memAgreesOn ss.mem s.st.mem then "FAIL memory-bytes"
    else if sortBlocks s.st.heap.blocks != sortBlocks ss.heap.blocks then "FAIL allocations"
    else "ok"

/-- C01, lifting from memory: `Spec.store` then machine(tree)(addr) must give back `v` -/
def checkLiftMem (p : Nat) (t : Ty) (v : Val) (b : Block) : String :=
  let (addr, s0) := ({} : MSt).alloc (elemSize p t) (alignment p t)
  let ss := Spec.store p t v addr s0.st
  match runBlock { p, inputs := [.c (pcv p addr)] } { s0 with st := ss } b with
  | some ([.v v'], _) => if v' == v then "ok" else "FAIL lifted-value-differs"
  | some _ => "FAIL result-shape"
  | none => "FAIL machine-stuck-or-trap"

/-- C03: after the spec lowered `v` (allocating its buffers), the cleanup tree must free exactly
those blocks, each once with its size and alignment, and (mode `own`) drop exactly the owned handles -/
def checkDealloc (p : Nat) (own indirect : Bool) (t : Ty) (v : Val) (b : Block) : String :=
  let (inputs, st, expected, flistSkipped) : List MV × St × List (Nat × Nat × Nat) × List (Nat × Nat × Nat) :=
    if indirect then
      let (addr, s0) := ({} : MSt).alloc (elemSize p t) (alignment p t)
      let ss := Spec.store p t v addr s0.st
      ([.c (pcv p addr)], ss, ss.heap.blocks.filter (fun b => !(s0.st.heap.blocks.contains b)),
        reachBlocks true p ss.mem t addr)
    else
      let (fs, ss) := Spec.lowerFlat p t v {}
      (fs.map .c, ss, ss.heap.blocks, ss.heap.blocks)
  match runBlock { p, inputs } { st } b with
  | none => "FAIL machine-stuck"
  | some (_, s) =>
    let wantDrops := if own then ownedHandles t v else []
    -- spec-internal consistency tying `cleanupBlocks` (C03 theorem) to what the spec allocated
    if indirect && sortBlocks (cleanupBlocks p st.mem t (match inputs with | [.c a] => a.bits | _ => 0)) != sortBlocks expected then
      "FAIL spec-inconsistency cleanupBlocks≠allocated" else
    let blocksOk := sortBlocks s.freed == sortBlocks expected
    let dropsOk := s.dropped.mergeSort == wantDrops.mergeSort
    if blocksOk && dropsOk then "ok"
    else
      -- classification of the known defect: exactly what lies below a fixed-length list is missed
      -- (direct operands: the buffers live at other addresses than in an in-memory copy of the value, so the
      -- blocks a fixed-length-list-skipping cleanup frees are compared by (size, align) shape, and every
      -- freed block must be one of the allocated ones)
      let shape (bs : List (Nat × Nat × Nat)) : List (Nat × Nat) := (bs.map (·.2)).mergeSort (fun a b => a.1 < b.1 || (a.1 == b.1 && a.2 ≤ b.2))
      let skippedShapeDirect : List (Nat × Nat) :=
        let (addr, s0) := ({} : MSt).alloc (elemSize p t) (alignment p t)
        let ss := Spec.store p t v addr s0.st
        shape (reachBlocks true p ss.mem t addr)
      let blocksAsSkipping :=
        if indirect then sortBlocks s.freed == sortBlocks flistSkipped
        else s.freed.all (expected.contains ·) && shape s.freed == skippedShapeDirect
      let isFlistLeak := blocksAsSkipping &&
        s.dropped.mergeSort == (if own then ownedHandlesNoFlist t v else []).mergeSort
      (if isFlistLeak then "FAIL[flist-leak]" else "FAIL") ++
        (if !blocksOk then " freed=" ++ toString (sortBlocks s.freed) ++ " expected=" ++ toString (sortBlocks expected)
         else " dropped=" ++ toString s.dropped ++ " expected=" ++ toString wantDrops)

mutual
/-- spec side of "a result contains a heap buffer": a string, list or map is reachable (at any depth,
in any variant case, also through fixed-length lists) -/
def hasBuffer : Ty → Bool
  | .string | .list _ | .map _ _ => true
  | .flist e _ => hasBuffer e
  | .record fs => hasBufferAny fs
  | .tuple ts => hasBufferAny ts
  | .variant cs => hasBufferAnyOpt cs
  | .option t => hasBuffer t
  | .result a b => hasBufferOpt a || hasBufferOpt b
  | _ => false
def hasBufferAny : List Ty → Bool
  | [] => false
  | t :: ts => hasBuffer t || hasBufferAny ts
def hasBufferOpt : Option Ty → Bool
  | none => false
  | some t => hasBuffer t
def hasBufferAnyOpt : List (Option Ty) → Bool
  | [] => false
  | t :: ts => hasBufferOpt t || hasBufferAnyOpt ts
end

/-- C03: "a post-return entry point is generated exactly when a result contains a heap buffer" -/
def checkNeeds (f : Func) (implPostReturn : Bool) : String :=
  if implPostReturn == hasBufferOpt f.result then "ok"
  else "FAIL post-return=" ++ toString implPostReturn ++ " result-has-buffer=" ++ toString (hasBufferOpt f.result)

/-! ### C02: call glue -/

/-- flat lowering of several values, threading the state -/
def specLowerAll (p : Nat) : List Ty → List Val → St → List CVal × St
  | t :: ts, v :: vs, s =>
      let (a, s) := Spec.lowerFlat p t v s
      let (b, s) := specLowerAll p ts vs s
      (a ++ b, s)
  | _, _, s => ([], s)

/-- lift consecutive chunks (spec) -/
def specLiftAll (p : Nat) (m : Mem) : List Ty → List CVal → Option (List Val)
  | [], _ => some []
  | t :: ts, cs => do
      let k := (Spec.flatten p t).length
      let v ← Spec.liftFlat p m t (cs.take k)
      let vs ← specLiftAll p m ts (cs.drop k)
      pure (v :: vs)

def findCall (s : MSt) (name : String) : List (List MV) :=
  (s.calls.filter (·.1 == name)).map (·.2)

def countCalls (s : MSt) (names : List String) : Nat := (s.calls.filter fun c => names.contains c.1).length

/-- C02 monitor on one glue tree: `vals` are the parameter values, `res` the result value -/
def checkCall (p : Nat) (v : Variant) (lowerArgs async : Bool) (f : Func) (vals : List Val)
    (res : Option Val) (b : Block) : String :=
  let sig := wasmSignature v f
  let recTy := Ty.record f.params
  let resTys := f.result.toList
  let resRec := Ty.record resTys
  let resVals := res.toList
  if lowerArgs then
    -- the guest calls out: operands of CallWasm must be the canonical lowering of the arguments
    let s0 : MSt := {}
    let (rp0, s0) := if sig.indirectParams then s0.alloc (elemSize p recTy) (alignment p recTy) else (0, s0)
    let (retArea, s0) := s0.alloc (elemSize p resRec) (alignment p resRec)
    let s0 := if sig.retptr then { s0 with st := Spec.store p resRec (.record resVals) retArea s0.st } else s0
    let rps := if sig.indirectParams then [rp0, retArea] else [retArea]
    let (callRes, st1) :=
      if sig.retptr then ((if v == .guestExport then [pcv p retArea] else [] : List CVal), s0.st)
      else if async then ([⟨.i32, 0⟩], s0.st)
      else specLowerAll p resTys resVals s0.st
    let s0 := { s0 with st := st1 }
    match runBlock { p, args := vals.map .v, rps, callResults := callRes.map .c } s0 b with
    | none => "FAIL machine-stuck"
    | some (_, s) =>
      if countCalls s ["CallWasm", "CallInterface"] != 1 then "FAIL call-count"
      else if countCalls s ["Return", "AsyncTaskReturn"] != 1 then "FAIL return-count"
      else
      match findCall s "CallWasm" with
      | [xs] =>
        match cvals xs with
        | none => "FAIL callwasm-operand-not-core"
        | some cs =>
          -- (exported methods: wit-parser types the `self` slot as a pointer, the operand is a handle)
          let skip := if f.isMethod && v.isExport && !sig.indirectParams then 1 else 0
          if (cs.map (·.ty)).drop skip != (sig.params.map (·.erase p)).drop skip then "FAIL callwasm-operand-types"
          else
          let argCs := if v == .guestImport && sig.retptr then cs.dropLast else cs
          let argsOk :=
            if sig.indirectParams then
              (v == .guestImport → argCs.map (·.bits) == [rp0]) &&
              (match argCs with
               | [a] => Spec.load p s.st.mem recTy a.bits == some (.record vals)
               | _ => false)
            else specLiftAll p s.st.mem f.params argCs == some vals
          if !argsOk then "FAIL arguments-not-canonical got=" ++ mvsStr xs
          else if v == .guestImport && sig.retptr && (cs.getLast?.map (·.bits)) != some retArea then "FAIL retptr-operand"
          else if async then "ok"
          else
            match findCall s "Return" with
            | [ys] => if vals? ys == some resVals then "ok" else "FAIL returned-value"
            | _ => "FAIL return-missing"
      | _ => "FAIL callwasm-missing"
  else
    -- the guest is called: operands of CallInterface must be the lifted arguments; the result must be
    -- lowered canonically; a caller-allocated parameter record is freed exactly once
    let s0 : MSt := {}
    let (retArea, s0) := s0.alloc (elemSize p resRec) (alignment p resRec)
    let isImport := v == .guestImport || v == .guestImportAsync
    let extra : List MV := if isImport && sig.retptr then [MV.c (pcv p retArea)] else []
    let (args, s0, recPtr) : List MV × MSt × Nat :=
      if sig.indirectParams then
        let (ptr, s0) := s0.alloc (elemSize p recTy) (alignment p recTy)
        let st := Spec.store p recTy (.record vals) ptr s0.st
        ([MV.c (pcv p ptr)] ++ extra, { s0 with st }, ptr)
      else
        let (cs, st) := specLowerAll p f.params vals s0.st
        (cs.map .c ++ extra, { s0 with st }, 0)
    let blocksBefore := s0.st.heap.blocks
    match runBlock { p, args, rps := [retArea], ifaceResult := resVals.map .v } s0 b with
    | none => "FAIL machine-stuck"
    | some (_, s) =>
      if countCalls s ["CallWasm", "CallInterface"] != 1 then "FAIL call-count"
      else if countCalls s ["Return", "AsyncTaskReturn"] != 1 then "FAIL return-count"
      else
      match findCall s "CallInterface" with
      | [xs] =>
        if vals? xs != some vals then "FAIL lifted-arguments-differ"
        else
        let recFrees := (s.freed.filter fun b => b.1 == recPtr && sig.indirectParams).length
        let wantFrees := if sig.indirectParams && v.isExport then 1 else 0
        -- ... and with the layout the caller allocated it with (size and alignment of the record)
        let recBlock : Nat × Nat × Nat := (recPtr, elemSize p recTy, alignment p recTy)
        let badRecFree := sig.indirectParams && s.freed.any fun b => b.1 == recPtr && b != recBlock
        let resultOk (ys : List MV) (flatOk : Bool) : Bool :=
          match cvals ys with
          | none => false
          | some cs =>
            if flatOk then specLiftAll p s.st.mem resTys cs == some resVals
            else (if isImport then cs.isEmpty else cs.map (·.bits) == [retArea]) &&
              Spec.load p s.st.mem resRec retArea == some (.record resVals)
        let tailOk :=
          if async then
            match findCall s "AsyncTaskReturn" with
            | [ys] => resultOk ys ((flattenList resTys).length ≤ 16)
            | _ => false
          else
            match findCall s "Return" with
            | [ys] => resultOk ys (!sig.retptr)
            | _ => false
        if !tailOk then "FAIL result-not-canonical"
        else if recFrees != wantFrees then
          "FAIL param-record-frees=" ++ toString recFrees ++ " expected=" ++ toString wantFrees
        else if badRecFree then
          "FAIL param-record-free-layout freed=" ++ toString (s.freed.filter fun b => b.1 == recPtr) ++ " allocated=" ++ toString recBlock
        else if (s.freed.filter fun b => blocksBefore.any (·.1 == b.1) && b.1 != recPtr).length != 0 then
          "FAIL freed-foreign-block"
        else "ok"
      | _ => "FAIL callinterface-missing"
where vals? (xs : List MV) : Option (List Val) := xs.mapM MV.val?

end Witverif.Abi
