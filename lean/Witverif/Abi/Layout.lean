import Witverif.Abi.Types
/-
Layout and flattening.

`alignment`, `elemSize`, field offsets and payload offsets follow the canonical ABI
(CanonicalABI.md `alignment`, `elem_size`, `discriminant_type`), parameterised by the pointer
width `p` (4 or 8).  The generator model uses them evaluated at both widths (`Off`); the
correspondence run compares them with what wit-parser's symbolic `SizeAlign` evaluates to, so
wit-parser's symbolic arithmetic itself is not modelled (it is an external crate).

`flatten` mirrors wit-parser's `push_flat` / `push_flat_variants` / `join` (with the provenance
refinement `ptr`/`len`/`p64`), `cast` mirrors `wit_bindgen_core::abi::cast`.
-/
namespace Witverif.Abi

def alignTo (n a : Nat) : Nat := (n + a - 1) / a * a

def discriminant (ncases : Nat) : IntRepr :=
  if ncases ≤ 256 then .u8 else if ncases ≤ 65536 then .u16 else .u32

def IntRepr.size : IntRepr → Nat
  | .u8 => 1 | .u16 => 2 | .u32 => 4 | .u64 => 8

def IntRepr.core : IntRepr → CoreTy
  | .u64 => .i64 | _ => .i32

/-- wit-parser `FlagsRepr`: `none` = `U32(n)` with `n` words. -/
inductive FlagsRepr where
  | u8 | u16 | u32 (n : Nat)
deriving Repr, DecidableEq

def flagsRepr (n : Nat) : FlagsRepr :=
  if n = 0 then .u32 0 else if n ≤ 8 then .u8 else if n ≤ 16 then .u16 else .u32 ((n + 31) / 32)

def FlagsRepr.count : FlagsRepr → Nat
  | .u8 => 1 | .u16 => 1 | .u32 n => n

mutual
/-- canonical ABI `alignment` for pointer width `p`. -/
def alignment (p : Nat) : Ty → Nat
  | .bool | .s8 | .u8 => 1
  | .s16 | .u16 => 2
  | .s32 | .u32 | .f32 | .char | .errctx => 4
  | .s64 | .u64 | .f64 => 8
  | .string | .list _ | .map _ _ => p
  | .flist e _ => alignment p e
  | .record fs => maxAlign p fs
  | .tuple ts => maxAlign p ts
  | .flags n => match flagsRepr n with | .u8 => 1 | .u16 => 2 | .u32 _ => 4
  | .enum n => (discriminant n).size
  | .variant cs => Nat.max (discriminant cs.length).size (maxAlignOpt p cs)
  | .option t => Nat.max 1 (alignment p t)
  | .result a b => Nat.max 1 (Nat.max (alignOpt p a) (alignOpt p b))
  | .own | .borrow | .future _ | .stream _ => 4
def maxAlign (p : Nat) : List Ty → Nat
  | [] => 1
  | t :: ts => Nat.max (alignment p t) (maxAlign p ts)
def alignOpt (p : Nat) : Option Ty → Nat
  | none => 1
  | some t => alignment p t
def maxAlignOpt (p : Nat) : List (Option Ty) → Nat
  | [] => 1
  | t :: ts => Nat.max (alignOpt p t) (maxAlignOpt p ts)
end

mutual
/-- canonical ABI `elem_size` for pointer width `p`. -/
def elemSize (p : Nat) : Ty → Nat
  | .bool | .s8 | .u8 => 1
  | .s16 | .u16 => 2
  | .s32 | .u32 | .f32 | .char | .errctx => 4
  | .s64 | .u64 | .f64 => 8
  | .string | .list _ | .map _ _ => 2 * p
  | .flist e n => n * elemSize p e
  | .record fs => alignTo (recordEnd p 0 fs) (maxAlign p fs)
  | .tuple ts => alignTo (recordEnd p 0 ts) (maxAlign p ts)
  | .flags n => match flagsRepr n with | .u8 => 1 | .u16 => 2 | .u32 k => 4 * k
  | .enum n => (discriminant n).size
  | .variant cs =>
      let d := (discriminant cs.length).size
      alignTo (alignTo d (maxAlignOpt p cs) + maxSizeOpt p cs) (Nat.max d (maxAlignOpt p cs))
  | .option t =>
      alignTo (alignTo 1 (alignment p t) + elemSize p t) (Nat.max 1 (alignment p t))
  | .result a b =>
      let ca := Nat.max (alignOpt p a) (alignOpt p b)
      alignTo (alignTo 1 ca + Nat.max (sizeOpt p a) (sizeOpt p b)) (Nat.max 1 ca)
  | .own | .borrow | .future _ | .stream _ => 4
/-- end offset after laying out fields starting at `cur` (no trailing padding). -/
def recordEnd (p : Nat) (cur : Nat) : List Ty → Nat
  | [] => cur
  | t :: ts => recordEnd p (alignTo cur (alignment p t) + elemSize p t) ts
def sizeOpt (p : Nat) : Option Ty → Nat
  | none => 0
  | some t => elemSize p t
def maxSizeOpt (p : Nat) : List (Option Ty) → Nat
  | [] => 0
  | t :: ts => Nat.max (sizeOpt p t) (maxSizeOpt p ts)
end

/-- offsets of record fields starting at `cur`. -/
def fieldOffsets (p : Nat) (cur : Nat) : List Ty → List Nat
  | [] => []
  | t :: ts => alignTo cur (alignment p t) :: fieldOffsets p (alignTo cur (alignment p t) + elemSize p t) ts

/-- offset of the payload of a variant with discriminant `tag` and the given cases. -/
def payloadOffset (p : Nat) (tag : IntRepr) (cs : List (Option Ty)) : Nat :=
  alignTo tag.size (maxAlignOpt p cs)

def sizeOff (t : Ty) : Off := ⟨elemSize 4 t, elemSize 8 t⟩
def alignOff (t : Ty) : Off := ⟨alignment 4 t, alignment 8 t⟩
def fieldOffs (ts : List Ty) : List Off :=
  List.zipWith Off.mk (fieldOffsets 4 0 ts) (fieldOffsets 8 0 ts)
def payloadOff (tag : IntRepr) (cs : List (Option Ty)) : Off :=
  ⟨payloadOffset 4 tag cs, payloadOffset 8 tag cs⟩
/-- `SizeAlign::record` (also `params`): size and alignment of a parameter/result record. -/
def recordSizeOff (ts : List Ty) : Off := sizeOff (.record ts)
def recordAlignOff (ts : List Ty) : Off := alignOff (.record ts)

/-! ### flattening -/

/-- wit-parser `join`. -/
def join (a b : CoreTy) : CoreTy :=
  match a, b with
  | .i32, .i32 | .i64, .i64 | .f32, .f32 | .f64, .f64 | .ptr, .ptr | .p64, .p64 | .len, .len => a
  | .i32, .f32 | .f32, .i32 => .i32
  | .len, .i32 | .len, .f32 | .i32, .len | .f32, .len => .len
  | .len, .i64 | .len, .f64 | .i64, .len | .f64, .len => .i64
  | .ptr, .i32 | .ptr, .f32 | .ptr, .len | .i32, .ptr | .f32, .ptr | .len, .ptr => .ptr
  | .ptr, .i64 | .ptr, .f64 | .i64, .ptr | .f64, .ptr => .p64
  | .p64, _ | _, .p64 => .p64
  | _, _ => .i64

/-- pointwise join of two flattenings, the longer tail is kept (`push_flat_variants`). -/
def joinFlat : List CoreTy → List CoreTy → List CoreTy
  | [], bs => bs
  | as, [] => as
  | a :: as, b :: bs => join a b :: joinFlat as bs

def flattenRep (f : List CoreTy) : Nat → List CoreTy
  | 0 => []
  | n + 1 => f ++ flattenRep f n

mutual
/-- unbounded flattening (wit-parser `push_flat` without the storage limit). -/
def flatten : Ty → List CoreTy
  | .bool | .s8 | .u8 | .s16 | .u16 | .s32 | .u32 | .char | .errctx => [.i32]
  | .s64 | .u64 => [.i64]
  | .f32 => [.f32]
  | .f64 => [.f64]
  | .string | .list _ | .map _ _ => [.ptr, .len]
  | .flist e n => flattenRep (flatten e) n
  | .record fs => flattenList fs
  | .tuple ts => flattenList ts
  | .flags n => List.replicate (flagsRepr n).count .i32
  | .enum n => [(discriminant n).core]
  | .variant cs => (discriminant cs.length).core :: flattenCases cs
  | .option t => .i32 :: joinFlat [] (flatten t)
  | .result a b => .i32 :: joinFlat (flattenOpt a) (flattenOpt b)
  | .own | .borrow | .future _ | .stream _ => [.i32]
def flattenList : List Ty → List CoreTy
  | [] => []
  | t :: ts => flatten t ++ flattenList ts
def flattenOpt : Option Ty → List CoreTy
  | none => []
  | some t => flatten t
def flattenCases : List (Option Ty) → List CoreTy
  | [] => []
  | c :: cs => joinFlat (flattenOpt c) (flattenCases cs)
end

/-- `abi::flat_types(resolve, ty, Some(max))`. -/
def flatTypes (t : Ty) (max : Nat := 16) : Option (List CoreTy) :=
  let f := flatten t
  if f.length ≤ max then some f else none

/-- `abi::cast`; `none` where the Rust function is `unreachable!`. -/
def cast : CoreTy → CoreTy → Option Bitcast
  | .i32, .i32 | .i64, .i64 | .f32, .f32 | .f64, .f64 | .ptr, .ptr | .p64, .p64 | .len, .len => some .none
  | .i32, .i64 => some .i32ToI64
  | .f32, .i32 => some .f32ToI32
  | .f64, .i64 => some .f64ToI64
  | .i64, .i32 => some .i64ToI32
  | .i32, .f32 => some .i32ToF32
  | .i64, .f64 => some .i64ToF64
  | .f32, .i64 => some .f32ToI64
  | .i64, .f32 => some .i64ToF32
  | .i64, .p64 => some .i64ToP64
  | .ptr, .p64 => some .pToP64
  | .i32, .p64 => some (.seq .i32ToI64 .i64ToP64)
  | .f32, .p64 => some (.seq .f32ToI64 .i64ToP64)
  | .f64, .p64 => some (.seq .f64ToI64 .i64ToP64)
  | .len, .p64 => some (.seq .lToI64 .i64ToP64)
  | .p64, .i64 => some .p64ToI64
  | .p64, .ptr => some .p64ToP
  | .p64, .i32 => some (.seq .p64ToI64 .i64ToI32)
  | .p64, .f32 => some (.seq .p64ToI64 .i64ToF32)
  | .p64, .f64 => some (.seq .p64ToI64 .i64ToF64)
  | .p64, .len => some (.seq .p64ToI64 .i64ToL)
  | .i32, .ptr => some .i32ToP
  | .ptr, .i32 => some .pToI32
  | .i32, .len => some .i32ToL
  | .len, .i32 => some .lToI32
  | .i64, .len => some .i64ToL
  | .len, .i64 => some .lToI64
  | .ptr, .len => some .pToL
  | .len, .ptr => some .lToP
  | .f32, .ptr => some (.seq .f32ToI32 .i32ToP)
  | .f32, .len => some (.seq .f32ToI32 .i32ToL)
  | .ptr, .f32 => some (.seq .pToI32 .i32ToF32)
  | .len, .f32 => some (.seq .lToI32 .i32ToF32)
  | .f32, .f64 | .f64, .f32 | .f64, .i32 | .i32, .f64
  | .ptr, .i64 | .ptr, .f64 | .len, .f64 | .i64, .ptr | .f64, .ptr | .f64, .len => none

end Witverif.Abi
