import Witverif.Abi.Gen
/-
Model of the ASYNC halves of the Rust backend's function bindings (C08):

  crates/rust/src/interface.rs  `generate_guest_import_body_async`
      `ParamsLower` (the lowered core parameters without the result pointer), `heap_types`,
      `abi_layout` (= `self.sizes.record(&heap_types)`), `results_offset` (= last of
      `self.sizes.field_offsets(&heap_types)` when there is a result, else 0), `params_lower`
      (indirect: `lower_to_memory` of parameter i at `field_offsets(params)[i]`; direct:
      `lower_flat` of every parameter), `results_lift` (= `lift_from_memory` at the result pointer),
      `params_dealloc_lists` / `params_dealloc_lists_and_own` (= `deallocate_lists[_and_own]_in_types`)
  crates/rust/src/interface.rs  `generate_guest_export` with `async_ = true`
      = `abi::call(GuestExportAsync, LiftArgsLowerResults, async_ = true)` inside
        `start_task(async move { let _task_cancel = TaskCancelOnDrop::new(); … })`
  crates/core/src/abi.rs        `lower_flat`, `lower_to_memory`, `lift_from_memory` (public entry
      points: all three set `realloc = Some(..)`: the lowered data is OWNED by the lowering).

Everything is expressed through the shared generator model `Abi/Gen.lean` (whose functions are tied
to abi.rs by the abi-trace correspondence of C01–C03); what is new here is the composition that
interface.rs performs, and the layout numbers, which the C08 check compares with the numbers in the
generated text, evaluated at both pointer widths.  Model the code that exists.  Import-free.
-/
namespace Witverif.Abi.RustAsync
open Witverif.Abi

/-- `sig.indirect_params` of `wasm_signature(GuestImportAsync, func)` -/
def indirect (f : Func) : Bool := (wasmSignature .guestImportAsync f).indirectParams

/-- `heap_types`: the parameters if they travel through memory, then the result -/
def heapTypes (f : Func) : List Ty :=
  (if indirect f then f.params else []) ++ f.result.toList

/-- `abi_layout`: `(size, align)` = `SizeAlign::record(heap_types)` -/
def abiLayout (f : Func) : Off × Off := (recordSizeOff (heapTypes f), recordAlignOff (heapTypes f))

/-- `results_offset`: `field_offsets(heap_types).last()` if there is a result, else `0` -/
def resultsOffset (f : Func) : Off :=
  match f.result with
  | some _ => (fieldOffs (heapTypes f)).getLast?.getD Off.zero
  | none => Off.zero

/-- the `_ptr.add(offset)` of `params_lower` in the indirect case: `field_offsets(params)` -/
def paramOffsets (f : Func) : List Off := if indirect f then fieldOffs f.params else []

/-- the fields of `struct ParamsLower(...)`: the core parameters without the result pointer -/
def paramsLowerTys (f : Func) : List CoreTy :=
  let s := wasmSignature .guestImportAsync f
  if s.retptr then s.params.dropLast else s.params

/-- `params_lower`: operand `arg i` is `_lower{i}`, operand `arg n` (n = number of parameters) is `_ptr`.
Returns the emitted statements and the operands of `ParamsLower(..)`. -/
def paramsLower (canon : Ty → Bool) (f : Func) : G (List Stmt × List Expr) :=
  let c : Cfg := ⟨canon, true⟩
  if indirect f then do
    let ptr := Expr.arg f.params.length
    let ss ← storeParams c f.params (fieldOffs f.params) 0 ptr
    pure (ss, [ptr])
  else lowerParams c f.params 0

/-- `results_lift`: operand `arg 0` is `_ptr` (already offset by `results_offset`) -/
def resultsLift (canon : Ty → Bool) (f : Func) : G (Option Expr) :=
  match f.result with
  | some t => do let e ← load ⟨canon, true⟩ 0 t (.arg 0) Off.zero; pure (some e)
  | none => pure none

/-- `params_dealloc_lists` (`own = false`) / `params_dealloc_lists_and_own` (`own = true`); the
operands are the fields of `ParamsLower` -/
def paramsDealloc (own : Bool) (f : Func) : G (List Stmt) :=
  deallocInTypes own (indirect f) f.params ((List.range (paramsLowerTys f).length).map Expr.arg)

/-- the body of the async export wrapper: `abi::call(GuestExportAsync, LiftArgsLowerResults, true)` -/
def exportBody (canon : Ty → Bool) (f : Func) : G (List Stmt) := call canon .guestExportAsync false true f

/-- the body of the sync export wrapper of the same function -/
def exportBodySync (canon : Ty → Bool) (f : Func) : G (List Stmt) := call canon .guestExport false false f

/-- does the glue free the caller-allocated parameter record? (top-level `GuestDeallocate` of arg 0) -/
def freesParamRecord : List Stmt → Bool
  | [] => false
  | .eff (.dealloc _ _) [.arg 0] [] :: _ => true
  | _ :: ss => freesParamRecord ss

/-- number of top-level `AsyncTaskReturn` / `Return` instructions -/
def countTaskReturn : List Stmt → Nat
  | [] => 0
  | .eff (.asyncTaskReturn _) _ _ :: ss => countTaskReturn ss + 1
  | _ :: ss => countTaskReturn ss
def countReturn : List Stmt → Nat
  | [] => 0
  | .eff (.ret _) _ _ :: ss => countReturn ss + 1
  | _ :: ss => countReturn ss

/-- everything the check compares with the generated text, as one line -/
def layoutStr (f : Func) : String :=
  let (sz, al) := abiLayout f
  "indirect=" ++ (if indirect f then "1" else "0") ++
  " size=" ++ sz.str ++ " align=" ++ al.str ++ " roff=" ++ (resultsOffset f).str ++
  " offs=" ++ (if (paramOffsets f).isEmpty then "-" else ",".intercalate ((paramOffsets f).map Off.str)) ++
  " lower=" ++ coreTysStr (paramsLowerTys f)

end Witverif.Abi.RustAsync
