import Witverif.Abi.Tree
import Witverif.Abi.Spec
/-
Reference semantics of the instruction set of `wit_bindgen_core::abi` on the tree form
("the reference machine"): what every backend is expected to make each instruction mean,
following the instruction documentation in abi.rs.  Scalar instructions get the canonical
conversions; block-carrying instructions run their blocks per case / per element; effectful
instructions act on a linear memory, a bump allocator, and ledgers of freed blocks, dropped
handles and calls.

The property theorems of C01–C03 are statements about `eval`/`exec` applied to the generator
model's output; the check applies the same functions to the *real* generator's output.
-/
namespace Witverif.Abi
open Spec

/-- machine values: interface values or core wasm values -/
inductive MV where
  | v (x : Val)
  | c (x : CVal)
deriving Repr, Inhabited, BEq

def MV.core? : MV → Option CVal
  | .c x => some x
  | _ => none
def MV.val? : MV → Option Val
  | .v x => some x
  | _ => none

/-- binders of one block nesting level -/
structure Frame where
  payload : Option MV := none
  elem : Option MV := none
  key : Option MV := none
  val : Option MV := none
  base : Option Nat := none
deriving Repr, Inhabited

structure Env where
  p : Nat                                  -- pointer width (4 or 8)
  inputs : List MV := []                   -- `(in n)`
  args : List MV := []                     -- `(arg n)`
  rps : List Nat := []                     -- addresses handed out by `return_pointer`
  frames : List Frame := [{}]              -- `frames[lvl]`, level 0 = function body
  lets : List (String × List MV) := []     -- results of executed statements, keyed by content
  callResults : List MV := []              -- what the callee of `CallWasm` returns
  ifaceResult : List MV := []              -- what the user function behind `CallInterface` returns
deriving Inhabited

/-- ledgers -/
structure MSt where
  st : St := {}
  freed : List (Nat × Nat × Nat) := []          -- (addr, size, align) passed to a deallocation
  borrowed : List (Nat × Nat × Nat) := []       -- blocks lowered with `realloc: None` (still owned by the caller)
  dropped : List Nat := []                      -- handles passed to `DropHandle`
  calls : List (String × List MV) := []         -- CallWasm / CallInterface / Return / AsyncTaskReturn operands
deriving Inhabited

def Off.at (o : Off) (p : Nat) : Nat := if p = 8 then o.w64 else o.w32

def castSem (p : Nat) : Bitcast → CVal → CVal
  | .f32ToI32, x => ⟨.i32, x.bits⟩
  | .f64ToI64, x => ⟨.i64, x.bits⟩
  | .i32ToI64, x => ⟨.i64, x.bits % 2 ^ 32⟩
  | .f32ToI64, x => ⟨.i64, x.bits % 2 ^ 32⟩
  | .i32ToF32, x => ⟨.f32, x.bits⟩
  | .i64ToF64, x => ⟨.f64, x.bits⟩
  | .i64ToI32, x => ⟨.i32, x.bits % 2 ^ 32⟩
  | .i64ToF32, x => ⟨.f32, x.bits % 2 ^ 32⟩
  | .p64ToI64, x => ⟨.i64, x.bits⟩
  | .i64ToP64, x => ⟨.i64, x.bits⟩
  | .p64ToP, x => ⟨ptrFT p, x.bits % 2 ^ (8 * p)⟩
  | .pToP64, x => ⟨.i64, x.bits⟩
  | .i32ToP, x => ⟨ptrFT p, x.bits % 2 ^ 32⟩
  | .pToI32, x => ⟨.i32, x.bits % 2 ^ 32⟩
  | .pToL, x => ⟨ptrFT p, x.bits⟩
  | .lToP, x => ⟨ptrFT p, x.bits⟩
  | .i32ToL, x => ⟨ptrFT p, x.bits % 2 ^ 32⟩
  | .lToI32, x => ⟨.i32, x.bits % 2 ^ 32⟩
  | .i64ToL, x => ⟨ptrFT p, x.bits % 2 ^ (8 * p)⟩
  | .lToI64, x => ⟨.i64, x.bits⟩
  | .seq a b, x => castSem p b (castSem p a x)
  | .none, x => x

/-- the core type (at pointer width `p`) a primitive Bitcast expects its operand to have -/
def castSrc (p : Nat) : Bitcast → Option FT
  | .f32ToI32 | .f32ToI64 => some .f32
  | .f64ToI64 => some .f64
  | .i32ToI64 | .i32ToF32 | .i32ToP | .i32ToL => some .i32
  | .i64ToF64 | .i64ToI32 | .i64ToF32 | .p64ToI64 | .i64ToP64 | .p64ToP | .i64ToL => some .i64
  | .pToP64 | .pToI32 | .pToL | .lToP | .lToI32 | .lToI64 => some (ptrFT p)
  | .seq _ _ | .none => none

/-- typed application of a Bitcast: stuck (`none`) when the operand does not have the core type the
cast converts from (a backend would emit an ill-typed or value-converting expression there) -/
def castTyped (p : Nat) : Bitcast → CVal → Option CVal
  | .seq a b, x => (castTyped p a x).bind (castTyped p b)
  | c, x =>
    match castSrc p c with
    | none => some (castSem p c x)
    | some t => if x.ty = t then some (castSem p c x) else none

/-- canonical meaning of the scalar instructions -/
def scalarSem : ScalarOp → MV → Option MV
  | .i32FromBool, .v (.bool b) => some (.c ⟨.i32, if b then 1 else 0⟩)
  | .i32FromU8, .v (.int n) | .i32FromS8, .v (.int n) | .i32FromU16, .v (.int n)
  | .i32FromS16, .v (.int n) | .i32FromU32, .v (.int n) | .i32FromS32, .v (.int n) =>
      some (.c ⟨.i32, wrap 32 n⟩)
  | .i64FromU64, .v (.int n) | .i64FromS64, .v (.int n) => some (.c ⟨.i64, wrap 64 n⟩)
  | .i32FromChar, .v (.char c) => some (.c ⟨.i32, c⟩)
  | .coreF32FromF32, .v (.f32 b) => some (.c ⟨.f32, b⟩)
  | .coreF64FromF64, .v (.f64 b) => some (.c ⟨.f64, b⟩)
  | .boolFromI32, .c x => some (.v (.bool (x.bits % 2 ^ 32 != 0)))
  | .u8FromI32, .c x => some (.v (.int (x.bits % 2 ^ 8)))
  | .s8FromI32, .c x => some (.v (.int (signed 8 x.bits)))
  | .u16FromI32, .c x => some (.v (.int (x.bits % 2 ^ 16)))
  | .s16FromI32, .c x => some (.v (.int (signed 16 x.bits)))
  | .u32FromI32, .c x => some (.v (.int (x.bits % 2 ^ 32)))
  | .s32FromI32, .c x => some (.v (.int (signed 32 x.bits)))
  | .u64FromI64, .c x => some (.v (.int (x.bits % 2 ^ 64)))
  | .s64FromI64, .c x => some (.v (.int (signed 64 x.bits)))
  | .charFromI32, .c x => if isChar x.bits then some (.v (.char x.bits)) else none
  | .f32FromCoreF32, .c x => some (.v (.f32 x.bits))
  | .f64FromCoreF64, .c x => some (.v (.f64 x.bits))
  | _, _ => none

def loadSem (p : Nat) (m : Mem) (k : LoadKind) (a : Nat) : CVal :=
  match k with
  | .i32 => ⟨.i32, m.loadLE a 4⟩
  | .i32_8u => ⟨.i32, m.loadLE a 1⟩
  | .i32_8s => ⟨.i32, wrap 32 (signed 8 (m.loadLE a 1))⟩
  | .i32_16u => ⟨.i32, m.loadLE a 2⟩
  | .i32_16s => ⟨.i32, wrap 32 (signed 16 (m.loadLE a 2))⟩
  | .i64 => ⟨.i64, m.loadLE a 8⟩
  | .f32 => ⟨.f32, m.loadLE a 4⟩
  | .f64 => ⟨.f64, m.loadLE a 8⟩
  | .ptr | .len => ⟨ptrFT p, m.loadLE a p⟩

def storeWidth (p : Nat) : StoreKind → Nat
  | .i32 | .f32 => 4 | .i32_8 => 1 | .i32_16 => 2 | .i64 | .f64 => 8 | .ptr | .len => p

def keyOf (o : Op) (args : List Expr) : String := o.str ++ exprsStr args

def frameAt (env : Env) (lvl : Nat) : Frame := env.frames.getD lvl {}

/-- environment for a block at nesting level `lvl` -/
def Env.enter (env : Env) (lvl : Nat) (f : Frame) : Env :=
  { env with frames := env.frames.take lvl ++ [f] }

def cvals (xs : List MV) : Option (List CVal) := xs.mapM MV.core?
def vals (xs : List MV) : Option (List Val) := xs.mapM MV.val?

/-- run `f` for `i = 0 .. n-1` collecting results -/
def forRange (n : Nat) (f : Nat → Option MV) : Option (List MV) := (List.range n).mapM f

/-- semantics of the pure block-free instructions on already evaluated operands (all results) -/
def pureSem (p : Nat) (m : Mem) : Op → List MV → Option (List MV)
  | .scalar s, [x] => (scalarSem s x).map ([·])
  | .load k off, [.c a] => some [.c (loadSem p m k (a.bits + off.at p))]
  | .stringLift, [.c a, .c n] => some [.v (.str (loadBytes m a.bits n.bits))]
  | .listCanonLift e, [.c a, .c n] =>
      if a.bits % alignment p e != 0 then none
      else (loadMany (Spec.load p m e) (elemSize p e) a.bits n.bits).map fun vs => [.v (.list vs)]
  | .flistLift _ n, xs => do
      let vs ← vals xs
      if vs.length = n then pure [.v (.list vs)] else none
  | .flistLower _ n, [.v (.list vs)] => if vs.length = n then some (vs.map .v) else none
  | .recordLower n, [.v (.record vs)] | .tupleLower n, [.v (.record vs)] =>
      if vs.length = n then some (vs.map .v) else none
  | .recordLift n, xs | .tupleLift n, xs => do
      let vs ← vals xs
      if vs.length = n then pure [.v (.record vs)] else none
  | .handleLower _, [.v (.handle h)] | .futureLower, [.v (.handle h)] | .streamLower, [.v (.handle h)]
  | .errLower, [.v (.handle h)] => some [.c ⟨.i32, h⟩]
  | .handleLift _, [.c x] | .futureLift, [.c x] | .streamLift, [.c x] | .errLift, [.c x] =>
      some [.v (.handle (x.bits % 2 ^ 32))]
  | .flagsLower n, [.v (.flags bs)] =>
      some ((List.range (flagsRepr n).count).map fun w => .c ⟨.i32, flagsWord bs w⟩)
  | .flagsLift n, xs => do
      let ws ← cvals xs
      pure [.v (.flags (flagsOfWords n (ws.map (·.bits))))]
  | .enumLower _, [.v (.enum i)] => some [.c ⟨.i32, i⟩]
  | .enumLift n, [.c x] => if x.bits < n then some [.v (.enum x.bits)] else none
  | _, _ => none

/-- a variant value from the results of its arm -/
def variantOf (i : Nat) : List MV → Option MV
  | [] => some (.v (.variant i none))
  | [.v x] => some (.v (.variant i (some x)))
  | _ => none

def listOf (xs : List MV) : Option MV := (vals xs).map fun vs => .v (.list vs)

def entryOf : List MV → Option MV
  | [.v x, .v y] => some (.v (.record [x, y]))
  | _ => none

/-- meaning of a pure instruction given its evaluated operands and an evaluator for its blocks
(`bev i frame` = results of block `i` under the fresh frame); all results -/
def opSem (p : Nat) (m : Mem) (bev : Nat → Frame → Option (List MV)) : Op → List MV → Option (List MV)
  -- lowering of variants with pure arms: run the arm of the active case
  | .variantLower _ _, [.v (.variant i pv)] | .optionLower _, [.v (.variant i pv)]
  | .resultLower _, [.v (.variant i pv)] => bev i { payload := pv.map .v }
  -- lifting of variants: the discriminant selects the arm, out of range traps
  | .variantLift n, [.c d] =>
      if d.bits < n then ((bev d.bits {}).bind (variantOf d.bits)).map ([·]) else none
  | .optionLift, [.c d] | .resultLift, [.c d] =>
      if d.bits < 2 then ((bev d.bits {}).bind (variantOf d.bits)).map ([·]) else none
  -- lists lifted element by element
  | .listLift e, [.c a, .c n] =>
      if a.bits % alignment p e != 0 then none else
      ((forRange n.bits fun i =>
          (bev 0 { base := some (a.bits + i * elemSize p e) }).bind fun rs => rs[0]?).bind listOf).map ([·])
  | .mapLift kt vt, [.c a, .c n] =>
      if a.bits % alignment p (.tuple [kt, vt]) != 0 then none else
      ((forRange n.bits fun i =>
          (bev 0 { base := some (a.bits + i * elemSize p (.tuple [kt, vt])) }).bind entryOf).bind listOf).map ([·])
  | .flistLiftMem e n, [.c a] =>
      ((forRange n fun i =>
          (bev 0 { base := some (a.bits + i * elemSize p e) }).bind fun rs => rs[0]?).bind listOf).map ([·])
  | o, xs => pureSem p m o xs

mutual
/-- value of an expression -/
def eval (env : Env) (m : Mem) : Expr → Option MV
  | .arg n => env.args[n]?
  | .inp n => env.inputs[n]?
  | .rp n _ _ => (env.rps[n]?).map fun a => .c ⟨ptrFT env.p, a⟩
  | .pl l => (frameAt env l).payload
  | .elem l => (frameAt env l).elem
  | .key l => (frameAt env l).key
  | .val l => (frameAt env l).val
  | .base l => ((frameAt env l).base).map fun a => .c ⟨ptrFT env.p, a⟩
  | .i32 v => some (.c ⟨.i32, v⟩)
  | .zero t => some (.c ⟨t.erase env.p, 0⟩)
  | .cast c e => (eval env m e).bind fun x => x.core?.bind fun x => (castTyped env.p c x).map .c
  | .res k o args => ((env.lets.find? (·.1 == keyOf o args)).bind fun r => r.2[k]?)
  | .op o args blocks k =>
      (evalList env m args).bind fun xs =>
        (opSem env.p m (fun i f => evalBlockAt env m blocks i f) o xs).bind (·[k]?)
def evalList (env : Env) (m : Mem) : List Expr → Option (List MV)
  | [] => some []
  | e :: es => (eval env m e).bind fun x => (evalList env m es).map fun xs => x :: xs
/-- results of the `i`-th pure block evaluated under a fresh frame -/
def evalBlockAt (env : Env) (m : Mem) : List (List Expr) → Nat → Frame → Option (List MV)
  | [], _, _ => none
  | b :: _, 0, f => evalList (env.enter env.frames.length f) m b
  | _ :: bs, i + 1, f => evalBlockAt env m bs i f
end

end Witverif.Abi

namespace Witverif.Abi
open Spec

def foldRange (n : Nat) (s : MSt) (f : Nat → MSt → Option MSt) : Option MSt :=
  (List.range n).foldlM (fun s i => f i s) s

def MSt.alloc (s : MSt) (size align : Nat) : Nat × MSt :=
  let (a, heap) := s.st.heap.alloc size align
  (a, { s with st := { s.st with heap } })

def MSt.setMem (s : MSt) (m : Mem) : MSt := { s with st := { s.st with mem := m } }

/-- the block frame of the `i`-th map entry (`none` for a value that is not a key/value pair) -/
def entryFrame (base : Nat) : Option Val → Option Frame
  | some (.record [x, y]) => some { key := some (.v x), val := some (.v y), base := some base }
  | _ => none

def Env.bind (env : Env) (o : Op) (args : List Expr) (rs : List MV) : Env :=
  { env with lets := (keyOf o args, rs) :: env.lets }

/-- meaning of an effectful instruction given its evaluated operands and a runner for its blocks
(`brun i frame s` = results and final state of block `i` under the fresh frame): results and state -/
def execOp (p : Nat) (callResults ifaceResult : List MV)
    (brun : Nat → Frame → MSt → Option (List MV × MSt)) (s : MSt) : Op → List MV → Option (List MV × MSt)
  | .store k off, [.c v, .c a] =>
      some ([], s.setMem (s.st.mem.storeLE (a.bits + off.at p) v.bits (storeWidth p k)))
  | .stringLower r, [.v (.str bs)] =>
      let (ptr, s) := s.alloc bs.length 1
      let s := s.setMem (storeBytes s.st.mem ptr bs)
      let s := if r then s else { s with borrowed := (ptr, bs.length, 1) :: s.borrowed }
      some ([.c (pcv p ptr), .c (pcv p bs.length)], s)
  | .listCanonLower e r, [.v (.list vs)] =>
      let (ptr, s) := s.alloc (vs.length * elemSize p e) (alignment p e)
      let s := { s with st := storeElems p e vs ptr s.st }
      let s := if r then s else { s with borrowed := (ptr, vs.length * elemSize p e, alignment p e) :: s.borrowed }
      some ([.c (pcv p ptr), .c (pcv p vs.length)], s)
  | .listLower e r, [.v (.list vs)] =>
      let (ptr, s) := s.alloc (vs.length * elemSize p e) (alignment p e)
      let s := if r then s else { s with borrowed := (ptr, vs.length * elemSize p e, alignment p e) :: s.borrowed }
      (foldRange vs.length s fun i s =>
        (brun 0 { elem := (vs[i]?).map .v, base := some (ptr + i * elemSize p e) } s).map (·.2)
      ).map fun s => ([.c (pcv p ptr), .c (pcv p vs.length)], s)
  | .mapLower kt vt r, [.v (.list es)] =>
      let esz := elemSize p (.tuple [kt, vt])
      let (ptr, s) := s.alloc (es.length * esz) (alignment p (.tuple [kt, vt]))
      let s := if r then s else { s with borrowed := (ptr, es.length * esz, alignment p (.tuple [kt, vt])) :: s.borrowed }
      (foldRange es.length s fun i s =>
        (entryFrame (ptr + i * esz) es[i]?).bind fun f => (brun 0 f s).map (·.2)
      ).map fun s => ([.c (pcv p ptr), .c (pcv p es.length)], s)
  | .flistLowerMem e n, [.v (.list vs), .c a] =>
      if vs.length ≠ n then none else
      (foldRange n s fun i s =>
        (brun 0 { elem := (vs[i]?).map .v, base := some (a.bits + i * elemSize p e) } s).map (·.2)
      ).map fun s => ([], s)
  | .variantLower _ _, [.v (.variant i pv)] | .optionLower _, [.v (.variant i pv)]
  | .resultLower _, [.v (.variant i pv)] => brun i { payload := pv.map .v } s
  | .malloc size align, [] =>
      let (ptr, s) := s.alloc (size.at p) (align.at p)
      some ([.c (pcv p ptr)], s)
  | .dealloc size align, [.c a] =>
      some ([], { s with freed := (a.bits, size.at p, align.at p) :: s.freed })
  | .deallocString, [.c a, .c n] => some ([], { s with freed := (a.bits, n.bits, 1) :: s.freed })
  | .deallocList e, [.c a, .c n] =>
      (foldRange n.bits s fun i s =>
        (brun 0 { base := some (a.bits + i * elemSize p e) } s).map (·.2)
      ).map fun s => ([], { s with freed := (a.bits, n.bits * elemSize p e, alignment p e) :: s.freed })
  | .deallocMap kt vt, [.c a, .c n] =>
      let esz := elemSize p (.tuple [kt, vt])
      (foldRange n.bits s fun i s =>
        (brun 0 { base := some (a.bits + i * esz) } s).map (·.2)
      ).map fun s => ([], { s with freed := (a.bits, n.bits * esz, alignment p (.tuple [kt, vt])) :: s.freed })
  | .deallocVariant n, [.c d] =>
      if d.bits < n then (brun d.bits {} s).map fun (_, s) => ([], s) else none
  | .dropHandle _, [.v (.handle h)] => some ([], { s with dropped := h :: s.dropped })
  | .callWasm _ _, xs => some (callResults, { s with calls := ("CallWasm", xs) :: s.calls })
  | .callInterface _ _ _, xs => some (ifaceResult, { s with calls := ("CallInterface", xs) :: s.calls })
  | .ret _, xs => some ([], { s with calls := ("Return", xs) :: s.calls })
  | .asyncTaskReturn _, xs => some ([], { s with calls := ("AsyncTaskReturn", xs) :: s.calls })
  | .flush _, xs => some (xs, s)
  | _, _ => none

mutual
/-- execute one statement: returns the environment extended with its results, and the new state -/
def exec (env : Env) (s : MSt) : Stmt → Option (Env × MSt)
  | .eff o args blocks =>
      (evalList env s.st.mem args).bind fun xs =>
        (execOp env.p env.callResults env.ifaceResult (fun i f s => execBlockAt env s blocks i f) s o xs).map
          fun (rs, s') => (env.bind o args rs, s')
def execStmts (env : Env) (s : MSt) : List Stmt → Option (Env × MSt)
  | [] => some (env, s)
  | st :: rest => (exec env s st).bind fun (env', s') => execStmts env' s' rest
/-- run the `i`-th block under a fresh frame; its results are evaluated in the block's environment -/
def execBlockAt (env : Env) (s : MSt) : List (List Stmt × List Expr) → Nat → Frame → Option (List MV × MSt)
  | [], _, _ => none
  | (ss, rs) :: _, 0, f =>
      (execStmts (env.enter env.frames.length f) s ss).bind fun (env', s') =>
        (evalList env' s'.st.mem rs).map fun xs => (xs, s')
  | _ :: bs, i + 1, f => execBlockAt env s bs i f
end

/-- run a whole tree (function body): final state and the values of its result expressions -/
def runBlock (env : Env) (s : MSt) (b : Block) : Option (List MV × MSt) :=
  match execStmts env s b.1 with
  | some (env', s') => (evalList env' s'.st.mem b.2).map fun xs => (xs, s')
  | none => none

end Witverif.Abi
