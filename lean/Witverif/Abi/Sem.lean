import Witverif.Abi.Tree
import Witverif.Abi.Spec
/-
Reference semantics of the instruction set of `wit_bindgen_core::abi` on the tree form
("the reference machine"): what every backend is expected to make each instruction mean,
following the instruction documentation in abi.rs.  Scalar instructions get the canonical
conversions; block-carrying instructions run their blocks per case / per element; effectful
instructions act on a linear memory, a bump allocator, and ledgers of freed blocks, dropped
handles and calls.

The property theorems of C01–C03 are statements about `eval`/`exec` applied to the generator
model's output; the check applies the same functions to the *real* generator's output.
-/
namespace Witverif.Abi
open Spec

/-- machine values: interface values or core wasm values -/
inductive MV where
  | v (x : Val)
  | c (x : CVal)
deriving Repr, Inhabited, BEq

def MV.core? : MV → Option CVal
  | .c x => some x
  | _ => none
def MV.val? : MV → Option Val
  | .v x => some x
  | _ => none

/-- binders of one block nesting level -/
structure Frame where
  payload : Option MV := none
  elem : Option MV := none
  key : Option MV := none
  val : Option MV := none
  base : Option Nat := none
deriving Repr, Inhabited

structure Env where
  p : Nat                                  -- pointer width (4 or 8)
  inputs : List MV := []                   -- `(in n)`
  args : List MV := []                     -- `(arg n)`
  rps : List Nat := []                     -- addresses handed out by `return_pointer`
  frames : List Frame := [{}]              -- `frames[lvl]`, level 0 = function body
  lets : List (String × List MV) := []     -- results of executed statements, keyed by content
  callResults : List MV := []              -- what the callee of `CallWasm` returns
  ifaceResult : List MV := []              -- what the user function behind `CallInterface` returns
deriving Inhabited

/-- ledgers -/
structure MSt where
  st : St := {}
  freed : List (Nat × Nat × Nat) := []          -- (addr, size, align) passed to a deallocation
  borrowed : List (Nat × Nat × Nat) := []       -- blocks lowered with `realloc: None` (still owned by the caller)
  dropped : List Nat := []                      -- handles passed to `DropHandle`
  calls : List (String × List MV) := []         -- CallWasm / CallInterface / Return / AsyncTaskReturn operands
deriving Inhabited

def Off.at (o : Off) (p : Nat) : Nat := if p = 8 then o.w64 else o.w32

def castSem (p : Nat) : Bitcast → CVal → CVal
  | .f32ToI32, x => ⟨.i32, x.bits⟩
  | .f64ToI64, x => ⟨.i64, x.bits⟩
  | .i32ToI64, x => ⟨.i64, x.bits % 2 ^ 32⟩
  | .f32ToI64, x => ⟨.i64, x.bits % 2 ^ 32⟩
  | .i32ToF32, x => ⟨.f32, x.bits⟩
  | .i64ToF64, x => ⟨.f64, x.bits⟩
  | .i64ToI32, x => ⟨.i32, x.bits % 2 ^ 32⟩
  | .i64ToF32, x => ⟨.f32, x.bits % 2 ^ 32⟩
  | .p64ToI64, x => ⟨.i64, x.bits⟩
  | .i64ToP64, x => ⟨.i64, x.bits⟩
  | .p64ToP, x => ⟨ptrFT p, x.bits % 2 ^ (8 * p)⟩
  | .pToP64, x => ⟨.i64, x.bits⟩
  | .i32ToP, x => ⟨ptrFT p, x.bits % 2 ^ 32⟩
  | .pToI32, x => ⟨.i32, x.bits % 2 ^ 32⟩
  | .pToL, x => ⟨ptrFT p, x.bits⟩
  | .lToP, x => ⟨ptrFT p, x.bits⟩
  | .i32ToL, x => ⟨ptrFT p, x.bits % 2 ^ 32⟩
  | .lToI32, x => ⟨.i32, x.bits % 2 ^ 32⟩
  | .i64ToL, x => ⟨ptrFT p, x.bits % 2 ^ (8 * p)⟩
  | .lToI64, x => ⟨.i64, x.bits⟩
  | .seq a b, x => castSem p b (castSem p a x)
  | .none, x => x

/-- canonical meaning of the scalar instructions -/
def scalarSem : ScalarOp → MV → Option MV
  | .i32FromBool, .v (.bool b) => some (.c ⟨.i32, if b then 1 else 0⟩)
  | .i32FromU8, .v (.int n) | .i32FromS8, .v (.int n) | .i32FromU16, .v (.int n)
  | .i32FromS16, .v (.int n) | .i32FromU32, .v (.int n) | .i32FromS32, .v (.int n) =>
      some (.c ⟨.i32, wrap 32 n⟩)
  | .i64FromU64, .v (.int n) | .i64FromS64, .v (.int n) => some (.c ⟨.i64, wrap 64 n⟩)
  | .i32FromChar, .v (.char c) => some (.c ⟨.i32, c⟩)
  | .coreF32FromF32, .v (.f32 b) => some (.c ⟨.f32, b⟩)
  | .coreF64FromF64, .v (.f64 b) => some (.c ⟨.f64, b⟩)
  | .boolFromI32, .c x => some (.v (.bool (x.bits % 2 ^ 32 != 0)))
  | .u8FromI32, .c x => some (.v (.int (x.bits % 2 ^ 8)))
  | .s8FromI32, .c x => some (.v (.int (signed 8 x.bits)))
  | .u16FromI32, .c x => some (.v (.int (x.bits % 2 ^ 16)))
  | .s16FromI32, .c x => some (.v (.int (signed 16 x.bits)))
  | .u32FromI32, .c x => some (.v (.int (x.bits % 2 ^ 32)))
  | .s32FromI32, .c x => some (.v (.int (signed 32 x.bits)))
  | .u64FromI64, .c x => some (.v (.int (x.bits % 2 ^ 64)))
  | .s64FromI64, .c x => some (.v (.int (signed 64 x.bits)))
  | .charFromI32, .c x => if isChar x.bits then some (.v (.char x.bits)) else none
  | .f32FromCoreF32, .c x => some (.v (.f32 x.bits))
  | .f64FromCoreF64, .c x => some (.v (.f64 x.bits))
  | _, _ => none

def loadSem (p : Nat) (m : Mem) (k : LoadKind) (a : Nat) : CVal :=
  match k with
  | .i32 => ⟨.i32, m.loadLE a 4⟩
  | .i32_8u => ⟨.i32, m.loadLE a 1⟩
  | .i32_8s => ⟨.i32, wrap 32 (signed 8 (m.loadLE a 1))⟩
  | .i32_16u => ⟨.i32, m.loadLE a 2⟩
  | .i32_16s => ⟨.i32, wrap 32 (signed 16 (m.loadLE a 2))⟩
  | .i64 => ⟨.i64, m.loadLE a 8⟩
  | .f32 => ⟨.f32, m.loadLE a 4⟩
  | .f64 => ⟨.f64, m.loadLE a 8⟩
  | .ptr | .len => ⟨ptrFT p, m.loadLE a p⟩

def storeWidth (p : Nat) : StoreKind → Nat
  | .i32 | .f32 => 4 | .i32_8 => 1 | .i32_16 => 2 | .i64 | .f64 => 8 | .ptr | .len => p

def keyOf (o : Op) (args : List Expr) : String := o.str ++ exprsStr args

def frameAt (env : Env) (lvl : Nat) : Frame := env.frames.getD lvl {}

/-- environment for a block at nesting level `lvl` -/
def Env.enter (env : Env) (lvl : Nat) (f : Frame) : Env :=
  { env with frames := env.frames.take lvl ++ [f] }

def cvals (xs : List MV) : Option (List CVal) := xs.mapM MV.core?
def vals (xs : List MV) : Option (List Val) := xs.mapM MV.val?

/-- run `f` for `i = 0 .. n-1` collecting results -/
def forRange (n : Nat) (f : Nat → Option MV) : Option (List MV) := (List.range n).mapM f

/-- semantics of the pure block-free instructions on already evaluated operands (all results) -/
def pureSem (p : Nat) (m : Mem) : Op → List MV → Option (List MV)
  | .scalar s, [x] => (scalarSem s x).map ([·])
  | .load k off, [.c a] => some [.c (loadSem p m k (a.bits + off.at p))]
  | .stringLift, [.c a, .c n] => some [.v (.str (loadBytes m a.bits n.bits))]
  | .listCanonLift e, [.c a, .c n] =>
      if a.bits % alignment p e != 0 then none
      else (loadMany (Spec.load p m e) (elemSize p e) a.bits n.bits).map fun vs => [.v (.list vs)]
  | .flistLift _ n, xs => do
      let vs ← vals xs
      if vs.length = n then pure [.v (.list vs)] else none
  | .flistLower _ n, [.v (.list vs)] => if vs.length = n then some (vs.map .v) else none
  | .recordLower n, [.v (.record vs)] | .tupleLower n, [.v (.record vs)] =>
      if vs.length = n then some (vs.map .v) else none
  | .recordLift n, xs | .tupleLift n, xs => do
      let vs ← vals xs
      if vs.length = n then pure [.v (.record vs)] else none
  | .handleLower _, [.v (.handle h)] | .futureLower, [.v (.handle h)] | .streamLower, [.v (.handle h)]
  | .errLower, [.v (.handle h)] => some [.c ⟨.i32, h⟩]
  | .handleLift _, [.c x] | .futureLift, [.c x] | .streamLift, [.c x] | .errLift, [.c x] =>
      some [.v (.handle (x.bits % 2 ^ 32))]
  | .flagsLower n, [.v (.flags bs)] =>
      some ((List.range (flagsRepr n).count).map fun w => .c ⟨.i32, flagsWord bs w⟩)
  | .flagsLift n, xs => do
      let ws ← cvals xs
      pure [.v (.flags (flagsOfWords n (ws.map (·.bits))))]
  | .enumLower _, [.v (.enum i)] => some [.c ⟨.i32, i⟩]
  | .enumLift n, [.c x] => if x.bits < n then some [.v (.enum x.bits)] else none
  | _, _ => none

def discOf (x : MV) : Option Nat :=
  match x with
  | .c d => some d.bits
  | _ => none

mutual
/-- value of an expression -/
def eval (env : Env) (m : Mem) : Expr → Option MV
  | .arg n => env.args[n]?
  | .inp n => env.inputs[n]?
  | .rp n _ _ => (env.rps[n]?).map fun a => .c ⟨ptrFT env.p, a⟩
  | .pl l => (frameAt env l).payload
  | .elem l => (frameAt env l).elem
  | .key l => (frameAt env l).key
  | .val l => (frameAt env l).val
  | .base l => ((frameAt env l).base).map fun a => .c ⟨ptrFT env.p, a⟩
  | .i32 v => some (.c ⟨.i32, v⟩)
  | .zero t => some (.c ⟨t.erase env.p, 0⟩)
  | .cast c e =>
      match eval env m e with
      | some (.c x) => some (.c (castSem env.p c x))
      | _ => none
  | .res k o args => ((env.lets.find? (·.1 == keyOf o args)).bind fun r => r.2[k]?)
  | .op o args blocks k =>
      match evalList env m args with
      | none => none
      | some xs =>
        match o, xs with
        -- lowering of variants with pure arms: run the arm of the active case
        | .variantLower _ _, [.v (.variant i pv)] | .optionLower _, [.v (.variant i pv)]
        | .resultLower _, [.v (.variant i pv)] =>
            (evalBlockAt env m blocks i { payload := pv.map .v }).bind (·[k]?)
        -- lifting of variants: discriminant selects the arm, out of range traps
        | .variantLift n, [.c d] =>
            if d.bits < n then
              (evalBlockAt env m blocks d.bits {}).bind fun rs =>
                match rs with
                | [] => some (.v (.variant d.bits none))
                | [.v x] => some (.v (.variant d.bits (some x)))
                | _ => none
            else none
        | .optionLift, [.c d] | .resultLift, [.c d] =>
            if d.bits < 2 then
              (evalBlockAt env m blocks d.bits {}).bind fun rs =>
                match rs with
                | [] => some (.v (.variant d.bits none))
                | [.v x] => some (.v (.variant d.bits (some x)))
                | _ => none
            else none
        -- lists lifted element by element
        | .listLift e, [.c a, .c n] =>
            if a.bits % alignment env.p e != 0 then none else
            match blocks with
            | [[r]] =>
                (forRange n.bits fun i =>
                  eval (env.enter (env.frames.length) { base := some (a.bits + i * elemSize env.p e) }) m r
                ).bind fun xs => (vals xs).map fun vs => .v (.list vs)
            | _ => none
        | .mapLift kt vt, [.c a, .c n] =>
            if a.bits % alignment env.p (.tuple [kt, vt]) != 0 then none else
            match blocks with
            | [[rk, rv]] =>
                (forRange n.bits fun i =>
                  let env' := env.enter (env.frames.length)
                    { base := some (a.bits + i * elemSize env.p (.tuple [kt, vt])) }
                  match eval env' m rk, eval env' m rv with
                  | some (.v x), some (.v y) => some (.v (.record [x, y]))
                  | _, _ => none
                ).bind fun xs => (vals xs).map fun vs => .v (.list vs)
            | _ => none
        | .flistLiftMem e n, [.c a] =>
            match blocks with
            | [[r]] =>
                (forRange n fun i =>
                  eval (env.enter (env.frames.length) { base := some (a.bits + i * elemSize env.p e) }) m r
                ).bind fun xs => (vals xs).map fun vs => .v (.list vs)
            | _ => none
        | o, xs => (pureSem env.p m o xs).bind (·[k]?)
def evalList (env : Env) (m : Mem) : List Expr → Option (List MV)
  | [] => some []
  | e :: es =>
      match eval env m e, evalList env m es with
      | some x, some xs => some (x :: xs)
      | _, _ => none
/-- results of the `i`-th pure block evaluated under a fresh frame -/
def evalBlockAt (env : Env) (m : Mem) : List (List Expr) → Nat → Frame → Option (List MV)
  | [], _, _ => none
  | b :: _, 0, f => evalList (env.enter env.frames.length f) m b
  | _ :: bs, i + 1, f => evalBlockAt env m bs i f
end

end Witverif.Abi

namespace Witverif.Abi
open Spec

def foldRange (n : Nat) (s : MSt) (f : Nat → MSt → Option MSt) : Option MSt :=
  (List.range n).foldlM (fun s i => f i s) s

def MSt.alloc (s : MSt) (size align : Nat) : Nat × MSt :=
  let (a, heap) := s.st.heap.alloc size align
  (a, { s with st := { s.st with heap } })

def MSt.setMem (s : MSt) (m : Mem) : MSt := { s with st := { s.st with mem := m } }

def Env.bind (env : Env) (o : Op) (args : List Expr) (rs : List MV) : Env :=
  { env with lets := (keyOf o args, rs) :: env.lets }

mutual
/-- execute one statement: returns the environment extended with its results, and the new state -/
def exec (env : Env) (s : MSt) : Stmt → Option (Env × MSt)
  | .eff o args blocks =>
    match evalList env s.st.mem args with
    | none => none
    | some xs =>
      let p := env.p
      let lvl := env.frames.length
      let done (rs : List MV) (s : MSt) : Option (Env × MSt) := some (env.bind o args rs, s)
      match o, xs, blocks with
      | .store k off, [.c v, .c a], _ =>
          done [] (s.setMem (s.st.mem.storeLE (a.bits + off.at p) v.bits (storeWidth p k)))
      | .stringLower r, [.v (.str bs)], _ =>
          let (ptr, s) := s.alloc bs.length 1
          let s := s.setMem (storeBytes s.st.mem ptr bs)
          let s := if r then s else { s with borrowed := (ptr, bs.length, 1) :: s.borrowed }
          done [.c (pcv p ptr), .c (pcv p bs.length)] s
      | .listCanonLower e r, [.v (.list vs)], _ =>
          let (ptr, s) := s.alloc (vs.length * elemSize p e) (alignment p e)
          let s := { s with st := storeElems p e vs ptr s.st }
          let s := if r then s else { s with borrowed := (ptr, vs.length * elemSize p e, alignment p e) :: s.borrowed }
          done [.c (pcv p ptr), .c (pcv p vs.length)] s
      | .listLower e r, [.v (.list vs)], [(ss, _)] =>
          let (ptr, s) := s.alloc (vs.length * elemSize p e) (alignment p e)
          let s := if r then s else { s with borrowed := (ptr, vs.length * elemSize p e, alignment p e) :: s.borrowed }
          (foldRange vs.length s fun i s =>
            (execStmts (env.enter lvl { elem := (vs[i]?).map .v, base := some (ptr + i * elemSize p e) }) s ss).map (·.2)
          ).bind fun s => done [.c (pcv p ptr), .c (pcv p vs.length)] s
      | .mapLower kt vt r, [.v (.list es)], [(ss, _)] =>
          let esz := elemSize p (.tuple [kt, vt])
          let (ptr, s) := s.alloc (es.length * esz) (alignment p (.tuple [kt, vt]))
          let s := if r then s else { s with borrowed := (ptr, es.length * esz, alignment p (.tuple [kt, vt])) :: s.borrowed }
          (foldRange es.length s fun i s =>
            match es[i]? with
            | some (.record [x, y]) =>
                (execStmts (env.enter lvl { key := some (.v x), val := some (.v y), base := some (ptr + i * esz) }) s ss).map (·.2)
            | _ => none
          ).bind fun s => done [.c (pcv p ptr), .c (pcv p es.length)] s
      | .flistLowerMem e n, [.v (.list vs), .c a], [(ss, _)] =>
          if vs.length ≠ n then none else
          (foldRange n s fun i s =>
            (execStmts (env.enter lvl { elem := (vs[i]?).map .v, base := some (a.bits + i * elemSize p e) }) s ss).map (·.2)
          ).bind fun s => done [] s
      | .variantLower _ _, [.v (.variant i pv)], blocks | .optionLower _, [.v (.variant i pv)], blocks
      | .resultLower _, [.v (.variant i pv)], blocks =>
          (execBlockAt env s blocks i { payload := pv.map .v }).bind fun (rs, s) => done rs s
      | .malloc size align, [], _ =>
          let (ptr, s) := s.alloc (size.at p) (align.at p)
          done [.c (pcv p ptr)] s
      | .dealloc size align, [.c a], _ =>
          done [] { s with freed := (a.bits, size.at p, align.at p) :: s.freed }
      | .deallocString, [.c a, .c n], _ =>
          done [] { s with freed := (a.bits, n.bits, 1) :: s.freed }
      | .deallocList e, [.c a, .c n], [(ss, _)] =>
          (foldRange n.bits s fun i s =>
            (execStmts (env.enter lvl { base := some (a.bits + i * elemSize p e) }) s ss).map (·.2)
          ).bind fun s => done [] { s with freed := (a.bits, n.bits * elemSize p e, alignment p e) :: s.freed }
      | .deallocMap kt vt, [.c a, .c n], [(ss, _)] =>
          let esz := elemSize p (.tuple [kt, vt])
          (foldRange n.bits s fun i s =>
            (execStmts (env.enter lvl { base := some (a.bits + i * esz) }) s ss).map (·.2)
          ).bind fun s => done [] { s with freed := (a.bits, n.bits * esz, alignment p (.tuple [kt, vt])) :: s.freed }
      | .deallocVariant n, [.c d], blocks =>
          if d.bits < n then (execBlockAt env s blocks d.bits {}).bind fun (_, s) => done [] s else none
      | .dropHandle _, [.v (.handle h)], _ => done [] { s with dropped := h :: s.dropped }
      | .callWasm _ _, xs, _ => done env.callResults { s with calls := ("CallWasm", xs) :: s.calls }
      | .callInterface _ _ _, xs, _ => done env.ifaceResult { s with calls := ("CallInterface", xs) :: s.calls }
      | .ret _, xs, _ => done [] { s with calls := ("Return", xs) :: s.calls }
      | .asyncTaskReturn _, xs, _ => done [] { s with calls := ("AsyncTaskReturn", xs) :: s.calls }
      | .flush _, xs, _ => done xs s
      | _, _, _ => none
def execStmts (env : Env) (s : MSt) : List Stmt → Option (Env × MSt)
  | [] => some (env, s)
  | st :: rest =>
      match exec env s st with
      | some (env', s') => execStmts env' s' rest
      | none => none
/-- run the `i`-th block under a fresh frame; its results are evaluated in the block's environment -/
def execBlockAt (env : Env) (s : MSt) : List (List Stmt × List Expr) → Nat → Frame → Option (List MV × MSt)
  | [], _, _ => none
  | (ss, rs) :: _, 0, f =>
      match execStmts (env.enter env.frames.length f) s ss with
      | some (env', s') => (evalList env' s'.st.mem rs).map fun xs => (xs, s')
      | none => none
  | _ :: bs, i + 1, f => execBlockAt env s bs i f
end

/-- run a whole tree (function body): final state and the values of its result expressions -/
def runBlock (env : Env) (s : MSt) (b : Block) : Option (List MV × MSt) :=
  match execStmts env s b.1 with
  | some (env', s') => (evalList env' s'.st.mem b.2).map fun xs => (xs, s')
  | none => none

end Witverif.Abi
