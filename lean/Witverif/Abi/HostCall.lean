import Witverif.Abi.CHostImage
import Witverif.Abi.Validate
/-
The component-model host at *function* granularity (spec side, C05/C06): how a host built on the
canonical ABI of `Spec.lean` passes the parameters of a call and receives its result
(CanonicalABI.md `flatten_functype`, `lower_flat_values`, `lift_flat_values`: at most
MAX_FLAT_PARAMS = 16 flat parameters, otherwise the parameter tuple travels through memory; at most
MAX_FLAT_RESULTS = 1 flat result, otherwise through a return area).  Nothing here mentions the
generator or the Rust backend.  Built on `CHostImage` (relocatable images) of the C pipeline.
-/
namespace Witverif.Abi.HostCall
open Witverif.Abi Witverif.Abi.Spec Witverif.Abi.CHost

def maxFlatParams : Nat := 16
def maxFlatResults : Nat := 1

/-- the parameters of a call as one tuple type / value -/
def paramsTy (ps : List Ty) : Ty := .tuple ps
def paramsVal (vs : List Val) : Val := .record vs

def paramsIndirect (p : Nat) (ps : List Ty) : Bool := decide ((Spec.flatten p (paramsTy ps)).length > maxFlatParams)
def resultIndirect (p : Nat) (r : Option Ty) : Bool := decide ((Spec.flattenOpt p r).length > maxFlatResults)

/-- host → guest: the arguments of an export call (`lower_flat_values`) -/
def lowerArgs (p : Nat) (ps : List Ty) (vs : List Val) : Image :=
  if paramsIndirect p ps then encodeMem p (paramsTy ps) (paramsVal vs)
  else encodeFlat p (paramsTy ps) (paramsVal vs)

/-- host → guest: the result of an import call; in the indirect case the first block of the image
is the return area (the harness places it at the address the guest passed) -/
def lowerResult (p : Nat) (r : Ty) (v : Val) : Image :=
  if resultIndirect p (some r) then encodeMem p r v else encodeFlat p r v

/-- guest → host: the arguments the guest lowered for an import call -/
def liftArgs (p : Nat) (ps : List Ty) (bits : List Nat) (m : Mem) : Option Val :=
  if paramsIndirect p ps then
    match bits with
    | a :: _ => decodeMem p (paramsTy ps) a m
    | [] => none
  else decodeFlat p (paramsTy ps) bits m

/-- guest → host: the result of an export call (`bits` = the core results of the call) -/
def liftResult (p : Nat) (r : Ty) (bits : List Nat) (m : Mem) : Option Val :=
  if resultIndirect p (some r) then
    match bits with
    | [a] => decodeMem p r a m
    | _ => none
  else decodeFlat p r bits m

/-! ### which memory a lift reads (so that the harness can fetch it from the guest) -/

def manyFlatB (f : List CVal → List (Nat × Nat × Nat)) (k : Nat) : Nat → List CVal → List (Nat × Nat × Nat)
  | 0, _ => []
  | n + 1, vs => f (vs.take k) ++ manyFlatB f k n (vs.drop k)

mutual
/-- heap blocks (addr, size, align) reachable from flat core values of type `t` (same shape as
`Spec.liftFlat`) -/
def reachFlat (p : Nat) (m : Mem) : Ty → List CVal → List (Nat × Nat × Nat)
  | .string, [a, n] => [(a.bits, n.bits, 1)]
  | .list e, [a, n] =>
      (a.bits, n.bits * elemSize p e, alignment p e) ::
        reachMany (reachBlocks false p m e) (elemSize p e) a.bits n.bits
  | .map k v, [a, n] =>
      let esz := elemSize p (.tuple [k, v])
      let vo := alignTo (elemSize p k) (alignment p v)
      (a.bits, n.bits * esz, alignment p (.tuple [k, v])) ::
        (reachMany (reachBlocks false p m k) esz a.bits n.bits ++
         reachMany (reachBlocks false p m v) esz (a.bits + vo) n.bits)
  | .flist e n, vs => manyFlatB (reachFlat p m e) (Spec.flatten p e).length n vs
  | .record fs, vs => reachFlatFields p m fs vs
  | .tuple ts, vs => reachFlatFields p m ts vs
  | .variant cs, d :: vs => reachFlatCase p m cs d.bits vs
  | .option t, d :: vs => if d.bits == 1 then reachFlat p m t (coerceBack vs (Spec.flatten p t)) else []
  | .result ok err, d :: vs => if d.bits == 0 then reachFlatOpt p m ok vs else reachFlatOpt p m err vs
  | _, _ => []
def reachFlatFields (p : Nat) (m : Mem) : List Ty → List CVal → List (Nat × Nat × Nat)
  | [], _ => []
  | t :: ts, vs =>
      let k := (Spec.flatten p t).length
      reachFlat p m t (vs.take k) ++ reachFlatFields p m ts (vs.drop k)
def reachFlatOpt (p : Nat) (m : Mem) : Option Ty → List CVal → List (Nat × Nat × Nat)
  | none, _ => []
  | some t, vs => reachFlat p m t (coerceBack vs (Spec.flatten p t))
def reachFlatCase (p : Nat) (m : Mem) : List (Option Ty) → Nat → List CVal → List (Nat × Nat × Nat)
  | [], _, _ => []
  | c :: _, 0, vs => reachFlatOpt p m c vs
  | _ :: cs, i + 1, vs => reachFlatCase p m cs i vs
end

def cvalsOf (p : Nat) (t : Ty) (bits : List Nat) : List CVal :=
  List.zipWith (fun ty b => ⟨ty, b % 2 ^ ty.width⟩) (Spec.flatten p t) bits

/-- everything a lift of `t` reads: `(root?, blocks)`; root = the in-memory area when indirect -/
def reads (p : Nat) (indirect : Bool) (t : Ty) (bits : List Nat) (m : Mem) : List (Nat × Nat × Nat) :=
  if indirect then
    match bits with
    | a :: _ => (a, elemSize p t, alignment p t) :: reachBlocks false p m t a
    | [] => []
  else reachFlat p m t (cvalsOf p t bits)

end Witverif.Abi.HostCall
