import Witverif.Abi.Spec
/-
Model of the C *signature layer* of crates/c/src/lib.rs that `abi.rs` does not cover:
`is_arg_by_pointer`, `Return::return_single` / `classify_ret`, `print_sig` / `print_sig_params`
(sync functions), with `--no-sig-flattening` as the parameter `flat := false`.

A WIT function `f(p0: T0, …) -> R` becomes a C function whose parameters are, in order, one C
parameter per WIT parameter (by value, by pointer, or — for a *direct* `option<P>` parameter under
signature flattening — a nullable pointer to the payload named `maybe_<p>`), followed by
out-pointers for the parts of the result that are not returned as the C return value.

Spec side (`CSigSpec`): what it means for such a convention to "carry exactly the WIT parameters
and result": `recvParams (passParams vs) = vs`, `recvResult (passResult r) = r`.
-/
namespace Witverif.Abi.CSig
open Witverif.Abi

/-- what the signature layer looks at: the top-level constructor, *with* alias layers -/
inductive Shape where
  | scalar                      -- bool, integers, floats, char
  | string
  | alias (s : Shape)           -- `type a = s`
  | option (s : Shape)
  | result (ok err : Option Shape)
  | flags | enum | handle | future | stream
  | tuple | record | list | map | variant
deriving Repr, Inhabited, BEq

/-- `is_arg_by_pointer` -/
def isArgByPointer : Shape → Bool
  | .alias s => isArgByPointer s
  | .variant | .option _ | .result _ _ => true
  | .enum | .flags | .handle => false
  | .tuple | .record | .list | .map => true
  | .future | .stream => false
  | .string => true
  | .scalar => false

/-- which part of the result an out-pointer carries -/
inductive Part where
  | whole | some | ok | err
deriving Repr, DecidableEq, Inhabited

/-- `Scalar` of lib.rs: what the C function returns -/
inductive CRet where
  | void          -- `Scalar::Void`, or everything goes through out-pointers (`scalar: None`)
  | value         -- `Scalar::Type`: the whole result by value
  | boolOption    -- `Scalar::OptionBool`: `true` = some, payload through `*ret`
  | boolResult    -- `Scalar::ResultBool`: `true` = ok, payloads through `*ret` / `*err`
deriving Repr, DecidableEq, Inhabited

structure Return where
  scalar : CRet
  retptrs : List Part
deriving Repr, Inhabited

/-- `Return::return_single(resolve, ty, orig_ty, sig_flattening)`; aliases are followed -/
def returnSingle (flat : Bool) : Shape → Return
  | .string => ⟨.void, [.whole]⟩
  | .scalar => ⟨.value, []⟩
  | .alias s => returnSingle flat s
  | .flags | .enum | .handle | .future | .stream => ⟨.value, []⟩
  | .option _ => if flat then ⟨.boolOption, [.some]⟩ else ⟨.void, [.whole]⟩
  | .result ok err =>
      if flat then
        ⟨.boolResult, (if ok.isSome then [.ok] else []) ++ (if err.isSome then [.err] else [])⟩
      else ⟨.void, [.whole]⟩
  | .tuple | .record | .list | .map | .variant => ⟨.void, [.whole]⟩

/-- `classify_ret` -/
def classifyRet (flat : Bool) : Option Shape → Return
  | none => ⟨.void, []⟩
  | some s => returnSingle flat s

/-- one C parameter -/
inductive CParam where
  | byValue (i : Nat)       -- `T p`      : WIT parameter `i`
  | byPointer (i : Nat)     -- `T *p`     : pointer to WIT parameter `i`
  | maybe (i : Nat)         -- `P *maybe_p`: NULL ⇔ none, else pointer to the payload of option parameter `i`
  | out (part : Part)       -- `X *ret` / `*err` / `*ret<k>` : written by the callee
deriving Repr, DecidableEq, Inhabited

/-- `print_sig_params`: only a *direct* option is flattened (not an alias of one) -/
def paramOf (flat : Bool) (i : Nat) (s : Shape) : CParam :=
  match s with
  | .option _ => if flat then .maybe i else .byPointer i
  | s => if isArgByPointer s then .byPointer i else .byValue i

def paramsFrom (flat : Bool) : Nat → List Shape → List CParam
  | _, [] => []
  | i, s :: ss => paramOf flat i s :: paramsFrom flat (i + 1) ss

structure Sig where
  params : List CParam
  ret : CRet
deriving Repr, Inhabited

/-- `print_sig` for a sync function -/
def printSig (flat : Bool) (params : List Shape) (result : Option Shape) : Sig :=
  let r := classifyRet flat result
  ⟨paramsFrom flat 0 params ++ r.retptrs.map .out, r.scalar⟩

/-- names of the out-pointer parameters (`print_sig`): `ret`, `err`, or `ret<i>` -/
def retptrNames (r : Return) : List String :=
  match r.scalar with
  | .boolResult => r.retptrs.map fun p => if p = .ok then "ret" else "err"
  | _ => if r.retptrs.length = 1 then ["ret"] else (List.range r.retptrs.length).map fun i => "ret" ++ toString i

/-- printer for the driver / header comparison -/
def CParam.str : CParam → String
  | .byValue i => "v" ++ toString i
  | .byPointer i => "p" ++ toString i
  | .maybe i => "m" ++ toString i
  | .out .whole => "o:whole" | .out .some => "o:some" | .out .ok => "o:ok" | .out .err => "o:err"

def CRet.str : CRet → String
  | .void => "void" | .value => "value" | .boolOption => "bool-option" | .boolResult => "bool-result"

end Witverif.Abi.CSig

/-! ### specification side: what the convention must achieve -/
namespace Witverif.Abi.CSigSpec
open Witverif.Abi Witverif.Abi.CSig

/-- an argument as it crosses the C call -/
inductive CArg where
  | val (v : Val)           -- by value
  | ptr (v : Val)           -- pointer to a value
  | null
  | outp                    -- an out-pointer (carries nothing on the way in)
deriving Repr, Inhabited, BEq

/-- the caller turns one WIT argument into the C argument of its parameter -/
def passOne : CParam → Val → Option CArg
  | .byValue _, v => some (.val v)
  | .byPointer _, v => some (.ptr v)
  | .maybe _, .variant 0 none => some .null
  | .maybe _, .variant 1 (some v) => some (.ptr v)
  | .maybe _, _ => none
  | .out _, _ => none

/-- the callee recovers the WIT argument from the C argument -/
def recvOne : CParam → CArg → Option Val
  | .byValue _, .val v => some v
  | .byPointer _, .ptr v => some v
  | .maybe _, .null => some (.variant 0 none)
  | .maybe _, .ptr v => some (.variant 1 (some v))
  | _, _ => none

/-- all WIT arguments, positionally, over the leading (non-`out`) C parameters -/
def passAll : List CParam → List Val → Option (List CArg)
  | [], [] => some []
  | c :: cs, v :: vs => do
      let a ← passOne c v
      let as ← passAll cs vs
      pure (a :: as)
  | _, _ => none

def recvAll : List CParam → List CArg → Option (List Val)
  | [], [] => some []
  | c :: cs, a :: as => do
      let v ← recvOne c a
      let vs ← recvAll cs as
      pure (v :: vs)
  | _, _ => none

/-- what comes back from a C call: the C return value and what was written through each out-pointer -/
structure CBack where
  ret : Option Val                 -- `value`: the result; `bool*`: `.bool b`; `void`: none
  outs : List (Part × Option Val)  -- per out-pointer, in order: the value written (none = left alone)
deriving Repr, Inhabited, BEq

/-- the callee turns the WIT result into the C return value and out-pointer writes -/
def passResult (r : Return) (res : Option Val) : Option CBack :=
  match r.scalar, res with
  | .void, none => if r.retptrs.isEmpty then some ⟨none, []⟩ else none
  | .void, some v => if r.retptrs = [.whole] then some ⟨none, [(.whole, some v)]⟩ else none
  | .value, some v => if r.retptrs.isEmpty then some ⟨some v, []⟩ else none
  | .boolOption, some (.variant 0 none) => some ⟨some (.bool false), [(.some, none)]⟩
  | .boolOption, some (.variant 1 (some v)) => some ⟨some (.bool true), [(.some, some v)]⟩
  | .boolResult, some (.variant i pv) =>
      if i = 0 then some ⟨some (.bool true), r.retptrs.map fun p => (p, if p = .ok then pv else none)⟩
      else if i = 1 then some ⟨some (.bool false), r.retptrs.map fun p => (p, if p = .err then pv else none)⟩
      else none
  | _, _ => none

def outOf (outs : List (Part × Option Val)) (p : Part) : Option Val :=
  match outs.find? (·.1 = p) with
  | some (_, v) => v
  | none => none

/-- the caller recovers the WIT result -/
def recvResult (r : Return) (b : CBack) : Option (Option Val) :=
  match r.scalar, b.ret with
  | .void, none => if r.retptrs.isEmpty then some none else (outOf b.outs .whole).map some
  | .value, some v => some (some v)
  | .boolOption, some (.bool false) => some (some (.variant 0 none))
  | .boolOption, some (.bool true) => (outOf b.outs .some).map fun v => some (.variant 1 (some v))
  | .boolResult, some (.bool true) => some (some (.variant 0 (outOf b.outs .ok)))
  | .boolResult, some (.bool false) => some (some (.variant 1 (outOf b.outs .err)))
  | _, _ => none

/-- well-shaped values for a parameter shape (only what the convention inspects) -/
def paramOk : Shape → Val → Bool
  | .option _, .variant 0 none => true
  | .option _, .variant 1 (some _) => true
  | .option _, _ => false
  | _, _ => true

def paramsOk : List Shape → List Val → Bool
  | [], [] => true
  | s :: ss, v :: vs => paramOk s v && paramsOk ss vs
  | _, _ => false

/-- well-shaped result values: options and results have the payloads their type says -/
def resultOk : Shape → Val → Bool
  | .alias s, v => resultOk s v
  | .option _, .variant 0 none => true
  | .option _, .variant 1 (some _) => true
  | .option _, _ => false
  | .result ok _, .variant 0 pv => ok.isSome == pv.isSome
  | .result _ err, .variant 1 pv => err.isSome == pv.isSome
  | .result _ _, _ => false
  | _, _ => true

def resultOptOk : Option Shape → Option Val → Bool
  | none, none => true
  | some s, some v => resultOk s v
  | _, _ => false

end Witverif.Abi.CSigSpec
