import Witverif.Abi.Layout
/-
Tree form of an instruction stream of `wit_bindgen_core::abi` (see DESIGN.md §6.1).

The Rust harness `abi-trace` records the SSA stream the real generator emits and canonicalises
it: pure block-free instructions are inlined as expressions, effectful instructions become
statements whose results are referenced by content (`res`).  The model generates this form
directly; the two are compared as text.
-/
namespace Witverif.Abi

inductive ScalarOp where
  | i32FromChar | i64FromU64 | i64FromS64 | i32FromU32 | i32FromS32 | i32FromU16 | i32FromS16
  | i32FromU8 | i32FromS8 | coreF32FromF32 | coreF64FromF64
  | s8FromI32 | u8FromI32 | s16FromI32 | u16FromI32 | s32FromI32 | u32FromI32 | s64FromI64 | u64FromI64
  | charFromI32 | f32FromCoreF32 | f64FromCoreF64 | boolFromI32 | i32FromBool
deriving Repr, DecidableEq

def ScalarOp.str : ScalarOp → String
  | .i32FromChar => "I32FromChar" | .i64FromU64 => "I64FromU64" | .i64FromS64 => "I64FromS64"
  | .i32FromU32 => "I32FromU32" | .i32FromS32 => "I32FromS32" | .i32FromU16 => "I32FromU16"
  | .i32FromS16 => "I32FromS16" | .i32FromU8 => "I32FromU8" | .i32FromS8 => "I32FromS8"
  | .coreF32FromF32 => "CoreF32FromF32" | .coreF64FromF64 => "CoreF64FromF64"
  | .s8FromI32 => "S8FromI32" | .u8FromI32 => "U8FromI32" | .s16FromI32 => "S16FromI32"
  | .u16FromI32 => "U16FromI32" | .s32FromI32 => "S32FromI32" | .u32FromI32 => "U32FromI32"
  | .s64FromI64 => "S64FromI64" | .u64FromI64 => "U64FromI64" | .charFromI32 => "CharFromI32"
  | .f32FromCoreF32 => "F32FromCoreF32" | .f64FromCoreF64 => "F64FromCoreF64"
  | .boolFromI32 => "BoolFromI32" | .i32FromBool => "I32FromBool"

inductive LoadKind where
  | i32 | i32_8u | i32_8s | i32_16u | i32_16s | i64 | f32 | f64 | ptr | len
deriving Repr, DecidableEq

def LoadKind.str : LoadKind → String
  | .i32 => "I32Load" | .i32_8u => "I32Load8U" | .i32_8s => "I32Load8S" | .i32_16u => "I32Load16U"
  | .i32_16s => "I32Load16S" | .i64 => "I64Load" | .f32 => "F32Load" | .f64 => "F64Load"
  | .ptr => "PointerLoad" | .len => "LengthLoad"

inductive StoreKind where
  | i32 | i32_8 | i32_16 | i64 | f32 | f64 | ptr | len
deriving Repr, DecidableEq

def StoreKind.str : StoreKind → String
  | .i32 => "I32Store" | .i32_8 => "I32Store8" | .i32_16 => "I32Store16" | .i64 => "I64Store"
  | .f32 => "F32Store" | .f64 => "F64Store" | .ptr => "PointerStore" | .len => "LengthStore"

/-- `Instruction` (without names / type ids, which no backend-independent meaning depends on).
`realloc = true` ⇔ `realloc: Some(..)`. -/
inductive Op where
  | scalar (s : ScalarOp)
  | load (k : LoadKind) (off : Off)
  | store (k : StoreKind) (off : Off)
  | listCanonLower (e : Ty) (realloc : Bool) | stringLower (realloc : Bool) | listLower (e : Ty) (realloc : Bool)
  | listCanonLift (e : Ty) | stringLift | listLift (e : Ty)
  | mapLower (k v : Ty) (realloc : Bool) | mapLift (k v : Ty)
  | flistLift (e : Ty) (n : Nat) | flistLower (e : Ty) (n : Nat)
  | flistLowerMem (e : Ty) (n : Nat) | flistLiftMem (e : Ty) (n : Nat)
  | recordLower (n : Nat) | recordLift (n : Nat) | tupleLower (n : Nat) | tupleLift (n : Nat)
  | handleLower (own : Bool) | handleLift (own : Bool)
  | futureLower | futureLift | streamLower | streamLift | errLower | errLift
  | flagsLower (n : Nat) | flagsLift (n : Nat)
  | variantLower (n : Nat) (results : List CoreTy) | variantLift (n : Nat)
  | enumLower (n : Nat) | enumLift (n : Nat)
  | optionLower (results : List CoreTy) | optionLift
  | resultLower (results : List CoreTy) | resultLift
  | callWasm (params results : List CoreTy)
  | callInterface (nparams nres : Nat) (async : Bool)
  | ret (amt : Nat)
  | malloc (size align : Off)
  | dealloc (size align : Off)
  | deallocString | deallocList (e : Ty) | deallocMap (k v : Ty) | deallocVariant (n : Nat)
  | dropHandle (t : Ty)
  | asyncTaskReturn (params : List CoreTy)
  | flush (n : Nat)
deriving Repr

def reallocStr (b : Bool) : String := if b then "realloc" else "borrow"

def Op.str : Op → String
  | .scalar s => s.str
  | .load k o => k.str ++ " " ++ o.str
  | .store k o => k.str ++ " " ++ o.str
  | .listCanonLower e r => "ListCanonLower " ++ e.str ++ " " ++ reallocStr r
  | .stringLower r => "StringLower " ++ reallocStr r
  | .listLower e r => "ListLower " ++ e.str ++ " " ++ reallocStr r
  | .listCanonLift e => "ListCanonLift " ++ e.str
  | .stringLift => "StringLift"
  | .listLift e => "ListLift " ++ e.str
  | .mapLower k v r => "MapLower " ++ k.str ++ " " ++ v.str ++ " " ++ reallocStr r
  | .mapLift k v => "MapLift " ++ k.str ++ " " ++ v.str
  | .flistLift e n => "FixedLengthListLift " ++ e.str ++ " " ++ toString n
  | .flistLower e n => "FixedLengthListLower " ++ e.str ++ " " ++ toString n
  | .flistLowerMem e n => "FixedLengthListLowerToMemory " ++ e.str ++ " " ++ toString n
  | .flistLiftMem e n => "FixedLengthListLiftFromMemory " ++ e.str ++ " " ++ toString n
  | .recordLower n => "RecordLower " ++ toString n
  | .recordLift n => "RecordLift " ++ toString n
  | .tupleLower n => "TupleLower " ++ toString n
  | .tupleLift n => "TupleLift " ++ toString n
  | .handleLower o => "HandleLower " ++ (if o then "own" else "borrow")
  | .handleLift o => "HandleLift " ++ (if o then "own" else "borrow")
  | .futureLower => "FutureLower" | .futureLift => "FutureLift"
  | .streamLower => "StreamLower" | .streamLift => "StreamLift"
  | .errLower => "ErrorContextLower" | .errLift => "ErrorContextLift"
  | .flagsLower n => "FlagsLower " ++ toString n
  | .flagsLift n => "FlagsLift " ++ toString n
  | .variantLower n rs => "VariantLower " ++ toString n ++ " " ++ coreTysStr rs
  | .variantLift n => "VariantLift " ++ toString n
  | .enumLower n => "EnumLower " ++ toString n
  | .enumLift n => "EnumLift " ++ toString n
  | .optionLower rs => "OptionLower " ++ coreTysStr rs
  | .optionLift => "OptionLift"
  | .resultLower rs => "ResultLower " ++ coreTysStr rs
  | .resultLift => "ResultLift"
  | .callWasm ps rs => "CallWasm " ++ coreTysStr ps ++ " " ++ coreTysStr rs
  | .callInterface np nr a => "CallInterface " ++ toString np ++ " " ++ toString nr ++ " " ++ (if a then "async" else "sync")
  | .ret n => "Return " ++ toString n
  | .malloc s a => "Malloc " ++ s.str ++ " " ++ a.str
  | .dealloc s a => "GuestDeallocate " ++ s.str ++ " " ++ a.str
  | .deallocString => "GuestDeallocateString"
  | .deallocList e => "GuestDeallocateList " ++ e.str
  | .deallocMap k v => "GuestDeallocateMap " ++ k.str ++ " " ++ v.str
  | .deallocVariant n => "GuestDeallocateVariant " ++ toString n
  | .dropHandle t => "DropHandle " ++ t.str
  | .asyncTaskReturn ps => "AsyncTaskReturn " ++ coreTysStr ps
  | .flush n => "Flush " ++ toString n

/-- number of results (`Instruction::results_len`). -/
def Op.nres : Op → Nat
  | .scalar _ | .load _ _ => 1
  | .store _ _ => 0
  | .listCanonLower _ _ | .stringLower _ | .listLower _ _ | .mapLower _ _ _ => 2
  | .listCanonLift _ | .stringLift | .listLift _ | .mapLift _ _ => 1
  | .flistLift _ _ => 1 | .flistLower _ n => n | .flistLowerMem _ _ => 0 | .flistLiftMem _ _ => 1
  | .recordLower n | .tupleLower n => n
  | .recordLift _ | .tupleLift _ => 1
  | .handleLower _ | .handleLift _ | .futureLower | .futureLift | .streamLower | .streamLift
  | .errLower | .errLift => 1
  | .flagsLower n => (flagsRepr n).count
  | .flagsLift _ => 1
  | .variantLower _ rs | .optionLower rs | .resultLower rs => rs.length
  | .variantLift _ | .optionLift | .resultLift | .enumLower _ | .enumLift _ => 1
  | .callWasm _ rs => rs.length
  | .callInterface _ nr _ => nr
  | .ret _ => 0 | .malloc _ _ => 1 | .dealloc _ _ => 0
  | .deallocString | .deallocList _ | .deallocMap _ _ | .deallocVariant _ | .dropHandle _ => 0
  | .asyncTaskReturn _ => 0
  | .flush n => n

/-- drop the leading separator space -/
def dropSp (s : String) : String := (s.drop 1).toString

inductive Expr where
  | arg (n : Nat)                      -- `GetArg`
  | inp (n : Nat)                      -- operand supplied by the caller of the public API
  | rp (n : Nat) (size align : Off)    -- n-th `Bindgen::return_pointer` of this function
  | pl (lvl : Nat)                     -- `VariantPayloadName` of the enclosing block at nesting level `lvl`
  | elem (lvl : Nat) | key (lvl : Nat) | val (lvl : Nat) | base (lvl : Nat)
  | i32 (v : Nat)                      -- `I32Const` (only ever case indices)
  | zero (t : CoreTy)                  -- one slot of `ConstZero`
  | cast (c : Bitcast) (e : Expr)      -- one slot of `Bitcasts`
  | op (o : Op) (args : List Expr) (blocks : List (List Expr)) (k : Nat)
      -- k-th result of a pure instruction; its blocks are pure (results only)
  | res (k : Nat) (o : Op) (args : List Expr)
      -- k-th result of the executed statement with this instruction and operands
deriving Repr, Inhabited

inductive Stmt where
  /-- effectful instruction with `o.nres` results, blocks = (statements, results). -/
  | eff (o : Op) (args : List Expr) (blocks : List (List Stmt × List Expr))
deriving Repr

instance : Inhabited Stmt := ⟨.eff .deallocString [] []⟩

abbrev Block := List Stmt × List Expr

mutual
def Expr.str : Expr → String
  | .arg n => "(arg " ++ toString n ++ ")"
  | .inp n => "(in " ++ toString n ++ ")"
  | .rp n s a => "(rp " ++ toString n ++ " " ++ s.str ++ " " ++ a.str ++ ")"
  | .pl l => "(pl " ++ toString l ++ ")"
  | .elem l => "(elem " ++ toString l ++ ")"
  | .key l => "(key " ++ toString l ++ ")"
  | .val l => "(val " ++ toString l ++ ")"
  | .base l => "(base " ++ toString l ++ ")"
  | .i32 v => "(i32 " ++ toString v ++ ")"
  | .zero t => "(zero " ++ t.str ++ ")"
  | .cast c e => "(cast " ++ c.str ++ " " ++ e.str ++ ")"
  | .op o args blocks k =>
      let whole := "(" ++ o.str ++ exprsStr args ++ pureBlocksStr blocks ++ ")"
      if o.nres = 1 then whole else "(# " ++ toString k ++ " " ++ whole ++ ")"
  | .res k o args => "(res " ++ toString k ++ " " ++ o.str ++ exprsStr args ++ ")"
/-- each expression preceded by a space -/
def exprsStr : List Expr → String
  | [] => ""
  | e :: es => " " ++ e.str ++ exprsStr es
def pureBlocksStr : List (List Expr) → String
  | [] => ""
  | b :: bs => " {=>" ++ dropSp (exprsStr b) ++ "}" ++ pureBlocksStr bs
end

mutual
def Stmt.str : Stmt → String
  | .eff o args blocks =>
      "(let " ++ toString o.nres ++ " " ++ o.str ++ exprsStr args ++ blocksStr blocks ++ ")"
def stmtsStr : List Stmt → String
  | [] => ""
  | s :: ss => " " ++ s.str ++ stmtsStr ss
def blocksStr : List (List Stmt × List Expr) → String
  | [] => ""
  | (ss, rs) :: bs => " {" ++ dropSp (stmtsStr ss) ++ "=>" ++ dropSp (exprsStr rs) ++ "}" ++ blocksStr bs
end

def Block.str (b : Block) : String :=
  "{" ++ dropSp (stmtsStr b.1) ++ "=>" ++ dropSp (exprsStr b.2) ++ "}"

end Witverif.Abi
