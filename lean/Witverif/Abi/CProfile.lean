import Witverif.Abi.Gen
import Witverif.Abi.Validate
import Witverif.Text.Heck
import Witverif.Generated.CDtor
/-
The C backend's profile of the shared ABI generator (crates/c/src/lib.rs `impl Bindgen for
FunctionBindgen`):

* `is_list_canonical = Resolve::all_bits_valid` (`Gen.allBitsValid`), but — unlike every other
  backend — the C emitter *discards the element block* of `ListLower` / `ListLift` / `MapLower` /
  `MapLift` and passes `ptr`/`len` through: a list in linear memory *is* the C array.  This is
  sound exactly when the C struct layout of every generated typedef coincides with the canonical
  ABI layout; `cSize`/`cAlign`/`cFieldOffsets` below model the C layout rules (natural alignment,
  struct and union rounding) of the typedefs the generator prints (`type_record`, `type_variant`,
  `type_option`, `type_result`, `type_flags` = `flags_repr`, `type_enum`, `type_list`, …).
* ownership: lifts alias the caller's buffer (exports: the user function owns its parameters and
  frees them with the generated `*_free` helpers; imports: arguments are only borrowed,
  `realloc: None`), lowered results are freed by the generated post-return (`free`).
* `cFrees`: model of `define_dtor` / `free` — the calls to `free` a generated `<type>_free` helper
  performs on a value stored in linear memory (it reads the C struct, i.e. canonical memory).
* `cDtorExportName`: the export name the generator gives an exported resource's destructor.
-/
namespace Witverif.Abi.CProfile
open Witverif.Abi

/-- types the C backend generates code for (`todo!()` for fixed-length lists and error-context;
`flags_repr` panics above 64 flags) -/
def cSupportedFlags (n : Nat) : Bool := n ≤ 64

mutual
def cSupported : Ty → Bool
  | .errctx | .flist _ _ => false
  | .flags n => cSupportedFlags n
  | .list e => cSupported e
  | .map k v => cSupported k && cSupported v
  | .record fs => cSupportedAll fs
  | .tuple ts => cSupportedAll ts
  | .variant cs => cSupportedCases cs
  | .option t => cSupported t
  | .result a b => cSupportedOpt a && cSupportedOpt b
  | .future _ | .stream _ => true       -- handles: the payload type is not laid out
  | _ => true
def cSupportedAll : List Ty → Bool
  | [] => true
  | t :: ts => cSupported t && cSupportedAll ts
def cSupportedOpt : Option Ty → Bool
  | none => true
  | some t => cSupported t
def cSupportedCases : List (Option Ty) → Bool
  | [] => true
  | c :: cs => cSupportedOpt c && cSupportedCases cs
end

mutual
/-- every flags type has between 1 and 32 members (the component-model limits enforced by the
validator; WIT has no empty flags) -/
def flagsLe32 : Ty → Bool
  | .flags n => 0 < n && n ≤ 32
  | .list e | .flist e _ | .option e => flagsLe32 e
  | .map k v => flagsLe32 k && flagsLe32 v
  | .record fs | .tuple fs => flagsLe32All fs
  | .variant cs => flagsLe32Cases cs
  | .result a b => flagsLe32Opt a && flagsLe32Opt b
  | _ => true
def flagsLe32All : List Ty → Bool
  | [] => true
  | t :: ts => flagsLe32 t && flagsLe32All ts
def flagsLe32Opt : Option Ty → Bool
  | none => true
  | some t => flagsLe32 t
def flagsLe32Cases : List (Option Ty) → Bool
  | [] => true
  | c :: cs => flagsLe32Opt c && flagsLe32Cases cs
end

/-- `flags_repr`: the C integer type of a flags typedef (size = alignment) -/
def cFlagsSize (n : Nat) : Nat :=
  if n ≤ 8 then 1 else if n ≤ 16 then 2 else if n ≤ 32 then 4 else 8

/-- a C struct: members laid out in order at their natural alignment; returns the end offset -/
def structEnd (cur : Nat) : List (Nat × Nat) → Nat          -- (size, align)
  | [] => cur
  | (s, a) :: ms => structEnd (alignTo cur a + s) ms

def maxAlignOf : List (Nat × Nat) → Nat
  | [] => 1
  | (_, a) :: ms => Nat.max a (maxAlignOf ms)

def maxSizeOf : List (Nat × Nat) → Nat
  | [] => 0
  | (s, _) :: ms => Nat.max s (maxSizeOf ms)

/-- size and alignment of `struct { members }` -/
def structSA (ms : List (Nat × Nat)) : Nat × Nat :=
  let a := maxAlignOf ms
  (alignTo (structEnd 0 ms) a, a)

/-- size and alignment of `union { members }` -/
def unionSA (ms : List (Nat × Nat)) : Nat × Nat :=
  let a := maxAlignOf ms
  (alignTo (maxSizeOf ms) a, a)

mutual
/-- `(sizeof, _Alignof)` of the C type generated for `t` on a target with pointer size `p`
(`borrow` as the handle struct: a borrow of an *exported* resource is a raw pointer, which has the
same size only when `p = 4`) -/
def cSA (p : Nat) : Ty → Nat × Nat
  | .bool | .s8 | .u8 => (1, 1)
  | .s16 | .u16 => (2, 2)
  | .s32 | .u32 | .f32 | .char | .errctx => (4, 4)
  | .s64 | .u64 | .f64 => (8, 8)
  | .string | .list _ | .map _ _ => structSA [(p, p), (p, p)]            -- { T *ptr; size_t len; }
  | .flist e n => let (s, a) := cSA p e; (n * s, a)                       -- (not generated; C array)
  | .record fs => structSA (cSAs p fs)
  | .tuple ts => structSA (cSAs p ts)
  | .flags n => (cFlagsSize n, cFlagsSize n)
  | .enum n => ((discriminant n).size, (discriminant n).size)
  | .variant cs =>
      let d := (discriminant cs.length).size
      let ms := cSAsOpt p cs
      if ms.isEmpty then structSA [(d, d)] else structSA [(d, d), unionSA ms]
  | .option t => structSA [(1, 1), cSA p t]
  | .result a b =>
      let ms := cSAOpt p a ++ cSAOpt p b
      if ms.isEmpty then structSA [(1, 1)] else structSA [(1, 1), unionSA ms]
  | .own | .borrow => structSA [(4, 4)]                                   -- { int32_t __handle; }
  | .future _ | .stream _ => (4, 4)                                       -- uint32_t
def cSAs (p : Nat) : List Ty → List (Nat × Nat)
  | [] => []
  | t :: ts => cSA p t :: cSAs p ts
def cSAOpt (p : Nat) : Option Ty → List (Nat × Nat)
  | none => []
  | some t => [cSA p t]
/-- members of the payload union: only the cases that carry a type -/
def cSAsOpt (p : Nat) : List (Option Ty) → List (Nat × Nat)
  | [] => []
  | none :: cs => cSAsOpt p cs
  | some t :: cs => cSA p t :: cSAsOpt p cs
end

def cSize (p : Nat) (t : Ty) : Nat := (cSA p t).1
def cAlign (p : Nat) (t : Ty) : Nat := (cSA p t).2

/-- offsets of the members of a C struct -/
def structOffsets (cur : Nat) : List (Nat × Nat) → List Nat
  | [] => []
  | (s, a) :: ms => alignTo cur a :: structOffsets (alignTo cur a + s) ms

def cFieldOffsets (p : Nat) (ts : List Ty) : List Nat := structOffsets 0 (cSAs p ts)

/-! ### `define_dtor` / `free`: what a generated `<type>_free(ptr)` frees -/

/-- concatenate `f a` over `n` consecutive elements of size `sz` -/
def freesMany (f : Nat → List (Nat × Nat)) (sz a : Nat) : Nat → List (Nat × Nat)
  | 0 => []
  | n + 1 => f a ++ freesMany f sz (a + sz) n

mutual
/-- the `free(ptr)` calls, in order, as `(address, length field)` performed by the generated free
helper for a value of type `t` stored at `a` (C layout = canonical layout, see `c_layout_eq`).
`string`: `if (len > 0) free(ptr)`; list/map: `if (len > 0) { free elements…; free(ptr) }`;
handles, futures and streams are *not* dropped by the helpers. -/
def cFrees (p : Nat) (m : Spec.Mem) : Ty → Nat → List (Nat × Nat)
  | .string, a => if m.loadLE (a + p) p > 0 then [(m.loadLE a p, m.loadLE (a + p) p)] else []
  | .list e, a =>
      let ptr := m.loadLE a p
      let n := m.loadLE (a + p) p
      if n > 0 then freesMany (cFrees p m e) (elemSize p e) ptr n ++ [(ptr, n)] else []
  | .map k v, a =>
      let ptr := m.loadLE a p
      let n := m.loadLE (a + p) p
      let esz := elemSize p (.tuple [k, v])
      let vo := alignTo (elemSize p k) (alignment p v)
      -- per entry: key then value (`define_dtor` `TypeDefKind::Map`)
      if n > 0 then freesMany (fun a => cFrees p m k a ++ cFrees p m v (a + vo)) esz ptr n ++ [(ptr, n)] else []
  | .record fs, a => cFreesFields p m fs a 0
  | .tuple ts, a => cFreesFields p m ts a 0
  | .variant cs, a =>
      let tag := discriminant cs.length
      cFreesCase p m cs (m.loadLE a tag.size) (a + payloadOffset p tag cs)
  | .option t, a =>
      if m.loadLE a 1 != 0 then cFrees p m t (a + payloadOffset p .u8 [none, some t]) else []
  | .result ok err, a =>
      let po := a + payloadOffset p .u8 [ok, err]
      if m.loadLE a 1 == 0 then cFreesOpt p m ok po else cFreesOpt p m err po
  | _, _ => []
def cFreesFields (p : Nat) (m : Spec.Mem) : List Ty → Nat → Nat → List (Nat × Nat)
  | [], _, _ => []
  | t :: ts, a, cur =>
      let o := alignTo cur (alignment p t)
      cFrees p m t (a + o) ++ cFreesFields p m ts a (o + elemSize p t)
def cFreesOpt (p : Nat) (m : Spec.Mem) : Option Ty → Nat → List (Nat × Nat)
  | none, _ => []
  | some t, a => cFrees p m t a
def cFreesCase (p : Nat) (m : Spec.Mem) : List (Option Ty) → Nat → Nat → List (Nat × Nat)
  | [], _, _ => []
  | c :: _, 0, a => cFreesOpt p m c a
  | _ :: cs, i + 1, a => cFreesCase p m cs i a
end

/-! ### the dtor registry before the repair (kept to *name* a regression): `define_live_types` skipped `define_dtor` for a shared anonymous type

Since /repo's fix "C free helpers free members of shared anonymous types" the registry is complete in
every pass (`dtors_by_name`), i.e. the generated helpers are `cFrees`.  What follows describes the old
behaviour; the check uses it only to label a reappearance of that defect.

`define_live_types` gives an anonymous type built only from primitives (`is_prim_type_id`) a
world-level name (`<world>_list_string_t`), defines it once (`prim_names`) and, when it meets the
same name again in a later pass, `continue`s *before* `define_dtor`: the later pass's `dtor_funcs`
has no entry for it, and `free()` of a member of that type emits nothing.  After
`remove_types_redefined_by_exports` this is the situation of every export pass whose shared
anonymous types were already defined by an import pass.  `cFreesLate` is `define_dtor` under that
registry (alias-free types: records, variants, enums, flags are named; list / option / tuple / map
are anonymous). -/

mutual
/-- `is_prim_type` on alias-free types -/
def isPrimTy : Ty → Bool
  | .bool | .s8 | .u8 | .s16 | .u16 | .s32 | .u32 | .s64 | .u64 | .f32 | .f64 | .char | .string => true
  | .list e | .option e => isPrimTy e
  | .tuple ts => isPrimTys ts
  | .map k v => isPrimTy k && isPrimTy v
  | _ => false
def isPrimTys : List Ty → Bool
  | [] => true
  | t :: ts => isPrimTy t && isPrimTys ts
end

/-- an anonymous type with a world-level (shared) name -/
def isSharedAnon : Ty → Bool
  | .list e | .option e => isPrimTy e
  | .tuple ts => isPrimTys ts
  | .map k v => isPrimTy k && isPrimTy v
  | _ => false

mutual
/-- frees performed by a helper generated in a pass where shared anonymous types have no dtor entry
(members of such a type are skipped) -/
def cFreesLate (p : Nat) (m : Spec.Mem) : Ty → Nat → List (Nat × Nat)
  | .string, a => if m.loadLE (a + p) p > 0 then [(m.loadLE a p, m.loadLE (a + p) p)] else []
  | .list e, a =>
      let ptr := m.loadLE a p
      let n := m.loadLE (a + p) p
      if n > 0 then freesMany (fun x => if isSharedAnon e then [] else cFreesLate p m e x) (elemSize p e) ptr n ++ [(ptr, n)] else []
  | .map k v, a =>
      let ptr := m.loadLE a p
      let n := m.loadLE (a + p) p
      let esz := elemSize p (.tuple [k, v])
      let vo := alignTo (elemSize p k) (alignment p v)
      if n > 0 then freesMany (fun x => (if isSharedAnon k then [] else cFreesLate p m k x)
          ++ (if isSharedAnon v then [] else cFreesLate p m v (x + vo))) esz ptr n ++ [(ptr, n)] else []
  | .record fs, a => cFreesLateFields p m fs a 0
  | .tuple ts, a => cFreesLateFields p m ts a 0
  | .variant cs, a =>
      let tag := discriminant cs.length
      cFreesLateCase p m cs (m.loadLE a tag.size) (a + payloadOffset p tag cs)
  | .option t, a =>
      if m.loadLE a 1 != 0 then
        (if isSharedAnon t then [] else cFreesLate p m t (a + payloadOffset p .u8 [none, some t])) else []
  | .result ok err, a =>
      let po := a + payloadOffset p .u8 [ok, err]
      if m.loadLE a 1 == 0 then cFreesLateOpt p m ok po else cFreesLateOpt p m err po
  | _, _ => []
def cFreesLateFields (p : Nat) (m : Spec.Mem) : List Ty → Nat → Nat → List (Nat × Nat)
  | [], _, _ => []
  | t :: ts, a, cur =>
      let o := alignTo cur (alignment p t)
      (if isSharedAnon t then [] else cFreesLate p m t (a + o)) ++ cFreesLateFields p m ts a (o + elemSize p t)
def cFreesLateOpt (p : Nat) (m : Spec.Mem) : Option Ty → Nat → List (Nat × Nat)
  | none, _ => []
  | some t, a => if isSharedAnon t then [] else cFreesLate p m t a
def cFreesLateCase (p : Nat) (m : Spec.Mem) : List (Option Ty) → Nat → Nat → List (Nat × Nat)
  | [], _, _ => []
  | c :: _, 0, a => cFreesLateOpt p m c a
  | _ :: cs, i + 1, a => cFreesLateCase p m cs i a
end

/-- what the helper frees under the complete (`late = false`, current code) or the pre-repair
(`late = true`) registry; a shared root type always had the complete helper of the first pass -/
def cFreesObserved (late : Bool) (p : Nat) (m : Spec.Mem) (t : Ty) (a : Nat) : List (Nat × Nat) :=
  if late && !isSharedAnon t then cFreesLate p m t a else cFrees p m t a

/-! ### the destructor export of an exported resource (`type_resource`) -/

open Witverif.Generated.CDtor in
/-- one segment of the extracted `format!` string -/
def evalSeg (module name : String) : Witverif.Generated.CDtor.Seg → String
  | .lit s => s
  | .module => module
  | .name => name
  | .snake => String.ofList (Witverif.Text.Heck.snake name.toList)
  | .other v => "{" ++ v ++ "}"

/-- the `__export_name__` of the destructor: the format string extracted from crates/c/src/lib.rs
(`Generated/CDtor.lean`) applied to `module = name_world_key(key)` and the resource's WIT name -/
def cDtorExportName (module name : String) : String :=
  (Witverif.Generated.CDtor.dtorExportFormat.map (evalSeg module name)).foldl (· ++ ·) ""

end Witverif.Abi.CProfile

namespace Witverif.Abi.CProfileSpec
open Witverif.Abi Witverif.Abi.CProfile

/-- all of `f a`, `f (a+sz)`, … (`n` times) -/
def manyAll (f : Nat → Bool) (sz a : Nat) : Nat → Bool
  | 0 => true
  | n + 1 => f a && manyAll f sz (a + sz) n

mutual
/-- every `option` discriminant reachable in the value of type `t` stored at `a` is 0 or 1 — what
`Spec.load` accepts (the generated helper tests `is_some` for non-zero, the spec for `== 1`) -/
def optTagsOk (p : Nat) (m : Spec.Mem) : Ty → Nat → Bool
  | .list e, a => manyAll (optTagsOk p m e) (elemSize p e) (m.loadLE a p) (m.loadLE (a + p) p)
  | .map k v, a =>
      let ptr := m.loadLE a p
      let n := m.loadLE (a + p) p
      let esz := elemSize p (.tuple [k, v])
      let vo := alignTo (elemSize p k) (alignment p v)
      manyAll (optTagsOk p m k) esz ptr n && manyAll (optTagsOk p m v) esz (ptr + vo) n
  | .record fs, a => optTagsOkFields p m fs a 0
  | .tuple ts, a => optTagsOkFields p m ts a 0
  | .variant cs, a =>
      let tag := discriminant cs.length
      optTagsOkCase p m cs (m.loadLE a tag.size) (a + payloadOffset p tag cs)
  | .option t, a =>
      m.loadLE a 1 == 0 || (m.loadLE a 1 == 1 && optTagsOk p m t (a + payloadOffset p .u8 [none, some t]))
  | .result ok err, a =>
      let po := a + payloadOffset p .u8 [ok, err]
      if m.loadLE a 1 == 0 then optTagsOkOpt p m ok po else optTagsOkOpt p m err po
  | _, _ => true
def optTagsOkFields (p : Nat) (m : Spec.Mem) : List Ty → Nat → Nat → Bool
  | [], _, _ => true
  | t :: ts, a, cur =>
      let o := alignTo cur (alignment p t)
      optTagsOk p m t (a + o) && optTagsOkFields p m ts a (o + elemSize p t)
def optTagsOkOpt (p : Nat) (m : Spec.Mem) : Option Ty → Nat → Bool
  | none, _ => true
  | some t, a => optTagsOk p m t a
def optTagsOkCase (p : Nat) (m : Spec.Mem) : List (Option Ty) → Nat → Nat → Bool
  | [], _, _ => true
  | c :: _, 0, a => optTagsOkOpt p m c a
  | _ :: cs, i + 1, a => optTagsOkCase p m cs i a
end

mutual
/-- every list element type / map entry type occurring in `t` has a non-zero size (no list of empty
tuples): then "the buffer is non-empty" and "the length is non-zero" coincide -/
def elemsPos (p : Nat) : Ty → Bool
  | .list e => decide (0 < elemSize p e) && elemsPos p e
  | .map k v => decide (0 < elemSize p (.tuple [k, v])) && elemsPos p k && elemsPos p v
  | .flist e _ | .option e => elemsPos p e
  | .record fs | .tuple fs => elemsPosAll p fs
  | .variant cs => elemsPosCases p cs
  | .result a b => elemsPosOpt p a && elemsPosOpt p b
  | _ => true
def elemsPosAll (p : Nat) : List Ty → Bool
  | [] => true
  | t :: ts => elemsPos p t && elemsPosAll p ts
def elemsPosOpt (p : Nat) : Option Ty → Bool
  | none => true
  | some t => elemsPos p t
def elemsPosCases (p : Nat) : List (Option Ty) → Bool
  | [] => true
  | c :: cs => elemsPosOpt p c && elemsPosCases p cs
end

mutual
/-- no member (field, element, payload) of `t`, at any depth, has a shared anonymous type -/
def noSharedMember : Ty → Bool
  | .list e | .option e => !isSharedAnon e && noSharedMember e
  | .map k v => !isSharedAnon k && !isSharedAnon v && noSharedMember k && noSharedMember v
  | .record fs | .tuple fs => noSharedMembers fs
  | .variant cs => noSharedCases cs
  | .result a b => noSharedOpt a && noSharedOpt b
  | _ => true
def noSharedMembers : List Ty → Bool
  | [] => true
  | t :: ts => !isSharedAnon t && noSharedMember t && noSharedMembers ts
def noSharedOpt : Option Ty → Bool
  | none => true
  | some t => !isSharedAnon t && noSharedMember t
def noSharedCases : List (Option Ty) → Bool
  | [] => true
  | c :: cs => noSharedOpt c && noSharedCases cs
end

end Witverif.Abi.CProfileSpec
