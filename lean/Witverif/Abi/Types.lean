/-
WIT value types as closed terms (aliases resolved by the harness), core wasm types with
wit-parser's provenance refinement, bitcasts.  Import-free.
-/
namespace Witverif.Abi

/-- WIT value types. `own`/`borrow` carry no resource identity: no instruction depends on it. -/
inductive Ty where
  | bool | s8 | u8 | s16 | u16 | s32 | u32 | s64 | u64 | f32 | f64 | char | string | errctx
  | list (e : Ty)
  | flist (e : Ty) (n : Nat)
  | map (k v : Ty)
  | record (fs : List Ty)
  | tuple (ts : List Ty)
  | flags (n : Nat)
  | enum (n : Nat)
  | variant (cs : List (Option Ty))
  | option (t : Ty)
  | result (ok err : Option Ty)
  | own | borrow
  | future (p : Option Ty)
  | stream (p : Option Ty)
deriving Repr, Inhabited

/-- wit-parser `WasmType`. -/
inductive CoreTy where
  | i32 | i64 | f32 | f64 | ptr | p64 | len
deriving Repr, DecidableEq, Inhabited

/-- wit-bindgen-core `Bitcast`. -/
inductive Bitcast where
  | f32ToI32 | f64ToI64 | i32ToI64 | f32ToI64
  | i32ToF32 | i64ToF64 | i64ToI32 | i64ToF32
  | p64ToI64 | i64ToP64 | p64ToP | pToP64
  | i32ToP | pToI32 | pToL | lToP
  | i32ToL | lToI32 | i64ToL | lToI64
  | seq (a b : Bitcast)
  | none
deriving Repr, DecidableEq, Inhabited

/-- wit-parser `Int` (discriminant / flags storage). -/
inductive IntRepr where
  | u8 | u16 | u32 | u64
deriving Repr, DecidableEq

/-- An offset / size / alignment evaluated for both pointer widths (wasm32, wasm64). -/
structure Off where
  w32 : Nat
  w64 : Nat
deriving Repr, DecidableEq, Inhabited

instance : Add Off := ⟨fun a b => ⟨a.w32 + b.w32, a.w64 + b.w64⟩⟩
def Off.zero : Off := ⟨0, 0⟩
def Off.bytes (n : Nat) : Off := ⟨n, n⟩
def Off.ptrs (n : Nat) : Off := ⟨4 * n, 8 * n⟩

/-! ### printers (the canonical text shared with the Rust harness) -/

def CoreTy.str : CoreTy → String
  | .i32 => "i32" | .i64 => "i64" | .f32 => "f32" | .f64 => "f64"
  | .ptr => "ptr" | .p64 => "p64" | .len => "len"

def coreTysStr (ts : List CoreTy) : String :=
  if ts.isEmpty then "-" else ",".intercalate (ts.map CoreTy.str)

def Bitcast.str : Bitcast → String
  | .f32ToI32 => "F32ToI32" | .f64ToI64 => "F64ToI64" | .i32ToI64 => "I32ToI64" | .f32ToI64 => "F32ToI64"
  | .i32ToF32 => "I32ToF32" | .i64ToF64 => "I64ToF64" | .i64ToI32 => "I64ToI32" | .i64ToF32 => "I64ToF32"
  | .p64ToI64 => "P64ToI64" | .i64ToP64 => "I64ToP64" | .p64ToP => "P64ToP" | .pToP64 => "PToP64"
  | .i32ToP => "I32ToP" | .pToI32 => "PToI32" | .pToL => "PToL" | .lToP => "LToP"
  | .i32ToL => "I32ToL" | .lToI32 => "LToI32" | .i64ToL => "I64ToL" | .lToI64 => "LToI64"
  | .seq a b => "seq." ++ a.str ++ "." ++ b.str
  | .none => "None"

def Off.str (o : Off) : String := toString o.w32 ++ "/" ++ toString o.w64

mutual
def Ty.str : Ty → String
  | .bool => "bool" | .s8 => "s8" | .u8 => "u8" | .s16 => "s16" | .u16 => "u16"
  | .s32 => "s32" | .u32 => "u32" | .s64 => "s64" | .u64 => "u64" | .f32 => "f32" | .f64 => "f64"
  | .char => "char" | .string => "string" | .errctx => "errctx"
  | .list e => "(list " ++ e.str ++ ")"
  | .flist e n => "(flist " ++ e.str ++ " " ++ toString n ++ ")"
  | .map k v => "(map " ++ k.str ++ " " ++ v.str ++ ")"
  | .record fs => "(record" ++ tysStr fs ++ ")"
  | .tuple ts => "(tuple" ++ tysStr ts ++ ")"
  | .flags n => "(flags " ++ toString n ++ ")"
  | .enum n => "(enum " ++ toString n ++ ")"
  | .variant cs => "(variant" ++ optTysStr cs ++ ")"
  | .option t => "(option " ++ t.str ++ ")"
  | .result a b => "(result " ++ optTyStr a ++ " " ++ optTyStr b ++ ")"
  | .own => "own" | .borrow => "borrow"
  | .future p => "(future " ++ optTyStr p ++ ")"
  | .stream p => "(stream " ++ optTyStr p ++ ")"
def tysStr : List Ty → String
  | [] => ""
  | t :: ts => " " ++ t.str ++ tysStr ts
def optTyStr : Option Ty → String
  | none => "_"
  | some t => t.str
def optTysStr : List (Option Ty) → String
  | [] => ""
  | t :: ts => " " ++ optTyStr t ++ optTysStr ts
end

end Witverif.Abi
