import Witverif.Abi.Names
/-
C13, model side: the string-building each binding generator of /repo uses for the core
import/export declarations it emits, transcribed function by function.

  C        crates/c/src/lib.rs         `import`, `export`, `type_resource`, `generate_async_futures_and_streams`
  C++      crates/cpp/src/lib.rs       `generate_function` (export attribute, `cabi_post_`), `declare_import2`,
                                       `type_resource` (synthesised `[resource-drop]r`, `[dtor]r`, …), symbol_name.rs
  C#       crates/csharp/src/interface.rs  `import`, `export`, `add_futures_or_streams`, resource `end_resource`
  Go       crates/go/src/lib.rs        `import`, `export`, `future_or_stream`, `type_resource`
  MoonBit  crates/moonbit/src/{lib.rs,async_support.rs}   (calls wit-parser's `wasm_import_name/wasm_export_name`)
  D        crates/d/src/lib.rs         `import_func`, `export_func`, `type_resource`, `[dtor]`
  Rust     crates/rust/src/{interface.rs,lib.rs,bindgen.rs}  `declare_import`, `generate_raw_cabi_export`, `generate_payload`

The traversal of the world (`WorldGenerator::generate` in crates/core/src/lib.rs: imports in
order, then exports; per interface its functions and its resource types) is shared by all
generators and is modelled once (`Emit.imports/exports`).

A declaration is `must` when the generator emits it unconditionally for the item, and optional
(`must = false`) when emission is subject to de-duplication state the model does not track (one
set of future/stream intrinsics per *type*, async built-ins only when something is async).
The correspondence run checks  must ⊆ extracted ⊆ must ∪ optional.

Import-free apart from `Abi/*`.
-/
namespace Witverif.Abi.Names

structure MImp where
  imp : Imp
  must : Bool
deriving Repr

def must (i : Imp) : MImp := ⟨i, true⟩
def opt (i : Imp) : MImp := ⟨i, false⟩

/-- what the per-item callbacks of one generator emit -/
structure Emit where
  importFn : Key → Fn → List MImp
  exportFnImports : Key → Fn → List MImp
  exportFn : Key → Fn → List Exp
  importRes : Key → String → List MImp
  exportResImports : Key → String → List MImp
  exportRes : Key → String → List Exp
  worldImports : World → List MImp
  worldExports : World → List Exp

def Emit.itemImports (e : Emit) : Item → List MImp
  | .iface i => i.funcs.flatMap (e.importFn i.key) ++ i.res.flatMap (e.importRes i.key)
  | .func f => e.importFn .root f
  | .rtype r => e.importRes .root r
  | .other => []

def Emit.itemExportImports (e : Emit) : Item → List MImp
  | .iface i => i.funcs.flatMap (e.exportFnImports i.key) ++ i.res.flatMap (e.exportResImports i.key)
  | .func f => e.exportFnImports .root f
  | _ => []

def Emit.itemExports (e : Emit) : Item → List Exp
  | .iface i => i.funcs.flatMap (e.exportFn i.key) ++ i.res.flatMap (e.exportRes i.key)
  | .func f => e.exportFn .root f
  | _ => []

/-- `WorldGenerator::generate` -/
def Emit.imports (e : Emit) (w : World) : List MImp :=
  w.imports.flatMap e.itemImports ++ w.exports.flatMap e.itemExportImports ++ e.worldImports w

def Emit.exports (e : Emit) (w : World) : List Exp :=
  w.exports.flatMap e.itemExports ++ e.worldExports w

/-! ### pieces shared by several generators (they live in wit-parser / wit-bindgen-core) -/

/-- `match interface { Some(name) => resolve.name_world_key(name), None => "$root".to_string() }` -/
def rootOr (k : Key) : String :=
  match k.worldKey with
  | some s => s
  | none => "$root"

/-- wit-parser `Function::legacy_core_export_name(interface)` -/
def legacyCoreExportName (k : Key) (f : Fn) : String :=
  match k.worldKey with
  | some i => i ++ "#" ++ f.name
  | none => f.name

/-- `abi.rs` `AsyncTaskReturn { params }` = `flat_types(result, MAX_FLAT_PARAMS)` or `[Pointer]`;
Go and C# spell the same computation out with `push_flat`. -/
def coreTaskReturnParams (f : Fn) : List CoreTy :=
  match f.sig.result with
  | none => []
  | some t =>
    match flatTypes t 16 with
    | some fl => fl
    | none => [.ptr]

def kindStr (stream : Bool) : String := if stream then "stream" else "future"
def rwParams (stream : Bool) : List CoreTy := if stream then [.i32, .i32, .i32] else [.i32, .i32]
def i3 : List CoreTy := [.i32, .i32, .i32]

def asyncBuiltinsCommon : List Imp := [
  ⟨"[export]$root", "[task-cancel]", [], []⟩,
  ⟨"$root", "[backpressure-inc]", [], []⟩,
  ⟨"$root", "[backpressure-dec]", [], []⟩,
  ⟨"$root", "[waitable-set-new]", [], [.i32]⟩,
  ⟨"$root", "[waitable-set-wait]", [.i32, .i32], [.i32]⟩,
  ⟨"$root", "[waitable-set-poll]", [.i32, .i32], [.i32]⟩,
  ⟨"$root", "[waitable-set-drop]", [.i32], []⟩,
  ⟨"$root", "[waitable-join]", [.i32, .i32], []⟩,
  ⟨"$root", "[thread-yield]", [], [.i32]⟩,
  ⟨"$root", "[subtask-drop]", [.i32], []⟩,
  ⟨"$root", "[subtask-cancel]", [.i32], [.i32]⟩,
  ⟨"$root", "[context-get-0]", [], [.i32]⟩,
  ⟨"$root", "[context-set-0]", [.i32], []⟩
]

/-! ### C -/
namespace C

/-- `generate_async_future_or_stream`: the seven declarations of one payload site -/
def fsDecls (module kind : String) (stream : Bool) (index : Nat) (funcName : String) : List Imp :=
  let ix := toString index
  [ ⟨module, "[" ++ kind ++ "-new-" ++ ix ++ "]" ++ funcName, [], [.i64]⟩,
    ⟨module, "[async-lower][" ++ kind ++ "-read-" ++ ix ++ "]" ++ funcName, rwParams stream, [.i32]⟩,
    ⟨module, "[async-lower][" ++ kind ++ "-write-" ++ ix ++ "]" ++ funcName, rwParams stream, [.i32]⟩,
    ⟨module, "[" ++ kind ++ "-cancel-read-" ++ ix ++ "]" ++ funcName, [.i32], [.i32]⟩,
    ⟨module, "[" ++ kind ++ "-cancel-write-" ++ ix ++ "]" ++ funcName, [.i32], [.i32]⟩,
    ⟨module, "[" ++ kind ++ "-drop-readable-" ++ ix ++ "]" ++ funcName, [.i32], []⟩,
    ⟨module, "[" ++ kind ++ "-drop-writable-" ++ ix ++ "]" ++ funcName, [.i32], []⟩ ]

/-- `generate_async_futures_and_streams(prefix, func, interface)` -/
def fs (pfx : String) (k : Key) (f : Fn) : List Imp :=
  let module := pfx ++ rootOr k
  f.sites.zipIdx.flatMap fun (s, index) => fsDecls module (kindStr s.stream) s.stream index f.name

/-- `fn import` -/
def funcImport (k : Key) (f : Fn) : Imp :=
  let vp : Variant × String :=
    if f.sel then (.guestImportAsync, "[async-lower]") else (.guestImport, "")
  let sig := wasmSignature vp.1 f.sig
  ⟨rootOr k, vp.2 ++ f.name, norm sig.params, norm sig.results⟩

def importFn (k : Key) (f : Fn) : List MImp := must (funcImport k f) :: (fs "" k f).map opt

def exportPrefix (f : Fn) : String := if f.sel then "[async-lift]" else ""
def exportVariant (f : Fn) : Variant := if f.sel then .guestExportAsync else .guestExport

/-- `fn export`: `{prefix}{export_name}` -/
def mainExport (k : Key) (f : Fn) : Exp :=
  let sig := wasmSignature (exportVariant f) f.sig
  ⟨exportPrefix f ++ legacyCoreExportName k f, norm sig.params, norm sig.results⟩

def callbackExport (k : Key) (f : Fn) : Exp :=
  ⟨"[callback]" ++ exportPrefix f ++ legacyCoreExportName k f, i3, [.i32]⟩

def postReturnExport (k : Key) (f : Fn) : Exp :=
  ⟨"cabi_post_" ++ legacyCoreExportName k f, norm (wasmSignature (exportVariant f) f.sig).results, []⟩

def exportFn (k : Key) (f : Fn) : List Exp :=
  mainExport k f ::
    (if f.sel then [callbackExport k f]
     else if needsPostReturn f.sig then [postReturnExport k f] else [])

def taskReturn (k : Key) (f : Fn) : Imp :=
  ⟨"[export]" ++ rootOr k, "[task-return]" ++ f.name, norm (coreTaskReturnParams f), []⟩

def exportFnImports (k : Key) (f : Fn) : List MImp :=
  (if f.sel then [must (taskReturn k f)] else []) ++ (fs "[export]" k f).map opt

/-- `type_resource`, import side -/
def resourceDropImport (k : Key) (name : String) : Imp :=
  ⟨rootOr k, "[resource-drop]" ++ name, [.i32], []⟩

def importRes (k : Key) (name : String) : List MImp := [must (resourceDropImport k name)]

/-- `type_resource`, export side (`None => unimplemented!("resource exports from worlds")`) -/
def exportResImports (k : Key) (name : String) : List MImp :=
  match k.worldKey with
  | some module =>
    [ must ⟨"[export]" ++ module, "[resource-drop]" ++ name, [.i32], []⟩,
      must ⟨"[export]" ++ module, "[resource-new]" ++ name, [.i32], [.i32]⟩,
      must ⟨"[export]" ++ module, "[resource-rep]" ++ name, [.i32], [.i32]⟩ ]
  | none => []

/-- `__attribute__((__export_name__("{module}#[dtor]{name}")))` (since /repo 97de409; before that fix the
snake-cased name was used: finding F4 `c-dtor-export-snake-case`, found by C11/C13) -/
def dtorExport (module name : String) : Exp := ⟨module ++ "#[dtor]" ++ name, [.i32], []⟩

def exportRes (k : Key) (name : String) : List Exp :=
  match k.worldKey with
  | some module => [dtorExport module name]
  | none => []

def emit : Emit where
  importFn := importFn
  exportFnImports := exportFnImports
  exportFn := exportFn
  importRes := importRes
  exportResImports := exportResImports
  exportRes := exportRes
  worldImports := fun _ => asyncBuiltinsCommon.map opt
  worldExports := fun _ => [Spec.realloc]
end C

/-! ### Rust -/
namespace Rust

/-- `generate_payload`: one `#[link(wasm_import_module = "{module}")]` block -/
def fsDecls (module importPrefix : String) (stream : Bool) (index : Nat) (funcName : String) : List Imp :=
  let ix := toString index
  [ ⟨module, "[" ++ importPrefix ++ "-new-" ++ ix ++ "]" ++ funcName, [], [.i64]⟩,
    ⟨module, "[" ++ importPrefix ++ "-cancel-write-" ++ ix ++ "]" ++ funcName, [.i32], [.i32]⟩,
    ⟨module, "[" ++ importPrefix ++ "-cancel-read-" ++ ix ++ "]" ++ funcName, [.i32], [.i32]⟩,
    ⟨module, "[" ++ importPrefix ++ "-drop-writable-" ++ ix ++ "]" ++ funcName, [.i32], []⟩,
    ⟨module, "[" ++ importPrefix ++ "-drop-readable-" ++ ix ++ "]" ++ funcName, [.i32], []⟩,
    ⟨module, "[async-lower][" ++ importPrefix ++ "-read-" ++ ix ++ "]" ++ funcName, rwParams stream, [.i32]⟩,
    ⟨module, "[async-lower][" ++ importPrefix ++ "-write-" ++ ix ++ "]" ++ funcName, rwParams stream, [.i32]⟩ ]

/-- `generate_payloads(prefix, func, interface)` -/
def fs (pfx : String) (k : Key) (f : Fn) : List Imp :=
  f.sites.zipIdx.flatMap fun (s, index) =>
    fsDecls (pfx ++ rootOr k) (kindStr s.stream) s.stream index f.name

/-- the generator's `wasm_import_module` for an imported item (`name_world_key(name)` / `"$root"`) -/
def importModule (k : Key) : String := rootOr k
/-- … and for an exported item (`format!("[export]{}", name_world_key(name))` / `"[export]$root"`) -/
def exportModule (k : Key) : String :=
  match k.worldKey with
  | some s => "[export]" ++ s
  | none => "[export]$root"

/-- sync: `CallWasm { name: &func.name }` → `declare_import(wasm_import_module, name, …)`;
async: `declare_import(module, "[async-lower]{import_name}", "call", sig)` -/
def funcImport (k : Key) (f : Fn) : Imp :=
  if f.sel then
    let sig := wasmSignature .guestImportAsync f.sig
    ⟨importModule k, "[async-lower]" ++ f.name, norm sig.params, norm sig.results⟩
  else
    let sig := wasmSignature .guestImport f.sig
    ⟨importModule k, f.name, norm sig.params, norm sig.results⟩

def importFn (k : Key) (f : Fn) : List MImp := must (funcImport k f) :: (fs "" k f).map opt

/-- `generate_raw_cabi_export` -/
def exportName (k : Key) (f : Fn) : String :=
  if f.sel then "[async-lift]" ++ legacyCoreExportName k f else legacyCoreExportName k f

def mainExport (k : Key) (f : Fn) : Exp :=
  let sig := wasmSignature (if f.sel then .guestExportAsync else .guestExport) f.sig
  ⟨exportName k f, norm sig.params, norm sig.results⟩

def callbackExport (k : Key) (f : Fn) : Exp := ⟨"[callback]" ++ exportName k f, i3, [.i32]⟩

def postReturnExport (k : Key) (f : Fn) : Exp :=
  ⟨"cabi_post_" ++ exportName k f, norm (wasmSignature .guestExport f.sig).results, []⟩

def exportFn (k : Key) (f : Fn) : List Exp :=
  mainExport k f ::
    (if f.sel then [callbackExport k f]
     else if needsPostReturn f.sig then [postReturnExport k f] else [])

/-- `AsyncTaskReturn { name, params }` → `declare_import(self.wasm_import_module, name, params, [])` -/
def taskReturn (k : Key) (f : Fn) : Imp :=
  ⟨exportModule k, "[task-return]" ++ f.name, norm (coreTaskReturnParams f), []⟩

def exportFnImports (k : Key) (f : Fn) : List MImp :=
  (if f.sel then [must (taskReturn k f)] else []) ++ (fs "[export]" k f).map opt

def importRes (k : Key) (name : String) : List MImp :=
  [must ⟨importModule k, "[resource-drop]" ++ name, [.i32], []⟩]

def exportResImports (k : Key) (name : String) : List MImp :=
  match k.worldKey with
  | some module =>
    [ must ⟨"[export]" ++ module, "[resource-drop]" ++ name, [.i32], []⟩,
      must ⟨"[export]" ++ module, "[resource-new]" ++ name, norm [.ptr], [.i32]⟩,
      must ⟨"[export]" ++ module, "[resource-rep]" ++ name, [.i32], norm [.ptr]⟩ ]
  | none => []

/-- `#[unsafe(export_name = "{export_prefix}{module}#[dtor]{name}")]`, `export_prefix` unset -/
def exportRes (k : Key) (name : String) : List Exp :=
  match k.worldKey with
  | some module => [⟨module ++ "#[dtor]" ++ name, norm [.ptr], []⟩]
  | none => []

def emit : Emit where
  importFn := importFn
  exportFnImports := exportFnImports
  exportFn := exportFn
  importRes := importRes
  exportResImports := exportResImports
  exportRes := exportRes
  worldImports := fun _ => []          -- the async built-ins live in the runtime crate, not in generated text
  worldExports := fun _ => []          -- `cabi_realloc` lives in the runtime crate
end Rust

/-! ### Go -/
namespace Go

/-- `future_or_stream`: five declarations per payload site -/
def fsDecls (module kind : String) (stream : Bool) (index : Nat) (funcName : String) : List Imp :=
  let ix := toString index
  [ ⟨module, "[" ++ kind ++ "-new-" ++ ix ++ "]" ++ funcName, [], [.i64]⟩,
    ⟨module, "[async-lower][" ++ kind ++ "-read-" ++ ix ++ "]" ++ funcName, rwParams stream, [.i32]⟩,
    ⟨module, "[async-lower][" ++ kind ++ "-write-" ++ ix ++ "]" ++ funcName, rwParams stream, [.i32]⟩,
    ⟨module, "[" ++ kind ++ "-drop-readable-" ++ ix ++ "]" ++ funcName, [.i32], []⟩,
    ⟨module, "[" ++ kind ++ "-drop-writable-" ++ ix ++ "]" ++ funcName, [.i32], []⟩ ]

/-- `visit_futures_and_streams(in_import, …)` → `future_or_stream` -/
def fs (inImport : Bool) (k : Key) (f : Fn) : List Imp :=
  let pfx := if inImport then "" else "[export]"
  f.sites.zipIdx.flatMap fun (s, index) =>
    fsDecls (pfx ++ rootOr k) (kindStr s.stream) s.stream index f.name

def funcImport (k : Key) (f : Fn) : Imp :=
  let vp : Variant × String :=
    if f.sel then (.guestImportAsync, "[async-lower]") else (.guestImport, "")
  let sig := wasmSignature vp.1 f.sig
  ⟨rootOr k, vp.2 ++ f.name, norm sig.params, norm sig.results⟩

def importFn (k : Key) (f : Fn) : List MImp := must (funcImport k f) :: (fs true k f).map opt

def exportPrefix (f : Fn) : String := if f.sel then "[async-lift]" else ""

def mainExport (k : Key) (f : Fn) : Exp :=
  let sig := wasmSignature (if f.sel then .guestExportAsync else .guestExport) f.sig
  ⟨exportPrefix f ++ legacyCoreExportName k f, norm sig.params, norm sig.results⟩

def callbackExport (k : Key) (f : Fn) : Exp :=
  ⟨"[callback]" ++ exportPrefix f ++ legacyCoreExportName k f, i3, [.i32]⟩

def postReturnExport (k : Key) (f : Fn) : Exp :=
  ⟨"cabi_post_" ++ legacyCoreExportName k f, norm (wasmSignature .guestExport f.sig).results, []⟩

def exportFn (k : Key) (f : Fn) : List Exp :=
  mainExport k f ::
    (if f.sel then [callbackExport k f]
     else if needsPostReturn f.sig then [postReturnExport k f] else [])

/-- `//go:wasmimport [export]{module} [task-return]{function}` -/
def taskReturn (k : Key) (f : Fn) : Imp :=
  ⟨"[export]" ++ rootOr k, "[task-return]" ++ f.name, norm (coreTaskReturnParams f), []⟩

def exportFnImports (k : Key) (f : Fn) : List MImp :=
  (if f.sel then [must (taskReturn k f)] else []) ++ (fs false k f).map opt

def importRes (k : Key) (name : String) : List MImp :=
  [must ⟨rootOr k, "[resource-drop]" ++ name, [.i32], []⟩]

def exportResImports (k : Key) (name : String) : List MImp :=
  [ must ⟨"[export]" ++ rootOr k, "[resource-new]" ++ name, [.i32], [.i32]⟩,
    must ⟨"[export]" ++ rootOr k, "[resource-rep]" ++ name, [.i32], [.i32]⟩,
    must ⟨"[export]" ++ rootOr k, "[resource-drop]" ++ name, [.i32], []⟩ ]

/-- `//go:wasmexport {module}#[dtor]{name}` -/
def exportRes (k : Key) (name : String) : List Exp := [⟨rootOr k ++ "#[dtor]" ++ name, [.i32], []⟩]

def emit : Emit where
  importFn := importFn
  exportFnImports := exportFnImports
  exportFn := exportFn
  importRes := importRes
  exportResImports := exportResImports
  exportRes := exportRes
  worldImports := fun _ => []
  worldExports := fun _ => []
end Go

/-! ### D (no async support: every function is bound synchronously) -/
namespace D

def funcImport (k : Key) (f : Fn) : Imp :=
  let sig := wasmSignature .guestImport f.sig
  ⟨rootOr k, f.name, norm sig.params, norm sig.results⟩

def importFn (k : Key) (f : Fn) : List MImp := [must (funcImport k f)]

def mainExport (k : Key) (f : Fn) : Exp :=
  let sig := wasmSignature .guestExport f.sig
  ⟨legacyCoreExportName k f, norm sig.params, norm sig.results⟩

def postReturnExport (k : Key) (f : Fn) : Exp :=
  ⟨"cabi_post_" ++ legacyCoreExportName k f, norm (wasmSignature .guestExport f.sig).results, []⟩

def exportFn (k : Key) (f : Fn) : List Exp :=
  mainExport k f :: (if needsPostReturn f.sig then [postReturnExport k f] else [])

def importRes (k : Key) (name : String) : List MImp :=
  [must ⟨rootOr k, "[resource-drop]" ++ name, [.i32], []⟩]

def exportResImports (k : Key) (name : String) : List MImp :=
  [ must ⟨"[export]" ++ rootOr k, "[resource-new]" ++ name, [.i32], [.i32]⟩,
    must ⟨"[export]" ++ rootOr k, "[resource-rep]" ++ name, [.i32], [.i32]⟩,
    must ⟨"[export]" ++ rootOr k, "[resource-drop]" ++ name, [.i32], []⟩ ]

/-- `@wasmExport!("{wasm_import_module}#[dtor]{name}")` -/
def exportRes (k : Key) (name : String) : List Exp := [⟨rootOr k ++ "#[dtor]" ++ name, [.i32], []⟩]

def emit : Emit where
  importFn := importFn
  exportFnImports := fun _ _ => []
  exportFn := exportFn
  importRes := importRes
  exportResImports := exportResImports
  exportRes := exportRes
  worldImports := fun _ => []
  worldExports := fun _ => [Spec.realloc]
end D

/-! ### C++ (no async support) -/
namespace Cpp

/-- the generator's `wasm_import_module: Option<String>`: `Some(name_world_key)` for interfaces,
`Some("$root")` for world-level imports, `None` for world-level exports -/
def importModule (k : Key) : String := rootOr k

def funcImport (k : Key) (f : Fn) : Imp :=
  let sig := wasmSignature .guestImport f.sig
  ⟨importModule k, f.name, norm sig.params, norm sig.results⟩

def importFn (k : Key) (f : Fn) : List MImp := [must (funcImport k f)]

/-- `module_prefix` + `func_name` -/
def mainExport (k : Key) (f : Fn) : Exp :=
  let sig := wasmSignature .guestExport f.sig
  let modulePrefix := match k.worldKey with | some m => m ++ "#" | none => ""
  ⟨modulePrefix ++ f.name, norm sig.params, norm sig.results⟩

/-- `cabi_post_{export_name}` with
`export_name = match module_name { Some(m) => "{m}#{name}", None => func.name.clone() }`
(since /repo 1abddb0; before, `None => make_external_component(name)`: finding
`cpp-world-post-return-mangled`) -/
def postReturnExport (k : Key) (f : Fn) : Exp :=
  let exportName := match k.worldKey with
    | some m => m ++ "#" ++ f.name
    | none => f.name
  ⟨"cabi_post_" ++ exportName, norm (wasmSignature .guestExport f.sig).results, []⟩

def exportFn (k : Key) (f : Fn) : List Exp :=
  mainExport k f :: (if needsPostReturn f.sig then [postReturnExport k f] else [])

/-- synthesised `Function { name: "[resource-drop]" + name }` → `declare_import(module, func.name, [I32], [])`;
`type_resource` does nothing unless `if let TypeOwner::Interface(intf) = type_.owner` -/
def importRes (k : Key) (name : String) : List MImp :=
  match k with
  | .root => []
  | _ => [must ⟨importModule k, "[resource-drop]" ++ name, [.i32], []⟩]

def exportResImports (k : Key) (name : String) : List MImp :=
  [ must ⟨"[export]" ++ importModule k, "[resource-new]" ++ name, norm [.ptr], [.i32]⟩,
    must ⟨"[export]" ++ importModule k, "[resource-rep]" ++ name, [.i32], norm [.ptr]⟩,
    must ⟨"[export]" ++ importModule k, "[resource-drop]" ++ name, [.i32], []⟩ ]

/-- synthesised `Function { name: "[dtor]" + name }` exported through `module_prefix` + `func_name` -/
def exportRes (k : Key) (name : String) : List Exp :=
  let modulePrefix := match k.worldKey with | some m => m ++ "#" | none => ""
  [⟨modulePrefix ++ "[dtor]" ++ name, norm [.ptr], []⟩]

def emit : Emit where
  importFn := importFn
  exportFnImports := fun _ _ => []
  exportFn := exportFn
  importRes := importRes
  exportResImports := exportResImports
  exportRes := exportRes
  worldImports := fun _ => []
  worldExports := fun _ => [Spec.realloc]
end Cpp

/-! ### MoonBit (every name goes through wit-parser's own functions) -/
namespace MoonBit

def abiOf (f : Fn) : LLAbi := if f.sel then .asyncCallback else .sync

/-- `async_endpoint_intrinsics`: `ty: None` for payload-less futures/streams (→ `unit`), else the
type id, which wit-parser turns into the FIRST position holding that id -/
def siteIdx (f : Fn) (i : Nat) (s : Site) : FsIdx :=
  if s.unit then .unit
  else match f.tids[i]? with
    | some t => .idx (f.tids.idxOf t)
    | none => .idx i

def fs (exported : Bool) (k : Key) (f : Fn) : List Imp :=
  f.sites.zipIdx.flatMap fun (s, i) =>
    let ix := siteIdx f i s
    (Spec.fsIntrinsic k f.name s.stream ix .new exported false).toList ++
    (Spec.fsIntrinsic k f.name s.stream ix .read exported true).toList ++
    (Spec.fsIntrinsic k f.name s.stream ix .write exported true).toList ++
    (Spec.fsIntrinsic k f.name s.stream ix .cancelRead exported false).toList ++
    (Spec.fsIntrinsic k f.name s.stream ix .cancelWrite exported false).toList ++
    (Spec.fsIntrinsic k f.name s.stream ix .dropReadable exported false).toList ++
    (Spec.fsIntrinsic k f.name s.stream ix .dropWritable exported false).toList

def importFn (k : Key) (f : Fn) : List MImp :=
  must (Spec.funcImport (abiOf f) k f) :: (fs false k f).map opt

def exportFn (k : Key) (f : Fn) : List Exp :=
  (Spec.funcExport (abiOf f) k f .normal).toList ++
  (if f.sel then (Spec.funcExport .asyncCallback k f .callback).toList
   else if needsPostReturn f.sig then (Spec.funcExport .sync k f .postReturn).toList else [])

def exportFnImports (k : Key) (f : Fn) : List MImp :=
  (if f.sel then [must (Spec.taskReturn k f)] else []) ++ (fs true k f).map opt

def importRes (k : Key) (name : String) : List MImp :=
  (Spec.resourceIntrinsic .sync k name .importedDrop).toList.map must

def exportResImports (k : Key) (name : String) : List MImp :=
  ((Spec.resourceIntrinsic .sync k name .exportedDrop).toList ++
   (Spec.resourceIntrinsic .sync k name .exportedNew).toList ++
   (Spec.resourceIntrinsic .sync k name .exportedRep).toList).map must

def exportRes (k : Key) (name : String) : List Exp := (Spec.dtor .sync k name).toList

def emit : Emit where
  importFn := importFn
  exportFnImports := exportFnImports
  exportFn := exportFn
  importRes := importRes
  exportResImports := exportResImports
  exportRes := exportRes
  worldImports := fun _ => (asyncBuiltinsCommon ++ Spec.unitBuiltins).map opt   -- async-core/*.mbt
  worldExports := fun _ => [Spec.realloc]
end MoonBit

/-! ### C# (no `--async` option: the WIT `async` keyword decides) -/
namespace CSharp

def funcImport (k : Key) (f : Fn) : Imp :=
  let sig := wasmSignature (if f.sel then .guestImportAsync else .guestImport) f.sig
  ⟨rootOr k, (if f.sel then "[async-lower]" ++ f.name else f.name), norm sig.params, norm sig.results⟩

/-- One entry pushed by a `FutureLift/FutureLower/StreamLift/StreamLower` instruction:
`FutureInfo { name: func_name, ty: payload }` (the payload is only used as a de-duplication key). -/
structure FutureInfo where
  name : String
  key : Nat
deriving Repr, DecidableEq

/-- the eight declarations `add_futures_or_streams` writes for one generated entry -/
def fsDecls (module kind : String) (stream : Bool) (index : Nat) (name : String) : List Imp :=
  let ix := toString index
  [ ⟨module, "[async-lower][" ++ kind ++ "-read-" ++ ix ++ "]" ++ name, rwParams stream, [.i32]⟩,
    ⟨module, "[async-lower][" ++ kind ++ "-write-" ++ ix ++ "]" ++ name, rwParams stream, [.i32]⟩,
    ⟨module, "[" ++ kind ++ "-drop-readable-" ++ ix ++ "]" ++ name, [.i32], []⟩,
    ⟨module, "[" ++ kind ++ "-drop-writable-" ++ ix ++ "]" ++ name, [.i32], []⟩,
    ⟨module, "[" ++ kind ++ "-new-" ++ ix ++ "]" ++ name, [], [.i64]⟩,
    ⟨module, "[" ++ kind ++ "-cancel-read-" ++ ix ++ "]" ++ name, [.i32], [.i32]⟩,
    ⟨module, "[" ++ kind ++ "-cancel-write-" ++ ix ++ "]" ++ name, [.i32], [.i32]⟩,
    ⟨module, "[" ++ kind ++ "-drop-writeable-" ++ ix ++ "]" ++ name, [.i32], []⟩ ]

/-- the loop of `add_futures_or_streams(import_module_name, is_export, is_future)` over
`self.futures` / `self.streams`: skip payloads already generated *in this call*, number the
generated entries 0, 1, 2 … in generation order (`index = index + 1` at the end of the body). -/
def fsLoop (module : String) (stream : Bool) : List FutureInfo → List Nat → Nat → List Imp
  | [], _, _ => []
  | fi :: rest, seen, index =>
    if seen.contains fi.key then fsLoop module stream rest seen index
    else fsDecls module (kindStr stream) stream index fi.name ++
         fsLoop module stream rest (fi.key :: seen) (index + 1)

def addFuturesOrStreams (module : String) (stream : Bool) (infos : List FutureInfo) : List Imp :=
  fsLoop module stream infos [] 0

def importFn (k : Key) (f : Fn) : List MImp := [must (funcImport k f)]

def exportName (k : Key) (f : Fn) : String :=
  if f.sel then "[async-lift]" ++ legacyCoreExportName k f else legacyCoreExportName k f

def mainExport (k : Key) (f : Fn) : Exp :=
  let sig := wasmSignature (if f.sel then .guestExportAsync else .guestExport) f.sig
  ⟨exportName k f, norm sig.params, norm sig.results⟩

def callbackExport (k : Key) (f : Fn) : Exp := ⟨"[callback]" ++ exportName k f, i3, [.i32]⟩

/-- `if !async_ && abi::guest_export_needs_post_return(..)` (since /repo 1aeee96; before, the test
was made for async exports too and produced `cabi_post_[async-lift]…`: finding
`csharp-async-post-return-ignored`) -/
def postReturnExport (k : Key) (f : Fn) : Exp :=
  ⟨"cabi_post_" ++ exportName k f,
   norm (wasmSignature (if f.sel then .guestExportAsync else .guestExport) f.sig).results, []⟩

def exportFn (k : Key) (f : Fn) : List Exp :=
  mainExport k f ::
    ((if f.sel then [callbackExport k f] else []) ++
     (if !f.sel && needsPostReturn f.sig then [postReturnExport k f] else []))

def taskReturn (k : Key) (f : Fn) : Imp :=
  ⟨"[export]" ++ rootOr k, "[task-return]" ++ f.name, norm (coreTaskReturnParams f), []⟩

def exportFnImports (k : Key) (f : Fn) : List MImp :=
  if f.sel then [must (taskReturn k f)] else []

def importRes (k : Key) (name : String) : List MImp :=
  [must ⟨rootOr k, "[resource-drop]" ++ name, [.i32], []⟩]

def exportResImports (k : Key) (name : String) : List MImp :=
  [ must ⟨"[export]" ++ rootOr k, "[resource-drop]" ++ name, [.i32], []⟩,
    must ⟨"[export]" ++ rootOr k, "[resource-new]" ++ name, [.i32], [.i32]⟩,
    must ⟨"[export]" ++ rootOr k, "[resource-rep]" ++ name, [.i32], [.i32]⟩ ]

/-- `EntryPoint = "{prefix}[dtor]{name}"`, `prefix = key.map(|s| name_world_key(s) + "#").unwrap_or_default()` -/
def exportRes (k : Key) (name : String) : List Exp :=
  [⟨(match k.worldKey with | some s => s ++ "#" | none => "") ++ "[dtor]" ++ name, [.i32], []⟩]

/-- the world's own resource types (`world w { resource x; … }`: imported types) -/
def worldResources (w : World) : List String :=
  w.imports.filterMap fun it => match it with | .rtype r => some r | _ => none

def hasWorldExportFunc (w : World) : Bool :=
  w.exports.any fun it => match it with | .func _ => true | _ => false

/-- `export_funcs` runs `by_resource(funcs, world_resources.keys())` with `Direction::Export`: as soon
as the world exports a function, every world-level resource also gets the *exported*-resource glue -/
def worldImports (w : World) : List MImp :=
  if hasWorldExportFunc w then (worldResources w).flatMap (exportResImports .root) else []

def worldExports (w : World) : List Exp :=
  if hasWorldExportFunc w then (worldResources w).flatMap (exportRes .root) else []

def emit : Emit where
  importFn := importFn
  exportFnImports := exportFnImports
  exportFn := exportFn
  importRes := importRes
  exportResImports := exportResImports
  exportRes := exportRes
  worldImports := worldImports    -- (future/stream intrinsics: `addFuturesOrStreams`, compared structurally)
  worldExports := worldExports
end CSharp

structure Backend where
  name : String
  emit : Emit

def Backend.imports (b : Backend) (w : World) : List MImp := b.emit.imports w
def Backend.exports (b : Backend) (w : World) : List Exp := b.emit.exports w

def backends : List Backend :=
  [⟨"c", C.emit⟩, ⟨"rust", Rust.emit⟩, ⟨"go", Go.emit⟩, ⟨"d", D.emit⟩, ⟨"cpp", Cpp.emit⟩,
   ⟨"moonbit", MoonBit.emit⟩, ⟨"csharp", CSharp.emit⟩]

def backendOfName (n : String) : Option Backend := backends.find? (·.name == n)

end Witverif.Abi.Names
