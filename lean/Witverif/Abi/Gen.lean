import Witverif.Abi.Tree
/-
Model of `wit_bindgen_core::abi::Generator` (crates/core/src/abi.rs): every function below has
the same name, case analysis and recursion structure as the Rust function it mirrors, written
in operand-passing style (the Rust code passes operands through `self.stack`) and producing the
*tree form* of the instruction stream directly.  `Except Panic` marks the places where the Rust
code has `todo!` / `unreachable!` / `unwrap` / `assert!` / `expect`.

Tie to the code: `abi-trace` (harness) prints the tree form of the real stream for every public
entry point; `m_abi` prints this model's; the check compares them as text.
-/
namespace Witverif.Abi

inductive Panic where
  | todo | unreachable | unwrap | assert | flatten | expect
deriving Repr, DecidableEq

def Panic.str : Panic → String
  | .todo => "todo" | .unreachable => "unreachable" | .unwrap => "unwrap"
  | .assert => "assert" | .flatten => "flatten" | .expect => "expect"

abbrev G := Except Panic

/-- What the generator is configured with: the backend's `is_list_canonical`, and whether lists are
lowered with `realloc: Some(..)` (ownership passes to the callee) or `None`. -/
structure Cfg where
  canon : Ty → Bool
  realloc : Bool

/-- `flat_types(resolve, ty, None).unwrap()` -/
def flatU (t : Ty) : G (List CoreTy) :=
  match flatTypes t 16 with
  | some f => pure f
  | none => throw .unwrap

mutual
/-- wit-parser `Resolve::all_bits_valid` (the C backend's `is_list_canonical`). -/
def allBitsValid : Ty → Bool
  | .u8 | .s8 | .u16 | .s16 | .u32 | .s32 | .u64 | .s64 | .f32 | .f64 => true
  | .bool | .char | .string | .errctx => false
  | .list _ | .map _ _ | .variant _ | .enum _ | .option _ | .result _ _ | .future _ | .stream _ => false
  | .flist e _ => allBitsValid e
  | .own | .borrow => true
  | .record fs => allBitsValidList fs
  | .tuple ts => allBitsValidList ts
  | .flags _ => false
def allBitsValidList : List Ty → Bool
  | [] => true
  | t :: ts => allBitsValid t && allBitsValidList ts
end

/-! ### small constructors -/

def sc (s : ScalarOp) (x : Expr) : Expr := .op (.scalar s) [x] [] 0
def ld (k : LoadKind) (off : Off) (a : Expr) : Expr := .op (.load k off) [a] [] 0
def stS (k : StoreKind) (off : Off) (v a : Expr) : Stmt := .eff (.store k off) [v, a] []
def pure1 (o : Op) (xs : List Expr) : Expr := .op o xs [] 0
def hd (xs : List Expr) : Expr := xs.headD (.inp 999)

def storeInt (r : IntRepr) (off : Off) (v a : Expr) : Stmt :=
  stS (match r with | .u64 => .i64 | .u32 => .i32 | .u16 => .i32_16 | .u8 => .i32_8) off v a
def loadInt (r : IntRepr) (off : Off) (a : Expr) : Expr :=
  ld (match r with | .u64 => .i64 | .u32 => .i32 | .u16 => .i32_16u | .u8 => .i32_8u) off a

/-- results `0..n` of a statement -/
def resN (o : Op) (args : List Expr) (n : Nat) : List Expr :=
  (List.range n).map fun k => .res k o args
/-- results `0..n` of a pure instruction -/
def projN (o : Op) (args : List Expr) (blocks : List (List Expr)) (n : Nat) : List Expr :=
  (List.range n).map fun k => .op o args blocks k

/-- `cast(a, b)` for every slot; `unreachable!` if some pair has no conversion. -/
def castsFor : List CoreTy → List CoreTy → G (List Bitcast)
  | a :: as, b :: bs =>
      match cast a b, castsFor as bs with
      | none, _ => .error .unreachable
      | some _, .error e => .error e
      | some c, .ok cs => .ok (c :: cs)
  | _, _ => .ok []

/-- `Bitcasts { casts }` is emitted only if some cast is not `None`; it converts every slot. -/
def applyCasts (casts : List Bitcast) (xs : List Expr) : List Expr :=
  if casts.any (· ≠ .none) then List.zipWith Expr.cast casts xs else xs

def zeros (ts : List CoreTy) : List Expr := ts.map .zero

/-- split `xs` into consecutive chunks of the given sizes -/
def chunks (xs : List Expr) : List Nat → List (List Expr)
  | [] => []
  | n :: ns => xs.take n :: chunks (xs.drop n) ns

def variantTag (t : Ty) : IntRepr :=
  match t with
  | .variant cs => discriminant cs.length
  | .enum n => discriminant n
  | _ => .u8

def casesOf : Ty → List (Option Ty)
  | .variant cs => cs
  | .option t => [none, some t]
  | .result a b => [a, b]
  | _ => []

def lowerOp (t : Ty) (results : List CoreTy) : Op :=
  match t with
  | .variant cs => .variantLower cs.length results
  | .option _ => .optionLower results
  | _ => .resultLower results

def liftOp (t : Ty) : Op :=
  match t with
  | .variant cs => .variantLift cs.length
  | .option _ => .optionLift
  | _ => .resultLift

/-- ptr/len results of the list-like lowering statements -/
def listRes (o : Op) (x : Expr) : List Expr := [.res 0 o [x], .res 1 o [x]]

/-- a block-carrying lowering is a statement iff one of its blocks contains statements -/
def finishLower (o : Op) (x : Expr) (arms : List Block) (n : Nat) : List Stmt × List Expr :=
  if arms.any (fun b => !b.1.isEmpty) then ([.eff o [x] arms], resN o [x] n)
  else ([], projN o [x] (arms.map (·.2)) n)

/-- one arm of `lower_variant_arms`, given the lowered payload (statements, operands, its flat types) -/
def armOfLower (results : List CoreTy) (i : Nat) : Option ((List Stmt × List Expr) × List CoreTy) → G Block
  | none => pure ([], Expr.i32 i :: zeros (results.drop 1))
  | some ((st, rs), temp) => do
      let casts ← castsFor temp (results.drop 1)
      pure (st, Expr.i32 i :: applyCasts casts rs ++ zeros (results.drop (1 + temp.length)))

/-- one arm of `write_variant_arms_to_memory` given the statements storing the payload -/
def armOfStore (tag : IntRepr) (off : Off) (a : Expr) (i : Nat) (body : List Stmt) : Block :=
  (storeInt tag off (.i32 i) a :: body, [])

/-- operands handed to the payload of one arm of `flat_for_each_variant_arm`:
`params1`/`inputs` exclude the discriminant, `temp` is the payload's own flattening -/
def armInputs (params1 : List CoreTy) (inputs : List Expr) (temp : List CoreTy) : G (List Expr) := do
  let casts ← castsFor params1 temp   -- cast(*expected, *actual), zipped with `temp`
  pure (applyCasts (casts.take temp.length) (inputs.take temp.length))

mutual
/-- `Generator::lower`: returns the statements emitted and the flat result operands. -/
def lower (c : Cfg) (lvl : Nat) : Ty → Expr → G (List Stmt × List Expr)
  | .bool, x => pure ([], [sc .i32FromBool x])
  | .s8, x => pure ([], [sc .i32FromS8 x])
  | .u8, x => pure ([], [sc .i32FromU8 x])
  | .s16, x => pure ([], [sc .i32FromS16 x])
  | .u16, x => pure ([], [sc .i32FromU16 x])
  | .s32, x => pure ([], [sc .i32FromS32 x])
  | .u32, x => pure ([], [sc .i32FromU32 x])
  | .s64, x => pure ([], [sc .i64FromS64 x])
  | .u64, x => pure ([], [sc .i64FromU64 x])
  | .char, x => pure ([], [sc .i32FromChar x])
  | .f32, x => pure ([], [sc .coreF32FromF32 x])
  | .f64, x => pure ([], [sc .coreF64FromF64 x])
  | .string, x =>
      let o := Op.stringLower c.realloc
      pure ([.eff o [x] []], listRes o x)
  | .errctx, x => pure ([], [pure1 .errLower [x]])
  | .list e, x =>
      if c.canon e then
        let o := Op.listCanonLower e c.realloc
        pure ([.eff o [x] []], listRes o x)
      else do
        let body ← store c (lvl + 1) e (.elem (lvl + 1)) (.base (lvl + 1)) Off.zero
        let o := Op.listLower e c.realloc
        pure ([.eff o [x] [(body, [])]], listRes o x)
  | .own, x => pure ([], [pure1 (.handleLower true) [x]])
  | .borrow, x => pure ([], [pure1 (.handleLower false) [x]])
  | .record fs, x => lowerFields c lvl fs (.recordLower fs.length) x 0
  | .tuple ts, x => lowerFields c lvl ts (.tupleLower ts.length) x 0
  | .flags n, x => pure ([], projN (.flagsLower n) [x] [] (flagsRepr n).count)
  | .variant cs, x => do
      let results ← flatU (.variant cs)
      let arms ← lowerArms c lvl cs results 0
      pure (finishLower (.variantLower cs.length results) x arms results.length)
  | .enum n, x => pure ([], [pure1 (.enumLower n) [x]])
  | .option t, x => do
      let results ← flatU (.option t)
      let a0 ← armOfLower results 0 none
      let a1 ← armOfLower results 1 (some (← lower c (lvl + 1) t (.pl (lvl + 1)), ← flatU t))
      pure (finishLower (.optionLower results) x [a0, a1] results.length)
  | .result a b, x => do
      let results ← flatU (.result a b)
      let a0 ← lowerArm c lvl a results 0
      let a1 ← lowerArm c lvl b results 1
      pure (finishLower (.resultLower results) x [a0, a1] results.length)
  | .future _, x => pure ([], [pure1 .futureLower [x]])
  | .stream _, x => pure ([], [pure1 .streamLower [x]])
  | .flist e n, x => do
      let o := Op.flistLower e n
      let f := lower c lvl e
      let rs ← (projN o [x] [] n).mapM f
      pure (rs.flatMap (·.1), rs.flatMap (·.2))
  | .map k v, x => do
      let voff := (fieldOffs [k, v]).getD 1 Off.zero
      let s1 ← store c (lvl + 1) k (.key (lvl + 1)) (.base (lvl + 1)) Off.zero
      let s2 ← store c (lvl + 1) v (.val (lvl + 1)) (.base (lvl + 1)) voff
      let o := Op.mapLower k v c.realloc
      pure ([.eff o [x] [(s1 ++ s2, [])]], listRes o x)

/-- fields of a `RecordLower`/`TupleLower` lowered one after the other -/
def lowerFields (c : Cfg) (lvl : Nat) : List Ty → Op → Expr → Nat → G (List Stmt × List Expr)
  | [], _, _, _ => pure ([], [])
  | t :: ts, o, x, i => do
      let (s1, r1) ← lower c lvl t (.op o [x] [] i)
      let (s2, r2) ← lowerFields c lvl ts o x (i + 1)
      pure (s1 ++ s2, r1 ++ r2)

/-- `lower_variant_arms`: one block per case producing exactly `results.length` operands. -/
def lowerArms (c : Cfg) (lvl : Nat) : List (Option Ty) → List CoreTy → Nat → G (List Block)
  | [], _, _ => pure []
  | o :: cs, results, i => do
      let arm ← lowerArm c lvl o results i
      let rest ← lowerArms c lvl cs results (i + 1)
      pure (arm :: rest)

def lowerArm (c : Cfg) (lvl : Nat) : Option Ty → List CoreTy → Nat → G Block
  | none, results, i => armOfLower results i none
  | some t, results, i => do
      armOfLower results i (some (← lower c (lvl + 1) t (.pl (lvl + 1)), ← flatU t))

/-- `write_to_memory` -/
def store (c : Cfg) (lvl : Nat) : Ty → Expr → Expr → Off → G (List Stmt)
  | .bool, x, a, off => pure [stS .i32_8 off (sc .i32FromBool x) a]
  | .u8, x, a, off => pure [stS .i32_8 off (sc .i32FromU8 x) a]
  | .s8, x, a, off => pure [stS .i32_8 off (sc .i32FromS8 x) a]
  | .u16, x, a, off => pure [stS .i32_16 off (sc .i32FromU16 x) a]
  | .s16, x, a, off => pure [stS .i32_16 off (sc .i32FromS16 x) a]
  | .u32, x, a, off => pure [stS .i32 off (sc .i32FromU32 x) a]
  | .s32, x, a, off => pure [stS .i32 off (sc .i32FromS32 x) a]
  | .char, x, a, off => pure [stS .i32 off (sc .i32FromChar x) a]
  | .u64, x, a, off => pure [stS .i64 off (sc .i64FromU64 x) a]
  | .s64, x, a, off => pure [stS .i64 off (sc .i64FromS64 x) a]
  | .f32, x, a, off => pure [stS .f32 off (sc .coreF32FromF32 x) a]
  | .f64, x, a, off => pure [stS .f64 off (sc .coreF64FromF64 x) a]
  | .errctx, x, a, off => pure [stS .i32 off (pure1 .errLower [x]) a]
  | .own, x, a, off => pure [stS .i32 off (pure1 (.handleLower true) [x]) a]
  | .borrow, x, a, off => pure [stS .i32 off (pure1 (.handleLower false) [x]) a]
  | .future _, x, a, off => pure [stS .i32 off (pure1 .futureLower [x]) a]
  | .stream _, x, a, off => pure [stS .i32 off (pure1 .streamLower [x]) a]
  | .string, x, a, off =>
      let o := Op.stringLower c.realloc
      pure [.eff o [x] [], stS .len (off + Off.ptrs 1) (.res 1 o [x]) a, stS .ptr off (.res 0 o [x]) a]
  | .list e, x, a, off =>
      if c.canon e then
        let o := Op.listCanonLower e c.realloc
        pure [.eff o [x] [], stS .len (off + Off.ptrs 1) (.res 1 o [x]) a, stS .ptr off (.res 0 o [x]) a]
      else do
        let body ← store c (lvl + 1) e (.elem (lvl + 1)) (.base (lvl + 1)) Off.zero
        let o := Op.listLower e c.realloc
        pure [.eff o [x] [(body, [])], stS .len (off + Off.ptrs 1) (.res 1 o [x]) a, stS .ptr off (.res 0 o [x]) a]
  | .map k v, x, a, off => do
      let voff := (fieldOffs [k, v]).getD 1 Off.zero
      let s1 ← store c (lvl + 1) k (.key (lvl + 1)) (.base (lvl + 1)) Off.zero
      let s2 ← store c (lvl + 1) v (.val (lvl + 1)) (.base (lvl + 1)) voff
      let o := Op.mapLower k v c.realloc
      pure [.eff o [x] [(s1 ++ s2, [])], stS .len (off + Off.ptrs 1) (.res 1 o [x]) a, stS .ptr off (.res 0 o [x]) a]
  | .record fs, x, a, off =>
      storeFields c lvl fs (fieldOffs fs) (projN (.recordLower fs.length) [x] [] fs.length) a off
  | .tuple ts, x, a, off =>
      storeFields c lvl ts (fieldOffs ts) (projN (.tupleLower ts.length) [x] [] ts.length) a off
  | .flags n, x, a, off =>
      let rs := projN (.flagsLower n) [x] [] (flagsRepr n).count
      match flagsRepr n with
      | .u8 => pure [storeInt .u8 off (hd rs) a]
      | .u16 => pure [storeInt .u16 off (hd rs) a]
      | .u32 k =>
          pure ((List.range k).reverse.map fun i =>
            stS .i32 (off + Off.bytes (i * 4)) (rs.getD i (.inp 999)) a)
  | .variant cs, x, a, off => do
      let tag := discriminant cs.length
      let arms ← storeArms c lvl cs tag a off (off + payloadOff tag cs) 0
      pure [.eff (.variantLower cs.length []) [x] arms]
  | .option t, x, a, off => do
      let body ← store c (lvl + 1) t (.pl (lvl + 1)) a (off + payloadOff .u8 [none, some t])
      pure [.eff (.optionLower []) [x] [armOfStore .u8 off a 0 [], armOfStore .u8 off a 1 body]]
  | .result ok err, x, a, off => do
      let b0 ← storeArm c lvl ok a (off + payloadOff .u8 [ok, err])
      let b1 ← storeArm c lvl err a (off + payloadOff .u8 [ok, err])
      pure [.eff (.resultLower []) [x] [armOfStore .u8 off a 0 b0, armOfStore .u8 off a 1 b1]]
  | .enum n, x, a, off => pure [storeInt (discriminant n) off (pure1 (.enumLower n) [x]) a]
  | .flist e n, x, a, off => do
      let body ← store c (lvl + 1) e (.elem (lvl + 1)) (.base (lvl + 1)) off
      pure [.eff (.flistLowerMem e n) [x, a] [(body, [])]]

/-- `write_fields_to_memory` -/
def storeFields (c : Cfg) (lvl : Nat) : List Ty → List Off → List Expr → Expr → Off → G (List Stmt)
  | t :: ts, fo :: fos, x :: xs, a, off => do
      let s1 ← store c lvl t x a (off + fo)
      let s2 ← storeFields c lvl ts fos xs a off
      pure (s1 ++ s2)
  | _, _, _, _, _ => pure []

/-- `write_variant_arms_to_memory` -/
def storeArms (c : Cfg) (lvl : Nat) : List (Option Ty) → IntRepr → Expr → Off → Off → Nat → G (List Block)
  | [], _, _, _, _, _ => pure []
  | o :: cs, tag, a, off, poff, i => do
      let body ← storeArm c lvl o a poff
      let rest ← storeArms c lvl cs tag a off poff (i + 1)
      pure (armOfStore tag off a i body :: rest)

/-- the payload part of one arm -/
def storeArm (c : Cfg) (lvl : Nat) : Option Ty → Expr → Off → G (List Stmt)
  | none, _, _ => pure []
  | some t, a, poff => store c (lvl + 1) t (.pl (lvl + 1)) a poff
end

mutual
/-- `Generator::lift` on the given flat operands; lifting emits only pure instructions. -/
def lift (c : Cfg) (lvl : Nat) : Ty → List Expr → G Expr
  | .bool, xs => pure (sc .boolFromI32 (hd xs))
  | .s8, xs => pure (sc .s8FromI32 (hd xs))
  | .u8, xs => pure (sc .u8FromI32 (hd xs))
  | .s16, xs => pure (sc .s16FromI32 (hd xs))
  | .u16, xs => pure (sc .u16FromI32 (hd xs))
  | .s32, xs => pure (sc .s32FromI32 (hd xs))
  | .u32, xs => pure (sc .u32FromI32 (hd xs))
  | .s64, xs => pure (sc .s64FromI64 (hd xs))
  | .u64, xs => pure (sc .u64FromI64 (hd xs))
  | .char, xs => pure (sc .charFromI32 (hd xs))
  | .f32, xs => pure (sc .f32FromCoreF32 (hd xs))
  | .f64, xs => pure (sc .f64FromCoreF64 (hd xs))
  | .string, xs => pure (pure1 .stringLift xs)
  | .errctx, xs => pure (pure1 .errLift xs)
  | .list e, xs =>
      if c.canon e then pure (pure1 (.listCanonLift e) xs)
      else do
        let r ← load c (lvl + 1) e (.base (lvl + 1)) Off.zero
        pure (.op (.listLift e) xs [[r]] 0)
  | .own, xs => pure (pure1 (.handleLift true) xs)
  | .borrow, xs => pure (pure1 (.handleLift false) xs)
  | .record fs, xs => do
      let _ ← flatU (.record fs)
      let fields ← liftFields c lvl fs xs
      pure (pure1 (.recordLift fs.length) fields)
  | .tuple ts, xs => do
      let _ ← flatU (.tuple ts)
      let fields ← liftFields c lvl ts xs
      pure (pure1 (.tupleLift ts.length) fields)
  | .flags n, xs => pure (pure1 (.flagsLift n) xs)
  | .variant cs, xs => do
      let params ← flatU (.variant cs)
      let arms ← liftArms c lvl cs (params.drop 1) (xs.drop 1)
      pure (.op (.variantLift cs.length) [hd xs] arms 0)
  | .enum n, xs => pure (pure1 (.enumLift n) xs)
  | .option t, xs => do
      let params ← flatU (.option t)
      let ins ← armInputs (params.drop 1) (xs.drop 1) (← flatU t)
      let r ← lift c (lvl + 1) t ins
      pure (.op .optionLift [hd xs] [[], [r]] 0)
  | .result a b, xs => do
      let params ← flatU (.result a b)
      let a0 ← liftArm c lvl a (params.drop 1) (xs.drop 1)
      let a1 ← liftArm c lvl b (params.drop 1) (xs.drop 1)
      pure (.op .resultLift [hd xs] [a0, a1] 0)
  | .future _, xs => pure (pure1 .futureLift xs)
  | .stream _, xs => pure (pure1 .streamLift xs)
  | .flist e n, xs => do
      let k := (← flatU e).length
      let f := lift c lvl e
      let elems ← (chunks xs (List.replicate n k)).mapM f
      pure (pure1 (.flistLift e n) elems)
  | .map k v, xs => do
      let voff := (fieldOffs [k, v]).getD 1 Off.zero
      let rk ← load c (lvl + 1) k (.base (lvl + 1)) Off.zero
      let rv ← load c (lvl + 1) v (.base (lvl + 1)) voff
      pure (.op (.mapLift k v) xs [[rk, rv]] 0)

/-- `flat_for_each_record_type` with `Self::lift` -/
def liftFields (c : Cfg) (lvl : Nat) : List Ty → List Expr → G (List Expr)
  | [], _ => pure []
  | t :: ts, xs => do
      let n := (← flatU t).length
      let r ← lift c lvl t (xs.take n)
      let rs ← liftFields c lvl ts (xs.drop n)
      pure (r :: rs)

/-- `flat_for_each_variant_arm` with `Self::lift`; `params1`/`inputs` exclude the discriminant -/
def liftArms (c : Cfg) (lvl : Nat) : List (Option Ty) → List CoreTy → List Expr → G (List (List Expr))
  | [], _, _ => pure []
  | o :: cs, params1, inputs => do
      let arm ← liftArm c lvl o params1 inputs
      let rest ← liftArms c lvl cs params1 inputs
      pure (arm :: rest)

def liftArm (c : Cfg) (lvl : Nat) : Option Ty → List CoreTy → List Expr → G (List Expr)
  | none, _, _ => pure []
  | some t, params1, inputs => do
      let ins ← armInputs params1 inputs (← flatU t)
      let r ← lift c (lvl + 1) t ins
      pure [r]

/-- `read_from_memory` -/
def load (c : Cfg) (lvl : Nat) : Ty → Expr → Off → G Expr
  | .bool, a, off => pure (sc .boolFromI32 (ld .i32_8u off a))
  | .u8, a, off => pure (sc .u8FromI32 (ld .i32_8u off a))
  | .s8, a, off => pure (sc .s8FromI32 (ld .i32_8s off a))
  | .u16, a, off => pure (sc .u16FromI32 (ld .i32_16u off a))
  | .s16, a, off => pure (sc .s16FromI32 (ld .i32_16s off a))
  | .u32, a, off => pure (sc .u32FromI32 (ld .i32 off a))
  | .s32, a, off => pure (sc .s32FromI32 (ld .i32 off a))
  | .char, a, off => pure (sc .charFromI32 (ld .i32 off a))
  | .u64, a, off => pure (sc .u64FromI64 (ld .i64 off a))
  | .s64, a, off => pure (sc .s64FromI64 (ld .i64 off a))
  | .f32, a, off => pure (sc .f32FromCoreF32 (ld .f32 off a))
  | .f64, a, off => pure (sc .f64FromCoreF64 (ld .f64 off a))
  | .errctx, a, off => pure (pure1 .errLift [ld .i32 off a])
  | .own, a, off => pure (pure1 (.handleLift true) [ld .i32 off a])
  | .borrow, a, off => pure (pure1 (.handleLift false) [ld .i32 off a])
  | .future _, a, off => pure (pure1 .futureLift [ld .i32 off a])
  | .stream _, a, off => pure (pure1 .streamLift [ld .i32 off a])
  | .string, a, off => pure (pure1 .stringLift [ld .ptr off a, ld .len (off + Off.ptrs 1) a])
  | .list e, a, off =>
      let xs := [ld .ptr off a, ld .len (off + Off.ptrs 1) a]
      if c.canon e then pure (pure1 (.listCanonLift e) xs)
      else do
        let r ← load c (lvl + 1) e (.base (lvl + 1)) Off.zero
        pure (.op (.listLift e) xs [[r]] 0)
  | .map k v, a, off => do
      let xs := [ld .ptr off a, ld .len (off + Off.ptrs 1) a]
      let voff := (fieldOffs [k, v]).getD 1 Off.zero
      let rk ← load c (lvl + 1) k (.base (lvl + 1)) Off.zero
      let rv ← load c (lvl + 1) v (.base (lvl + 1)) voff
      pure (.op (.mapLift k v) xs [[rk, rv]] 0)
  | .record fs, a, off => do
      let fields ← loadFields c lvl fs (fieldOffs fs) a off
      pure (pure1 (.recordLift fs.length) fields)
  | .tuple ts, a, off => do
      let fields ← loadFields c lvl ts (fieldOffs ts) a off
      pure (pure1 (.tupleLift ts.length) fields)
  | .flags n, a, off =>
      match flagsRepr n with
      | .u8 => pure (pure1 (.flagsLift n) [loadInt .u8 off a])
      | .u16 => pure (pure1 (.flagsLift n) [loadInt .u16 off a])
      | .u32 k => pure (pure1 (.flagsLift n) ((List.range k).map fun i => ld .i32 (off + Off.bytes (i * 4)) a))
  | .variant cs, a, off => do
      let tag := discriminant cs.length
      let arms ← loadArms c lvl cs a (off + payloadOff tag cs)
      pure (.op (.variantLift cs.length) [loadInt tag off a] arms 0)
  | .option t, a, off => do
      let r ← load c (lvl + 1) t a (off + payloadOff .u8 [none, some t])
      pure (.op .optionLift [loadInt .u8 off a] [[], [r]] 0)
  | .result ok err, a, off => do
      let a0 ← loadArm c lvl ok a (off + payloadOff .u8 [ok, err])
      let a1 ← loadArm c lvl err a (off + payloadOff .u8 [ok, err])
      pure (.op .resultLift [loadInt .u8 off a] [a0, a1] 0)
  | .enum n, a, off => pure (pure1 (.enumLift n) [loadInt (discriminant n) off a])
  | .flist e n, a, off => do
      let r ← load c (lvl + 1) e (.base (lvl + 1)) off
      pure (.op (.flistLiftMem e n) [a] [[r]] 0)

/-- `read_fields_from_memory` -/
def loadFields (c : Cfg) (lvl : Nat) : List Ty → List Off → Expr → Off → G (List Expr)
  | t :: ts, fo :: fos, a, off => do
      let r ← load c lvl t a (off + fo)
      let rs ← loadFields c lvl ts fos a off
      pure (r :: rs)
  | _, _, _, _ => pure []

/-- `read_variant_arms_from_memory` -/
def loadArms (c : Cfg) (lvl : Nat) : List (Option Ty) → Expr → Off → G (List (List Expr))
  | [], _, _ => pure []
  | o :: cs, a, poff => do
      let arm ← loadArm c lvl o a poff
      let rest ← loadArms c lvl cs a poff
      pure (arm :: rest)

def loadArm (c : Cfg) (lvl : Nat) : Option Ty → Expr → Off → G (List Expr)
  | none, _, _ => pure []
  | some t, a, poff => do
      let r ← load c (lvl + 1) t a poff
      pure [r]
end

/-! ### deallocation -/

mutual
/-- `needs_deallocate(resolve, ty, what)`; `handles = what.handles()` -/
def needsDealloc (handles : Bool) : Ty → Bool
  | .string => true
  | .errctx => false
  | .list _ | .map _ _ => true
  | .own => handles
  | .borrow => false
  | .record fs => needsDeallocAny handles fs
  | .tuple ts => needsDeallocAny handles ts
  | .variant cs => needsDeallocAnyOpt handles cs
  | .option t => needsDealloc handles t
  | .result a b => needsDeallocOpt handles a || needsDeallocOpt handles b
  | .flags _ | .enum _ => false
  | .future _ | .stream _ => handles
  | .flist e _ => needsDealloc handles e
  | .bool | .u8 | .s8 | .u16 | .s16 | .u32 | .s32 | .u64 | .s64 | .f32 | .f64 | .char => false
def needsDeallocAny (handles : Bool) : List Ty → Bool
  | [] => false
  | t :: ts => needsDealloc handles t || needsDeallocAny handles ts
def needsDeallocOpt (handles : Bool) : Option Ty → Bool
  | none => false
  | some t => needsDealloc handles t
def needsDeallocAnyOpt (handles : Bool) : List (Option Ty) → Bool
  | [] => false
  | t :: ts => needsDeallocOpt handles t || needsDeallocAnyOpt handles ts
end

def ptrLen (a : Expr) (off : Off) : List Expr := [ld .ptr off a, ld .len (off + Off.ptrs 1) a]

/-- the `DropHandle` tail shared by `deallocate`/`deallocate_indirect` -/
def dropOf (t : Ty) (h : Expr) : List Stmt := [.eff (.dropHandle t) [h] []]

def liftHandle (t : Ty) (xs : List Expr) : Expr :=
  match t with
  | .own => pure1 (.handleLift true) xs
  | .future _ => pure1 .futureLift xs
  | _ => pure1 .streamLift xs

mutual
/-- `Generator::deallocate` on the given flat operands (the cleanup configuration `c` only matters
for `lift` of handles, which is configuration independent). -/
def dealloc (handles : Bool) (lvl : Nat) : Ty → List Expr → G (List Stmt)
  | .string, xs => pure [.eff .deallocString xs []]
  | .bool, _ | .u8, _ | .s8, _ | .u16, _ | .s16, _ | .u32, _ | .s32, _ | .char, _
  | .u64, _ | .s64, _ | .f32, _ | .f64, _ | .errctx, _ => pure []
  | .list e, xs => do
      let body ← deallocIndirect handles (lvl + 1) e (.base (lvl + 1)) Off.zero
      pure [.eff (.deallocList e) xs [(body, [])]]
  | .map k v, xs => do
      let voff := (fieldOffs [k, v]).getD 1 Off.zero
      let b1 ← deallocIndirect handles (lvl + 1) k (.base (lvl + 1)) Off.zero
      let b2 ← deallocIndirect handles (lvl + 1) v (.base (lvl + 1)) voff
      pure [.eff (.deallocMap k v) xs [(b1 ++ b2, [])]]
  | .own, xs => pure (if handles then dropOf .own (liftHandle .own xs) else [])
  | .future p, xs => pure (if handles then dropOf (.future p) (liftHandle (.future p) xs) else [])
  | .stream p, xs => pure (if handles then dropOf (.stream p) (liftHandle (.stream p) xs) else [])
  | .borrow, _ | .enum _, _ | .flags _, _ => pure []
  | .record fs, xs => do
      let _ ← flatU (.record fs)
      deallocFields handles lvl fs xs
  | .tuple ts, xs => do
      let _ ← flatU (.tuple ts)
      deallocFields handles lvl ts xs
  | .variant cs, xs => do
      let params ← flatU (.variant cs)
      let arms ← deallocArms handles lvl cs (params.drop 1) (xs.drop 1)
      pure [.eff (.deallocVariant cs.length) [hd xs] arms]
  | .option t, xs => do
      let params ← flatU (.option t)
      let ins ← armInputs (params.drop 1) (xs.drop 1) (← flatU t)
      let body ← dealloc handles (lvl + 1) t ins
      pure [.eff (.deallocVariant 2) [hd xs] [([], []), (body, [])]]
  | .result a b, xs => do
      let params ← flatU (.result a b)
      let b0 ← deallocArm handles lvl a (params.drop 1) (xs.drop 1)
      let b1 ← deallocArm handles lvl b (params.drop 1) (xs.drop 1)
      pure [.eff (.deallocVariant 2) [hd xs] [(b0, []), (b1, [])]]
  | .flist e n, xs => do
      -- `flat_for_each_record_type(ty, repeat_n(element, size), deallocate)`
      let _ ← flatU (.flist e n)
      let k := (← flatU e).length
      let ss ← (chunks xs (List.replicate n k)).mapM (dealloc handles lvl e)
      pure ss.flatten

def deallocFields (handles : Bool) (lvl : Nat) : List Ty → List Expr → G (List Stmt)
  | [], _ => pure []
  | t :: ts, xs => do
      let n := (← flatU t).length
      let s1 ← dealloc handles lvl t (xs.take n)
      let s2 ← deallocFields handles lvl ts (xs.drop n)
      pure (s1 ++ s2)

def deallocArms (handles : Bool) (lvl : Nat) : List (Option Ty) → List CoreTy → List Expr → G (List Block)
  | [], _, _ => pure []
  | o :: cs, params1, inputs => do
      let body ← deallocArm handles lvl o params1 inputs
      let rest ← deallocArms handles lvl cs params1 inputs
      pure ((body, []) :: rest)

def deallocArm (handles : Bool) (lvl : Nat) : Option Ty → List CoreTy → List Expr → G (List Stmt)
  | none, _, _ => pure []
  | some t, params1, inputs => do
      let ins ← armInputs params1 inputs (← flatU t)
      dealloc handles (lvl + 1) t ins

/-- `Generator::deallocate_indirect` -/
def deallocIndirect (handles : Bool) (lvl : Nat) : Ty → Expr → Off → G (List Stmt)
  | .string, a, off => pure [.eff .deallocString (ptrLen a off) []]
  | .bool, _, _ | .u8, _, _ | .s8, _, _ | .u16, _, _ | .s16, _, _ | .u32, _, _ | .s32, _, _
  | .char, _, _ | .u64, _, _ | .s64, _, _ | .f32, _, _ | .f64, _, _ | .errctx, _, _ => pure []
  | .list e, a, off => do
      let body ← deallocIndirect handles (lvl + 1) e (.base (lvl + 1)) Off.zero
      pure [.eff (.deallocList e) (ptrLen a off) [(body, [])]]
  | .map k v, a, off => do
      let voff := (fieldOffs [k, v]).getD 1 Off.zero
      let b1 ← deallocIndirect handles (lvl + 1) k (.base (lvl + 1)) Off.zero
      let b2 ← deallocIndirect handles (lvl + 1) v (.base (lvl + 1)) voff
      pure [.eff (.deallocMap k v) (ptrLen a off) [(b1 ++ b2, [])]]
  | .own, a, off => pure (if handles then dropOf .own (liftHandle .own [ld .i32 off a]) else [])
  | .future p, a, off =>
      pure (if handles then dropOf (.future p) (liftHandle (.future p) [ld .i32 off a]) else [])
  | .stream p, a, off =>
      pure (if handles then dropOf (.stream p) (liftHandle (.stream p) [ld .i32 off a]) else [])
  | .borrow, _, _ | .flags _, _, _ | .enum _, _, _ => pure []
  | .record fs, a, off =>
      if needsDeallocAny handles fs then deallocIndirectFields handles lvl fs (fieldOffs fs) a off else pure []
  | .tuple ts, a, off =>
      if needsDeallocAny handles ts then deallocIndirectFields handles lvl ts (fieldOffs ts) a off else pure []
  | .variant cs, a, off =>
      if needsDeallocAnyOpt handles cs then do
        let tag := discriminant cs.length
        let arms ← deallocIndirectArms handles lvl cs a (off + payloadOff tag cs)
        pure [.eff (.deallocVariant cs.length) [loadInt tag off a] arms]
      else pure []
  | .option t, a, off =>
      if needsDealloc handles t then do
        let body ← deallocIndirect handles (lvl + 1) t a (off + payloadOff .u8 [none, some t])
        pure [.eff (.deallocVariant 2) [loadInt .u8 off a] [([], []), (body, [])]]
      else pure []
  | .result ok err, a, off =>
      if needsDeallocOpt handles ok || needsDeallocOpt handles err then do
        let b0 ← deallocIndirectArm handles lvl ok a (off + payloadOff .u8 [ok, err])
        let b1 ← deallocIndirectArm handles lvl err a (off + payloadOff .u8 [ok, err])
        pure [.eff (.deallocVariant 2) [loadInt .u8 off a] [(b0, []), (b1, [])]]
      else pure []
  | .flist _ _, _, _ => pure []

def deallocIndirectFields (handles : Bool) (lvl : Nat) : List Ty → List Off → Expr → Off → G (List Stmt)
  | t :: ts, fo :: fos, a, off => do
      let s1 ← deallocIndirect handles lvl t a (off + fo)
      let s2 ← deallocIndirectFields handles lvl ts fos a off
      pure (s1 ++ s2)
  | _, _, _, _ => pure []

def deallocIndirectArms (handles : Bool) (lvl : Nat) : List (Option Ty) → Expr → Off → G (List Block)
  | [], _, _ => pure []
  | o :: cs, a, poff => do
      let body ← deallocIndirectArm handles lvl o a poff
      let rest ← deallocIndirectArms handles lvl cs a poff
      pure ((body, []) :: rest)

def deallocIndirectArm (handles : Bool) (lvl : Nat) : Option Ty → Expr → Off → G (List Stmt)
  | none, _, _ => pure []
  | some t, a, poff => deallocIndirect handles (lvl + 1) t a poff
end

/-- `deallocate_in_types` -/
def deallocInTypes (handles : Bool) (indirect : Bool) (ts : List Ty) (ops : List Expr) : G (List Stmt) :=
  if indirect then do
    if ops.length ≠ 1 then throw .assert
    let a := hd ops
    let ss ← (ts.zip (fieldOffs ts)).mapM fun (t, fo) => deallocIndirect handles 0 t a fo
    pure ss.flatten
  else do
    let ns ← ts.mapM fun t => do pure (← flatU t).length
    if ns.sum ≠ ops.length then throw .assert
    let ss ← (ts.zip (chunks ops ns)).mapM fun (t, xs) => dealloc handles 0 t xs
    pure ss.flatten

/-! ### calls -/

inductive Variant where
  | guestImport | guestExport | guestImportAsync | guestExportAsync | guestExportAsyncStackful
deriving Repr, DecidableEq

def Variant.isExport : Variant → Bool
  | .guestExport | .guestExportAsync | .guestExportAsyncStackful => true
  | _ => false

structure Func where
  isMethod : Bool
  params : List Ty
  result : Option Ty
deriving Repr

structure Sig where
  params : List CoreTy
  results : List CoreTy
  indirectParams : Bool
  retptr : Bool
deriving Repr

def maxFlatParams : Nat := 16
def maxFlatAsyncParams : Nat := 4
def maxFlatResults : Nat := 1

/-- wit-parser `Resolve::wasm_signature`. -/
def wasmSignature (v : Variant) (f : Func) : Sig :=
  let pf := flattenList f.params
  let max := if v = .guestImportAsync then maxFlatAsyncParams else maxFlatParams
  let indirect := decide (pf.length > max)
  let params0 :=
    if indirect then [CoreTy.ptr]
    else if f.isMethod && v.isExport then CoreTy.ptr :: pf.drop 1
    else pf
  let rf := flattenOpt f.result
  match v with
  | .guestImport =>
      if rf.length > maxFlatResults then ⟨params0 ++ [.ptr], [], indirect, true⟩
      else ⟨params0, rf, indirect, false⟩
  | .guestExport =>
      if rf.length > maxFlatResults then ⟨params0, [.ptr], indirect, true⟩
      else ⟨params0, rf, indirect, false⟩
  | .guestImportAsync =>
      if f.result.isSome then ⟨params0 ++ [.ptr], [.i32], indirect, true⟩
      else ⟨params0, [.i32], indirect, false⟩
  | .guestExportAsync => ⟨params0, [.i32], indirect, false⟩
  | .guestExportAsyncStackful => ⟨params0, [], indirect, false⟩

def optTys (t : Option Ty) : List Ty := t.toList

/-- lower every parameter flat (`GetArg nth; lower`) -/
def lowerParams (c : Cfg) : List Ty → Nat → G (List Stmt × List Expr)
  | [], _ => pure ([], [])
  | t :: ts, nth => do
      let (s1, r1) ← lower c 0 t (.arg nth)
      let (s2, r2) ← lowerParams c ts (nth + 1)
      pure (s1 ++ s2, r1 ++ r2)

/-- lower every parameter into the record at `ptr` -/
def storeParams (c : Cfg) : List Ty → List Off → Nat → Expr → G (List Stmt)
  | t :: ts, fo :: fos, nth, ptr => do
      let s1 ← store c 0 t (.arg nth) ptr fo
      let s2 ← storeParams c ts fos (nth + 1) ptr
      pure (s1 ++ s2)
  | _, _, _, _ => pure []

/-- lift every parameter from consecutive `GetArg`s -/
def liftParams (c : Cfg) (max : Nat) : List Ty → Nat → G (List Expr)
  | [], _ => pure []
  | t :: ts, offset => do
      let n ← match flatTypes t max with | some f => pure f.length | none => throw .flatten
      let r ← lift c 0 t ((List.range n).map fun i => .arg (offset + i))
      let rs ← liftParams c max ts (offset + n)
      pure (r :: rs)

/-- `Generator::call`.  Returns the statements of the glue function. -/
def call (canon : Ty → Bool) (v : Variant) (lowerArgs : Bool) (async : Bool) (f : Func) : G (List Stmt) := do
  let sig := wasmSignature v f
  let realloc : Bool :=
    if v = .guestImport && lowerArgs then false
    else if v.isExport && !lowerArgs && async then false
    else true
  let c : Cfg := ⟨canon, realloc⟩
  if lowerArgs then
    -- LowerArgsLiftResults -------------------------------------------------
    let (s0, stack0, nrp0) ← (
      if sig.indirectParams then do
        let size := recordSizeOff f.params
        let align := recordAlignOff f.params
        match v with
        | .guestImport =>
            let ptr := Expr.rp 0 size align
            let ss ← storeParams c f.params (fieldOffs f.params) 0 ptr
            pure (ss, [ptr], 1)
        | .guestImportAsync => throw .todo
        | .guestExport =>
            let o := Op.malloc size align
            let ptr := Expr.res 0 o []
            let ss ← storeParams c f.params (fieldOffs f.params) 0 ptr
            pure (Stmt.eff o [] [] :: ss, [ptr], 0)
        | _ => throw .todo
      else do
        let (ss, rs) ← lowerParams c f.params 0
        pure (ss, rs, 0) : G (List Stmt × List Expr × Nat))
    let retArea := Expr.rp nrp0 (recordSizeOff (optTys f.result)) (recordAlignOff (optTys f.result))
    let stack1 := if v = .guestImport && sig.retptr then stack0 ++ [retArea] else stack0
    if stack1.length ≠ sig.params.length then throw .assert
    let callOp := Op.callWasm sig.params sig.results
    let s1 := s0 ++ [Stmt.eff callOp stack1 []]
    let callRes := resN callOp stack1 sig.results.length
    let (s2, stack2) ← (
      if sig.retptr then do
        let ptr ← match v with
          | .guestImport => if sig.results.isEmpty then pure retArea else throw .assert
          | .guestExport => pure (hd callRes)
          | _ => throw .unreachable
        if v = .guestExport && async then pure ([], [ptr])
        else do
          let rs ← loadFields c 0 (optTys f.result) (fieldOffs (optTys f.result)) ptr Off.zero
          let fl := Op.flush rs.length
          pure ([Stmt.eff fl rs []], resN fl rs rs.length)
      else if !async then
        match f.result with
        | some t => do
            let need := (flatten t).length
            if callRes.length < need then throw .assert
            let r ← lift c 0 t (callRes.drop (callRes.length - need))
            pure ([], callRes.take (callRes.length - need) ++ [r])
        | none => pure ([], callRes)
      else pure ([], callRes) : G (List Stmt × List Expr))
    if async then
      if stack2.length ≠ sig.results.length then throw .assert
      pure (s1 ++ s2 ++ [Stmt.eff (.asyncTaskReturn sig.results) stack2 []])
    else
      let amt := if f.result.isSome then 1 else 0
      if stack2.length ≠ amt then throw .assert
      pure (s1 ++ s2 ++ [Stmt.eff (.ret amt) stack2 []])
  else
    -- LiftArgsLowerResults -------------------------------------------------
    let maxFlat := if v = .guestImportAsync && async then maxFlatAsyncParams else maxFlatParams
    let args ← (
      if sig.indirectParams then
        loadFields c 0 f.params (fieldOffs f.params) (.arg 0) Off.zero
      else liftParams c maxFlat f.params 0 : G (List Expr))
    let nres := if f.result.isSome then 1 else 0
    let ci := Op.callInterface f.params.length nres async
    let s0 := [Stmt.eff ci args []]
    let ciRes := resN ci args nres
    let asyncFlat : Option (Option (List CoreTy)) :=
      if async then
        some (match f.result with
          | some t => flatTypes t maxFlat
          | none => some [])
      else none
    let lowerToMemory : Bool :=
      match asyncFlat with
      | some r => r.isNone
      | none => sig.retptr
    let s1 :=
      if v.isExport && sig.indirectParams && !async then
        [Stmt.eff (.dealloc (recordSizeOff f.params) (recordAlignOff f.params)) [.arg 0] []]
      else []
    let (s2, stack) ← (
      if !lowerToMemory then
        match f.result with
        | some t => lower c 0 t (hd ciRes)
        | none => pure ([], [])
      else if sig.retptr && (v = .guestImport || v = .guestImportAsync) then do
        let ptr := Expr.arg (sig.params.length - 1)
        let ss ← storeFields c 0 (optTys f.result) (fieldOffs (optTys f.result)) ciRes ptr Off.zero
        pure (ss, [])
      else
        match v with
        | .guestExport | .guestExportAsync => do
            let ptr := Expr.rp 0 (recordSizeOff (optTys f.result)) (recordAlignOff (optTys f.result))
            let ss ← storeFields c 0 (optTys f.result) (fieldOffs (optTys f.result)) ciRes ptr Off.zero
            pure (ss, [ptr])
        | .guestExportAsyncStackful => throw .todo
        | _ => throw .unreachable : G (List Stmt × List Expr))
    let tail ← (
      match asyncFlat with
      | some results =>
          let params :=
            if v = .guestImport || v = .guestImportAsync then results.getD []
            else results.getD [.ptr]
          if stack.length ≠ params.length then throw .assert
          else pure [Stmt.eff (.asyncTaskReturn params) stack []]
      | none =>
          if stack.length ≠ sig.results.length then throw .assert
          else pure [Stmt.eff (.ret sig.results.length) stack []] : G (List Stmt))
    pure (s0 ++ s1 ++ s2 ++ tail)

/-- `Generator::post_return` -/
def postReturn (f : Func) : G (List Stmt) := do
  let sig := wasmSignature .guestExport f
  if !sig.retptr then throw .assert
  let ss ← deallocInTypes false true (optTys f.result) [.arg 0]
  pure (ss ++ [Stmt.eff (.ret 0) [] []])

/-- `guest_export_needs_post_return` -/
def needsPostReturn (f : Func) : Bool := needsDeallocOpt false f.result
/-- `guest_export_params_have_allocations` -/
def paramsHaveAllocations (f : Func) : Bool := needsDeallocAny false f.params

end Witverif.Abi
