import Witverif.Proofs.AbiLower6
import Witverif.Proofs.AbiLift3
import Witverif.Proofs.AbiStore4
import Witverif.Proofs.AbiLoad
import Witverif.Proofs.AbiStoreA4
import Witverif.Proofs.AbiLiftAll
import Witverif.Proofs.SpecRoundtrip
/-!
# C01 — Shared ABI generator encodes and decodes every WIT value per the spec

Objects: `Abi.lower/lift/store/load` = model of `Generator::lower/lift/write_to_memory/read_from_memory`
(crates/core/src/abi.rs) producing the tree form of the instruction stream; `Abi.eval/exec` = the
reference machine; `Spec.*` = the canonical ABI.  Tie: the tree form of the REAL stream of every
public entry point is compared, exactly, with the model's (`abi-trace` vs `m_abi`); the monitors
`checkLowerFlat/checkLowerMem/checkLiftMem` (Abi/Validate.lean) are evaluated on the real streams.

Proved here for *all* memory-free types (any nesting of records, tuples, flags with any number of
members, enums, variants/options/results with every slot join, fixed-length lists, all scalars and
handles), all values, both pointer widths; lifting from memory (`load_correct`) is proved for *every*
type, and so is lowering to memory (`store_correct_all`), strings, lists and maps included.  The flat
lowering of strings, lists and maps (parameters passed flat; same allocating instructions, results
consumed as operands) is covered by the correspondence and the monitors on the real streams and is
listed as a partial obligation in the evidence.
-/
namespace Witverif.Props.C01
open Witverif.Abi

/-- The flat core types the generator uses for every WIT type are the spec's `flatten_type`
(both pointer widths, any type). -/
theorem flat_types_eq (p : Nat) (hp : p = 4 ∨ p = 8) (t : Ty) :
    (flatten t).map (CoreTy.erase p) = Spec.flatten p t :=
  flatten_erase p hp t

/-- Lowering a memory-free type emits no statements (nothing allocated, nothing stored) and produces
exactly as many operands as the type has flat slots — for any type, `es.length = (flatten t).length`. -/
theorem lower_shape (c : Cfg) (t : Ty) (lvl : Nat) (x : Expr) (ss : List Stmt) (es : List Expr)
    (h : lower c lvl t x = .ok (ss, es)) :
    (memFree t = true → ss = []) ∧ es.length = (flatten t).length :=
  Witverif.Abi.lower_shape c t lvl x ss es h

/-- **Flat lowering is the spec's `lower_flat`.**  For every memory-free type `t`, every value `v`
of `t`, both pointer widths, any backend configuration `c` (canonical-list rule, realloc mode):
whenever the generator produces code (it panics only beyond 16 flat slots, see C16), the operands
it leaves evaluate — in the reference machine, in any environment where the source operand denotes
`v` — to exactly the core values the canonical ABI specifies, slot by slot, including the
discriminant, the per-slot conversions into joined slots and the zero padding. -/
theorem lower_flat_correct (p : Nat) (hp : p = 4 ∨ p = 8) (c : Cfg) (t : Ty) (v : Val)
    (hm : memFree t = true) (hv : Spec.hasTy t v = true)
    (lvl : Nat) (x : Expr) (env : Env) (m : Spec.Mem) (st : Spec.St) (ss : List Stmt) (es : List Expr)
    (hp' : env.p = p) (hlvl : env.frames.length = lvl + 1) (hx : eval env m x = some (.v v))
    (h : lower c lvl t x = .ok (ss, es)) :
    ss = [] ∧ evalList env m es = some ((Spec.lowerFlat p t v st).1.map MV.c) :=
  ⟨(Witverif.Abi.lower_shape c t lvl x ss es h).1 hm,
   lower_sound p hp c v t hm hv lvl x env m st ss es hp' hlvl hx h⟩

/-- The public entry point `abi::lower_flat` (operand 0 = the value, function body level). -/
theorem lower_flat_entry (p : Nat) (hp : p = 4 ∨ p = 8) (canon : Ty → Bool) (t : Ty) (v : Val)
    (hm : memFree t = true) (hv : Spec.hasTy t v = true) (ss : List Stmt) (es : List Expr)
    (h : lower ⟨canon, true⟩ 0 t (.inp 0) = .ok (ss, es)) :
    runBlock { p, inputs := [.v v] } {} (ss, es) = some ((Spec.lowerFlat p t v {}).1.map MV.c, {}) := by
  have ⟨hss, hes⟩ := lower_flat_correct p hp ⟨canon, true⟩ t v hm hv 0 (.inp 0)
    { p, inputs := [.v v] } [] {} ss es rfl rfl (by simp [eval]) h
  subst hss
  simp [runBlock, execStmts, hes]

/-- **Flat lifting is the spec's `lift_flat`, including its traps.**  For every memory-free type `t`,
both pointer widths, any backend configuration: if the operands handed to `lift` denote core values
`cs` that are well-formed for `flatten t` (right core types, each within its width — *any* such bit
patterns, not only images of values: hosts may pass anything), the expression the generator builds
evaluates to exactly what the canonical ABI assigns to `cs`, and it traps (`none`) exactly when the
spec traps (invalid discriminant, invalid char).  Operands may come from anywhere (flat parameters,
loads): they only have to denote `cs` independently of the block frames. -/
theorem lift_flat_correct (p : Nat) (hp : p = 4 ∨ p = 8) (c : Cfg) (t : Ty) (hm : memFree t = true)
    (lvl : Nat) (xs : List Expr) (env : Env) (m : Spec.Mem) (cs : List CVal) (e : Expr)
    (hp' : env.p = p) (hwf : WfFlat cs (Spec.flatten p t)) (hden : Denotes env m xs cs)
    (h : lift c lvl t xs = .ok e) :
    ∀ fr, eval (env.withFrames fr) m e = (Spec.liftFlat p m t cs).map MV.v :=
  lift_sound p hp c t hm lvl xs env m cs e hp' hwf hden h

/-- **Lowering to memory writes the bytes the spec specifies.**  For every memory-free type `t`, every
value `v` of `t`, both pointer widths, any backend configuration, any nesting level, value operand `x`,
address operand `a` and static offset: executing the statements emitted by `write_to_memory` — from
ANY machine state, in any environment where `x` denotes `v` and `a` denotes `addr` — terminates,
allocates nothing, and leaves a memory that reads, at every address, exactly like the memory
`Spec.store` produces at `addr + offset` (bytes of every field at its canonical offset, discriminant
width, payload offset, flag words, fixed-length list elements; everything else untouched).  `Writes`
quantifies over all states/environments (Proofs/AbiStore.lean). -/
theorem store_correct (p : Nat) (hp : p = 4 ∨ p = 8) (c : Cfg) (t : Ty) (v : Val)
    (hm : memFree t = true) (hv : Spec.hasTy t v = true)
    (lvl : Nat) (x a : Expr) (off : Off) (ss : List Stmt) (h : store c lvl t x a off = .ok ss) :
    Writes p lvl x a v ss (fun addr st => Spec.store p t v (addr + off.at p) st) :=
  store_sound p hp c v t hm hv lvl x a off ss h

/-- **Flat lifting is the spec's `lift_flat`, for every type** (strings, lists — canonical fast path
and element-wise —, maps, records, variants with every slot join, fixed-length lists, handles, scalars;
any nesting), both pointer widths, any backend configuration, any memory: if the operands denote core
values `cs` that are well-formed for `flatten t` (any bit patterns of the right core types) — stably,
i.e. in every extension of the environment — the expression `lift` builds evaluates to exactly
`Spec.liftFlat p m t cs`, and is stuck exactly when the spec traps (invalid discriminant or char;
misaligned list pointer — see the note on alignment in `load_correct`).  This is what lifts the
parameters of every export and the results of every import. -/
theorem lift_flat_correct_all (p : Nat) (hp : p = 4 ∨ p = 8) (c : Cfg) (t : Ty)
    (lvl : Nat) (xs : List Expr) (env : Env) (m : Spec.Mem) (cs : List CVal) (e : Expr)
    (hp' : env.p = p) (hl : env.frames.length = lvl + 1) (hwf : WfFlat cs (Spec.flatten p t))
    (hst : FlatStable env m xs cs) (h : lift c lvl t xs = .ok e) :
    ∀ ls, eval (env.withLets ls) m e = (Spec.liftFlat p m t cs).map MV.v :=
  lift_soundA p hp c t lvl xs env m cs e hp' hl hwf hst h

/-- The spec's own flat round trip on memory-free types (proved in Proofs/SpecRoundtrip.lean). -/
theorem spec_flat_roundtrip (p : Nat) (m : Spec.Mem) (v : Val) (t : Ty) (st : Spec.St)
    (hm : memFree t = true) (hv : Spec.hasTy t v = true) :
    Spec.liftFlat p m t (Spec.lowerFlat p t v st).1 = some v :=
  liftFlat_lowerFlat p m v t st hm hv

/-- **Lifting what was lowered returns the original value** (memory-free types, flat): whatever
operands denote the core values the canonical lowering of `v` produces, the generator's lifting
expression evaluates to `v` — composition of `lift_flat_correct_all`, the well-formedness of the
spec's lowering and the spec's round trip.  (With `lower_flat_correct`: the operands the generator's
own lowering emits denote exactly those core values.)  For types that use linear memory the
generator-level statements are `store_correct_all` / `load_correct` / `lift_flat_correct_all`; the
spec-level round trip through memory (`Spec.load (Spec.store v) = v`) is not proved — it is checked
per sampled case by the monitors (`checkLiftMem`). -/
theorem lift_of_lowered_is_identity (p : Nat) (hp : p = 4 ∨ p = 8) (c : Cfg) (t : Ty) (v : Val)
    (hm : memFree t = true) (hv : Spec.hasTy t v = true) (st : Spec.St)
    (lvl : Nat) (xs : List Expr) (env : Env) (m : Spec.Mem) (e : Expr)
    (hp' : env.p = p) (hl : env.frames.length = lvl + 1)
    (hst : FlatStable env m xs (Spec.lowerFlat p t v st).1) (h : lift c lvl t xs = .ok e) :
    ∀ ls, eval (env.withLets ls) m e = some (.v v) := by
  intro ls
  have hwf := (lowerFlat_wf p v t st hm hv).2
  rw [lift_soundA p hp c t lvl xs env m _ e hp' hl hwf hst h ls, liftFlat_lowerFlat p m v t st hm hv]
  rfl

/-- Non-vacuity of `lift_flat_correct_all`: lifting `tuple<string, list<u8>>` from four flat operands. -/
example :
    ∃ e, lift ⟨fun _ => false, true⟩ 0 (.tuple [.string, .list .u8]) [.arg 0, .arg 1, .arg 2, .arg 3] = .ok e ∧
      eval { p := 4, args := [.c ⟨.i32, 16⟩, .c ⟨.i32, 2⟩, .c ⟨.i32, 32⟩, .c ⟨.i32, 1⟩] } [(16, 104), (17, 105), (32, 7)] e
        = some (.v (.record [.str [104, 105], .list [.int 7]])) :=
  ⟨_, rfl, rfl⟩

/-- **Lowering to memory is the spec's `store`, for every type** (strings, lists — canonical fast path
and element-wise —, maps, and any nesting of them inside records, variants, fixed-length lists, …),
every value of the type, both pointer widths, any backend configuration (`realloc: Some/None`,
any canonical-list predicate).  Executing the statements emitted by `write_to_memory` — from ANY
machine state, in any environment where `x` denotes `v` and `a` denotes `addr` — terminates, performs
exactly the allocations `Spec.store` performs, in the same order with the same sizes and alignments
(the final heaps are equal), leaves a memory that reads at every address exactly like the memory
`Spec.store` produces (string bytes, element stride, entry layout, pointer and length words at
`addr + offset` and `+ pointer size`), and touches neither the freed-blocks, the dropped-handles nor
the calls ledger (`WritesA`, Proofs/AbiStoreA.lean). -/
theorem store_correct_all (p : Nat) (hp : p = 4 ∨ p = 8) (c : Cfg) (t : Ty) (v : Val)
    (hv : Spec.hasTy t v = true)
    (lvl : Nat) (x a : Expr) (off : Off) (ss : List Stmt) (h : store c lvl t x a off = .ok ss) :
    WritesA p lvl x a v ss (fun addr st => Spec.store p t v (addr + off.at p) st) :=
  store_soundA p hp c v t hv lvl x a off ss h

/-- Non-vacuity of `store_correct_all`: `record { a: string, b: list<u16> }` with `("hi", [1, 2])`. -/
example :
    Spec.hasTy (.record [.string, .list .u16]) (.record [.str [104, 105], .list [.int 1, .int 2]]) = true ∧
    ∃ ss, store ⟨fun _ => false, true⟩ 0 (.record [.string, .list .u16]) (.inp 0) (.inp 1) Off.zero = .ok ss :=
  ⟨by decide, ⟨_, rfl⟩⟩

/-- **Lifting from memory is the spec's `load`, for every type.**  For every WIT type `t` (strings,
lists — canonical or element-wise —, maps, records, tuples, flags of any size, enums, variants,
options, results, fixed-length lists, handles, all scalars, any nesting), both pointer widths, any
backend configuration, any memory `m` whatsoever (hosts may have written anything), any address
operand `a` denoting `addr` and any static offset: the expression `read_from_memory` builds evaluates
to exactly `Spec.load` at `addr + offset`, and is stuck (`none` = trap) exactly when the spec traps
(invalid discriminant, invalid char, misaligned list pointer).  In particular field offsets,
discriminant width, payload offset, flag words, list element stride and fixed-length list element
offsets are the canonical ones.
Conventions of the reference machine (Abi/Sem.lean) that make this an equality: (1) the list-lifting
instructions (`ListLift`, `ListCanonLift`, `MapLift`) are given the canonical ABI's alignment trap —
no backend emits that check and abi.rs does not document it; hosts guarantee it when they lower; read
the clause as "modulo pointer alignment"; (2) the bulk instructions of the canonical-list fast path
(`ListCanonLift`/`ListCanonLower`, `StringLift`/`StringLower`) are *defined* as the spec's element-wise
load/store of the buffer (memcpy semantics), so for those branches the statement holds by definition
of the reference meaning — what is proved there is that the generator passes them the right pointer,
length and element type; that a backend's memcpy of a canonical element type really is the
element-wise encoding is C05's `rust_canon_layout` / C10's `c_layout_eq_canonical`. -/
theorem load_correct (p : Nat) (hp : p = 4 ∨ p = 8) (c : Cfg) (t : Ty)
    (lvl : Nat) (a : Expr) (off : Off) (env : Env) (m : Spec.Mem) (addr : Nat) (e : Expr)
    (hp' : env.p = p) (hl : env.frames.length = lvl + 1) (ha : AddrStable env m a addr)
    (h : load c lvl t a off = .ok e) :
    ∀ ls, eval (env.withLets ls) m e = (Spec.load p m t (addr + off.at p)).map MV.v :=
  load_sound p hp c t lvl a off env m addr e hp' hl ha h

/-- Non-vacuity of `load_correct`: `record { a: u8, b: list<u32, 2> }` read through the return
pointer at address 16 of a memory holding bytes `7 | pad | 1 0 0 0 | 2 0 0 0`. -/
example :
    ∃ e, load ⟨fun _ => false, true⟩ 0 (.record [.u8, .flist .u32 2]) (.rp 0 (Off.bytes 12) (Off.bytes 4)) Off.zero = .ok e ∧
      AddrStable { p := 4, rps := [16], frames := [{}] } [(16, 7), (20, 1), (24, 2)] (.rp 0 (Off.bytes 12) (Off.bytes 4)) 16 ∧
      eval { p := 4, rps := [16], frames := [{}] } [(16, 7), (20, 1), (24, 2)] e
        = some (.v (.record [.int 7, .list [.int 1, .int 2]])) :=
  ⟨_, rfl, by intro fs ls; rfl, rfl⟩

/-- The spec's flat lowering of a memory-free value is well-formed: it leaves the state alone and
yields `flatten t` many core values of the right types, each within its width. -/
theorem spec_lower_flat_wf (p : Nat) (v : Val) (t : Ty) (st : Spec.St)
    (hm : memFree t = true) (hv : Spec.hasTy t v = true) :
    (Spec.lowerFlat p t v st).2 = st ∧ WfFlat (Spec.lowerFlat p t v st).1 (Spec.flatten p t) :=
  lowerFlat_wf p v t st hm hv

/-- Non-vacuity: `variant { a(f32), b(u64), c }` value `a(NaN 0x7fc00001)` on wasm32: the real
shape of the tree (VariantLower with three pure arms, F32ToI64 cast, zero padding) evaluates to
`[i32 0, i64 0x7fc00001]`. -/
example :
    memFree (.variant [some .f32, some .u64, none]) = true ∧
    Spec.hasTy (.variant [some .f32, some .u64, none]) (.variant 0 (some (.f32 0x7fc00001))) = true ∧
    ∃ es, lower ⟨fun _ => false, true⟩ 0 (.variant [some .f32, some .u64, none]) (.inp 0) = .ok ([], es) ∧
      evalList { p := 4, inputs := [.v (.variant 0 (some (.f32 0x7fc00001)))] } [] es
        = some [.c ⟨.i32, 0⟩, .c ⟨.i64, 0x7fc00001⟩] :=
  ⟨by decide, by decide, _, rfl, rfl⟩

end Witverif.Props.C01
