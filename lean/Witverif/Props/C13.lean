import Witverif.Proofs.NamesBackends
/-!
# C13 — every backend's core imports/exports match the world's canonical ABI

Property theorems only (helper lemmas: `Proofs/Names.lean`, `Proofs/NamesBackends.lean`).
Spec side: `Witverif.Abi.Names.Spec` (legacy mangling of wit-parser/wit-component 0.257 + core
signatures through `wasmSignature`).  Model side: `Witverif.Abi.Names.{C,Rust,Go,D,Cpp,MoonBit,CSharp}`.
Both are tied to the real crates by `./check C13` (names-run / m_names).

Per backend `b`:
* `b_import_names`   the module and field name of every import kind `b` emits (function imports
                     under the selected ABI, `[task-return]`, resource intrinsics, future/stream
                     intrinsics of every payload site) are the ones the spec assigns to the same item;
* `b_export_names`   same for exports (function, `[callback]`, `cabi_post_`, `[dtor]`);
* `b_core_sig`       (definitional for the signature: the models call `wasmSignature` like the code does)
                     the ABI *variant* handed to `wasmSignature` is the one matching the emitted name
                     prefix; the declared signatures themselves are tied by the correspondence run only;
* `b_exports_complete`   every export the world requires is emitted;
* `b_world_sound`    over the whole world traversal: every emitted import ∈ `Spec.allImports w`, every
                     emitted export ∈ `Spec.allExports w` (an export outside this set is silently ignored
                     by the component encoder).

## Full statements that are FALSE of the current code (negations proved below, with witnesses)

    theorem csharp_world_resource   : C# gives a world-level (imported) resource exported-resource glue
    theorem csharp_fs_intrinsic_names : every declaration of `CSharp.addFuturesOrStreams` is a name of the world
    theorem async_selection_sound   : ∀ k f, (C|Rust|Go|MoonBit).funcImport k f ∈ Spec.importsOfFn k f
                                      (false when the configuration forces the async ABI on a function whose
                                       type is not async: wasmparser rejects the `async` canonical option there)

Each has a `…_full_false` theorem and a `…_partial` theorem with the exact extra hypothesis.
Three further statements were false when this file was written and hold since the `fix:` commits of
/repo: `c_dtor_export_name` (97de409), `cpp_post_return_name` (1abddb0), `csharp_post_return_name` (1aeee96).
-/
namespace Witverif.Props.C13
open Witverif.Abi Witverif.Abi.Names

/-! ## Specification sanity (non-vacuity of the spec itself) -/

private def idI : Key := .id ⟨"my-ns", "my-pkg", "my-iface", some "1.2.3"⟩
private def fStr : Func := ⟨false, [.string], some .string⟩
private def fn (kind : FKind) (res item : String) (wa sel : Bool) (sig : Func) : Fn :=
  { kind := kind, res := res, item := item, witAsync := wa, sel := sel, sig := sig }

example : Spec.funcImport .asyncCallback idI (fn .method "my-res" "get-it" true true ⟨true, [.borrow], some .string⟩) =
    ⟨"my-ns:my-pkg/my-iface@1.2.3", "[async-lower][method]my-res.get-it", [.i32, .i32], [.i32]⟩ := by decide
example : Spec.funcExport .asyncCallback idI (fn .free "" "do-it" true true fStr) .callback =
    some ⟨"[callback][async-lift]my-ns:my-pkg/my-iface@1.2.3#do-it", [.i32, .i32, .i32], [.i32]⟩ := by decide
example : Spec.dtor .sync idI "my-res" = some ⟨"my-ns:my-pkg/my-iface@1.2.3#[dtor]my-res", [.i32], []⟩ := by decide
example : Spec.fsIntrinsic .root "f" true (.idx 2) .cancelRead true false =
    some ⟨"[export]$root", "[stream-cancel-read-2]f", [.i32], [.i32]⟩ := by decide
example : (fn .free "" "f" false false ⟨false, [.future (some (.future (some .u32))), .u32], some (.stream (some .u8))⟩).sites =
    [⟨false, false⟩, ⟨false, false⟩, ⟨true, false⟩] := by decide

/-! ## C -/

theorem c_import_names (k : Key) (f : Fn) :
    (C.funcImport k f).module = (Spec.funcImport (Spec.abiOf f) k f).module ∧
    (C.funcImport k f).name = (Spec.funcImport (Spec.abiOf f) k f).name ∧
    (C.taskReturn k f).module = (Spec.taskReturn k f).module ∧
    (C.taskReturn k f).name = (Spec.taskReturn k f).name ∧
    (∀ r, some (C.resourceDropImport k r) = Spec.resourceIntrinsic .sync k r .importedDrop) ∧
    (∀ exported, ∀ d ∈ C.fs (if exported then "[export]" else "") k f,
      ∃ stream ix op a, Spec.siteOk f stream ix = true ∧
        Spec.fsIntrinsic k f.name stream ix op exported a = some d) := by
  refine ⟨by rw [C.funcImport_eq], by rw [C.funcImport_eq], by rw [C.taskReturn_eq], by rw [C.taskReturn_eq], ?_, ?_⟩
  · intro r; rw [spec_importedDrop]; rfl
  · exact fun e => C.fs_names k f e

theorem c_export_names (k : Key) (f : Fn) :
    Spec.funcExport (Spec.abiOf f) k f .normal = some (C.mainExport k f) ∧
    (f.sel = true → Spec.funcExport .asyncCallback k f .callback = some (C.callbackExport k f)) ∧
    (f.sel = false → Spec.funcExport .sync k f .postReturn = some (C.postReturnExport k f)) :=
  ⟨C.mainExport_eq k f, C.callbackExport_eq k f, C.postReturnExport_eq k f⟩

/-- DEFINITIONAL w.r.t. the signature itself: the backend models take their core signatures from
`wasmSignature` (as every generator does: `resolve.wasm_signature(variant, func)`), so what this
theorem establishes is only that the *variant* the model passes is the one belonging to the name
prefix it emits (`[async-lower]` ↔ `GuestImportAsync`, `[async-lift]` ↔ `GuestExportAsync`, the
flattened `task.return`).  That the signature the backend actually *declares in its text* is this
one is not proved here: it is the names-run correspondence (parameter/result types cut out of the
generated C/Rust/Go/… declarations and compared with the model and with wit-parser) that ties it. -/
theorem c_core_sig (k : Key) (f : Fn) :
    (C.funcImport k f).params = norm (wasmSignature (Spec.abiOf f).importVariant f.sig).params ∧
    (C.funcImport k f).results = norm (wasmSignature (Spec.abiOf f).importVariant f.sig).results ∧
    (C.mainExport k f).params = norm (wasmSignature (Spec.abiOf f).exportVariant f.sig).params ∧
    (C.mainExport k f).results = norm (wasmSignature (Spec.abiOf f).exportVariant f.sig).results ∧
    (C.taskReturn k f).params = (Spec.taskReturn k f).params ∧ (C.taskReturn k f).results = [] := by
  have h1 := C.funcImport_eq k f
  have h2 := C.mainExport_eq k f
  have h3 := C.taskReturn_eq k f
  refine ⟨by rw [h1]; rfl, by rw [h1]; rfl, ?_, ?_, by rw [h3], rfl⟩
  · simp only [Spec.funcExport, Option.some.injEq] at h2; rw [← h2]
  · simp only [Spec.funcExport, Option.some.injEq] at h2; rw [← h2]

/-- C's destructor export carries the component model's name.  (This was FALSE until /repo 97de409:
the resource name was snake-cased, `t:t/i#[dtor]my_res` for `my-res` — finding F4, class
`c-dtor-export-snake-case`, refuted here by `c_dtor_export_name_full_false` at the time; the model
follows the fixed code and the statement is now proved in full.) -/
theorem c_dtor_export_name (k : Key) (r : String) (hk : k ≠ .root) :
    ∀ x ∈ C.exportRes k r, x ∈ (Spec.dtor .sync k r).toList := by
  intro x hx
  obtain ⟨m, hm⟩ := worldKey_of_ne_root hk
  simp only [C.exportRes, hm, List.mem_cons, List.not_mem_nil, or_false] at hx
  subst hx
  rw [spec_dtor hm]; simp [C.dtorExport]

example : C.exportRes idI "my-res" = [⟨"my-ns:my-pkg/my-iface@1.2.3#[dtor]my-res", [.i32], []⟩] := by decide

theorem c_world_sound (w : World) (hw : w.WF asyncOk (fun _ _ => True)) :
    (∀ d ∈ C.emit.imports w, d.imp ∈ Spec.allImports w) ∧ (∀ x ∈ C.emit.exports w, x ∈ Spec.allExports w) :=
  ⟨Emit.imports_sound C.sound w hw, Emit.exports_sound C.sound w hw⟩

theorem c_exports_complete (w : World) (hw : w.WF (fun _ _ => True) (fun _ _ => True)) :
    ∀ x ∈ Spec.requiredExports w, x ∈ C.emit.exports w :=
  Emit.exports_complete (fun k f _ => C.complete k f) w hw

/-! ## Rust -/

theorem rust_import_names (k : Key) (f : Fn) :
    (Rust.funcImport k f).module = (Spec.funcImport (Spec.abiOf f) k f).module ∧
    (Rust.funcImport k f).name = (Spec.funcImport (Spec.abiOf f) k f).name ∧
    (Rust.taskReturn k f).module = (Spec.taskReturn k f).module ∧
    (Rust.taskReturn k f).name = (Spec.taskReturn k f).name ∧
    (∀ exported, ∀ d ∈ Rust.fs (if exported then "[export]" else "") k f,
      ∃ stream ix op a, Spec.siteOk f stream ix = true ∧
        Spec.fsIntrinsic k f.name stream ix op exported a = some d) :=
  ⟨by rw [Rust.funcImport_eq], by rw [Rust.funcImport_eq], by rw [Rust.taskReturn_eq], by rw [Rust.taskReturn_eq],
   fun e => Rust.fs_names k f e⟩

theorem rust_export_names (k : Key) (f : Fn) :
    Spec.funcExport (Spec.abiOf f) k f .normal = some (Rust.mainExport k f) ∧
    (f.sel = true → Spec.funcExport .asyncCallback k f .callback = some (Rust.callbackExport k f)) ∧
    (f.sel = false → Spec.funcExport .sync k f .postReturn = some (Rust.postReturnExport k f)) ∧
    (∀ r m, k.worldKey = some m → Rust.exportRes k r = (Spec.dtor .sync k r).toList) := by
  refine ⟨Rust.mainExport_eq k f, Rust.callbackExport_eq k f, Rust.postReturnExport_eq k f, ?_⟩
  intro r m hm
  rw [spec_dtor hm]; simp [Rust.exportRes, hm, Rust.norm_ptr]

/-- DEFINITIONAL w.r.t. the signature itself: the backend models take their core signatures from
`wasmSignature` (as every generator does: `resolve.wasm_signature(variant, func)`), so what this
theorem establishes is only that the *variant* the model passes is the one belonging to the name
prefix it emits (`[async-lower]` ↔ `GuestImportAsync`, `[async-lift]` ↔ `GuestExportAsync`, the
flattened `task.return`).  That the signature the backend actually *declares in its text* is this
one is not proved here: it is the names-run correspondence (parameter/result types cut out of the
generated C/Rust/Go/… declarations and compared with the model and with wit-parser) that ties it. -/
theorem rust_core_sig (k : Key) (f : Fn) :
    (Rust.funcImport k f).params = norm (wasmSignature (Spec.abiOf f).importVariant f.sig).params ∧
    (Rust.funcImport k f).results = norm (wasmSignature (Spec.abiOf f).importVariant f.sig).results ∧
    (Rust.mainExport k f).params = norm (wasmSignature (Spec.abiOf f).exportVariant f.sig).params ∧
    (Rust.mainExport k f).results = norm (wasmSignature (Spec.abiOf f).exportVariant f.sig).results ∧
    (Rust.taskReturn k f).params = (Spec.taskReturn k f).params := by
  have h1 := Rust.funcImport_eq k f
  have h2 := Rust.mainExport_eq k f
  refine ⟨by rw [h1]; rfl, by rw [h1]; rfl, ?_, ?_, by rw [Rust.taskReturn_eq]⟩
  · simp only [Spec.funcExport, Option.some.injEq] at h2; rw [← h2]
  · simp only [Spec.funcExport, Option.some.injEq] at h2; rw [← h2]

theorem rust_world_sound (w : World) (hw : w.WF asyncOk (fun _ _ => True)) :
    (∀ d ∈ Rust.emit.imports w, d.imp ∈ Spec.allImports w) ∧ (∀ x ∈ Rust.emit.exports w, x ∈ Spec.allExports w) :=
  ⟨Emit.imports_sound Rust.sound w hw, Emit.exports_sound Rust.sound w hw⟩

theorem rust_exports_complete (w : World) (hw : w.WF (fun _ _ => True) (fun _ _ => True)) :
    ∀ x ∈ Spec.requiredExports w, x ∈ Rust.emit.exports w :=
  Emit.exports_complete (fun k f _ => Rust.complete k f) w hw

/-! ## Go -/

theorem go_import_names (k : Key) (f : Fn) :
    (Go.funcImport k f).module = (Spec.funcImport (Spec.abiOf f) k f).module ∧
    (Go.funcImport k f).name = (Spec.funcImport (Spec.abiOf f) k f).name ∧
    (Go.taskReturn k f).module = (Spec.taskReturn k f).module ∧
    (Go.taskReturn k f).name = (Spec.taskReturn k f).name ∧
    (∀ exported, ∀ d ∈ Go.fs (!exported) k f,
      ∃ stream ix op a, Spec.siteOk f stream ix = true ∧
        Spec.fsIntrinsic k f.name stream ix op exported a = some d) :=
  ⟨by rw [Go.funcImport_eq], by rw [Go.funcImport_eq], by rw [Go.taskReturn_eq], by rw [Go.taskReturn_eq],
   fun e => Go.fs_names k f e⟩

theorem go_export_names (k : Key) (f : Fn) :
    Spec.funcExport (Spec.abiOf f) k f .normal = some (Go.mainExport k f) ∧
    (f.sel = true → Spec.funcExport .asyncCallback k f .callback = some (Go.callbackExport k f)) ∧
    (f.sel = false → Spec.funcExport .sync k f .postReturn = some (Go.postReturnExport k f)) ∧
    (∀ r m, k.worldKey = some m → Go.exportRes k r = (Spec.dtor .sync k r).toList) := by
  refine ⟨Go.mainExport_eq k f, Go.callbackExport_eq k f, Go.postReturnExport_eq k f, ?_⟩
  intro r m hm
  rw [spec_dtor hm]; simp [Go.exportRes, rootOr_of_worldKey hm]

/-- DEFINITIONAL w.r.t. the signature itself: the backend models take their core signatures from
`wasmSignature` (as every generator does: `resolve.wasm_signature(variant, func)`), so what this
theorem establishes is only that the *variant* the model passes is the one belonging to the name
prefix it emits (`[async-lower]` ↔ `GuestImportAsync`, `[async-lift]` ↔ `GuestExportAsync`, the
flattened `task.return`).  That the signature the backend actually *declares in its text* is this
one is not proved here: it is the names-run correspondence (parameter/result types cut out of the
generated C/Rust/Go/… declarations and compared with the model and with wit-parser) that ties it. -/
theorem go_core_sig (k : Key) (f : Fn) :
    (Go.funcImport k f).params = norm (wasmSignature (Spec.abiOf f).importVariant f.sig).params ∧
    (Go.funcImport k f).results = norm (wasmSignature (Spec.abiOf f).importVariant f.sig).results ∧
    (Go.mainExport k f).params = norm (wasmSignature (Spec.abiOf f).exportVariant f.sig).params ∧
    (Go.mainExport k f).results = norm (wasmSignature (Spec.abiOf f).exportVariant f.sig).results ∧
    (Go.taskReturn k f).params = (Spec.taskReturn k f).params := by
  have h1 := Go.funcImport_eq k f
  have h2 := Go.mainExport_eq k f
  refine ⟨by rw [h1]; rfl, by rw [h1]; rfl, ?_, ?_, by rw [Go.taskReturn_eq]⟩
  · simp only [Spec.funcExport, Option.some.injEq] at h2; rw [← h2]
  · simp only [Spec.funcExport, Option.some.injEq] at h2; rw [← h2]

theorem go_world_sound (w : World) (hw : w.WF asyncOk (fun _ _ => True)) :
    (∀ d ∈ Go.emit.imports w, d.imp ∈ Spec.allImports w) ∧ (∀ x ∈ Go.emit.exports w, x ∈ Spec.allExports w) :=
  ⟨Emit.imports_sound Go.sound w hw, Emit.exports_sound Go.sound w hw⟩

theorem go_exports_complete (w : World) (hw : w.WF (fun _ _ => True) (fun _ _ => True)) :
    ∀ x ∈ Spec.requiredExports w, x ∈ Go.emit.exports w :=
  Emit.exports_complete (fun k f _ => Go.complete k f) w hw

/-! ## D (no async support: the side condition of completeness is `sel = false`) -/

theorem d_import_names (k : Key) (f : Fn) : D.funcImport k f = Spec.funcImport .sync k f := D.funcImport_eq k f

theorem d_export_names (k : Key) (f : Fn) :
    Spec.funcExport .sync k f .normal = some (D.mainExport k f) ∧
    Spec.funcExport .sync k f .postReturn = some (D.postReturnExport k f) ∧
    (∀ r m, k.worldKey = some m → D.exportRes k r = (Spec.dtor .sync k r).toList) := by
  refine ⟨D.mainExport_eq k f, D.postReturnExport_eq k f, ?_⟩
  intro r m hm
  rw [spec_dtor hm]; simp [D.exportRes, rootOr_of_worldKey hm]

/-- DEFINITIONAL w.r.t. the signature itself: the backend models take their core signatures from
`wasmSignature` (as every generator does: `resolve.wasm_signature(variant, func)`), so what this
theorem establishes is only that the *variant* the model passes is the one belonging to the name
prefix it emits (`[async-lower]` ↔ `GuestImportAsync`, `[async-lift]` ↔ `GuestExportAsync`, the
flattened `task.return`).  That the signature the backend actually *declares in its text* is this
one is not proved here: it is the names-run correspondence (parameter/result types cut out of the
generated C/Rust/Go/… declarations and compared with the model and with wit-parser) that ties it. -/
theorem d_core_sig (k : Key) (f : Fn) :
    (D.funcImport k f).params = norm (wasmSignature .guestImport f.sig).params ∧
    (D.funcImport k f).results = norm (wasmSignature .guestImport f.sig).results ∧
    (D.mainExport k f).params = norm (wasmSignature .guestExport f.sig).params ∧
    (D.mainExport k f).results = norm (wasmSignature .guestExport f.sig).results := ⟨rfl, rfl, rfl, rfl⟩

theorem d_world_sound (w : World) (hw : w.WF (fun _ _ => True) (fun _ _ => True)) :
    (∀ d ∈ D.emit.imports w, d.imp ∈ Spec.allImports w) ∧ (∀ x ∈ D.emit.exports w, x ∈ Spec.allExports w) :=
  ⟨Emit.imports_sound D.sound w hw, Emit.exports_sound D.sound w hw⟩

theorem d_exports_complete (w : World) (hw : w.WF (fun _ f => f.sel = false) (fun _ _ => True)) :
    ∀ x ∈ Spec.requiredExports w, x ∈ D.emit.exports w :=
  Emit.exports_complete (fun k f hs => D.complete k f hs) w hw

/-! ## C++ (no async support) -/

theorem cpp_import_names (k : Key) (f : Fn) : Cpp.funcImport k f = Spec.funcImport .sync k f := Cpp.funcImport_eq k f

/-- Every export C++ emits for a function is a name of the world.  (FALSE until /repo 1abddb0: the
post-return export of a world-level function was `cabi_post_` + `make_external_component(name)`,
e.g. `cabi_post_run_it` for `run-it` — class `cpp-world-post-return-mangled`, refuted here by
`cpp_post_return_name_full_false` at the time; the model follows the fixed code.) -/
theorem cpp_post_return_name (k : Key) (f : Fn) : ∀ x ∈ Cpp.exportFn k f, x ∈ Spec.exportsOfFn k f :=
  Cpp.exportFn_sound k f

theorem cpp_export_names (k : Key) (f : Fn) :
    Spec.funcExport .sync k f .normal = some (Cpp.mainExport k f) ∧
    Spec.funcExport .sync k f .postReturn = some (Cpp.postReturnExport k f) :=
  ⟨Cpp.mainExport_eq k f, Cpp.postReturnExport_eq k f⟩

example : Cpp.postReturnExport .root (fn .free "" "run-it" false false ⟨false, [], some .string⟩) =
    ⟨"cabi_post_run-it", [.i32], []⟩ := by decide

/-- DEFINITIONAL w.r.t. the signature itself: the backend models take their core signatures from
`wasmSignature` (as every generator does: `resolve.wasm_signature(variant, func)`), so what this
theorem establishes is only that the *variant* the model passes is the one belonging to the name
prefix it emits (`[async-lower]` ↔ `GuestImportAsync`, `[async-lift]` ↔ `GuestExportAsync`, the
flattened `task.return`).  That the signature the backend actually *declares in its text* is this
one is not proved here: it is the names-run correspondence (parameter/result types cut out of the
generated C/Rust/Go/… declarations and compared with the model and with wit-parser) that ties it. -/
theorem cpp_core_sig (k : Key) (f : Fn) :
    (Cpp.funcImport k f).params = norm (wasmSignature .guestImport f.sig).params ∧
    (Cpp.funcImport k f).results = norm (wasmSignature .guestImport f.sig).results ∧
    (Cpp.mainExport k f).params = norm (wasmSignature .guestExport f.sig).params ∧
    (Cpp.mainExport k f).results = norm (wasmSignature .guestExport f.sig).results := ⟨rfl, rfl, rfl, rfl⟩

theorem cpp_world_sound (w : World) (hw : w.WF (fun _ _ => True) (fun _ _ => True)) :
    (∀ d ∈ Cpp.emit.imports w, d.imp ∈ Spec.allImports w) ∧ (∀ x ∈ Cpp.emit.exports w, x ∈ Spec.allExports w) :=
  ⟨Emit.imports_sound Cpp.sound w hw, Emit.exports_sound Cpp.sound w hw⟩

theorem cpp_exports_complete (w : World) (hw : w.WF (fun _ f => f.sel = false) (fun _ _ => True)) :
    ∀ x ∈ Spec.requiredExports w, x ∈ Cpp.emit.exports w :=
  Emit.exports_complete (fun k f hs => Cpp.complete k f hs) w hw

/-! ## MoonBit -/

theorem moonbit_import_names (k : Key) (f : Fn) (ht : MoonBit.tidsOk f) :
    (∀ d ∈ MoonBit.importFn k f, d.must = true → d.imp = Spec.funcImport (Spec.abiOf f) k f) ∧
    (∀ exported, ∀ d ∈ MoonBit.fs exported k f, d ∈ Spec.fsAll k f exported) := by
  refine ⟨?_, fun e => MoonBit.fs_sound k f e ht⟩
  intro d hd hm
  simp only [MoonBit.importFn, List.mem_cons, List.mem_map] at hd
  rcases hd with rfl | ⟨i, _, rfl⟩
  · rfl
  · simp [opt] at hm

theorem moonbit_export_names (k : Key) (f : Fn) (hok : asyncOk k f) :
    ∀ x ∈ MoonBit.exportFn k f, x ∈ Spec.exportsOfFn k f := MoonBit.exportFn_sound k f hok

theorem moonbit_world_sound (w : World) (hw : w.WF MoonBit.okFn (fun _ _ => True)) :
    (∀ d ∈ MoonBit.emit.imports w, d.imp ∈ Spec.allImports w) ∧
    (∀ x ∈ MoonBit.emit.exports w, x ∈ Spec.allExports w) :=
  ⟨Emit.imports_sound MoonBit.sound w hw, Emit.exports_sound MoonBit.sound w hw⟩

theorem moonbit_exports_complete (w : World) (hw : w.WF (fun _ _ => True) (fun _ _ => True)) :
    ∀ x ∈ Spec.requiredExports w, x ∈ MoonBit.emit.exports w :=
  Emit.exports_complete (fun k f _ => MoonBit.complete k f) w hw

/-! ## C# -/

theorem csharp_import_names (k : Key) (f : Fn) :
    CSharp.funcImport k f = Spec.funcImport (Spec.abiOf f) k f ∧ CSharp.taskReturn k f = Spec.taskReturn k f :=
  ⟨CSharp.funcImport_eq k f, CSharp.taskReturn_eq k f⟩

theorem csharp_export_names (k : Key) (f : Fn) :
    Spec.funcExport (Spec.abiOf f) k f .normal = some (CSharp.mainExport k f) ∧
    (f.sel = true → Spec.funcExport .asyncCallback k f .callback = some (CSharp.callbackExport k f)) ∧
    (f.sel = false → Spec.funcExport .sync k f .postReturn = some (CSharp.postReturnExport k f)) :=
  ⟨CSharp.mainExport_eq k f, CSharp.callbackExport_eq k f, CSharp.postReturnExport_eq k f⟩

/-- Under a valid async selection every export C# emits for a function is a name of the world.
(FALSE until /repo 1aeee96: an async export with a string/list result additionally exported
`cabi_post_[async-lift]<name>` — class `csharp-async-post-return-ignored`, refuted here by
`csharp_post_return_name_full_false` at the time; the model follows the fixed code.) -/
theorem csharp_post_return_name (k : Key) (f : Fn) (h : asyncOk k f) :
    ∀ x ∈ CSharp.exportFn k f, x ∈ Spec.exportsOfFn k f := CSharp.exportFn_sound k f h

example : CSharp.exportFn .root (fn .free "" "get" true true ⟨false, [], some .string⟩) =
    [⟨"[async-lift]get", [], [.i32]⟩, ⟨"[callback][async-lift]get", [.i32, .i32, .i32], [.i32]⟩] := by decide

/-- the loop of `add_futures_or_streams` numbers the *generated entries* (first occurrence of each
payload key in lift/lower order, per interface and per kind), not the payload sites of a function -/
theorem csharp_fs_index_is_generation_count (module : String) (stream : Bool) (infos : List CSharp.FutureInfo) :
    CSharp.addFuturesOrStreams module stream infos =
      ((CSharp.generated infos []).zipIdx 0).flatMap
        (fun p => CSharp.fsDecls module (kindStr stream) stream p.2 p.1.name) :=
  CSharp.fsLoop_eq module stream infos [] 0

private def csW : World :=
  ⟨[.iface ⟨.name "i", [fn .free "" "f1" false false ⟨false, [.future (some .u32)], none⟩,
                         fn .free "" "f2" false false ⟨false, [.future (some .string)], none⟩], []⟩], []⟩

/-- FULL STATEMENT (false) on a witness world: `interface i { f1: func(x: future<u32>); f2: func(y: future<string>); }`
imported.  The second generated entry is numbered 1 although `f2` has a single payload site (index 0):
class `csharp-future-stream-intrinsic-names`. -/
theorem csharp_fs_intrinsic_names_full_false :
    ¬ ∀ d ∈ CSharp.addFuturesOrStreams "i" false [⟨"f1", 0⟩, ⟨"f2", 1⟩], d ∈ Spec.allImports csW := by
  intro h
  have := h ⟨"i", "[future-new-1]f2", [], [.i64]⟩ (by decide)
  revert this; decide

/-- … and the eighth declaration of every entry (`drop-writeable`) is never a name of the world -/
theorem csharp_drop_writeable_not_a_name :
    (⟨"i", "[future-drop-writeable-0]f1", [.i32], []⟩ : Imp) ∈ CSharp.addFuturesOrStreams "i" false [⟨"f1", 0⟩] ∧
    (⟨"i", "[future-drop-writeable-0]f1", [.i32], []⟩ : Imp) ∉ Spec.allImports csW := by decide

/-- what does hold: the first seven declarations of an entry are the spec's names *for index
`index` of a function called `name`* — right exactly when the generation count happens to be the
site position and the recorded name is the function's full name -/
theorem csharp_fs_intrinsic_names_partial (k : Key) (name : String) (exported stream : Bool) (index : Nat) :
    ∀ d ∈ (CSharp.fsDecls ((if exported then "[export]" else "") ++ rootOr k) (kindStr stream) stream index name).take 7,
      ∃ op a, Spec.fsIntrinsic k name stream (.idx index) op exported a = some d :=
  CSharp.fsDecls_take7_spec k name exported stream index

/-- DEFINITIONAL w.r.t. the signature itself: the backend models take their core signatures from
`wasmSignature` (as every generator does: `resolve.wasm_signature(variant, func)`), so what this
theorem establishes is only that the *variant* the model passes is the one belonging to the name
prefix it emits (`[async-lower]` ↔ `GuestImportAsync`, `[async-lift]` ↔ `GuestExportAsync`, the
flattened `task.return`).  That the signature the backend actually *declares in its text* is this
one is not proved here: it is the names-run correspondence (parameter/result types cut out of the
generated C/Rust/Go/… declarations and compared with the model and with wit-parser) that ties it. -/
theorem csharp_core_sig (k : Key) (f : Fn) :
    (CSharp.funcImport k f).params = norm (wasmSignature (Spec.abiOf f).importVariant f.sig).params ∧
    (CSharp.mainExport k f).params = norm (wasmSignature (Spec.abiOf f).exportVariant f.sig).params ∧
    (CSharp.mainExport k f).results = norm (wasmSignature (Spec.abiOf f).exportVariant f.sig).results := by
  have h1 := CSharp.funcImport_eq k f
  have h2 := CSharp.mainExport_eq k f
  refine ⟨by rw [h1]; rfl, ?_, ?_⟩
  · simp only [Spec.funcExport, Option.some.injEq] at h2; rw [← h2]
  · simp only [Spec.funcExport, Option.some.injEq] at h2; rw [← h2]

/-- class `csharp-world-resource-treated-as-exported`: `world foo { resource x; export return-resource: func() -> x; }`
— `x` is an *imported* type of the world, yet as soon as the world exports a function C# emits the
exported-resource glue for it: the export `[dtor]x` (silently ignored by the encoder) and the imports
`[export]$root` `[resource-new]x` / `[resource-rep]x` (rejected: "not a local resource"). -/
theorem csharp_world_resource_full_false :
    let w : World := ⟨[.rtype "x"], [.func (fn .free "" "return-resource" false false ⟨false, [], some .own⟩)]⟩
    (⟨"[dtor]x", [.i32], []⟩ : Exp) ∈ CSharp.emit.exports w ∧ (⟨"[dtor]x", [.i32], []⟩ : Exp) ∉ Spec.allExports w ∧
    (⟨"[export]$root", "[resource-new]x", [.i32], [.i32]⟩ : Imp) ∈ (CSharp.emit.imports w).map (·.imp) ∧
    (⟨"[export]$root", "[resource-new]x", [.i32], [.i32]⟩ : Imp) ∉ Spec.allImports w := by decide

theorem csharp_world_sound (w : World) (hw : w.WF asyncOk (fun _ _ => True) CSharp.okWorld) :
    (∀ d ∈ CSharp.emit.imports w, d.imp ∈ Spec.allImports w) ∧ (∀ x ∈ CSharp.emit.exports w, x ∈ Spec.allExports w) :=
  ⟨Emit.imports_sound CSharp.sound w hw, Emit.exports_sound CSharp.sound w hw⟩

theorem csharp_exports_complete (w : World) (hw : w.WF (fun _ _ => True) (fun _ _ => True)) :
    ∀ x ∈ Spec.requiredExports w, x ∈ CSharp.emit.exports w :=
  Emit.exports_complete (fun k f _ => CSharp.complete k f) w hw

/-! ## The async selection (all generators that take `--async`) -/

/-- FULL STATEMENT (false): whatever the configuration selects, the function import is a name of the world. -/
def AsyncSelectionSound : Prop := ∀ k f, C.funcImport k f ∈ Spec.importsOfFn k f

/-- class `async-abi-forced-on-sync-function`: `--async=all` on `import f: func(x: u32) -> u32`
binds `[async-lower]f`; the component model only allows the async ABI for `async func` types
(wasmparser: "the `async` canonical option requires an async function type"). -/
theorem async_selection_sound_full_false : ¬ AsyncSelectionSound := by
  intro h
  have := h .root (fn .free "" "f" false true ⟨false, [.u32], some .u32⟩)
  revert this; decide

theorem async_selection_sound_partial (k : Key) (f : Fn) (h : asyncOk k f) :
    C.funcImport k f ∈ Spec.importsOfFn k f ∧ Rust.funcImport k f ∈ Spec.importsOfFn k f ∧
    Go.funcImport k f ∈ Spec.importsOfFn k f := by
  have key : Spec.funcImport (Spec.abiOf f) k f ∈ Spec.importsOfFn k f := by
    unfold Spec.abiOf
    cases hs : f.sel with
    | false => simpa using mem_importsOfFn_sync
    | true => simpa using mem_importsOfFn_async (h hs)
  exact ⟨by rw [C.funcImport_eq]; exact key, by rw [Rust.funcImport_eq]; exact key, by rw [Go.funcImport_eq]; exact key⟩

/-! ## Non-vacuity of the world-level theorems: a world with every item kind -/

private def exW : World :=
  ⟨[.iface ⟨idI, [fn .method "res" "get-it" false false ⟨true, [.borrow], some .string⟩,
                  fn .free "" "go-async" true true ⟨false, [.future (some (.future (some .u32))), .stream none], some (.stream (some .u8))⟩],
           ["res"]⟩,
    .func (fn .free "" "top-fn" false false ⟨false, [.u32], some .string⟩),
    .rtype "rr"],
   [.iface ⟨.name "exp-inl", [fn .free "" "g-h" false false fStr,
                              fn .ctor "res" "constructor" false false ⟨false, [.u32], some .own⟩], ["res"]⟩,
    .func (fn .free "" "run" true true ⟨false, [.list .u8], some (.list .u8)⟩)]⟩

/-- the example world satisfies the side conditions of `c_world_sound` (non-vacuity) -/
theorem example_world_wf : exW.WF asyncOk (fun _ _ => True) where
  world := trivial
  ifaceKey := by
    intro it hit i h
    simp only [exW, List.cons_append, List.nil_append, List.mem_cons, List.not_mem_nil, or_false] at hit
    rcases hit with rfl | rfl | rfl | rfl | rfl <;> simp_all <;> subst h <;> decide
  fnI := by
    intro it hit i h f hf
    simp only [exW, List.cons_append, List.nil_append, List.mem_cons, List.not_mem_nil, or_false] at hit
    rcases hit with rfl | rfl | rfl | rfl | rfl <;> simp_all <;> subst h <;>
      simp only [List.mem_cons, List.not_mem_nil, or_false] at hf <;>
      rcases hf with rfl | rfl <;> intro hs <;> first | rfl | exact absurd hs (by decide)
  fnW := by
    intro it hit f h
    simp only [exW, List.cons_append, List.nil_append, List.mem_cons, List.not_mem_nil, or_false] at hit
    rcases hit with rfl | rfl | rfl | rfl | rfl <;> simp_all <;> subst h <;> intro hs <;>
      first | rfl | exact absurd hs (by decide)
  resI := by
    intro it hit i h r hr
    simp only [exW, List.mem_cons, List.not_mem_nil, or_false] at hit
    rcases hit with rfl | rfl <;> simp_all


example : (∀ d ∈ C.emit.imports exW, d.imp ∈ Spec.allImports exW) ∧ (∀ x ∈ C.emit.exports exW, x ∈ Spec.allExports exW) :=
  c_world_sound exW example_world_wf
example : (C.emit.exports exW).length = 7 ∧ (C.emit.imports exW).length ≥ 40 := by decide
example : (⟨"[callback][async-lift]run", [.i32, .i32, .i32], [.i32]⟩ : Exp) ∈ Spec.requiredExports exW := by decide
example : (⟨"exp-inl#[dtor]res", [.i32], []⟩ : Exp) ∈ C.emit.exports exW := by decide

end Witverif.Props.C13
