import Witverif.Abi.NamesBackends
namespace Witverif.Props.C13
open Witverif.Abi Witverif.Abi.Names
theorem placeholder_module_root : Spec.moduleOf .root = "$root" := rfl
end Witverif.Props.C13
