import Witverif.Proofs.Task
import Witverif.Proofs.ExecTasks
/-!
# C22 — the export task executor answers callbacks consistently and frees tasks once

Property theorems only (invariant and case analysis: `Proofs/Task.lean`).

System: the executor LTS `Task.step : St → Label → Step St` of `Async/Task.lean` — `TaskState::callback`
with an explicit program counter, `start_task` / `callback` (driver `start`, context slot 0) and `block_on`
(driver `block`), `Drop for TaskState`, the `SharedTaskState` reference count — for both feature
settings of `inter-task-wakeup` (`itw`).  A label carries everything the executor does not decide:
what the polled Rust futures did (register / unregister waitables, wake, clone / drop task references,
result of `Tasks::poll_next`: both the `async-spawn` and the plain variant are instances), which event
the host delivered, every built-in's answer.  `Reach d itw s`: `s` is reachable from the initial state
by ANY sequence of labels whose steps do not panic.  All theorems: every label sequence — every event
order, every task body, every `FuturesUnordered` polling order, every host answer; no depth bound.

`Answers s s' code`: the step `s → s'` returns WAIT/YIELD to the host (back to `idle`).
`Exits s s'`: the step decides EXIT (enters `Drop for TaskState`).
-/
namespace Witverif.Props.C22
open Witverif.Async Witverif.Async.Task Witverif.Generated

variable {d : Driver} {itw : Bool} {s s' : St} {l : Task.Label} {evs : List Ev}

/-- **exit_iff_no_work (⇒).**  A callback decides EXIT only if its event is EVENT_CANCEL, or
`poll_next` reported the Rust tasks done AND the waitables map is empty (`remaining_work()` false). -/
theorem exit_only_if_no_work (hs : step s l = .ok s' evs) (hx : Exits s s') :
    s'.ev0 = Limits.eventCancel ∨ (s.pc = .afterPoll true ∧ s.tasksEmpty = true ∧ s.waitables = []) := by
  obtain ⟨h1, h2⟩ := hx
  cases l <;> step_split hs
  all_goals (obtain ⟨hq, _⟩ := hs; subst hq)
  all_goals try (cases ‹Next›)
  all_goals simp_all [Next.pc]

/-- **exit_iff_no_work (⇐, work left).**  Whenever a callback answers WAIT or YIELD instead, the event
was not EVENT_CANCEL and work is left: a Rust task is unfinished or a waitable is registered. -/
theorem no_exit_only_if_work (hr : Reach d itw s) (hs : step s l = .ok s' evs) {code : CbCode} (ha : Answers s s' code) :
    s.ev0 ≠ Limits.eventCancel ∧ (s.tasksEmpty = false ∨ s.waitables ≠ []) := by
  have hi := reach_inv hr
  obtain ⟨h1, h2, h3⟩ := ha
  refine ⟨hi.evRun h1, ?_⟩
  have hn := hi.noRead
  have hne := hi.sleepNE
  cases l <;> step_split hs
  all_goals (obtain ⟨hq, _⟩ := hs; subst hq)
  all_goals try (cases ‹Next›)
  all_goals simp_all [Next.pc, running]

/-- **exit_iff_no_work (⇐, cancel).**  EVENT_CANCEL always makes the callback decide EXIT. -/
theorem cancel_exits {w c : Nat} (hl : s.driver = .start ∨ (s.last.isSome = true ∧ s.set.isSome = true))
    (hs : step s (.call Limits.eventCancel w c) = .ok s' evs) :
    s'.pc = .dropCancelWake ∧ s'.ev0 = Limits.eventCancel := by
  step_split hs
  all_goals (obtain ⟨hq, _⟩ := hs; subst hq)
  all_goals (rcases hl with hl | hl <;> simp_all)

/-- **exit_iff_no_work (⇐, no work).**  With the Rust tasks done and no waitable registered the callback
does decide EXIT (the step after `poll_next` cannot answer anything else and does not panic). -/
theorem no_work_exits (hp : s.pc = .afterPoll true) (ht : s.tasksEmpty = true) (hw : s.waitables = []) (e w c : Nat) :
    ∃ s', step s (.decide e w c) = .ok s' [] ∧ s'.pc = .dropCancelWake := by
  simp [step, hp, ht, hw]

/-- **wait_on_own_set.**  Every WAIT names the waitable set this task created itself (never 0), and the
runtime has something outstanding: a key in its waitables map, or the pending wake-up read of the inter-task
stream.  (This is the runtime's own bookkeeping; that the HOST's set then really has such a member is
`wait_set_has_member` below, which needs `set_in_sync`.) -/
theorem wait_on_own_set (hr : Reach d itw s) (hs : step s l = .ok s' evs) {x : Nat} (ha : Answers s s' (.wait x)) :
    s'.set = some x ∧ x ≠ 0 ∧ (s'.waitables ≠ [] ∨ s'.wk.reading = true) := by
  have hi := reach_inv hr
  have hi' := inv_step hi hs
  obtain ⟨h1, h2, h3⟩ := ha
  have hset : s'.set = some x ∧ (s'.waitables ≠ [] ∨ s'.wk.reading = true) := by
    cases l <;> step_split hs
    all_goals (obtain ⟨hq, _⟩ := hs; subst hq)
    all_goals try (cases ‹Next›)
    all_goals simp_all [Next.pc, running]
  refine ⟨hset.1, ?_, hset.2⟩
  intro h0
  exact hi'.setNZ (by rw [hset.1, h0])

/-- **wait_on_own_set (the host's view).**  `members` records what this executor joined to its set
(`waitable.join(w, set)`) and did not take out again (`waitable.join(w, 0)`): as long as nobody registers the
runtime's internal stream handle through the C ABI (`Legal`), it is exactly the keys of the waitables map
plus the wake-up stream's reader while its read is pending. -/
theorem set_in_sync (hr : ReachL d itw s) :
    (∀ x, x ∈ s.members ↔ (x ∈ s.waitables ∨ pendingReader s x)) ∧
    (∀ r w, s.wk.stream = some (r, w) → r ∉ s.waitables) :=
  ⟨(reachL_invM hr).sync, (reachL_invM hr).fresh⟩

/-- … hence every WAIT names a set that — in the host's view — has a member whose event is outstanding. -/
theorem wait_set_has_member (hr : ReachL d itw s) (hl : Legal s l) (hs : step s l = .ok s' evs) {x : Nat}
    (ha : Answers s s' (.wait x)) : s'.set = some x ∧ ∃ m, m ∈ s'.members := by
  have hw := wait_on_own_set hr.reach hs ha
  have hm := reachL_invM (ReachL.step hr hl hs)
  have hi' := inv_step (reach_inv hr.reach) hs
  refine ⟨hw.1, ?_⟩
  rcases hw.2.2 with h | h
  · cases hwl : s'.waitables with
    | nil => exact absurd hwl h
    | cons a t => exact ⟨a, (hm.sync a).2 (Or.inl (by simp [hwl]))⟩
  · have hst := (hi'.readItw h).2.1
    cases hstream : s'.wk.stream with
    | none => simp [hstream] at hst
    | some p => exact ⟨p.1, (hm.sync p.1).2 (Or.inr ⟨h, p.2, by simp [hstream]⟩)⟩

/-- **yield_only_if_woken_during_poll.**  A YIELD is answered only if `wake_by_ref` ran after the sleep
state was last reset to POLLING, i.e. during this poll of the tasks — and the tasks were polled and are
not finished. -/
theorem yield_only_if_woken_during_poll (hr : Reach d itw s) (hs : step s l = .ok s' evs) (ha : Answers s s' .yield) :
    s.woken = true ∧ s.polled = true ∧ s.tasksEmpty = false ∧ s.pc = .afterPoll false := by
  have hi := reach_inv hr
  obtain ⟨h1, h2, h3⟩ := ha
  have hp := hi.pollW
  have hq := hi.polledA
  cases l <;> step_split hs
  all_goals (obtain ⟨hq, _⟩ := hs; subst hq)
  all_goals try (cases ‹Next›)
  all_goals simp_all [Next.pc, running]

/-- **context_slot_discipline.**  With `start_task`/`callback`, context slot 0 holds the boxed task state
exactly between callbacks and is null while one runs, while the state is being destroyed, and after
exit; `block_on` never touches the slot. -/
theorem context_slot_discipline (hr : Reach d itw s) :
    (s.driver = .start → (s.ctx = true ↔ s.pc = .idle)) ∧ (s.driver = .block → s.ctx = false) :=
  ⟨(reach_inv hr).ctxStart, fun h => ((reach_inv hr).ctxBlock h).1⟩

/-- … and as built-in calls: a callback starts by reading the slot (non-null) and nulling it; an answer
WAIT/YIELD ends by storing the state back, immediately before the code is returned. -/
theorem context_slot_calls (hd : s.driver = .start) :
    (∀ e w c, step s (.call e w c) = .ok s' evs → ∃ rest, evs = .ctxGet true :: .ctxSet false :: rest) ∧
    (∀ code, step s l = .ok s' evs → Answers s s' code → ∃ pre, evs = pre ++ [.ctxSet true, .cb code]) := by
  constructor
  · intro e w c hs
    step_split hs
    all_goals simp_all
    all_goals (obtain ⟨_, hq⟩ := hs; subst hq; exact ⟨_, rfl⟩)
  · intro code hs ⟨h1, h2, h3⟩
    cases l <;> step_split hs
    all_goals (obtain ⟨hq, he⟩ := hs; subst hq; subst he)
    all_goals try (cases ‹Next›)
    all_goals simp_all [Next.pc, running]
    all_goals (first | exact ⟨[], rfl⟩ | exact ⟨[_], rfl⟩ | exact ⟨[_, _], rfl⟩ | exact ⟨[_, _, _], rfl⟩ | exact ⟨[_, _, _, _], rfl⟩)

/-- **spawned_finish_before_exit.**  An EXIT that is not a cancellation happens only after
`Tasks::poll_next` returned `Ready` with `tasks.is_empty()`: every future of the task — the root and
everything spawned into it — has finished.  (That `poll_next` adopts every spawned future before it can
report `Ready` is `Props.C22.tasks_ready_iff_empty` below, on the model of spawn.rs.) -/
theorem spawned_finish_before_exit (hs : step s l = .ok s' evs) (hx : Exits s s') (hc : s'.ev0 ≠ Limits.eventCancel) :
    s.pc = .afterPoll true ∧ s.tasksEmpty = true := by
  rcases exit_only_if_no_work hs hx with h | ⟨h1, h2, _⟩
  · exact absurd h hc
  · exact ⟨h1, h2⟩

/-- … and `Tasks::poll_next` — both variants: spawn.rs over `FuturesUnordered` (any number of spawned
futures, any wake pattern) and spawn_disabled.rs, as modelled in `Async/ExecScript.lean` and compared
with the real runtime trace by trace — answers `Ready` only when no future of the task is left and (spawn
variant) nothing spawned is still waiting to be adopted.  `FuturesUnordered` itself is an assumption:
its model follows futures-util 0.3 (FIFO ready queue, `Ready(None)` only when empty). -/
theorem tasks_ready_iff_empty {sys sys' : Exec.Sys} {t : Nat} {empty : Bool}
    (h : Exec.tasksPollNext sys t = (sys', true, empty)) :
    Exec.NoFutures sys' t ∧ (sys.build.spawn = true → sys'.spawned = []) :=
  Exec.tasksPollNext_ready h

/-- **legal_steps_never_panic.**  From every state reachable by legal labels, every step that
is enabled — right program point; host and user code keep their contracts, see `Enabled` in
`Proofs/Task.lean` — succeeds: none of the executor's `unwrap()`s, `assert!`s and `unreachable!()`s
(`waitables.remove(&w).unwrap()`, `waitable_set…unwrap()`, `assert!(me.tasks.is_empty())`,
`NonZeroU32::new(..).unwrap()`, `assert_eq!(rc, BLOCKED)`, …) can fire.
`Enabled` contains only contracts of the host and of user code, among them the two DOCUMENTED limitations of
builds without the inter-task-wakeup feature (a task must not sleep with nothing registered; nobody may
wake a sleeping task).  The two situations in which the code used to panic on a legal schedule — `block_on`
resuming after YIELD without a waitable set, and a wake of a task left asleep by a cancellation — were
repaired in /repo (`block_on_resumes` below, `Props.C23.wake_after_exit_is_noop`) and are no longer excluded. -/
theorem legal_steps_never_panic (hr : ReachL d itw s) (he : Enabled s l) : ∃ s' evs, step s l = .ok s' evs := by
  cases h : step s l with
  | ok s' evs => exact ⟨s', evs, rfl⟩
  | panic m e => exact absurd h (fun h => never_panic (reach_inv hr.reach) (reachL_invM hr) he h)

/-- the preconditions of `Enabled` that speak about the past are established by the preceding legal label:
an event for a member of the set is what `deliver` gets; `poll_next`'s consistent answer is what `decide` sees -/
theorem enabled_history :
    (∀ e w c, step s (.call e w c) = .ok s' evs → (s.driver = .start ∨ (s.last.isSome = true ∧ s.set.isSome = true)) →
      e ≠ Limits.eventNone → e ≠ Limits.eventCancel → w ∈ s.members →
      ∃ n, s'.pc = .deliver w c n ∧ w ∈ s'.members) ∧
    (∀ r, step s (.pollDone r r) = .ok s' evs → s'.pc = .afterPoll s'.tasksEmpty) := by
  constructor
  · intro e w c hs hd h0 h6 hm
    step_split hs
    all_goals (obtain ⟨hq, _⟩ := hs; subst hq)
    all_goals (rcases hd with hd | hd <;> simp_all)
  · intro r hs
    step_split hs
    all_goals (obtain ⟨hq, _⟩ := hs; subst hq)
    all_goals simp_all

/-- **task_dropped_once (progress).**  Once a callback has decided EXIT the executor's own steps — cancel
the wake-up read, run the destructors of the remaining futures, drop the fields — are all enabled and lead
to `gone` with the destructor having run exactly once (the destructors themselves are user code: their
wakes / unregistrations are further enabled labels in between). -/
theorem exit_reaches_gone (hr : ReachL d itw s) (hp : s.pc = .dropCancelWake) (ans : Nat) :
    ∃ sG, (run s [.cancelRead ans, .dropTasksDone, .tau] = some sG ∨ run s [.cancelRead ans, .tau] = some sG) ∧
      sG.pc = .gone ∧ sG.drops = 1 ∧ sG.last = some .exit := by
  obtain ⟨s1, e1, h1⟩ := legal_steps_never_panic hr (l := .cancelRead ans) (Or.inr hp)
  have hr1 : ReachL d itw s1 := ReachL.step (l := .cancelRead ans) hr trivial h1
  have hpc : s1.pc = .dropTasks ∨ s1.pc = .dropFields := by
    have h1' := h1
    step_split h1'
    all_goals (obtain ⟨hq, _⟩ := h1'; subst hq)
    all_goals simp_all
  have fin : ∀ s2, ReachL d itw s2 → s2.pc = .dropFields →
      ∃ sG, run s2 [.tau] = some sG ∧ sG.pc = .gone ∧ sG.drops = 1 ∧ sG.last = some .exit := by
    intro s2 hr2 hp2
    obtain ⟨s3, e3, h3⟩ := legal_steps_never_panic hr2 (l := .tau) (Or.inr (Or.inr hp2))
    have hi3 := reach_inv (ReachL.step (l := .tau) hr2 trivial h3).reach
    have hg : s3.pc = .gone := by
      have h3' := h3
      step_split h3'
      all_goals (obtain ⟨hq, _⟩ := h3'; subst hq)
      all_goals simp_all
    refine ⟨s3, by simp [run, h3], hg, ?_, hi3.lastGone hg⟩
    rw [hi3.drops]; simp [hg, dropped, b2n]
  rcases hpc with hp1 | hp1
  · obtain ⟨s2, e2, h2⟩ := legal_steps_never_panic hr1 (l := .dropTasksDone) hp1
    have hp2 : s2.pc = .dropFields := by
      have h2' := h2
      step_split h2'
      all_goals (obtain ⟨hq, _⟩ := h2'; subst hq)
      all_goals simp_all
    obtain ⟨sG, hrun, hg⟩ := fin s2 (ReachL.step (l := .dropTasksDone) hr1 trivial h2) hp2
    refine ⟨sG, Or.inl ?_, hg⟩
    simp only [run, h1, h2] at hrun ⊢
    exact hrun
  · obtain ⟨sG, hrun, hg⟩ := fin s1 hr1 hp1
    refine ⟨sG, Or.inr ?_, hg⟩
    simp only [run, h1] at hrun ⊢
    exact hrun

/-- **task_dropped_once.**  The destructor of the task state runs at most once, has run exactly once when
the task is gone, and nothing is ever run for a task that is gone (no later callback, poll or drop):
`gone` is absorbing. -/
theorem task_dropped_once (hr : Reach d itw s) :
    s.drops ≤ 1 ∧ (s.pc = .gone → s.drops = 1) ∧ (s.drops = 1 → dropped s.pc = true) ∧
    (s.pc = .gone → step s l = .ok s' evs → s'.pc = .gone ∧ s'.drops = s.drops) := by
  have hi := reach_inv hr
  refine ⟨?_, ?_, ?_, ?_⟩
  · rw [hi.drops]; unfold b2n; split <;> omega
  · intro h; rw [hi.drops]; simp [h, dropped, b2n]
  · intro h; have := hi.drops; rw [h] at this; unfold b2n at this; split at this <;> simp_all
  · intro hg hs
    cases l <;> step_split hs
    all_goals (obtain ⟨hq, _⟩ := hs; subst hq)
    all_goals simp_all [userPc]

/-- **callback_code_encoding.**  `CallbackCode::encode` is read back exactly by the host's decoding
(`code & 0xf`, `code >> 4`) for every waitable-set index below 2^28 — the bound the canonical ABI itself
imposes by packing the index into the upper 28 bits of an `i32`. -/
theorem callback_code_encoding (c : CbCode) (hb : ∀ x, c = .wait x → x < 2 ^ 28) : decode (encode c) = some c := by
  cases c with
  | exit => rfl
  | yield => rfl
  | wait x =>
    have := hb x rfl
    have h1 : encode (.wait x) = 2 + x * 16 := by
      simp only [encode, Limits.callbackWaitTag, Limits.callbackWaitShift]; omega
    rw [h1]
    unfold decode
    have h2 : ¬ (2 + x * 16 = 0) := by omega
    have h3 : ¬ (2 + x * 16 = 1) := by omega
    have h4 : (2 + x * 16) % 16 = 2 := by omega
    have h5 : (2 + x * 16) / 16 = x := by omega
    simp [h3, h4, h5]

/-! ## `block_on` resumes after every answer

Until the `fix:` commit in /repo this was false for `CallbackCode::Yield`: `block_on` evaluated
`waitable_set…as_ref().unwrap().poll()` although the set is created lazily by the first
`waitable_register`, so `block_on(async { yield_async().await })` panicked.  Now a YIELD without a set is
answered by polling the future again (there cannot be an event), and a WAIT always has a set. -/

theorem step_driver {s s' : St} {l : Task.Label} {evs : List Ev} (h : step s l = .ok s' evs) : s'.driver = s.driver := by
  cases l <;> step_split h
  all_goals (obtain ⟨hq, _⟩ := h; subst hq; rfl)

theorem reach_driver {d : Driver} {itw : Bool} {s : St} (hr : Reach d itw s) : s.driver = d := by
  induction hr with
  | init => simp [St.init]
  | step _ hs ih => rw [step_driver hs]; exact ih

/-- **block_on resumes.**  After WAIT or YIELD, whatever event (≤ EVENT_CANCEL) the task's set produces,
`block_on`'s next call into the task does not panic. -/
theorem block_on_resumes (hr : Reach .block itw s) (hp : s.pc = .idle)
    (e w c : Nat) (he : e ≤ Limits.eventCancel) : ∃ s' evs, step s (.call e w c) = .ok s' evs := by
  have inv := reach_inv hr
  have hd : s.driver = .block := reach_driver hr
  have hlw := inv.lastWait
  have hle := inv.lastIdle (by simp [hp])
  cases hl : s.last with
  | none =>
    simp only [step, hp, hd, hl, enter]
    simp
  | some code =>
    cases code with
    | exit => exact absurd hl hle
    | yield =>
      cases hs : s.set with
      | none => simp only [step, hp, hd, hl, hs, enter]; simp
      | some x =>
        simp only [step, hp, hd, hl, hs, Step.emit, bind_ok, enter, pre_ite, pre_ok, pre_panic]
        split
        · exact ⟨_, _, rfl⟩
        · split
          · simp only [Limits.eventCancel] at *; omega
          · split <;> exact ⟨_, _, rfl⟩
    | wait y =>
      cases hs : s.set with
      | none => have := hlw y hl; simp [hs] at this
      | some x =>
        simp only [step, hp, hd, hl, hs, Step.emit, bind_ok, enter, pre_ite, pre_ok, pre_panic]
        split
        · exact ⟨_, _, rfl⟩
        · split
          · simp only [Limits.eventCancel] at *; omega
          · split <;> exact ⟨_, _, rfl⟩

/-- the former counterexample (repaired): `block_on(async { yield_async().await })` — the future wakes itself,
YIELD is answered, no waitable set exists, and the next call polls again -/
theorem block_on_yield_without_set_polls_again :
    ∃ sW, run (St.init .block false) [.call 0 0 0, .cancelRead 0, .tau, .wake 0, .pollDone false false, .decide 0 0 0]
        = some sW ∧ sW.last = some .yield ∧ sW.set = none ∧
      ∃ s', step sW (.call 0 0 0) = .ok s' [] ∧ s'.pc = .cancelWake := ⟨_, rfl, rfl, rfl, _, rfl, rfl⟩

/-! ## Non-vacuity -/

/-- a task that registers waitable 5 (the host hands out set 7), blocks, gets the event, finishes and
exits: the states named in the theorems are reachable, WAIT names set 7, the slot is restored. -/
example :
    (run (St.init .start false)
      [.start, .call 0 0 0, .cancelRead 0, .tau, .reg 5 7, .pollDone false false, .decide 0 0 0, .sleepRead 0 0 0 0]).map
      (fun s => (s.pc, s.last, s.ctx, s.set, s.waitables)) = some (.idle, some (.wait 7), true, some 7, [5]) := by rfl

example :
    (run (St.init .start false)
      [.start, .call 0 0 0, .cancelRead 0, .tau, .reg 5 7, .pollDone false false, .decide 0 0 0, .sleepRead 0 0 0 0,
       .call 1 5 2, .tau, .cbDone, .cancelRead 0, .tau, .pollDone true true, .decide 0 0 0, .cancelRead 0, .tau]).map
      (fun s => (s.pc, s.last, s.ctx, s.drops, s.sharedGone)) = some (.gone, some .exit, false, 1, true) := by rfl

/-- YIELD: the future wakes its own waker during the poll -/
example :
    (run (St.init .start false) [.start, .call 0 0 0, .cancelRead 0, .tau, .wake 0, .pollDone false false, .decide 0 0 0]).map
      (fun s => (s.pc, s.last)) = some (.idle, some .yield) := by rfl

end Witverif.Props.C22
