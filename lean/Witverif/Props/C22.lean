import Witverif.Proofs.Task
import Witverif.Proofs.ExecTasks
/-!
# C22 — the export task executor answers callbacks consistently and frees tasks once

Property theorems only (invariant and case analysis: `Proofs/Task.lean`).

System: the executor LTS `Task.step : St → Label → Step St` of `Async/Task.lean` — `TaskState::callback`
with an explicit program counter, `start_task` / `callback` (driver `start`, context slot 0) and `block_on`
(driver `block`), `Drop for TaskState`, the `SharedTaskState` reference count — for both feature
settings of `inter-task-wakeup` (`itw`).  A label carries everything the executor does not decide:
what the polled Rust futures did (register / unregister waitables, wake, clone / drop task references,
result of `Tasks::poll_next`: both the `async-spawn` and the plain variant are instances), which event
the host delivered, every built-in's answer.  `Reach d itw s`: `s` is reachable from the initial state
by ANY sequence of labels whose steps do not panic.  All theorems: every label sequence — every event
order, every task body, every `FuturesUnordered` polling order, every host answer; no depth bound.

`Answers s s' code`: the step `s → s'` returns WAIT/YIELD to the host (back to `idle`).
`Exits s s'`: the step decides EXIT (enters `Drop for TaskState`).
-/
namespace Witverif.Props.C22
open Witverif.Async Witverif.Async.Task Witverif.Generated

variable {d : Driver} {itw : Bool} {s s' : St} {l : Task.Label} {evs : List Ev}

/-- **exit_iff_no_work (⇒).**  A callback decides EXIT only if its event is EVENT_CANCEL, or
`poll_next` reported the Rust tasks done AND the waitables map is empty (`remaining_work()` false). -/
theorem exit_only_if_no_work (hs : step s l = .ok s' evs) (hx : Exits s s') :
    s'.ev0 = Limits.eventCancel ∨ (s.pc = .afterPoll true ∧ s.tasksEmpty = true ∧ s.waitables = []) := by
  obtain ⟨h1, h2⟩ := hx
  cases l <;> step_split hs
  all_goals (obtain ⟨hq, _⟩ := hs; subst hq)
  all_goals try (cases ‹Next›)
  all_goals simp_all [Next.pc]

/-- **exit_iff_no_work (⇐, work left).**  Whenever a callback answers WAIT or YIELD instead, the event
was not EVENT_CANCEL and work is left: a Rust task is unfinished or a waitable is registered. -/
theorem no_exit_only_if_work (hr : Reach d itw s) (hs : step s l = .ok s' evs) {code : CbCode} (ha : Answers s s' code) :
    s.ev0 ≠ Limits.eventCancel ∧ (s.tasksEmpty = false ∨ s.waitables ≠ []) := by
  have hi := reach_inv hr
  obtain ⟨h1, h2, h3⟩ := ha
  refine ⟨hi.evRun h1, ?_⟩
  have hn := hi.noRead
  have hne := hi.sleepNE
  cases l <;> step_split hs
  all_goals (obtain ⟨hq, _⟩ := hs; subst hq)
  all_goals try (cases ‹Next›)
  all_goals simp_all [Next.pc, running]

/-- **exit_iff_no_work (⇐, cancel).**  EVENT_CANCEL always makes the callback decide EXIT. -/
theorem cancel_exits {w c : Nat} (hl : s.driver = .start ∨ s.last.isSome = true)
    (hs : step s (.call Limits.eventCancel w c) = .ok s' evs) :
    s'.pc = .dropCancelWake ∧ s'.ev0 = Limits.eventCancel := by
  step_split hs
  all_goals (obtain ⟨hq, _⟩ := hs; subst hq)
  all_goals (rcases hl with hl | hl <;> simp_all)

/-- **exit_iff_no_work (⇐, no work).**  With the Rust tasks done and no waitable registered the callback
does decide EXIT (the step after `poll_next` cannot answer anything else and does not panic). -/
theorem no_work_exits (hp : s.pc = .afterPoll true) (ht : s.tasksEmpty = true) (hw : s.waitables = []) (e w c : Nat) :
    ∃ s', step s (.decide e w c) = .ok s' [] ∧ s'.pc = .dropCancelWake := by
  simp [step, hp, ht, hw]

/-- **wait_on_own_set.**  Every WAIT names the waitable set this task created itself (never 0), and the
runtime has something outstanding: a key in its waitables map, or the pending wake-up read of the inter-task
stream.  (This is the runtime's own bookkeeping; that the HOST's set then really has such a member is
`wait_set_has_member` below, which needs `set_in_sync`.) -/
theorem wait_on_own_set (hr : Reach d itw s) (hs : step s l = .ok s' evs) {x : Nat} (ha : Answers s s' (.wait x)) :
    s'.set = some x ∧ x ≠ 0 ∧ (s'.waitables ≠ [] ∨ s'.wk.reading = true) := by
  have hi := reach_inv hr
  have hi' := inv_step hi hs
  obtain ⟨h1, h2, h3⟩ := ha
  have hset : s'.set = some x ∧ (s'.waitables ≠ [] ∨ s'.wk.reading = true) := by
    cases l <;> step_split hs
    all_goals (obtain ⟨hq, _⟩ := hs; subst hq)
    all_goals try (cases ‹Next›)
    all_goals simp_all [Next.pc, running]
  refine ⟨hset.1, ?_, hset.2⟩
  intro h0
  exact hi'.setNZ (by rw [hset.1, h0])

/-- **wait_on_own_set (the host's view).**  `members` records what this executor joined to its set
(`waitable.join(w, set)`) and did not take out again (`waitable.join(w, 0)`): as long as nobody registers the
runtime's internal stream handle through the C ABI (`Legal`), it is exactly the keys of the waitables map
plus the wake-up stream's reader while its read is pending. -/
theorem set_in_sync (hr : ReachL d itw s) :
    (∀ x, x ∈ s.members ↔ (x ∈ s.waitables ∨ pendingReader s x)) ∧
    (∀ r w, s.wk.stream = some (r, w) → r ∉ s.waitables) :=
  ⟨(reachL_invM hr).sync, (reachL_invM hr).fresh⟩

/-- … hence every WAIT names a set that — in the host's view — has a member whose event is outstanding. -/
theorem wait_set_has_member (hr : ReachL d itw s) (hl : Legal s l) (hs : step s l = .ok s' evs) {x : Nat}
    (ha : Answers s s' (.wait x)) : s'.set = some x ∧ ∃ m, m ∈ s'.members := by
  have hw := wait_on_own_set hr.reach hs ha
  have hm := reachL_invM (ReachL.step hr hl hs)
  have hi' := inv_step (reach_inv hr.reach) hs
  refine ⟨hw.1, ?_⟩
  rcases hw.2.2 with h | h
  · cases hwl : s'.waitables with
    | nil => exact absurd hwl h
    | cons a t => exact ⟨a, (hm.sync a).2 (Or.inl (by simp [hwl]))⟩
  · have hst := (hi'.readItw h).2.1
    cases hstream : s'.wk.stream with
    | none => simp [hstream] at hst
    | some p => exact ⟨p.1, (hm.sync p.1).2 (Or.inr ⟨h, p.2, by simp [hstream]⟩)⟩

/-- **yield_only_if_woken_during_poll.**  A YIELD is answered only if `wake_by_ref` ran after the sleep
state was last reset to POLLING, i.e. during this poll of the tasks — and the tasks were polled and are
not finished. -/
theorem yield_only_if_woken_during_poll (hr : Reach d itw s) (hs : step s l = .ok s' evs) (ha : Answers s s' .yield) :
    s.woken = true ∧ s.polled = true ∧ s.tasksEmpty = false ∧ s.pc = .afterPoll false := by
  have hi := reach_inv hr
  obtain ⟨h1, h2, h3⟩ := ha
  have hp := hi.pollW
  have hq := hi.polledA
  cases l <;> step_split hs
  all_goals (obtain ⟨hq, _⟩ := hs; subst hq)
  all_goals try (cases ‹Next›)
  all_goals simp_all [Next.pc, running]

/-- **context_slot_discipline.**  With `start_task`/`callback`, context slot 0 holds the boxed task state
exactly between callbacks and is null while one runs, while the state is being destroyed, and after
exit; `block_on` never touches the slot. -/
theorem context_slot_discipline (hr : Reach d itw s) :
    (s.driver = .start → (s.ctx = true ↔ s.pc = .idle)) ∧ (s.driver = .block → s.ctx = false) :=
  ⟨(reach_inv hr).ctxStart, fun h => ((reach_inv hr).ctxBlock h).1⟩

/-- … and as built-in calls: a callback starts by reading the slot (non-null) and nulling it; an answer
WAIT/YIELD ends by storing the state back, immediately before the code is returned. -/
theorem context_slot_calls (hd : s.driver = .start) :
    (∀ e w c, step s (.call e w c) = .ok s' evs → ∃ rest, evs = .ctxGet true :: .ctxSet false :: rest) ∧
    (∀ code, step s l = .ok s' evs → Answers s s' code → ∃ pre, evs = pre ++ [.ctxSet true, .cb code]) := by
  constructor
  · intro e w c hs
    step_split hs
    all_goals simp_all
    all_goals (obtain ⟨_, hq⟩ := hs; subst hq; exact ⟨_, rfl⟩)
  · intro code hs ⟨h1, h2, h3⟩
    cases l <;> step_split hs
    all_goals (obtain ⟨hq, he⟩ := hs; subst hq; subst he)
    all_goals try (cases ‹Next›)
    all_goals simp_all [Next.pc, running]
    all_goals (first | exact ⟨[], rfl⟩ | exact ⟨[_], rfl⟩ | exact ⟨[_, _], rfl⟩ | exact ⟨[_, _, _], rfl⟩ | exact ⟨[_, _, _, _], rfl⟩)

/-- **spawned_finish_before_exit.**  An EXIT that is not a cancellation happens only after
`Tasks::poll_next` returned `Ready` with `tasks.is_empty()`: every future of the task — the root and
everything spawned into it — has finished.  (That `poll_next` adopts every spawned future before it can
report `Ready` is `Props.C22.tasks_ready_iff_empty` below, on the model of spawn.rs.) -/
theorem spawned_finish_before_exit (hs : step s l = .ok s' evs) (hx : Exits s s') (hc : s'.ev0 ≠ Limits.eventCancel) :
    s.pc = .afterPoll true ∧ s.tasksEmpty = true := by
  rcases exit_only_if_no_work hs hx with h | ⟨h1, h2, _⟩
  · exact absurd h hc
  · exact ⟨h1, h2⟩

/-- … and `Tasks::poll_next` — both variants: spawn.rs over `FuturesUnordered` (any number of spawned
futures, any wake pattern) and spawn_disabled.rs, as modelled in `Async/ExecScript.lean` and compared
with the real runtime trace by trace — answers `Ready` only when no future of the task is left and (spawn
variant) nothing spawned is still waiting to be adopted.  `FuturesUnordered` itself is an assumption:
its model follows futures-util 0.3 (FIFO ready queue, `Ready(None)` only when empty). -/
theorem tasks_ready_iff_empty {sys sys' : Exec.Sys} {t : Nat} {empty : Bool}
    (h : Exec.tasksPollNext sys t = (sys', true, empty)) :
    Exec.NoFutures sys' t ∧ (sys.build.spawn = true → sys'.spawned = []) :=
  Exec.tasksPollNext_ready h

/-- **legal_steps_never_panic (partial).**  From every state reachable by legal labels, every step that
is enabled — right program point; host and user code keep their contracts, see `Enabled` in
`Proofs/Task.lean` — succeeds: none of the executor's `unwrap()`s, `assert!`s and `unreachable!()`s
(`waitables.remove(&w).unwrap()`, `waitable_set…unwrap()`, `assert!(me.tasks.is_empty())`,
`NonZeroU32::new(..).unwrap()`, `assert_eq!(rc, BLOCKED)`, …) can fire.
PARTIAL: `Enabled` excludes exactly the two situations in which the current code does panic on a legal
schedule — `block_on` resuming while no waitable set exists (`block_on_yield_full_false` below) and a wake
of a task left in state SLEEPING by a cancellation (`Props.C23.wake_after_exit_full_false`) — and the two
documented panics of builds without the inter-task-wakeup feature. -/
theorem legal_steps_never_panic_partial (hr : ReachL d itw s) (he : Enabled s l) : ∃ s' evs, step s l = .ok s' evs := by
  cases h : step s l with
  | ok s' evs => exact ⟨s', evs, rfl⟩
  | panic m e => exact absurd h (fun h => never_panic (reach_inv hr.reach) (reachL_invM hr) he h)

/-- the preconditions of `Enabled` that speak about the past are established by the preceding legal label:
an event for a member of the set is what `deliver` gets; `poll_next`'s consistent answer is what `decide` sees -/
theorem enabled_history :
    (∀ e w c, step s (.call e w c) = .ok s' evs → (s.driver = .start ∨ s.last.isSome = true) →
      e ≠ Limits.eventNone → e ≠ Limits.eventCancel → w ∈ s.members →
      ∃ n, s'.pc = .deliver w c n ∧ w ∈ s'.members) ∧
    (∀ r, step s (.pollDone r r) = .ok s' evs → s'.pc = .afterPoll s'.tasksEmpty) := by
  constructor
  · intro e w c hs hd h0 h6 hm
    step_split hs
    all_goals (obtain ⟨hq, _⟩ := hs; subst hq)
    all_goals (rcases hd with hd | hd <;> simp_all)
  · intro r hs
    step_split hs
    all_goals (obtain ⟨hq, _⟩ := hs; subst hq)
    all_goals simp_all

/-- **task_dropped_once (progress).**  Once a callback has decided EXIT the executor's own steps — cancel
the wake-up read, run the destructors of the remaining futures, drop the fields — are all enabled and lead
to `gone` with the destructor having run exactly once (the destructors themselves are user code: their
wakes / unregistrations are further enabled labels in between). -/
theorem exit_reaches_gone (hr : ReachL d itw s) (hp : s.pc = .dropCancelWake) (ans : Nat) :
    ∃ sG, (run s [.cancelRead ans, .dropTasksDone, .tau] = some sG ∨ run s [.cancelRead ans, .tau] = some sG) ∧
      sG.pc = .gone ∧ sG.drops = 1 ∧ sG.last = some .exit := by
  obtain ⟨s1, e1, h1⟩ := legal_steps_never_panic_partial hr (l := .cancelRead ans) (Or.inr hp)
  have hr1 : ReachL d itw s1 := ReachL.step (l := .cancelRead ans) hr trivial h1
  have hpc : s1.pc = .dropTasks ∨ s1.pc = .dropFields := by
    have h1' := h1
    step_split h1'
    all_goals (obtain ⟨hq, _⟩ := h1'; subst hq)
    all_goals simp_all
  have fin : ∀ s2, ReachL d itw s2 → s2.pc = .dropFields →
      ∃ sG, run s2 [.tau] = some sG ∧ sG.pc = .gone ∧ sG.drops = 1 ∧ sG.last = some .exit := by
    intro s2 hr2 hp2
    obtain ⟨s3, e3, h3⟩ := legal_steps_never_panic_partial hr2 (l := .tau) (Or.inr (Or.inr hp2))
    have hi3 := reach_inv (ReachL.step (l := .tau) hr2 trivial h3).reach
    have hg : s3.pc = .gone := by
      have h3' := h3
      step_split h3'
      all_goals (obtain ⟨hq, _⟩ := h3'; subst hq)
      all_goals simp_all
    refine ⟨s3, by simp [run, h3], hg, ?_, hi3.lastGone hg⟩
    rw [hi3.drops]; simp [hg, dropped, b2n]
  rcases hpc with hp1 | hp1
  · obtain ⟨s2, e2, h2⟩ := legal_steps_never_panic_partial hr1 (l := .dropTasksDone) hp1
    have hp2 : s2.pc = .dropFields := by
      have h2' := h2
      step_split h2'
      all_goals (obtain ⟨hq, _⟩ := h2'; subst hq)
      all_goals simp_all
    obtain ⟨sG, hrun, hg⟩ := fin s2 (ReachL.step (l := .dropTasksDone) hr1 trivial h2) hp2
    refine ⟨sG, Or.inl ?_, hg⟩
    simp only [run, h1, h2] at hrun ⊢
    exact hrun
  · obtain ⟨sG, hrun, hg⟩ := fin s1 hr1 hp1
    refine ⟨sG, Or.inr ?_, hg⟩
    simp only [run, h1] at hrun ⊢
    exact hrun

/-- **task_dropped_once.**  The destructor of the task state runs at most once, has run exactly once when
the task is gone, and nothing is ever run for a task that is gone (no later callback, poll or drop):
`gone` is absorbing. -/
theorem task_dropped_once (hr : Reach d itw s) :
    s.drops ≤ 1 ∧ (s.pc = .gone → s.drops = 1) ∧ (s.drops = 1 → dropped s.pc = true) ∧
    (s.pc = .gone → step s l = .ok s' evs → s'.pc = .gone ∧ s'.drops = s.drops) := by
  have hi := reach_inv hr
  refine ⟨?_, ?_, ?_, ?_⟩
  · rw [hi.drops]; unfold b2n; split <;> omega
  · intro h; rw [hi.drops]; simp [h, dropped, b2n]
  · intro h; have := hi.drops; rw [h] at this; unfold b2n at this; split at this <;> simp_all
  · intro hg hs
    cases l <;> step_split hs
    all_goals (obtain ⟨hq, _⟩ := hs; subst hq)
    all_goals simp_all [userPc]

/-- **callback_code_encoding.**  `CallbackCode::encode` is read back exactly by the host's decoding
(`code & 0xf`, `code >> 4`) for every waitable-set index below 2^28 — the bound the canonical ABI itself
imposes by packing the index into the upper 28 bits of an `i32`. -/
theorem callback_code_encoding (c : CbCode) (hb : ∀ x, c = .wait x → x < 2 ^ 28) : decode (encode c) = some c := by
  cases c with
  | exit => rfl
  | yield => rfl
  | wait x =>
    have := hb x rfl
    have h1 : encode (.wait x) = 2 + x * 16 := by
      simp only [encode, Limits.callbackWaitTag, Limits.callbackWaitShift]; omega
    rw [h1]
    unfold decode
    have h2 : ¬ (2 + x * 16 = 0) := by omega
    have h3 : ¬ (2 + x * 16 = 1) := by omega
    have h4 : (2 + x * 16) % 16 = 2 := by omega
    have h5 : (2 + x * 16) / 16 = x := by omega
    simp [h3, h4, h5]

/-! ## `block_on` and YIELD: the full statement is false of the current code

Full-strength statement (properties.jsonl quantifies over "both start_task and block_on drivers" and task
bodies that yield): `block_on` resumes the task after every answer —

    ∀ s, Reach .block itw s → s.pc = .idle → s.last = some .yield →
      ∀ e w c, e ≤ EVENT_CANCEL → ∃ s' evs, step s (.call e w c) = .ok s' evs

is FALSE: for `CallbackCode::Yield`, `block_on` evaluates `state.shared.waitable_set…as_ref().unwrap().poll()`,
but the waitable set is created lazily by the first `waitable_register`; a future that yields
(`yield_async`, or any wake of its own waker followed by `Pending`) before anything was registered makes
`block_on` panic with "called `Option::unwrap()` on a `None` value" (async_support.rs, `block_on`, arm
`CallbackCode::Yield`).  Witness: `block_on(async { yield_async().await })`.  The `_partial` form has the
exact extra hypothesis (a waitable set exists).  Known-finding class `block-on-yield-without-waitable-set`. -/

theorem block_on_resumes_partial (hd : s.driver = .block) (hp : s.pc = .idle)
    (hl : s.last = some .yield ∨ ∃ x, s.last = some (.wait x)) (hset : s.set.isSome = true)
    (e w c : Nat) (he : e ≤ Limits.eventCancel) : ∃ s' evs, step s (.call e w c) = .ok s' evs := by
  cases hs : s.set with
  | none => simp [hs] at hset
  | some x =>
    rcases hl with hl | ⟨y, hl⟩
    all_goals
      simp only [step, hp, hd, hl, hs, Step.emit, bind_ok, enter, pre_ite, pre_ok, pre_panic]
      split
      · exact ⟨_, _, rfl⟩
      · split
        · simp only [Limits.eventCancel] at *; omega
        · split <;> exact ⟨_, _, rfl⟩

theorem block_on_yield_full_false :
    ¬ ∀ s, Reach .block false s → s.pc = .idle → s.last = some .yield →
        ∀ e w c, e ≤ Limits.eventCancel → ∃ s' evs, step s (.call e w c) = .ok s' evs := by
  intro hall
  have hrun : ∃ sW, run (St.init .block false) [.call 0 0 0, .cancelRead 0, .tau, .wake 0, .pollDone false false, .decide 0 0 0]
      = some sW ∧ sW.pc = .idle ∧ sW.last = some .yield ∧ sW.driver = .block ∧ sW.set = none := ⟨_, rfl, rfl, rfl, rfl, rfl⟩
  obtain ⟨sW, h1, h2, h3, h4, h5⟩ := hrun
  obtain ⟨s', evs, hs⟩ := hall sW (run_reach _ Reach.init h1) h2 h3 0 0 0 (by simp)
  simp [step, h2, h3, h4, h5] at hs

/-! ## Non-vacuity -/

/-- a task that registers waitable 5 (the host hands out set 7), blocks, gets the event, finishes and
exits: the states named in the theorems are reachable, WAIT names set 7, the slot is restored. -/
example :
    (run (St.init .start false)
      [.start, .call 0 0 0, .cancelRead 0, .tau, .reg 5 7, .pollDone false false, .decide 0 0 0, .sleepRead 0 0 0 0]).map
      (fun s => (s.pc, s.last, s.ctx, s.set, s.waitables)) = some (.idle, some (.wait 7), true, some 7, [5]) := by rfl

example :
    (run (St.init .start false)
      [.start, .call 0 0 0, .cancelRead 0, .tau, .reg 5 7, .pollDone false false, .decide 0 0 0, .sleepRead 0 0 0 0,
       .call 1 5 2, .tau, .cbDone, .cancelRead 0, .tau, .pollDone true true, .decide 0 0 0, .cancelRead 0, .tau]).map
      (fun s => (s.pc, s.last, s.ctx, s.drops, s.sharedGone)) = some (.gone, some .exit, false, 1, true) := by rfl

/-- YIELD: the future wakes its own waker during the poll -/
example :
    (run (St.init .start false) [.start, .call 0 0 0, .cancelRead 0, .tau, .wake 0, .pollDone false false, .decide 0 0 0]).map
      (fun s => (s.pc, s.last)) = some (.idle, some .yield) := by rfl

end Witverif.Props.C22
