import Witverif.Proofs.RustLedger
/-!
# C06 — Rust guest bindings neither leak nor double-free heap memory

Model: `Abi/RustLedger.lean` — the ownership profile of the code emitted by
crates/rust/src/bindgen.rs (which instruction takes a buffer over, which frees it, which forgets
it) as one table per phase of a call, over the buffer tree of the values that cross; the
post-return table is the model of abi.rs `deallocate_indirect`.  Spec side: `Balanced` — every heap
block ever touched has the history "allocated once, then freed once" (no leak, no double free, no
free of a foreign block, no reuse of a live block).

Theorems below hold for **all** buffer trees (any nesting, any lengths, any mix of canonical /
element-wise lists, maps, strings, fixed-length lists, spare capacities), hence for all types and
values (`shape`).  Tie to the real code: `./check C06` runs the generated Rust natively with a
ledger allocator and compares, per call, the exact blocks (address, size, align) with the Lean
host's buffers and with the frees the Lean model of `abi.rs::post_return` performs on the guest's
memory, plus allocation counts per class with this model.
-/
namespace Witverif.Props.C06
open Witverif.Abi Witverif.Abi.RustLedger

/-! ## per-node facts (finite case analysis over node data × block tag) -/

/-- history of a node's block `g` over the three argument phases of an export -/
def argHist (g : Tag) (n : Option Info) : List Bool :=
  nodeHist hostAlloc g n ++ nodeHist lift g n ++ nodeHist dropLifted g n
/-- … over the three result phases of an export, with post-return table `post` -/
def resHist (post : Table) (g : Tag) (n : Option Info) : List Bool :=
  nodeHist build g n ++ nodeHist lowerOwned g n ++ nodeHist post g n
/-- … over the argument phases of an import -/
def impArgHist (g : Tag) (n : Option Info) : List Bool :=
  nodeHist build g n ++ nodeHist lowerBorrow g n ++ nodeHist cleanup g n ++ nodeHist dropBuilt g n

theorem arg_node_ok : ∀ (g : Tag) (n : Option Info), blockOk (argHist g n) = true := by
  intro g n
  match n with
  | none => rfl
  | some ⟨k, b, s, uf⟩ => cases k <;> cases b <;> cases s <;> cases uf <;> cases g <;> rfl

theorem res_node_ok_spec : ∀ (g : Tag) (n : Option Info), blockOk (resHist postReturnSpec g n) = true := by
  intro g n
  match n with
  | none => rfl
  | some ⟨k, b, s, uf⟩ => cases k <;> cases b <;> cases s <;> cases uf <;> cases g <;> rfl

/-- with the real post-return table a node's blocks are fine unless the node lies below a
fixed-length list, in which case exactly its image block leaks -/
theorem res_node_real : ∀ (g : Tag) (n : Info),
    (n.uf = false → blockOk (resHist postReturn g (some n)) = true) ∧
    (n.uf = true → (if imageTag n = some g then blockLeaks (resHist postReturn g (some n))
                    else blockOk (resHist postReturn g (some n))) = true) := by
  intro g ⟨k, b, s, uf⟩
  cases k <;> cases b <;> cases s <;> cases uf <;> cases g <;> exact ⟨fun _ => by first | rfl | contradiction, fun _ => by first | rfl | contradiction⟩

theorem imp_arg_node_ok : ∀ (g : Tag) (n : Option Info), blockOk (impArgHist g n) = true := by
  intro g n
  match n with
  | none => rfl
  | some ⟨k, b, s, uf⟩ => cases k <;> cases b <;> cases s <;> cases uf <;> cases g <;> rfl

/-! ## histories of blocks in whole calls -/

theorem not_ext_zero (ρ : List Nat) (h : ∀ rel, ρ ≠ 0 :: rel) : ∀ rel, ρ ≠ [0] ++ rel := by simpa using h
theorem not_ext_one (ρ : List Nat) (h : ∀ rel, ρ ≠ 1 :: rel) : ∀ rel, ρ ≠ [1] ++ rel := by simpa using h

/-- **Block histories of an export call.**  A block named by a position below the arguments has the
history its node produces over the argument phases; one below the result, over the result phases;
no other block is ever touched. -/
theorem export_block_history (post : Table) (args res : Tree) (g : Tag) (ρ : List Nat) :
    proj ⟨g, ρ⟩ (exportTrace post args res) =
      match ρ with
      | 0 :: rel => argHist g (nodeAt false args rel)
      | 1 :: rel => resHist post g (nodeAt false res rel)
      | _ => [] := by
  unfold exportTrace
  simp only [proj_append]
  match ρ with
  | [] =>
      simp [proj_outside _ g [] args false [0] (by simp), proj_outside _ g [] res false [1] (by simp)]
  | 0 :: rel =>
      have ha := fun f => proj_phase f g args false [0] rel
      have hr := fun f => proj_outside f g (0 :: rel) res false [1] (by simp)
      simp only [List.singleton_append] at ha
      simp [ha, hr, argHist]
  | 1 :: rel =>
      have hr := fun f => proj_phase f g res false [1] rel
      have ha := fun f => proj_outside f g (1 :: rel) args false [0] (by simp)
      simp only [List.singleton_append] at hr
      simp [ha, hr, resHist]
  | (n + 2) :: rel =>
      simp [proj_outside _ g ((n + 2) :: rel) args false [0] (by simp),
        proj_outside _ g ((n + 2) :: rel) res false [1] (by simp)]

theorem import_block_history (args res : Tree) (g : Tag) (ρ : List Nat) :
    proj ⟨g, ρ⟩ (importTrace args res) =
      match ρ with
      | 0 :: rel => impArgHist g (nodeAt false args rel)
      | 1 :: rel => argHist g (nodeAt false res rel)
      | _ => [] := by
  unfold importTrace
  simp only [proj_append]
  match ρ with
  | [] =>
      simp [proj_outside _ g [] args false [0] (by simp), proj_outside _ g [] res false [1] (by simp)]
  | 0 :: rel =>
      have ha := fun f => proj_phase f g args false [0] rel
      have hr := fun f => proj_outside f g (0 :: rel) res false [1] (by simp)
      simp only [List.singleton_append] at ha
      simp [ha, hr, impArgHist]
  | 1 :: rel =>
      have hr := fun f => proj_phase f g res false [1] rel
      have ha := fun f => proj_outside f g (1 :: rel) args false [0] (by simp)
      simp only [List.singleton_append] at hr
      simp [ha, hr, argHist]
  | (n + 2) :: rel =>
      simp [proj_outside _ g ((n + 2) :: rel) args false [0] (by simp),
        proj_outside _ g ((n + 2) :: rel) res false [1] (by simp)]

/-! ## property theorems -/

/-- **Imports are balanced — full statement.**  For every argument tree and every result tree, after
the wrapper returned and the caller dropped result and arguments, every block (user-built argument
storage, `Cleanup` temporaries, host-allocated result buffers, Rust collections built by lifting)
has been allocated once and freed once; host buffers are consumed exactly once. -/
theorem rust_import_ledger_balanced (args res : Tree) : Balanced (importTrace args res) := by
  intro ⟨g, ρ⟩
  rw [import_block_history]
  match ρ with
  | [] => rfl
  | 0 :: rel => exact imp_arg_node_ok g _
  | 1 :: rel => exact arg_node_ok g _
  | (n + 2) :: rel => rfl

/-- **Export arguments are consumed exactly once, result buffers are all released — if post-return
did what the lowering requires** (spec-side table).  -/
theorem rust_export_ledger_balanced_spec (args res : Tree) : Balanced (exportTrace postReturnSpec args res) := by
  intro ⟨g, ρ⟩
  rw [export_block_history]
  match ρ with
  | [] => rfl
  | 0 :: rel => exact arg_node_ok g _
  | 1 :: rel => exact res_node_ok_spec g _
  | (n + 2) :: rel => rfl

/- Full statement for the code as it is (FALSE, see `rust_call_ledger_balanced_full_false`):
   theorem rust_call_ledger_balanced (args res : Tree) : Balanced (exportTrace postReturn args res) -/

/-- The full statement is false of the current code: `export f: func() -> list<string, 2>` returning
`["a", "b"]` — both string buffers are still allocated after `cabi_post_f` (defect class
`dealloc-flist-leak`, same as C03). -/
theorem rust_call_ledger_balanced_full_false :
    ¬ ∀ args res : Tree, Balanced (exportTrace postReturn args res) := by
  intro h
  have := h (argsTree false [] []) (shape (.flist .string 2) (.list [.str [97], .str [98]])) ⟨.shrunk, [1, 0]⟩
  revert this
  decide

mutual
theorem nodeAt_clean : ∀ (t : Tree) (uf : Bool) (rel : List Nat) (n : Info),
    dirty uf t = false → nodeAt uf t rel = some n → (n.uf && isBufKind n.k && n.buf) = false
  | .node k b s kids, uf, [], n, hd, hn => by
      simp only [nodeAt, Option.some.injEq] at hn
      subst hn
      simp only [dirty, Bool.or_eq_false_iff] at hd
      exact hd.1
  | .node k b s kids, uf, i :: rel, n, hd, hn => by
      simp only [nodeAt] at hn
      simp only [dirty, Bool.or_eq_false_iff] at hd
      exact kidAt_clean kids _ i rel n hd.2 hn
theorem kidAt_clean : ∀ (ts : List Tree) (uf : Bool) (i : Nat) (rel : List Nat) (n : Info),
    dirtyKids uf ts = false → kidAt uf ts i rel = some n → (n.uf && isBufKind n.k && n.buf) = false
  | [], _, _, _, _, _, hn => by simp [kidAt] at hn
  | t :: ts, uf, 0, rel, n, hd, hn => by
      simp only [dirtyKids, Bool.or_eq_false_iff] at hd
      exact nodeAt_clean t uf rel n hd.1 (by simpa [kidAt] using hn)
  | t :: ts, uf, i + 1, rel, n, hd, hn => by
      simp only [dirtyKids, Bool.or_eq_false_iff] at hd
      exact kidAt_clean ts uf i rel n hd.2 (by simpa [kidAt] using hn)
end

/-- a buffer node that is not below a fixed-length list is released by the real post-return -/
theorem res_node_real_clean (g : Tag) (n : Info) (h : (n.uf && isBufKind n.k && n.buf) = false) :
    blockOk (resHist postReturn g (some n)) = true := by
  obtain ⟨k, b, s, uf⟩ := n
  cases k <;> cases b <;> cases s <;> cases uf <;> cases g <;> first | rfl | (simp [isBufKind] at h)

/-- **Exports are balanced when no heap block lies below a fixed-length list in the result**
(`_partial`: the exact extra hypothesis under which the full statement holds). -/
theorem rust_call_ledger_balanced_partial (args res : Tree) (hclean : dirty false res = false) :
    Balanced (exportTrace postReturn args res) := by
  intro ⟨g, ρ⟩
  rw [export_block_history]
  match ρ with
  | [] => rfl
  | 0 :: rel => exact arg_node_ok g _
  | 1 :: rel =>
      show blockOk (resHist postReturn g (nodeAt false res rel)) = true
      cases hn : nodeAt false res rel with
      | none => rfl
      | some n => exact res_node_real_clean g n (nodeAt_clean res false rel n hclean hn)
  | (n + 2) :: rel => rfl

/-- **Exactly the blocks below fixed-length lists leak, nothing else goes wrong.**  For the code as
it is, every block of an export call is either fine, or it is the image block of a result node
below a fixed-length list and then it is allocated once and never freed (never double-freed). -/
theorem rust_export_leak_characterisation (args res : Tree) (g : Tag) (ρ : List Nat) :
    blockOk (proj ⟨g, ρ⟩ (exportTrace postReturn args res)) = true ∨
    (∃ rel n, ρ = 1 :: rel ∧ nodeAt false res rel = some n ∧ n.uf = true ∧ imageTag n = some g ∧
      blockLeaks (proj ⟨g, ρ⟩ (exportTrace postReturn args res)) = true) := by
  rw [export_block_history]
  match ρ with
  | [] => exact .inl rfl
  | 0 :: rel => exact .inl (arg_node_ok g _)
  | (n + 2) :: rel => exact .inl rfl
  | 1 :: rel =>
      show blockOk (resHist postReturn g (nodeAt false res rel)) = true ∨
        ∃ rel' n, 1 :: rel = 1 :: rel' ∧ nodeAt false res rel' = some n ∧ n.uf = true ∧ imageTag n = some g ∧
          blockLeaks (resHist postReturn g (nodeAt false res rel)) = true
      cases hn : nodeAt false res rel with
      | none => exact .inl rfl
      | some n =>
          have h := res_node_real g n
          cases huf : n.uf with
          | false => exact .inl (h.1 huf)
          | true =>
              have h2 := h.2 huf
              by_cases hi : imageTag n = some g
              · simp only [hi, ↓reduceIte] at h2
                exact .inr ⟨rel, n, rfl, hn, huf, hi, h2⟩
              · simp only [hi, ↓reduceIte] at h2
                exact .inl h2

/-- **… stated on types.**  If the result type of an export has no string, list or map below a
fixed-length list (`cleanTy`), then for every argument tuple and every returned value the call is
balanced. -/
theorem rust_call_ledger_balanced_of_type (indirect : Bool) (ps : List Ty) (vs : List Val) (r : Ty) (v : Val)
    (hclean : cleanTy false r = true) :
    Balanced (exportTrace postReturn (argsTree indirect ps vs) (shape r v)) :=
  rust_call_ledger_balanced_partial _ _ (shape_clean v r false hclean)

/-- **The same defect on the model of `abi.rs` itself** (`Gen.postReturn` run in the reference
machine, the function whose output is compared with the real generator and whose frees are compared
address by address with the real `cabi_post_*`): for `f: func() -> list<string, 2>` returning
`["a","b"]` (wasm32 layout, return area at 16) the post-return frees nothing while the lowering
allocated two blocks; for `list<string>` it frees all three. -/
theorem post_return_model_leaks_below_fixed_list :
    let f : Func := ⟨false, [], some (.flist .string 2)⟩
    let m := (Spec.store 4 (.flist .string 2) (.list [.str [97], .str [98]]) 16 { mem := [], heap := { next := 32 } }).mem
    RustProfile.postFrees 4 f 16 m = some [] ∧
    RustProfile.resultBlocks 4 (.flist .string 2) 16 m = [(32, 1, 1), (33, 1, 1)] := by decide

theorem post_return_model_frees_list_of_strings :
    let g : Func := ⟨false, [], some (.list .string)⟩
    let m := (Spec.store 4 (.list .string) (.list [.str [97], .str [98]]) 16 { mem := [], heap := { next := 32 } }).mem
    RustProfile.postFrees 4 g 16 m = some [(48, 1, 1), (49, 1, 1), (32, 16, 4)] := by decide

/-! ## non-vacuity -/

/-- `export f: func(a: list<string>, b: string) -> list<list<u8>>`: argument list lifted element-wise
(new `Vec`, incoming buffer freed), strings taken over; result lowered element-wise with a shrinking
inner list: 9 blocks (18 events), all balanced. -/
example :
    let args := argsTree false [.list .string, .string] [.list [.str [97], .str []], .str [98, 99]]
    let res := shape (.list (.list .u8)) (.list [.list [.int 1], .list [.int 1, .int 2, .int 3]])
    dirty false res = false ∧ (exportTrace postReturn args res).length = 18 ∧
    proj ⟨.host, [0, 0]⟩ (exportTrace postReturn args res) = [true, false] ∧
    proj ⟨.shrunk, [1, 0]⟩ (exportTrace postReturn args res) = [true, false] := by decide

end Witverif.Props.C06
