import Witverif.Proofs.CIdent
import Witverif.Props.C26
/-!
# C12 — Generated C builds and componentizes as exactly the requested world

What can be *proved* about "the generated C compiles" is the part that is logic of the generator:
its identifier mangling.  Model: `Text/CIdent.lean` (`to_c_ident` over the escape table regenerated
from crates/c/src/lib.rs on every run — `Generated/CIdent.lean`, with a round-trip guard — and
`to_snake_case` = `Text/Heck.lean`), `c_func_name`, typedef / free-helper / drop names.
Spec: the reserved words of the C dialect the bindings are compiled as (`CIdentSpec.cKeywords`).

Acceptance of the generated text by clang / wasm-ld and of the linked module by
`wit_component::ComponentEncoder` (and equality of the encoded component's world with the requested
one) is **validated, not proved**: `./check C12` runs that tool chain on seeded worlds, on the
tests/codegen corpus minus the C backend's declared exclusions, and on adversarial names, for the
option matrix.  Temporaries inside generated functions come from `Ns::tmp` (C26).
-/
namespace Witverif.Props.C12
open Witverif.Text Witverif.Text.Heck Witverif.Text.CIdent Witverif.Text.CIdentSpec
open Witverif.Generated.CIdent

/-- Every literal arm of `to_c_ident` maps `k` to `k_`, and no `k_` is a reserved word (re-proved
against the regenerated table on every run). -/
theorem to_c_ident_escapes_safe : ∀ e ∈ escapeTable, e.2 ∉ cKeywords ∧ e.2 = e.1 ++ ['_'] := by
  intro e he
  have := List.all_eq_true.mp escapes_safe_all e he
  simpa using this

/-- **`to_c_ident` never yields a word of `CIdentSpec.cKeywords`** — for every input string (upper-case
words, any number of words, any characters): the table is consulted with the snake-cased name and
every word of that list (the 34 lower-case C17 keywords, `asm`, `typeof`, and `bool`/`true`/`false` of
`<stdbool.h>`) has an arm.  The claim is relative to that list: other identifiers that break a
compile (typedef names such as `int8_t`, fixed locals such as `ret_area`) are outside it and are
known findings.
(Before /repo 89692d8 this was false: `restrict`/`typeof` had no arm and `INT` became `int`.) -/
theorem to_c_ident_not_keyword (name : List Char) : toCIdent name ∉ cKeywords :=
  toCIdent_not_keyword name

/-- … in particular upper-case spellings of keywords are escaped. -/
theorem to_c_ident_uppercase_keyword :
    toCIdent "INT".toList = "int_".toList ∧ toCIdent "restrict".toList = "restrict_".toList := by
  decide +kernel

/-- Non-vacuity: `static` is escaped, `my-field` is snake-cased. -/
example : toCIdent "static".toList = "static_".toList ∧ toCIdent "my-field".toList = "my_field".toList ∧
    simpleTail true "my-field".toList = true := by decide +kernel

/-- **Names are injective within one kind and one fixed namespace**, on lower-case kebab names
(letters, digits, `-`; every word non-empty): two different such names give different typedef names,
different function names, different free-helper names.  Nothing is claimed across namespaces (see
the known finding for `a-b`/`c` vs `a`/`b-c`), across kinds (`c_names_cross_kind_collision`) or for
upper-case words. -/
theorem c_names_injective (ns a b : List Char) (ha : simpleTail true a = true) (hb : simpleTail true b = true)
    (ka : kebab a) (kb : kebab b) :
    (cTypeName ns a = cTypeName ns b → a = b) ∧ (cFuncName ns a = cFuncName ns b → a = b) ∧
    (cFreeName ns a = cFreeName ns b → a = b) := by
  refine ⟨fun h => ?_, fun h => ?_, fun h => ?_⟩
  · unfold cTypeName at h
    rw [List.append_left_inj, List.append_right_inj] at h
    exact snake_inj a b ha hb ka kb h
  · unfold cFuncName at h
    rw [List.append_right_inj, snake_simple a ha, snake_simple b hb,
      dotToUnderscore_kebab a ka, dotToUnderscore_kebab b kb] at h
    exact map_sepU_inj_kebab a b ka kb h
  · unfold cFreeName at h
    rw [List.append_left_inj, List.append_right_inj] at h
    exact snake_inj a b ha hb ka kb h

/- Full statement across kinds: the generated symbols of one namespace (functions, typedefs, free
helpers, drop functions) are pairwise distinct.  False: -/

/-- **Across kinds the mangling is not injective**: function `foo-free` and the free helper of type
`foo`; function `foo-t` and the typedef of `foo`; function `r-drop-own` and the drop function of
resource `r` — each pair is one C symbol. -/
theorem c_names_cross_kind_collision :
    cFuncName "t_t_i".toList "foo-free".toList = cFreeName "t_t_i".toList "foo".toList ∧
    cFuncName "t_t_i".toList "foo-t".toList = cTypeName "t_t_i".toList "foo".toList ∧
    cFuncName "t_t_i".toList "r-drop-own".toList = cDropOwnName "t_t_i".toList "r".toList := by
  decide +kernel

/-! ## package versions in C namespaces (`interface_identifier`) -/

/-- **The mangled version consists of C identifier characters, for EVERY semver string** (any
characters of the semver grammar: digits, letters, `.`, `-` of pre-releases, `+` of build metadata,
in any order and number).  `mangleVersion` applies the `.replace` chain that tools/gen_cident.py
extracts from `interface_identifier` on every run; the per-character fact is re-proved against the
regenerated chain (a chain that forgets `-` fails here). -/
theorem c_version_mangling_is_c_ident (v : List Char) (hv : ∀ c ∈ v, c ∈ semverChars) :
    ∀ d ∈ mangleVersion v, cIdentChar d = true :=
  mangleVersion_ident v hv

/-- **The C namespace of an interface is a C identifier**: for lower-case kebab namespace, package and
interface names (the namespace starting with a letter), any semver version, with or without the
`exports_` prefix and whether or not the version is included: every character is an identifier
character and the first one is a lower-case letter. -/
theorem c_interface_identifier_is_c_ident (inExport multi : Bool) (ns pkg iface : List Char)
    (ver : Option (List Char)) (c0 : Char) (rest : List Char)
    (hns : simpleTail true ns = true) (hpkg : simpleTail true pkg = true) (hif : simpleTail true iface = true)
    (h0 : ns = c0 :: rest) (hc0 : isAsciiLower c0 = true)
    (hver : ∀ v, ver = some v → ∀ c ∈ v, c ∈ semverChars) :
    (∀ d ∈ interfaceIdentifier inExport ns pkg ver multi iface, cIdentChar d = true) ∧
    ∃ c, (interfaceIdentifier inExport ns pkg ver multi iface).head? = some c ∧ isAsciiLower c = true := by
  have hN := snake_ident ns hns
  have hP := snake_ident pkg hpkg
  have hI := snake_ident iface hif
  have hE : ∀ d ∈ "exports_".toList, cIdentChar d = true := by decide
  have hV : ∀ d ∈ (match multi, ver with
      | true, some v => mangleVersion v ++ ['_']
      | _, _ => ([] : List Char)), cIdentChar d = true := by
    intro d hd
    split at hd
    · rename_i v
      rcases List.mem_append.mp hd with h | h
      · exact mangleVersion_ident v (hver v rfl) d h
      · simp at h; subst h; decide
    · simp at hd
  refine ⟨?_, ?_⟩
  · intro d hd
    unfold interfaceIdentifier at hd
    simp only [List.mem_append, List.mem_singleton] at hd
    rcases hd with ((((((h | h) | h) | h) | h) | h) | h)
    · cases inExport <;> simp at h; exact hE d (by simpa using h)
    · exact hN d h
    · subst h; decide
    · exact hP d h
    · subst h; decide
    · exact hV d h
    · exact hI d h
  · unfold interfaceIdentifier
    cases inExport
    · have hs : snake ns = ns.map sepU := snake_simple ns hns
      have ha : isAlnum c0 = true := by
        simp only [isAlnum]
        have : c0.toNat < 128 := by
          simp only [isAsciiLower, Bool.and_eq_true, decide_eq_true_eq] at hc0; omega
        simp [this, hc0]
      refine ⟨c0, ?_, hc0⟩
      rw [hs, h0]
      simp [sepU, ha]
    · exact ⟨'e', by simp, by decide⟩

/-- Non-vacuity: `my:dep/a@1.0.0-rc.1+exp.sha-5114f85` among several versions, exported. -/
example : interfaceIdentifier true "my".toList "dep".toList (some "1.0.0-rc.1+exp.sha-5114f85".toList) true "a".toList
    = "exports_my_dep_1_0_0_rc_1_exp_sha_5114f85_a".toList := by decide +kernel

/- Full statement: distinct versions of a package get distinct C namespaces.  False: -/

/-- **The version mangling is not injective**: the distinct pre-release versions `1.0.0-a.1` and
`1.0.0-a-1` (both valid, both may be imported by one world) are mangled to the same text, so all
their C identifiers coincide (the generator then panics with "duplicate symbols"). -/
theorem c_version_mangling_not_injective :
    mangleVersion "1.0.0-a.1".toList = mangleVersion "1.0.0-a-1".toList ∧
    "1.0.0-a.1".toList ≠ "1.0.0-a-1".toList := by
  decide +kernel

/-- Temporaries of a generated function body are fresh w.r.t. every parameter name and every earlier
temporary (`FunctionBindgen::new` inserts the parameters into `locals`, every temporary is
`locals.tmp(..)`): C26 at the C backend.  (The fixed local names `ret_area`, `base`, `e`, `map_key`,
`maybe_<p>` are *not* allocated through `Ns` — see the known findings.) -/
theorem c_tmp_fresh (ns ns' : Witverif.Text.Ns) (name r : List Char) (h : ns.tmp name = some (ns', r)) :
    r ∉ ns.defined :=
  Witverif.Props.C26.tmp_fresh ns ns' name r h

end Witverif.Props.C12
