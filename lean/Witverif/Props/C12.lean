import Witverif.Proofs.CIdent
import Witverif.Props.C26
/-!
# C12 — Generated C builds and componentizes as exactly the requested world

What can be *proved* about "the generated C compiles" is the part that is logic of the generator:
its identifier mangling.  Model: `Text/CIdent.lean` (`to_c_ident` over the escape table regenerated
from crates/c/src/lib.rs on every run — `Generated/CIdent.lean`, with a round-trip guard — and
`to_snake_case` = `Text/Heck.lean`), `c_func_name`, typedef / free-helper / drop names.
Spec: the reserved words of the C dialect the bindings are compiled as (`CIdentSpec.cKeywords`).

Acceptance of the generated text by clang / wasm-ld and of the linked module by
`wit_component::ComponentEncoder` (and equality of the encoded component's world with the requested
one) is **validated, not proved**: `./check C12` runs that tool chain on seeded worlds, on the
tests/codegen corpus minus the C backend's declared exclusions, and on adversarial names, for the
option matrix.  Temporaries inside generated functions come from `Ns::tmp` (C26).
-/
namespace Witverif.Props.C12
open Witverif.Text Witverif.Text.Heck Witverif.Text.CIdent Witverif.Text.CIdentSpec
open Witverif.Generated.CIdent

/-- Every literal arm of `to_c_ident` maps `k` to `k_`, and no `k_` is a reserved word (re-proved
against the regenerated table on every run). -/
theorem to_c_ident_escapes_safe : ∀ e ∈ escapeTable, e.2 ∉ cKeywords ∧ e.2 = e.1 ++ ['_'] := by
  intro e he
  have := List.all_eq_true.mp escapes_safe_all e he
  simpa using this

/-- **`to_c_ident` never yields a word of `CIdentSpec.cKeywords`** — for every input string (upper-case
words, any number of words, any characters): the table is consulted with the snake-cased name and
every word of that list (the 34 lower-case C17 keywords, `asm`, `typeof`, and `bool`/`true`/`false` of
`<stdbool.h>`) has an arm.  The claim is relative to that list: other identifiers that break a
compile (typedef names such as `int8_t`, fixed locals such as `ret_area`) are outside it and are
known findings.
(Before /repo 89692d8 this was false: `restrict`/`typeof` had no arm and `INT` became `int`.) -/
theorem to_c_ident_not_keyword (name : List Char) : toCIdent name ∉ cKeywords :=
  toCIdent_not_keyword name

/-- … in particular upper-case spellings of keywords are escaped. -/
theorem to_c_ident_uppercase_keyword :
    toCIdent "INT".toList = "int_".toList ∧ toCIdent "restrict".toList = "restrict_".toList := by
  decide +kernel

/-- Non-vacuity: `static` is escaped, `my-field` is snake-cased. -/
example : toCIdent "static".toList = "static_".toList ∧ toCIdent "my-field".toList = "my_field".toList ∧
    simpleTail true "my-field".toList = true := by decide +kernel

/-- **Names are injective within one kind and one fixed namespace**, on lower-case kebab names
(letters, digits, `-`; every word non-empty): two different such names give different typedef names,
different function names, different free-helper names.  Nothing is claimed across namespaces (see
the known finding for `a-b`/`c` vs `a`/`b-c`), across kinds (`c_names_cross_kind_collision`) or for
upper-case words. -/
theorem c_names_injective (ns a b : List Char) (ha : simpleTail true a = true) (hb : simpleTail true b = true)
    (ka : kebab a) (kb : kebab b) :
    (cTypeName ns a = cTypeName ns b → a = b) ∧ (cFuncName ns a = cFuncName ns b → a = b) ∧
    (cFreeName ns a = cFreeName ns b → a = b) := by
  refine ⟨fun h => ?_, fun h => ?_, fun h => ?_⟩
  · unfold cTypeName at h
    rw [List.append_left_inj, List.append_right_inj] at h
    exact snake_inj a b ha hb ka kb h
  · unfold cFuncName at h
    rw [List.append_right_inj, snake_simple a ha, snake_simple b hb,
      dotToUnderscore_kebab a ka, dotToUnderscore_kebab b kb] at h
    exact map_sepU_inj_kebab a b ka kb h
  · unfold cFreeName at h
    rw [List.append_left_inj, List.append_right_inj] at h
    exact snake_inj a b ha hb ka kb h

/- Full statement across kinds: the generated symbols of one namespace (functions, typedefs, free
helpers, drop functions) are pairwise distinct.  False: -/

/-- **Across kinds the mangling is not injective**: function `foo-free` and the free helper of type
`foo`; function `foo-t` and the typedef of `foo`; function `r-drop-own` and the drop function of
resource `r` — each pair is one C symbol. -/
theorem c_names_cross_kind_collision :
    cFuncName "t_t_i".toList "foo-free".toList = cFreeName "t_t_i".toList "foo".toList ∧
    cFuncName "t_t_i".toList "foo-t".toList = cTypeName "t_t_i".toList "foo".toList ∧
    cFuncName "t_t_i".toList "r-drop-own".toList = cDropOwnName "t_t_i".toList "r".toList := by
  decide +kernel

/-- Temporaries of a generated function body are fresh w.r.t. every parameter name and every earlier
temporary (`FunctionBindgen::new` inserts the parameters into `locals`, every temporary is
`locals.tmp(..)`): C26 at the C backend.  (The fixed local names `ret_area`, `base`, `e`, `map_key`,
`maybe_<p>` are *not* allocated through `Ns` — see the known findings.) -/
theorem c_tmp_fresh (ns ns' : Witverif.Text.Ns) (name r : List Char) (h : ns.tmp name = some (ns', r)) :
    r ∉ ns.defined :=
  Witverif.Props.C26.tmp_fresh ns ns' name r h

end Witverif.Props.C12
