import Witverif.Proofs.Scalar
import Witverif.Generated.ScalarExprs.Rust
/-! # C14, backend `rust`: one theorem per scalar ABI instruction

`G.rust_I` is the list of conversion expressions the `rust` generator emitted for instruction `I`
(flat position, in-memory position composed with the emitted load/store, import and export side),
re-extracted from generated output on every check run.  Each theorem quantifies over **all**
operand values.  Proof script: `scalar_tac` (fixed; re-proves when the table changes). -/
namespace Witverif.Props.C14.Rust
open Witverif.Scalar Witverif.Scalar.Spec
namespace G
export Witverif.Generated.ScalarExprs (rust_I32FromBool rust_BoolFromI32 rust_I32FromS8 rust_S8FromI32 rust_I32FromU8 rust_U8FromI32 rust_I32FromS16 rust_S16FromI32 rust_I32FromU16 rust_U16FromI32 rust_I32FromS32 rust_S32FromI32 rust_I32FromU32 rust_U32FromI32 rust_I64FromS64 rust_S64FromI64 rust_I64FromU64 rust_U64FromI64 rust_CoreF32FromF32 rust_F32FromCoreF32 rust_CoreF64FromF64 rust_F64FromCoreF64 rust_I32FromChar rust_CharFromI32)
end G
set_option maxRecDepth 8000

/-- rust: bool lowers to 0/1 -/
theorem rust_I32FromBool : ∀ e ∈ G.rust_I32FromBool, e.Correct := by
  unfold G.rust_I32FromBool; scalar_tac
example : G.rust_I32FromBool ≠ [] := by decide

/- FULL STATEMENT (false of the pinned tree):
     theorem rust_BoolFromI32 : ∀ e ∈ G.rust_BoolFromI32, e.Correct
   Rust emits `_rt::bool_lift(x as u8)`: the core i32 is truncated to its low byte *before* the test, and
   `bool_lift` is `val != 0` in release builds but `match val { 0 => false, 1 => true, _ => panic!(..) }` with debug
   assertions.  The canonical ABI lifts `bool` as `c != 0` over the whole i32 (flat) / the whole byte (memory).
   NON-CANONICAL INPUT ONLY: a conforming host's lower_flat / store produces only 0 or 1 for a bool (fused adapters
   re-canonicalise), and `…_partial` below proves correctness on exactly those encodings; the deviation exists only under
   the property's quantifier over all 2^32 core values and is not a defect of generated components under conforming hosts. -/
/-- witness: flat position, release build, core value 0x100 lifts to `false`; the canonical ABI says `true` -/
theorem rust_BoolFromI32_full_false : ¬ ∀ e ∈ G.rust_BoolFromI32, e.Correct := by
  intro h
  have h0 := Entry.evalAt_of_correct _ (h _ (List.getElem_mem (l := G.rust_BoolFromI32) (n := 0) (by decide))) 0x100 false
  revert h0; decide
/-- on the canonical encodings 0 and 1 (all that a host produces) every variant is right, with and without
debug assertions -/
theorem rust_BoolFromI32_partial : ∀ e ∈ G.rust_BoolFromI32,
    e.CorrectIf (fun c _ => decide (c &&& 0xff#64 ≤ 1#64 ∧ (c &&& 0xffffff00#64 = 0#64 ∨ e.pos = .mem))) := by
  unfold G.rust_BoolFromI32; scalar_tac
/-- release builds: right whenever the low byte is non-zero or the whole value is zero (flat position), and
for every byte in memory -/
theorem rust_BoolFromI32_partial_release : ∀ e ∈ G.rust_BoolFromI32,
    e.CorrectIf (fun c dbg => !dbg && (decide (c &&& 0xff#64 ≠ 0#64 ∨ c &&& 0xffffff00#64 = 0#64) || e.pos == .mem)) := by
  unfold G.rust_BoolFromI32; scalar_tac
example : G.rust_BoolFromI32 ≠ [] := by decide

/-- rust: s8 lowers by sign-extension (all 2^8 values) -/
theorem rust_I32FromS8 : ∀ e ∈ G.rust_I32FromS8, e.Correct := by
  unfold G.rust_I32FromS8; scalar_tac
example : G.rust_I32FromS8 ≠ [] := by decide

/-- rust: s8 lifts from the low 8 bits with its own signedness, for all 2^32 core values -/
theorem rust_S8FromI32 : ∀ e ∈ G.rust_S8FromI32, e.Correct := by
  unfold G.rust_S8FromI32; scalar_tac
example : G.rust_S8FromI32 ≠ [] := by decide

/-- rust: u8 lowers by zero-extension (all 2^8 values) -/
theorem rust_I32FromU8 : ∀ e ∈ G.rust_I32FromU8, e.Correct := by
  unfold G.rust_I32FromU8; scalar_tac
example : G.rust_I32FromU8 ≠ [] := by decide

/-- rust: u8 lifts from the low 8 bits with its own signedness, for all 2^32 core values -/
theorem rust_U8FromI32 : ∀ e ∈ G.rust_U8FromI32, e.Correct := by
  unfold G.rust_U8FromI32; scalar_tac
example : G.rust_U8FromI32 ≠ [] := by decide

/-- rust: s16 lowers by sign-extension (all 2^16 values) -/
theorem rust_I32FromS16 : ∀ e ∈ G.rust_I32FromS16, e.Correct := by
  unfold G.rust_I32FromS16; scalar_tac
example : G.rust_I32FromS16 ≠ [] := by decide

/-- rust: s16 lifts from the low 16 bits with its own signedness, for all 2^32 core values -/
theorem rust_S16FromI32 : ∀ e ∈ G.rust_S16FromI32, e.Correct := by
  unfold G.rust_S16FromI32; scalar_tac
example : G.rust_S16FromI32 ≠ [] := by decide

/-- rust: u16 lowers by zero-extension (all 2^16 values) -/
theorem rust_I32FromU16 : ∀ e ∈ G.rust_I32FromU16, e.Correct := by
  unfold G.rust_I32FromU16; scalar_tac
example : G.rust_I32FromU16 ≠ [] := by decide

/-- rust: u16 lifts from the low 16 bits with its own signedness, for all 2^32 core values -/
theorem rust_U16FromI32 : ∀ e ∈ G.rust_U16FromI32, e.Correct := by
  unfold G.rust_U16FromI32; scalar_tac
example : G.rust_U16FromI32 ≠ [] := by decide

/-- rust: s32 lowers bit-exactly (all 2^32 values) -/
theorem rust_I32FromS32 : ∀ e ∈ G.rust_I32FromS32, e.Correct := by
  unfold G.rust_I32FromS32; scalar_tac
example : G.rust_I32FromS32 ≠ [] := by decide

/-- rust: s32 lifts bit-exactly (all 2^32 core values) -/
theorem rust_S32FromI32 : ∀ e ∈ G.rust_S32FromI32, e.Correct := by
  unfold G.rust_S32FromI32; scalar_tac
example : G.rust_S32FromI32 ≠ [] := by decide

/-- rust: u32 lowers bit-exactly (all 2^32 values) -/
theorem rust_I32FromU32 : ∀ e ∈ G.rust_I32FromU32, e.Correct := by
  unfold G.rust_I32FromU32; scalar_tac
example : G.rust_I32FromU32 ≠ [] := by decide

/-- rust: u32 lifts bit-exactly (all 2^32 core values) -/
theorem rust_U32FromI32 : ∀ e ∈ G.rust_U32FromI32, e.Correct := by
  unfold G.rust_U32FromI32; scalar_tac
example : G.rust_U32FromI32 ≠ [] := by decide

/-- rust: s64 lowers bit-exactly (all 2^64 values) -/
theorem rust_I64FromS64 : ∀ e ∈ G.rust_I64FromS64, e.Correct := by
  unfold G.rust_I64FromS64; scalar_tac
example : G.rust_I64FromS64 ≠ [] := by decide

/-- rust: s64 lifts bit-exactly (all 2^64 core values) -/
theorem rust_S64FromI64 : ∀ e ∈ G.rust_S64FromI64, e.Correct := by
  unfold G.rust_S64FromI64; scalar_tac
example : G.rust_S64FromI64 ≠ [] := by decide

/-- rust: u64 lowers bit-exactly (all 2^64 values) -/
theorem rust_I64FromU64 : ∀ e ∈ G.rust_I64FromU64, e.Correct := by
  unfold G.rust_I64FromU64; scalar_tac
example : G.rust_I64FromU64 ≠ [] := by decide

/-- rust: u64 lifts bit-exactly (all 2^64 core values) -/
theorem rust_U64FromI64 : ∀ e ∈ G.rust_U64FromI64, e.Correct := by
  unfold G.rust_U64FromI64; scalar_tac
example : G.rust_U64FromI64 ≠ [] := by decide

/-- rust: f32 lowers bit-exactly -/
theorem rust_CoreF32FromF32 : ∀ e ∈ G.rust_CoreF32FromF32, e.Correct := by
  unfold G.rust_CoreF32FromF32; scalar_tac
example : G.rust_CoreF32FromF32 ≠ [] := by decide

/-- rust: f32 lifts bit-exactly -/
theorem rust_F32FromCoreF32 : ∀ e ∈ G.rust_F32FromCoreF32, e.Correct := by
  unfold G.rust_F32FromCoreF32; scalar_tac
example : G.rust_F32FromCoreF32 ≠ [] := by decide

/-- rust: f64 lowers bit-exactly -/
theorem rust_CoreF64FromF64 : ∀ e ∈ G.rust_CoreF64FromF64, e.Correct := by
  unfold G.rust_CoreF64FromF64; scalar_tac
example : G.rust_CoreF64FromF64 ≠ [] := by decide

/-- rust: f64 lifts bit-exactly -/
theorem rust_F64FromCoreF64 : ∀ e ∈ G.rust_F64FromCoreF64, e.Correct := by
  unfold G.rust_F64FromCoreF64; scalar_tac
example : G.rust_F64FromCoreF64 ≠ [] := by decide

/-- rust: char lowers to its scalar value -/
theorem rust_I32FromChar : ∀ e ∈ G.rust_I32FromChar, e.Correct := by
  unfold G.rust_I32FromChar; scalar_tac
example : G.rust_I32FromChar ≠ [] := by decide

/-- rust: char lifts from its scalar value (every Unicode scalar value) -/
theorem rust_CharFromI32 : ∀ e ∈ G.rust_CharFromI32, e.Correct := by
  unfold G.rust_CharFromI32; scalar_tac
example : G.rust_CharFromI32 ≠ [] := by decide

end Witverif.Props.C14.Rust
