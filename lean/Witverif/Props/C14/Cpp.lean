import Witverif.Proofs.Scalar
import Witverif.Generated.ScalarExprs.Cpp
/-! # C14, backend `cpp`: one theorem per scalar ABI instruction

`G.cpp_I` is the list of conversion expressions the `cpp` generator emitted for instruction `I`
(flat position, in-memory position composed with the emitted load/store, import and export side),
re-extracted from generated output on every check run.  Each theorem quantifies over **all**
operand values.  Proof script: `scalar_tac` (fixed; re-proves when the table changes). -/
namespace Witverif.Props.C14.Cpp
open Witverif.Scalar Witverif.Scalar.Spec
namespace G
export Witverif.Generated.ScalarExprs (cpp_I32FromBool cpp_BoolFromI32 cpp_I32FromS8 cpp_S8FromI32 cpp_I32FromU8 cpp_U8FromI32 cpp_I32FromS16 cpp_S16FromI32 cpp_I32FromU16 cpp_U16FromI32 cpp_I32FromS32 cpp_S32FromI32 cpp_I32FromU32 cpp_U32FromI32 cpp_I64FromS64 cpp_S64FromI64 cpp_I64FromU64 cpp_U64FromI64 cpp_CoreF32FromF32 cpp_F32FromCoreF32 cpp_CoreF64FromF64 cpp_F64FromCoreF64 cpp_I32FromChar cpp_CharFromI32)
end G
set_option maxRecDepth 8000

/-- cpp: bool lowers to 0/1 -/
theorem cpp_I32FromBool : ∀ e ∈ G.cpp_I32FromBool, e.Correct := by
  unfold G.cpp_I32FromBool; scalar_tac
example : G.cpp_I32FromBool ≠ [] := by decide

/-- cpp: bool lifts as c ≠ 0 (all 2^32 core values; in memory: all 2^8 bytes) -/
theorem cpp_BoolFromI32 : ∀ e ∈ G.cpp_BoolFromI32, e.Correct := by
  unfold G.cpp_BoolFromI32; scalar_tac
example : G.cpp_BoolFromI32 ≠ [] := by decide

/-- cpp: s8 lowers by sign-extension (all 2^8 values) -/
theorem cpp_I32FromS8 : ∀ e ∈ G.cpp_I32FromS8, e.Correct := by
  unfold G.cpp_I32FromS8; scalar_tac
example : G.cpp_I32FromS8 ≠ [] := by decide

/-- cpp: s8 lifts from the low 8 bits with its own signedness, for all 2^32 core values -/
theorem cpp_S8FromI32 : ∀ e ∈ G.cpp_S8FromI32, e.Correct := by
  unfold G.cpp_S8FromI32; scalar_tac
example : G.cpp_S8FromI32 ≠ [] := by decide

/-- cpp: u8 lowers by zero-extension (all 2^8 values) -/
theorem cpp_I32FromU8 : ∀ e ∈ G.cpp_I32FromU8, e.Correct := by
  unfold G.cpp_I32FromU8; scalar_tac
example : G.cpp_I32FromU8 ≠ [] := by decide

/-- cpp: u8 lifts from the low 8 bits with its own signedness, for all 2^32 core values -/
theorem cpp_U8FromI32 : ∀ e ∈ G.cpp_U8FromI32, e.Correct := by
  unfold G.cpp_U8FromI32; scalar_tac
example : G.cpp_U8FromI32 ≠ [] := by decide

/-- cpp: s16 lowers by sign-extension (all 2^16 values) -/
theorem cpp_I32FromS16 : ∀ e ∈ G.cpp_I32FromS16, e.Correct := by
  unfold G.cpp_I32FromS16; scalar_tac
example : G.cpp_I32FromS16 ≠ [] := by decide

/-- cpp: s16 lifts from the low 16 bits with its own signedness, for all 2^32 core values -/
theorem cpp_S16FromI32 : ∀ e ∈ G.cpp_S16FromI32, e.Correct := by
  unfold G.cpp_S16FromI32; scalar_tac
example : G.cpp_S16FromI32 ≠ [] := by decide

/-- cpp: u16 lowers by zero-extension (all 2^16 values) -/
theorem cpp_I32FromU16 : ∀ e ∈ G.cpp_I32FromU16, e.Correct := by
  unfold G.cpp_I32FromU16; scalar_tac
example : G.cpp_I32FromU16 ≠ [] := by decide

/-- cpp: u16 lifts from the low 16 bits with its own signedness, for all 2^32 core values -/
theorem cpp_U16FromI32 : ∀ e ∈ G.cpp_U16FromI32, e.Correct := by
  unfold G.cpp_U16FromI32; scalar_tac
example : G.cpp_U16FromI32 ≠ [] := by decide

/-- cpp: s32 lowers bit-exactly (all 2^32 values) -/
theorem cpp_I32FromS32 : ∀ e ∈ G.cpp_I32FromS32, e.Correct := by
  unfold G.cpp_I32FromS32; scalar_tac
example : G.cpp_I32FromS32 ≠ [] := by decide

/-- cpp: s32 lifts bit-exactly (all 2^32 core values) -/
theorem cpp_S32FromI32 : ∀ e ∈ G.cpp_S32FromI32, e.Correct := by
  unfold G.cpp_S32FromI32; scalar_tac
example : G.cpp_S32FromI32 ≠ [] := by decide

/-- cpp: u32 lowers bit-exactly (all 2^32 values) -/
theorem cpp_I32FromU32 : ∀ e ∈ G.cpp_I32FromU32, e.Correct := by
  unfold G.cpp_I32FromU32; scalar_tac
example : G.cpp_I32FromU32 ≠ [] := by decide

/-- cpp: u32 lifts bit-exactly (all 2^32 core values) -/
theorem cpp_U32FromI32 : ∀ e ∈ G.cpp_U32FromI32, e.Correct := by
  unfold G.cpp_U32FromI32; scalar_tac
example : G.cpp_U32FromI32 ≠ [] := by decide

/-- cpp: s64 lowers bit-exactly (all 2^64 values) -/
theorem cpp_I64FromS64 : ∀ e ∈ G.cpp_I64FromS64, e.Correct := by
  unfold G.cpp_I64FromS64; scalar_tac
example : G.cpp_I64FromS64 ≠ [] := by decide

/-- cpp: s64 lifts bit-exactly (all 2^64 core values) -/
theorem cpp_S64FromI64 : ∀ e ∈ G.cpp_S64FromI64, e.Correct := by
  unfold G.cpp_S64FromI64; scalar_tac
example : G.cpp_S64FromI64 ≠ [] := by decide

/-- cpp: u64 lowers bit-exactly (all 2^64 values) -/
theorem cpp_I64FromU64 : ∀ e ∈ G.cpp_I64FromU64, e.Correct := by
  unfold G.cpp_I64FromU64; scalar_tac
example : G.cpp_I64FromU64 ≠ [] := by decide

/-- cpp: u64 lifts bit-exactly (all 2^64 core values) -/
theorem cpp_U64FromI64 : ∀ e ∈ G.cpp_U64FromI64, e.Correct := by
  unfold G.cpp_U64FromI64; scalar_tac
example : G.cpp_U64FromI64 ≠ [] := by decide

/-- cpp: f32 lowers bit-exactly -/
theorem cpp_CoreF32FromF32 : ∀ e ∈ G.cpp_CoreF32FromF32, e.Correct := by
  unfold G.cpp_CoreF32FromF32; scalar_tac
example : G.cpp_CoreF32FromF32 ≠ [] := by decide

/-- cpp: f32 lifts bit-exactly -/
theorem cpp_F32FromCoreF32 : ∀ e ∈ G.cpp_F32FromCoreF32, e.Correct := by
  unfold G.cpp_F32FromCoreF32; scalar_tac
example : G.cpp_F32FromCoreF32 ≠ [] := by decide

/-- cpp: f64 lowers bit-exactly -/
theorem cpp_CoreF64FromF64 : ∀ e ∈ G.cpp_CoreF64FromF64, e.Correct := by
  unfold G.cpp_CoreF64FromF64; scalar_tac
example : G.cpp_CoreF64FromF64 ≠ [] := by decide

/-- cpp: f64 lifts bit-exactly -/
theorem cpp_F64FromCoreF64 : ∀ e ∈ G.cpp_F64FromCoreF64, e.Correct := by
  unfold G.cpp_F64FromCoreF64; scalar_tac
example : G.cpp_F64FromCoreF64 ≠ [] := by decide

/-- cpp: char lowers to its scalar value -/
theorem cpp_I32FromChar : ∀ e ∈ G.cpp_I32FromChar, e.Correct := by
  unfold G.cpp_I32FromChar; scalar_tac
example : G.cpp_I32FromChar ≠ [] := by decide

/-- cpp: char lifts from its scalar value (every Unicode scalar value) -/
theorem cpp_CharFromI32 : ∀ e ∈ G.cpp_CharFromI32, e.Correct := by
  unfold G.cpp_CharFromI32; scalar_tac
example : G.cpp_CharFromI32 ≠ [] := by decide

end Witverif.Props.C14.Cpp
