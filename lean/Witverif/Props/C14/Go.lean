import Witverif.Proofs.Scalar
import Witverif.Generated.ScalarExprs.Go
/-! # C14, backend `go`: one theorem per scalar ABI instruction

`G.go_I` is the list of conversion expressions the `go` generator emitted for instruction `I`
(flat position, in-memory position composed with the emitted load/store, import and export side),
re-extracted from generated output on every check run.  Each theorem quantifies over **all**
operand values.  Proof script: `scalar_tac` (fixed; re-proves when the table changes). -/
namespace Witverif.Props.C14.Go
open Witverif.Scalar Witverif.Scalar.Spec
namespace G
export Witverif.Generated.ScalarExprs (go_I32FromBool go_BoolFromI32 go_I32FromS8 go_S8FromI32 go_I32FromU8 go_U8FromI32 go_I32FromS16 go_S16FromI32 go_I32FromU16 go_U16FromI32 go_I32FromS32 go_S32FromI32 go_I32FromU32 go_U32FromI32 go_I64FromS64 go_S64FromI64 go_I64FromU64 go_U64FromI64 go_CoreF32FromF32 go_F32FromCoreF32 go_CoreF64FromF64 go_F64FromCoreF64 go_I32FromChar go_CharFromI32)
end G
set_option maxRecDepth 8000

/-- go: bool lowers to 0/1 -/
theorem go_I32FromBool : ∀ e ∈ G.go_I32FromBool, e.Correct := by
  unfold G.go_I32FromBool; scalar_tac
example : G.go_I32FromBool ≠ [] := by decide

/-- go: bool lifts as c ≠ 0 (all 2^32 core values; in memory: all 2^8 bytes) -/
theorem go_BoolFromI32 : ∀ e ∈ G.go_BoolFromI32, e.Correct := by
  unfold G.go_BoolFromI32; scalar_tac
example : G.go_BoolFromI32 ≠ [] := by decide

/-- go: s8 lowers by sign-extension (all 2^8 values) -/
theorem go_I32FromS8 : ∀ e ∈ G.go_I32FromS8, e.Correct := by
  unfold G.go_I32FromS8; scalar_tac
example : G.go_I32FromS8 ≠ [] := by decide

/-- go: s8 lifts from the low 8 bits with its own signedness, for all 2^32 core values -/
theorem go_S8FromI32 : ∀ e ∈ G.go_S8FromI32, e.Correct := by
  unfold G.go_S8FromI32; scalar_tac
example : G.go_S8FromI32 ≠ [] := by decide

/-- go: u8 lowers by zero-extension (all 2^8 values) -/
theorem go_I32FromU8 : ∀ e ∈ G.go_I32FromU8, e.Correct := by
  unfold G.go_I32FromU8; scalar_tac
example : G.go_I32FromU8 ≠ [] := by decide

/-- go: u8 lifts from the low 8 bits with its own signedness, for all 2^32 core values -/
theorem go_U8FromI32 : ∀ e ∈ G.go_U8FromI32, e.Correct := by
  unfold G.go_U8FromI32; scalar_tac
example : G.go_U8FromI32 ≠ [] := by decide

/-- go: s16 lowers by sign-extension (all 2^16 values) -/
theorem go_I32FromS16 : ∀ e ∈ G.go_I32FromS16, e.Correct := by
  unfold G.go_I32FromS16; scalar_tac
example : G.go_I32FromS16 ≠ [] := by decide

/-- go: s16 lifts from the low 16 bits with its own signedness, for all 2^32 core values -/
theorem go_S16FromI32 : ∀ e ∈ G.go_S16FromI32, e.Correct := by
  unfold G.go_S16FromI32; scalar_tac
example : G.go_S16FromI32 ≠ [] := by decide

/-- go: u16 lowers by zero-extension (all 2^16 values) -/
theorem go_I32FromU16 : ∀ e ∈ G.go_I32FromU16, e.Correct := by
  unfold G.go_I32FromU16; scalar_tac
example : G.go_I32FromU16 ≠ [] := by decide

/-- go: u16 lifts from the low 16 bits with its own signedness, for all 2^32 core values -/
theorem go_U16FromI32 : ∀ e ∈ G.go_U16FromI32, e.Correct := by
  unfold G.go_U16FromI32; scalar_tac
example : G.go_U16FromI32 ≠ [] := by decide

/-- go: s32 lowers bit-exactly (all 2^32 values) -/
theorem go_I32FromS32 : ∀ e ∈ G.go_I32FromS32, e.Correct := by
  unfold G.go_I32FromS32; scalar_tac
example : G.go_I32FromS32 ≠ [] := by decide

/-- go: s32 lifts bit-exactly (all 2^32 core values) -/
theorem go_S32FromI32 : ∀ e ∈ G.go_S32FromI32, e.Correct := by
  unfold G.go_S32FromI32; scalar_tac
example : G.go_S32FromI32 ≠ [] := by decide

/-- go: u32 lowers bit-exactly (all 2^32 values) -/
theorem go_I32FromU32 : ∀ e ∈ G.go_I32FromU32, e.Correct := by
  unfold G.go_I32FromU32; scalar_tac
example : G.go_I32FromU32 ≠ [] := by decide

/-- go: u32 lifts bit-exactly (all 2^32 core values) -/
theorem go_U32FromI32 : ∀ e ∈ G.go_U32FromI32, e.Correct := by
  unfold G.go_U32FromI32; scalar_tac
example : G.go_U32FromI32 ≠ [] := by decide

/-- go: s64 lowers bit-exactly (all 2^64 values) -/
theorem go_I64FromS64 : ∀ e ∈ G.go_I64FromS64, e.Correct := by
  unfold G.go_I64FromS64; scalar_tac
example : G.go_I64FromS64 ≠ [] := by decide

/-- go: s64 lifts bit-exactly (all 2^64 core values) -/
theorem go_S64FromI64 : ∀ e ∈ G.go_S64FromI64, e.Correct := by
  unfold G.go_S64FromI64; scalar_tac
example : G.go_S64FromI64 ≠ [] := by decide

/-- go: u64 lowers bit-exactly (all 2^64 values) -/
theorem go_I64FromU64 : ∀ e ∈ G.go_I64FromU64, e.Correct := by
  unfold G.go_I64FromU64; scalar_tac
example : G.go_I64FromU64 ≠ [] := by decide

/-- go: u64 lifts bit-exactly (all 2^64 core values) -/
theorem go_U64FromI64 : ∀ e ∈ G.go_U64FromI64, e.Correct := by
  unfold G.go_U64FromI64; scalar_tac
example : G.go_U64FromI64 ≠ [] := by decide

/-- go: f32 lowers bit-exactly -/
theorem go_CoreF32FromF32 : ∀ e ∈ G.go_CoreF32FromF32, e.Correct := by
  unfold G.go_CoreF32FromF32; scalar_tac
example : G.go_CoreF32FromF32 ≠ [] := by decide

/-- go: f32 lifts bit-exactly -/
theorem go_F32FromCoreF32 : ∀ e ∈ G.go_F32FromCoreF32, e.Correct := by
  unfold G.go_F32FromCoreF32; scalar_tac
example : G.go_F32FromCoreF32 ≠ [] := by decide

/-- go: f64 lowers bit-exactly -/
theorem go_CoreF64FromF64 : ∀ e ∈ G.go_CoreF64FromF64, e.Correct := by
  unfold G.go_CoreF64FromF64; scalar_tac
example : G.go_CoreF64FromF64 ≠ [] := by decide

/-- go: f64 lifts bit-exactly -/
theorem go_F64FromCoreF64 : ∀ e ∈ G.go_F64FromCoreF64, e.Correct := by
  unfold G.go_F64FromCoreF64; scalar_tac
example : G.go_F64FromCoreF64 ≠ [] := by decide

/-- go: char lowers to its scalar value -/
theorem go_I32FromChar : ∀ e ∈ G.go_I32FromChar, e.Correct := by
  unfold G.go_I32FromChar; scalar_tac
example : G.go_I32FromChar ≠ [] := by decide

/-- go: char lifts from its scalar value (every Unicode scalar value) -/
theorem go_CharFromI32 : ∀ e ∈ G.go_CharFromI32, e.Correct := by
  unfold G.go_CharFromI32; scalar_tac
example : G.go_CharFromI32 ≠ [] := by decide

end Witverif.Props.C14.Go
