import Witverif.Proofs.Scalar
import Witverif.Generated.ScalarExprs.CSharp
/-! # C14, backend `csharp`: one theorem per scalar ABI instruction

`G.csharp_I` is the list of conversion expressions the `csharp` generator emitted for instruction `I`
(flat position, in-memory position composed with the emitted load/store, import and export side),
re-extracted from generated output on every check run.  Each theorem quantifies over **all**
operand values.  Proof script: `scalar_tac` (fixed; re-proves when the table changes). -/
namespace Witverif.Props.C14.CSharp
open Witverif.Scalar Witverif.Scalar.Spec
namespace G
export Witverif.Generated.ScalarExprs (csharp_I32FromBool csharp_BoolFromI32 csharp_I32FromS8 csharp_S8FromI32 csharp_I32FromU8 csharp_U8FromI32 csharp_I32FromS16 csharp_S16FromI32 csharp_I32FromU16 csharp_U16FromI32 csharp_I32FromS32 csharp_S32FromI32 csharp_I32FromU32 csharp_U32FromI32 csharp_I64FromS64 csharp_S64FromI64 csharp_I64FromU64 csharp_U64FromI64 csharp_CoreF32FromF32 csharp_F32FromCoreF32 csharp_CoreF64FromF64 csharp_F64FromCoreF64 csharp_I32FromChar csharp_CharFromI32)
end G
set_option maxRecDepth 8000

/-- csharp: bool lowers to 0/1 -/
theorem csharp_I32FromBool : ∀ e ∈ G.csharp_I32FromBool, e.Correct := by
  unfold G.csharp_I32FromBool; scalar_tac
example : G.csharp_I32FromBool ≠ [] := by decide

/-- csharp: bool lifts as c ≠ 0 (all 2^32 core values; in memory: all 2^8 bytes) -/
theorem csharp_BoolFromI32 : ∀ e ∈ G.csharp_BoolFromI32, e.Correct := by
  unfold G.csharp_BoolFromI32; scalar_tac
example : G.csharp_BoolFromI32 ≠ [] := by decide

/-- csharp: s8 lowers by sign-extension (all 2^8 values) -/
theorem csharp_I32FromS8 : ∀ e ∈ G.csharp_I32FromS8, e.Correct := by
  unfold G.csharp_I32FromS8; scalar_tac
example : G.csharp_I32FromS8 ≠ [] := by decide

/-- csharp: s8 lifts from the low 8 bits with its own signedness, for all 2^32 core values -/
theorem csharp_S8FromI32 : ∀ e ∈ G.csharp_S8FromI32, e.Correct := by
  unfold G.csharp_S8FromI32; scalar_tac
example : G.csharp_S8FromI32 ≠ [] := by decide

/-- csharp: u8 lowers by zero-extension (all 2^8 values) -/
theorem csharp_I32FromU8 : ∀ e ∈ G.csharp_I32FromU8, e.Correct := by
  unfold G.csharp_I32FromU8; scalar_tac
example : G.csharp_I32FromU8 ≠ [] := by decide

/-- csharp: u8 lifts from the low 8 bits with its own signedness, for all 2^32 core values -/
theorem csharp_U8FromI32 : ∀ e ∈ G.csharp_U8FromI32, e.Correct := by
  unfold G.csharp_U8FromI32; scalar_tac
example : G.csharp_U8FromI32 ≠ [] := by decide

/-- csharp: s16 lowers by sign-extension (all 2^16 values) -/
theorem csharp_I32FromS16 : ∀ e ∈ G.csharp_I32FromS16, e.Correct := by
  unfold G.csharp_I32FromS16; scalar_tac
example : G.csharp_I32FromS16 ≠ [] := by decide

/-- csharp: s16 lifts from the low 16 bits with its own signedness, for all 2^32 core values -/
theorem csharp_S16FromI32 : ∀ e ∈ G.csharp_S16FromI32, e.Correct := by
  unfold G.csharp_S16FromI32; scalar_tac
example : G.csharp_S16FromI32 ≠ [] := by decide

/-- csharp: u16 lowers by zero-extension (all 2^16 values) -/
theorem csharp_I32FromU16 : ∀ e ∈ G.csharp_I32FromU16, e.Correct := by
  unfold G.csharp_I32FromU16; scalar_tac
example : G.csharp_I32FromU16 ≠ [] := by decide

/-- csharp: u16 lifts from the low 16 bits with its own signedness, for all 2^32 core values -/
theorem csharp_U16FromI32 : ∀ e ∈ G.csharp_U16FromI32, e.Correct := by
  unfold G.csharp_U16FromI32; scalar_tac
example : G.csharp_U16FromI32 ≠ [] := by decide

/-- csharp: s32 lowers bit-exactly (all 2^32 values) -/
theorem csharp_I32FromS32 : ∀ e ∈ G.csharp_I32FromS32, e.Correct := by
  unfold G.csharp_I32FromS32; scalar_tac
example : G.csharp_I32FromS32 ≠ [] := by decide

/-- csharp: s32 lifts bit-exactly (all 2^32 core values) -/
theorem csharp_S32FromI32 : ∀ e ∈ G.csharp_S32FromI32, e.Correct := by
  unfold G.csharp_S32FromI32; scalar_tac
example : G.csharp_S32FromI32 ≠ [] := by decide

/-- csharp: u32 lowers bit-exactly (all 2^32 values) -/
theorem csharp_I32FromU32 : ∀ e ∈ G.csharp_I32FromU32, e.Correct := by
  unfold G.csharp_I32FromU32; scalar_tac
example : G.csharp_I32FromU32 ≠ [] := by decide

/-- csharp: u32 lifts bit-exactly (all 2^32 core values) -/
theorem csharp_U32FromI32 : ∀ e ∈ G.csharp_U32FromI32, e.Correct := by
  unfold G.csharp_U32FromI32; scalar_tac
example : G.csharp_U32FromI32 ≠ [] := by decide

/-- csharp: s64 lowers bit-exactly (all 2^64 values) -/
theorem csharp_I64FromS64 : ∀ e ∈ G.csharp_I64FromS64, e.Correct := by
  unfold G.csharp_I64FromS64; scalar_tac
example : G.csharp_I64FromS64 ≠ [] := by decide

/-- csharp: s64 lifts bit-exactly (all 2^64 core values) -/
theorem csharp_S64FromI64 : ∀ e ∈ G.csharp_S64FromI64, e.Correct := by
  unfold G.csharp_S64FromI64; scalar_tac
example : G.csharp_S64FromI64 ≠ [] := by decide

/-- csharp: u64 lowers bit-exactly (all 2^64 values) -/
theorem csharp_I64FromU64 : ∀ e ∈ G.csharp_I64FromU64, e.Correct := by
  unfold G.csharp_I64FromU64; scalar_tac
example : G.csharp_I64FromU64 ≠ [] := by decide

/-- csharp: u64 lifts bit-exactly (all 2^64 core values) -/
theorem csharp_U64FromI64 : ∀ e ∈ G.csharp_U64FromI64, e.Correct := by
  unfold G.csharp_U64FromI64; scalar_tac
example : G.csharp_U64FromI64 ≠ [] := by decide

/-- csharp: f32 lowers bit-exactly -/
theorem csharp_CoreF32FromF32 : ∀ e ∈ G.csharp_CoreF32FromF32, e.Correct := by
  unfold G.csharp_CoreF32FromF32; scalar_tac
example : G.csharp_CoreF32FromF32 ≠ [] := by decide

/-- csharp: f32 lifts bit-exactly -/
theorem csharp_F32FromCoreF32 : ∀ e ∈ G.csharp_F32FromCoreF32, e.Correct := by
  unfold G.csharp_F32FromCoreF32; scalar_tac
example : G.csharp_F32FromCoreF32 ≠ [] := by decide

/-- csharp: f64 lowers bit-exactly -/
theorem csharp_CoreF64FromF64 : ∀ e ∈ G.csharp_CoreF64FromF64, e.Correct := by
  unfold G.csharp_CoreF64FromF64; scalar_tac
example : G.csharp_CoreF64FromF64 ≠ [] := by decide

/-- csharp: f64 lifts bit-exactly -/
theorem csharp_F64FromCoreF64 : ∀ e ∈ G.csharp_F64FromCoreF64, e.Correct := by
  unfold G.csharp_F64FromCoreF64; scalar_tac
example : G.csharp_F64FromCoreF64 ≠ [] := by decide

/-- csharp: char lowers to its scalar value -/
theorem csharp_I32FromChar : ∀ e ∈ G.csharp_I32FromChar, e.Correct := by
  unfold G.csharp_I32FromChar; scalar_tac
example : G.csharp_I32FromChar ≠ [] := by decide

/-- csharp: char lifts from its scalar value (every Unicode scalar value) -/
theorem csharp_CharFromI32 : ∀ e ∈ G.csharp_CharFromI32, e.Correct := by
  unfold G.csharp_CharFromI32; scalar_tac
example : G.csharp_CharFromI32 ≠ [] := by decide

end Witverif.Props.C14.CSharp
