import Witverif.Proofs.Scalar
import Witverif.Generated.ScalarExprs.MoonBit
/-! # C14, backend `moonbit`: one theorem per scalar ABI instruction

`G.moonbit_I` is the list of conversion expressions the `moonbit` generator emitted for instruction `I`
(flat position, in-memory position composed with the emitted load/store, import and export side),
re-extracted from generated output on every check run.  Each theorem quantifies over **all**
operand values.  Proof script: `scalar_tac` (fixed; re-proves when the table changes). -/
namespace Witverif.Props.C14.MoonBit
open Witverif.Scalar Witverif.Scalar.Spec
namespace G
export Witverif.Generated.ScalarExprs (moonbit_I32FromBool moonbit_BoolFromI32 moonbit_I32FromS8 moonbit_S8FromI32 moonbit_I32FromU8 moonbit_U8FromI32 moonbit_I32FromS16 moonbit_S16FromI32 moonbit_I32FromU16 moonbit_U16FromI32 moonbit_I32FromS32 moonbit_S32FromI32 moonbit_I32FromU32 moonbit_U32FromI32 moonbit_I64FromS64 moonbit_S64FromI64 moonbit_I64FromU64 moonbit_U64FromI64 moonbit_CoreF32FromF32 moonbit_F32FromCoreF32 moonbit_CoreF64FromF64 moonbit_F64FromCoreF64 moonbit_I32FromChar moonbit_CharFromI32)
end G
set_option maxRecDepth 8000

/-- moonbit: bool lowers to 0/1 -/
theorem moonbit_I32FromBool : ∀ e ∈ G.moonbit_I32FromBool, e.Correct := by
  unfold G.moonbit_I32FromBool; scalar_tac
example : G.moonbit_I32FromBool ≠ [] := by decide

/-- moonbit: bool lifts as c ≠ 0 (all 2^32 core values; in memory: all 2^8 bytes) -/
theorem moonbit_BoolFromI32 : ∀ e ∈ G.moonbit_BoolFromI32, e.Correct := by
  unfold G.moonbit_BoolFromI32; scalar_tac
example : G.moonbit_BoolFromI32 ≠ [] := by decide

/-- moonbit: s8 lowers by sign-extension (all 2^8 values) -/
theorem moonbit_I32FromS8 : ∀ e ∈ G.moonbit_I32FromS8, e.Correct := by
  unfold G.moonbit_I32FromS8; scalar_tac
example : G.moonbit_I32FromS8 ≠ [] := by decide

/-- moonbit: s8 lifts from the low 8 bits with its own signedness, for all 2^32 core values -/
theorem moonbit_S8FromI32 : ∀ e ∈ G.moonbit_S8FromI32, e.Correct := by
  unfold G.moonbit_S8FromI32; scalar_tac
example : G.moonbit_S8FromI32 ≠ [] := by decide

/-- moonbit: u8 lowers by zero-extension (all 2^8 values) -/
theorem moonbit_I32FromU8 : ∀ e ∈ G.moonbit_I32FromU8, e.Correct := by
  unfold G.moonbit_I32FromU8; scalar_tac
example : G.moonbit_I32FromU8 ≠ [] := by decide

/-- moonbit: u8 lifts from the low 8 bits with its own signedness, for all 2^32 core values -/
theorem moonbit_U8FromI32 : ∀ e ∈ G.moonbit_U8FromI32, e.Correct := by
  unfold G.moonbit_U8FromI32; scalar_tac
example : G.moonbit_U8FromI32 ≠ [] := by decide

/-- moonbit: s16 lowers by sign-extension (all 2^16 values) -/
theorem moonbit_I32FromS16 : ∀ e ∈ G.moonbit_I32FromS16, e.Correct := by
  unfold G.moonbit_I32FromS16; scalar_tac
example : G.moonbit_I32FromS16 ≠ [] := by decide

/-- moonbit: s16 lifts from the low 16 bits with its own signedness, for all 2^32 core values -/
theorem moonbit_S16FromI32 : ∀ e ∈ G.moonbit_S16FromI32, e.Correct := by
  unfold G.moonbit_S16FromI32; scalar_tac
example : G.moonbit_S16FromI32 ≠ [] := by decide

/-- moonbit: u16 lowers by zero-extension (all 2^16 values) -/
theorem moonbit_I32FromU16 : ∀ e ∈ G.moonbit_I32FromU16, e.Correct := by
  unfold G.moonbit_I32FromU16; scalar_tac
example : G.moonbit_I32FromU16 ≠ [] := by decide

/-- moonbit: u16 lifts from the low 16 bits with its own signedness, for all 2^32 core values -/
theorem moonbit_U16FromI32 : ∀ e ∈ G.moonbit_U16FromI32, e.Correct := by
  unfold G.moonbit_U16FromI32; scalar_tac
example : G.moonbit_U16FromI32 ≠ [] := by decide

/-- moonbit: s32 lowers bit-exactly (all 2^32 values) -/
theorem moonbit_I32FromS32 : ∀ e ∈ G.moonbit_I32FromS32, e.Correct := by
  unfold G.moonbit_I32FromS32; scalar_tac
example : G.moonbit_I32FromS32 ≠ [] := by decide

/-- moonbit: s32 lifts bit-exactly (all 2^32 core values) -/
theorem moonbit_S32FromI32 : ∀ e ∈ G.moonbit_S32FromI32, e.Correct := by
  unfold G.moonbit_S32FromI32; scalar_tac
example : G.moonbit_S32FromI32 ≠ [] := by decide

/-- moonbit: u32 lowers bit-exactly (all 2^32 values) -/
theorem moonbit_I32FromU32 : ∀ e ∈ G.moonbit_I32FromU32, e.Correct := by
  unfold G.moonbit_I32FromU32; scalar_tac
example : G.moonbit_I32FromU32 ≠ [] := by decide

/-- moonbit: u32 lifts bit-exactly (all 2^32 core values) -/
theorem moonbit_U32FromI32 : ∀ e ∈ G.moonbit_U32FromI32, e.Correct := by
  unfold G.moonbit_U32FromI32; scalar_tac
example : G.moonbit_U32FromI32 ≠ [] := by decide

/-- moonbit: s64 lowers bit-exactly (all 2^64 values) -/
theorem moonbit_I64FromS64 : ∀ e ∈ G.moonbit_I64FromS64, e.Correct := by
  unfold G.moonbit_I64FromS64; scalar_tac
example : G.moonbit_I64FromS64 ≠ [] := by decide

/-- moonbit: s64 lifts bit-exactly (all 2^64 core values) -/
theorem moonbit_S64FromI64 : ∀ e ∈ G.moonbit_S64FromI64, e.Correct := by
  unfold G.moonbit_S64FromI64; scalar_tac
example : G.moonbit_S64FromI64 ≠ [] := by decide

/-- moonbit: u64 lowers bit-exactly (all 2^64 values) -/
theorem moonbit_I64FromU64 : ∀ e ∈ G.moonbit_I64FromU64, e.Correct := by
  unfold G.moonbit_I64FromU64; scalar_tac
example : G.moonbit_I64FromU64 ≠ [] := by decide

/-- moonbit: u64 lifts bit-exactly (all 2^64 core values) -/
theorem moonbit_U64FromI64 : ∀ e ∈ G.moonbit_U64FromI64, e.Correct := by
  unfold G.moonbit_U64FromI64; scalar_tac
example : G.moonbit_U64FromI64 ≠ [] := by decide

/-- moonbit: f32 lowers bit-exactly -/
theorem moonbit_CoreF32FromF32 : ∀ e ∈ G.moonbit_CoreF32FromF32, e.Correct := by
  unfold G.moonbit_CoreF32FromF32; scalar_tac
example : G.moonbit_CoreF32FromF32 ≠ [] := by decide

/-- moonbit: f32 lifts bit-exactly -/
theorem moonbit_F32FromCoreF32 : ∀ e ∈ G.moonbit_F32FromCoreF32, e.Correct := by
  unfold G.moonbit_F32FromCoreF32; scalar_tac
example : G.moonbit_F32FromCoreF32 ≠ [] := by decide

/-- moonbit: f64 lowers bit-exactly -/
theorem moonbit_CoreF64FromF64 : ∀ e ∈ G.moonbit_CoreF64FromF64, e.Correct := by
  unfold G.moonbit_CoreF64FromF64; scalar_tac
example : G.moonbit_CoreF64FromF64 ≠ [] := by decide

/-- moonbit: f64 lifts bit-exactly -/
theorem moonbit_F64FromCoreF64 : ∀ e ∈ G.moonbit_F64FromCoreF64, e.Correct := by
  unfold G.moonbit_F64FromCoreF64; scalar_tac
example : G.moonbit_F64FromCoreF64 ≠ [] := by decide

/-- moonbit: char lowers to its scalar value -/
theorem moonbit_I32FromChar : ∀ e ∈ G.moonbit_I32FromChar, e.Correct := by
  unfold G.moonbit_I32FromChar; scalar_tac
example : G.moonbit_I32FromChar ≠ [] := by decide

/-- moonbit: char lifts from its scalar value (every Unicode scalar value) -/
theorem moonbit_CharFromI32 : ∀ e ∈ G.moonbit_CharFromI32, e.Correct := by
  unfold G.moonbit_CharFromI32; scalar_tac
example : G.moonbit_CharFromI32 ≠ [] := by decide

end Witverif.Props.C14.MoonBit
