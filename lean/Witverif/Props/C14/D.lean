import Witverif.Proofs.Scalar
import Witverif.Generated.ScalarExprs.D
/-! # C14, backend `d`: one theorem per scalar ABI instruction

`G.d_I` is the list of conversion expressions the `d` generator emitted for instruction `I`
(flat position, in-memory position composed with the emitted load/store, import and export side),
re-extracted from generated output on every check run.  Each theorem quantifies over **all**
operand values.  Proof script: `scalar_tac` (fixed; re-proves when the table changes). -/
namespace Witverif.Props.C14.D
open Witverif.Scalar Witverif.Scalar.Spec
namespace G
export Witverif.Generated.ScalarExprs (d_I32FromBool d_BoolFromI32 d_I32FromS8 d_S8FromI32 d_I32FromU8 d_U8FromI32 d_I32FromS16 d_S16FromI32 d_I32FromU16 d_U16FromI32 d_I32FromS32 d_S32FromI32 d_I32FromU32 d_U32FromI32 d_I64FromS64 d_S64FromI64 d_I64FromU64 d_U64FromI64 d_CoreF32FromF32 d_F32FromCoreF32 d_CoreF64FromF64 d_F64FromCoreF64 d_I32FromChar d_CharFromI32)
end G
set_option maxRecDepth 8000

/-- d: bool lowers to 0/1 -/
theorem d_I32FromBool : ∀ e ∈ G.d_I32FromBool, e.Correct := by
  unfold G.d_I32FromBool; scalar_tac
example : G.d_I32FromBool ≠ [] := by decide

/-- d: bool lifts as c ≠ 0 (all 2^32 core values; in memory: all 2^8 bytes) -/
theorem d_BoolFromI32 : ∀ e ∈ G.d_BoolFromI32, e.Correct := by
  unfold G.d_BoolFromI32; scalar_tac
example : G.d_BoolFromI32 ≠ [] := by decide

/-- d: s8 lowers by sign-extension (all 2^8 values) -/
theorem d_I32FromS8 : ∀ e ∈ G.d_I32FromS8, e.Correct := by
  unfold G.d_I32FromS8; scalar_tac
example : G.d_I32FromS8 ≠ [] := by decide

/-- d: s8 lifts from the low 8 bits with its own signedness, for all 2^32 core values -/
theorem d_S8FromI32 : ∀ e ∈ G.d_S8FromI32, e.Correct := by
  unfold G.d_S8FromI32; scalar_tac
example : G.d_S8FromI32 ≠ [] := by decide

/-- d: u8 lowers by zero-extension (all 2^8 values) -/
theorem d_I32FromU8 : ∀ e ∈ G.d_I32FromU8, e.Correct := by
  unfold G.d_I32FromU8; scalar_tac
example : G.d_I32FromU8 ≠ [] := by decide

/-- d: u8 lifts from the low 8 bits with its own signedness, for all 2^32 core values -/
theorem d_U8FromI32 : ∀ e ∈ G.d_U8FromI32, e.Correct := by
  unfold G.d_U8FromI32; scalar_tac
example : G.d_U8FromI32 ≠ [] := by decide

/-- d: s16 lowers by sign-extension (all 2^16 values) -/
theorem d_I32FromS16 : ∀ e ∈ G.d_I32FromS16, e.Correct := by
  unfold G.d_I32FromS16; scalar_tac
example : G.d_I32FromS16 ≠ [] := by decide

/-- d: s16 lifts from the low 16 bits with its own signedness, for all 2^32 core values -/
theorem d_S16FromI32 : ∀ e ∈ G.d_S16FromI32, e.Correct := by
  unfold G.d_S16FromI32; scalar_tac
example : G.d_S16FromI32 ≠ [] := by decide

/-- d: u16 lowers by zero-extension (all 2^16 values) -/
theorem d_I32FromU16 : ∀ e ∈ G.d_I32FromU16, e.Correct := by
  unfold G.d_I32FromU16; scalar_tac
example : G.d_I32FromU16 ≠ [] := by decide

/-- d: u16 lifts from the low 16 bits with its own signedness, for all 2^32 core values -/
theorem d_U16FromI32 : ∀ e ∈ G.d_U16FromI32, e.Correct := by
  unfold G.d_U16FromI32; scalar_tac
example : G.d_U16FromI32 ≠ [] := by decide

/-- d: s32 lowers bit-exactly (all 2^32 values) -/
theorem d_I32FromS32 : ∀ e ∈ G.d_I32FromS32, e.Correct := by
  unfold G.d_I32FromS32; scalar_tac
example : G.d_I32FromS32 ≠ [] := by decide

/-- d: s32 lifts bit-exactly (all 2^32 core values) -/
theorem d_S32FromI32 : ∀ e ∈ G.d_S32FromI32, e.Correct := by
  unfold G.d_S32FromI32; scalar_tac
example : G.d_S32FromI32 ≠ [] := by decide

/-- d: u32 lowers bit-exactly (all 2^32 values) -/
theorem d_I32FromU32 : ∀ e ∈ G.d_I32FromU32, e.Correct := by
  unfold G.d_I32FromU32; scalar_tac
example : G.d_I32FromU32 ≠ [] := by decide

/-- d: u32 lifts bit-exactly (all 2^32 core values) -/
theorem d_U32FromI32 : ∀ e ∈ G.d_U32FromI32, e.Correct := by
  unfold G.d_U32FromI32; scalar_tac
example : G.d_U32FromI32 ≠ [] := by decide

/-- d: s64 lowers bit-exactly (all 2^64 values) -/
theorem d_I64FromS64 : ∀ e ∈ G.d_I64FromS64, e.Correct := by
  unfold G.d_I64FromS64; scalar_tac
example : G.d_I64FromS64 ≠ [] := by decide

/-- d: s64 lifts bit-exactly (all 2^64 core values) -/
theorem d_S64FromI64 : ∀ e ∈ G.d_S64FromI64, e.Correct := by
  unfold G.d_S64FromI64; scalar_tac
example : G.d_S64FromI64 ≠ [] := by decide

/-- d: u64 lowers bit-exactly (all 2^64 values) -/
theorem d_I64FromU64 : ∀ e ∈ G.d_I64FromU64, e.Correct := by
  unfold G.d_I64FromU64; scalar_tac
example : G.d_I64FromU64 ≠ [] := by decide

/-- d: u64 lifts bit-exactly (all 2^64 core values) -/
theorem d_U64FromI64 : ∀ e ∈ G.d_U64FromI64, e.Correct := by
  unfold G.d_U64FromI64; scalar_tac
example : G.d_U64FromI64 ≠ [] := by decide

/-- d: f32 lowers bit-exactly -/
theorem d_CoreF32FromF32 : ∀ e ∈ G.d_CoreF32FromF32, e.Correct := by
  unfold G.d_CoreF32FromF32; scalar_tac
example : G.d_CoreF32FromF32 ≠ [] := by decide

/-- d: f32 lifts bit-exactly -/
theorem d_F32FromCoreF32 : ∀ e ∈ G.d_F32FromCoreF32, e.Correct := by
  unfold G.d_F32FromCoreF32; scalar_tac
example : G.d_F32FromCoreF32 ≠ [] := by decide

/-- d: f64 lowers bit-exactly -/
theorem d_CoreF64FromF64 : ∀ e ∈ G.d_CoreF64FromF64, e.Correct := by
  unfold G.d_CoreF64FromF64; scalar_tac
example : G.d_CoreF64FromF64 ≠ [] := by decide

/-- d: f64 lifts bit-exactly -/
theorem d_F64FromCoreF64 : ∀ e ∈ G.d_F64FromCoreF64, e.Correct := by
  unfold G.d_F64FromCoreF64; scalar_tac
example : G.d_F64FromCoreF64 ≠ [] := by decide

/-- d: char lowers to its scalar value -/
theorem d_I32FromChar : ∀ e ∈ G.d_I32FromChar, e.Correct := by
  unfold G.d_I32FromChar; scalar_tac
example : G.d_I32FromChar ≠ [] := by decide

/-- d: char lifts from its scalar value (every Unicode scalar value) -/
theorem d_CharFromI32 : ∀ e ∈ G.d_CharFromI32, e.Correct := by
  unfold G.d_CharFromI32; scalar_tac
example : G.d_CharFromI32 ≠ [] := by decide

end Witverif.Props.C14.D
