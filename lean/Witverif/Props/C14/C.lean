import Witverif.Proofs.Scalar
import Witverif.Generated.ScalarExprs.C
/-! # C14, backend `c`: one theorem per scalar ABI instruction

`G.c_I` is the list of conversion expressions the `c` generator emitted for instruction `I`
(flat position, in-memory position composed with the emitted load/store, import and export side),
re-extracted from generated output on every check run.  Each theorem quantifies over **all**
operand values.  Proof script: `scalar_tac` (fixed; re-proves when the table changes). -/
namespace Witverif.Props.C14.C
open Witverif.Scalar Witverif.Scalar.Spec
namespace G
export Witverif.Generated.ScalarExprs (c_I32FromBool c_BoolFromI32 c_I32FromS8 c_S8FromI32 c_I32FromU8 c_U8FromI32 c_I32FromS16 c_S16FromI32 c_I32FromU16 c_U16FromI32 c_I32FromS32 c_S32FromI32 c_I32FromU32 c_U32FromI32 c_I64FromS64 c_S64FromI64 c_I64FromU64 c_U64FromI64 c_CoreF32FromF32 c_F32FromCoreF32 c_CoreF64FromF64 c_F64FromCoreF64 c_I32FromChar c_CharFromI32)
end G
set_option maxRecDepth 8000

/-- c: bool lowers to 0/1 -/
theorem c_I32FromBool : ∀ e ∈ G.c_I32FromBool, e.Correct := by
  unfold G.c_I32FromBool; scalar_tac
example : G.c_I32FromBool ≠ [] := by decide

/-- c: bool lifts as c ≠ 0 (all 2^32 core values; in memory: all 2^8 bytes) -/
theorem c_BoolFromI32 : ∀ e ∈ G.c_BoolFromI32, e.Correct := by
  unfold G.c_BoolFromI32; scalar_tac
example : G.c_BoolFromI32 ≠ [] := by decide

/-- c: s8 lowers by sign-extension (all 2^8 values) -/
theorem c_I32FromS8 : ∀ e ∈ G.c_I32FromS8, e.Correct := by
  unfold G.c_I32FromS8; scalar_tac
example : G.c_I32FromS8 ≠ [] := by decide

/-- c: s8 lifts from the low 8 bits with its own signedness, for all 2^32 core values -/
theorem c_S8FromI32 : ∀ e ∈ G.c_S8FromI32, e.Correct := by
  unfold G.c_S8FromI32; scalar_tac
example : G.c_S8FromI32 ≠ [] := by decide

/-- c: u8 lowers by zero-extension (all 2^8 values) -/
theorem c_I32FromU8 : ∀ e ∈ G.c_I32FromU8, e.Correct := by
  unfold G.c_I32FromU8; scalar_tac
example : G.c_I32FromU8 ≠ [] := by decide

/-- c: u8 lifts from the low 8 bits with its own signedness, for all 2^32 core values -/
theorem c_U8FromI32 : ∀ e ∈ G.c_U8FromI32, e.Correct := by
  unfold G.c_U8FromI32; scalar_tac
example : G.c_U8FromI32 ≠ [] := by decide

/-- c: s16 lowers by sign-extension (all 2^16 values) -/
theorem c_I32FromS16 : ∀ e ∈ G.c_I32FromS16, e.Correct := by
  unfold G.c_I32FromS16; scalar_tac
example : G.c_I32FromS16 ≠ [] := by decide

/-- c: s16 lifts from the low 16 bits with its own signedness, for all 2^32 core values -/
theorem c_S16FromI32 : ∀ e ∈ G.c_S16FromI32, e.Correct := by
  unfold G.c_S16FromI32; scalar_tac
example : G.c_S16FromI32 ≠ [] := by decide

/-- c: u16 lowers by zero-extension (all 2^16 values) -/
theorem c_I32FromU16 : ∀ e ∈ G.c_I32FromU16, e.Correct := by
  unfold G.c_I32FromU16; scalar_tac
example : G.c_I32FromU16 ≠ [] := by decide

/-- c: u16 lifts from the low 16 bits with its own signedness, for all 2^32 core values -/
theorem c_U16FromI32 : ∀ e ∈ G.c_U16FromI32, e.Correct := by
  unfold G.c_U16FromI32; scalar_tac
example : G.c_U16FromI32 ≠ [] := by decide

/-- c: s32 lowers bit-exactly (all 2^32 values) -/
theorem c_I32FromS32 : ∀ e ∈ G.c_I32FromS32, e.Correct := by
  unfold G.c_I32FromS32; scalar_tac
example : G.c_I32FromS32 ≠ [] := by decide

/-- c: s32 lifts bit-exactly (all 2^32 core values) -/
theorem c_S32FromI32 : ∀ e ∈ G.c_S32FromI32, e.Correct := by
  unfold G.c_S32FromI32; scalar_tac
example : G.c_S32FromI32 ≠ [] := by decide

/-- c: u32 lowers bit-exactly (all 2^32 values) -/
theorem c_I32FromU32 : ∀ e ∈ G.c_I32FromU32, e.Correct := by
  unfold G.c_I32FromU32; scalar_tac
example : G.c_I32FromU32 ≠ [] := by decide

/-- c: u32 lifts bit-exactly (all 2^32 core values) -/
theorem c_U32FromI32 : ∀ e ∈ G.c_U32FromI32, e.Correct := by
  unfold G.c_U32FromI32; scalar_tac
example : G.c_U32FromI32 ≠ [] := by decide

/-- c: s64 lowers bit-exactly (all 2^64 values) -/
theorem c_I64FromS64 : ∀ e ∈ G.c_I64FromS64, e.Correct := by
  unfold G.c_I64FromS64; scalar_tac
example : G.c_I64FromS64 ≠ [] := by decide

/-- c: s64 lifts bit-exactly (all 2^64 core values) -/
theorem c_S64FromI64 : ∀ e ∈ G.c_S64FromI64, e.Correct := by
  unfold G.c_S64FromI64; scalar_tac
example : G.c_S64FromI64 ≠ [] := by decide

/-- c: u64 lowers bit-exactly (all 2^64 values) -/
theorem c_I64FromU64 : ∀ e ∈ G.c_I64FromU64, e.Correct := by
  unfold G.c_I64FromU64; scalar_tac
example : G.c_I64FromU64 ≠ [] := by decide

/-- c: u64 lifts bit-exactly (all 2^64 core values) -/
theorem c_U64FromI64 : ∀ e ∈ G.c_U64FromI64, e.Correct := by
  unfold G.c_U64FromI64; scalar_tac
example : G.c_U64FromI64 ≠ [] := by decide

/-- c: f32 lowers bit-exactly -/
theorem c_CoreF32FromF32 : ∀ e ∈ G.c_CoreF32FromF32, e.Correct := by
  unfold G.c_CoreF32FromF32; scalar_tac
example : G.c_CoreF32FromF32 ≠ [] := by decide

/-- c: f32 lifts bit-exactly -/
theorem c_F32FromCoreF32 : ∀ e ∈ G.c_F32FromCoreF32, e.Correct := by
  unfold G.c_F32FromCoreF32; scalar_tac
example : G.c_F32FromCoreF32 ≠ [] := by decide

/-- c: f64 lowers bit-exactly -/
theorem c_CoreF64FromF64 : ∀ e ∈ G.c_CoreF64FromF64, e.Correct := by
  unfold G.c_CoreF64FromF64; scalar_tac
example : G.c_CoreF64FromF64 ≠ [] := by decide

/-- c: f64 lifts bit-exactly -/
theorem c_F64FromCoreF64 : ∀ e ∈ G.c_F64FromCoreF64, e.Correct := by
  unfold G.c_F64FromCoreF64; scalar_tac
example : G.c_F64FromCoreF64 ≠ [] := by decide

/-- c: char lowers to its scalar value -/
theorem c_I32FromChar : ∀ e ∈ G.c_I32FromChar, e.Correct := by
  unfold G.c_I32FromChar; scalar_tac
example : G.c_I32FromChar ≠ [] := by decide

/-- c: char lifts from its scalar value (every Unicode scalar value) -/
theorem c_CharFromI32 : ∀ e ∈ G.c_CharFromI32, e.Correct := by
  unfold G.c_CharFromI32; scalar_tac
example : G.c_CharFromI32 ≠ [] := by decide

end Witverif.Props.C14.C
