import Witverif.Proofs.CLayout
import Witverif.Props.C01
import Witverif.Props.C02
/-!
# C10 — C guest bindings carry every value across the boundary unchanged

Three layers take a value across the boundary of C bindings:

1. the instruction stream of the shared ABI generator under the C backend's configuration
   (`is_list_canonical = all_bits_valid`; imports lower with `realloc: None`) — the C corollaries of
   C01/C02 (`c_lower_flat_correct`, `c_wasm_sig_eq`);
2. the C emitter's decision to *discard the element block of every list/map lower and lift* and hand
   `ptr`/`len` through — sound exactly when the C struct layout of the generated typedefs is the
   canonical layout: `c_layout_eq_canonical` (all supported types, both pointer widths), with the
   boundary of the claim shown by `c_layout_flags64_differs`;
3. the C signature layer (`print_sig`, `classify_ret`, `is_arg_by_pointer`, out-pointers, `bool`
   returns, `--no-sig-flattening`): `c_sig_*` — the *shape* of the C signature (model `CSig`, compared
   with every generated prototype) has exactly one slot per WIT parameter plus the out-pointers, and
   the calling convention over that shape (formalised here, `CSigSpec`) is lossless.

Tie: `./check C10` runs the REAL generator, compiles the bindings natively, and lets the Lean
canonical ABI (`Spec`) act as the host (`m_chost`); the header's prototypes are compared with
`CSig.printSig`, `sizeof`/`_Alignof` with `CProfile.cSA`, the real `wasm_signature` with
`Gen.wasmSignature`, and every value observed on either side with the value sent from the other.
-/
namespace Witverif.Props.C10
open Witverif.Abi Witverif.Abi.CSig Witverif.Abi.CSigSpec Witverif.Abi.CProfile

/-! ## 3. the C signature layer -/

/-- The C signature has exactly one parameter per WIT parameter, followed by exactly the
out-pointers of `classify_ret` — nothing else, in this order. -/
theorem c_sig_params_exact (flat : Bool) (ps : List Shape) (r : Option Shape) :
    (printSig flat ps r).params = paramsFrom flat 0 ps ++ (classifyRet flat r).retptrs.map .out ∧
    (paramsFrom flat 0 ps).length = ps.length ∧
    (∀ j (h : j < ps.length), (paramsFrom flat 0 ps)[j]? = some (paramOf flat j ps[j])) :=
  ⟨rfl, paramsFrom_length flat 0 ps, fun j h => by simpa using paramsFrom_get flat ps 0 j h⟩

/-- A leading parameter is never an out-pointer, and it refers to its own position. -/
theorem c_sig_param_kind (flat : Bool) (j : Nat) (s : Shape) :
    paramOf flat j s = .byValue j ∨ paramOf flat j s = .byPointer j ∨ paramOf flat j s = .maybe j :=
  paramOf_kind flat j s

/-- **The parameter convention is lossless.**  `passOne`/`recvOne` (Abi/CSig.lean, `CSigSpec`) are this
framework's formalisation of the C calling convention the header documents (by value / pointer to the
value / `NULL`-or-pointer-to-payload) — they are *not* extracted from emitted code.  The theorem says
that this convention, applied to the parameter kinds `print_sig_params` chooses, loses nothing: for
every parameter list, flattening mode and argument values (options being `none`/`some v`), decoding
what was encoded yields the same values in the same order.  That the emitted wrappers actually follow
the convention (`*ret = …`, `maybe_x ? … : NULL`, …) is covered by native value execution only. -/
theorem c_sig_carries_params (flat : Bool) (ps : List Shape) (vs : List Val)
    (h : paramsOk ps vs = true) :
    ∃ as, passAll (paramsFrom flat 0 ps) vs = some as ∧ recvAll (paramsFrom flat 0 ps) as = some vs :=
  carries_params flat ps 0 vs h

/-- **The result convention is lossless.**  Same reading as above for `passResult`/`recvResult`
(C return value + out-pointer writes, framework-defined): for every result shape chosen by
`classify_ret` (aliases of options and results, results without payloads, `--no-sig-flattening`) and
every well-shaped result value, decoding the encoded result gives the same WIT value.  The emitted
`*ret` / `*err` stores and `return` statements are covered by native value execution only. -/
theorem c_sig_carries_result (flat : Bool) (r : Option Shape) (res : Option Val)
    (h : resultOptOk r res = true) :
    ∃ b, passResult (classifyRet flat r) res = some b ∧ recvResult (classifyRet flat r) b = some res :=
  carries_result flat r res h

/-- The out-pointers are pairwise distinct parts of the result (no part is passed twice). -/
theorem c_sig_retptrs_nodup (flat : Bool) (r : Option Shape) : (classifyRet flat r).retptrs.Nodup :=
  retptrs_nodup flat r

/-- Without signature flattening nothing is split: at most one out-pointer, carrying the whole result. -/
theorem c_sig_noflat_whole (r : Option Shape) :
    (classifyRet false r).retptrs = [] ∨ (classifyRet false r).retptrs = [.whole] :=
  noflat_whole r

/-- Non-vacuity: `f(a: record, b: option<string>, c: u32) -> result<list<u8>, enum>` with flattening is
`bool f(T *a, S *maybe_b, uint32_t c, L *ret, E *err)`, and an alias of an option parameter is *not*
flattened. -/
example :
    printSig true [.record, .option .string, .scalar] (some (.result (some .list) (some .enum)))
      = ⟨[.byPointer 0, .maybe 1, .byValue 2, .out .ok, .out .err], .boolResult⟩ ∧
    printSig true [.alias (.option .string)] none = ⟨[.byPointer 0], .void⟩ ∧
    printSig false [.option .string] (some (.option .scalar)) = ⟨[.byPointer 0, .out .whole], .void⟩ :=
  ⟨rfl, rfl, rfl⟩

/-! ## 2. C struct layout = canonical layout -/

/-- **The C typedefs have the canonical layout.**  For both pointer widths, every type the C
backend supports whose flags types have at most 32 members (the component-model limit): `sizeof`
and `_Alignof` of the generated C type equal `elem_size` and `alignment` of the canonical ABI. -/
theorem c_layout_eq_canonical (p : Nat) (hp : p = 4 ∨ p = 8) (t : Ty)
    (hs : cSupported t = true) (hf : flagsLe32 t = true) :
    cSA p t = (elemSize p t, alignment p t) :=
  cSA_eq p hp t hs hf

/-- … and the members of every generated struct sit at the canonical field offsets. -/
theorem c_field_offsets_eq_canonical (p : Nat) (hp : p = 4 ∨ p = 8) (ts : List Ty)
    (hs : cSupportedAll ts = true) (hf : flagsLe32All ts = true) :
    cFieldOffsets p ts = fieldOffsets p 0 ts :=
  cFieldOffsets_eq p hp ts hs hf

/-- … and the payload union of a variant / option / result sits at the canonical payload offset. -/
theorem c_payload_offset_eq_canonical (p : Nat) (hp : p = 4 ∨ p = 8) (cs : List (Option Ty))
    (hs : cSupportedCases cs = true) (hf : flagsLe32Cases cs = true) (hne : (cSAsOpt p cs).isEmpty = false)
    (d : IntRepr) (hd : d.size = 1 ∨ d.size = 2 ∨ d.size = 4) :
    (structOffsets 0 [(d.size, d.size), unionSA (cSAsOpt p cs)]) = [0, payloadOffset p d cs] :=
  cPayloadOffset_eq p hp cs hs hf hne d hd

/-- The hypothesis on flags is necessary: with 33..64 flags the generator uses `uint64_t` (size 8,
alignment 8) where the canonical ABI has two `u32` words (alignment 4) — `record { a: u32, f: flags33 }`
is 16 bytes in C and 12 in the ABI.  (Such worlds are rejected by the component validator, so this
is the boundary of the claim, not a defect of generated components.) -/
theorem c_layout_flags64_differs :
    cSA 4 (.record [.u32, .flags 33]) = (16, 8) ∧
    (elemSize 4 (.record [.u32, .flags 33]), alignment 4 (.record [.u32, .flags 33])) = (12, 4) := by
  decide

/-- Non-vacuity of the layout theorem: a variant with a string and a u64 case inside a record. -/
example : cSA 8 (.record [.u8, .variant [none, some .string, some .u64], .option .u16])
    = (40, 8) ∧ cSupported (.record [.u8, .variant [none, some .string, some .u64], .option .u16]) = true := by
  decide

/-! ## 1. the shared generator under the C configuration (corollaries of C01 / C02) -/

/-- C exports lower their result with `realloc: Some` and `all_bits_valid` as the canonical-list
rule; C imports lower their arguments with `realloc: None`. -/
def cExportCfg : Cfg := ⟨allBitsValid, true⟩
def cImportCfg : Cfg := ⟨allBitsValid, false⟩

/-- **C export results / import arguments are lowered per the spec** (memory-free types; corollary
of `C01.lower_flat_correct` at the C configurations).  For types that need linear memory the C
emitter passes `ptr`/`len` of the C array, whose bytes are the canonical bytes by
`c_layout_eq_canonical`; for the in-memory direction see `c_lift_from_c_laid_out_area_partial`. -/
theorem c_lower_flat_correct (p : Nat) (hp : p = 4 ∨ p = 8) (imp : Bool) (t : Ty) (v : Val)
    (hm : memFree t = true) (hv : Spec.hasTy t v = true)
    (lvl : Nat) (x : Expr) (env : Env) (m : Spec.Mem) (st : Spec.St) (ss : List Stmt) (es : List Expr)
    (hp' : env.p = p) (hlvl : env.frames.length = lvl + 1) (hx : eval env m x = some (.v v))
    (h : lower (if imp then cImportCfg else cExportCfg) lvl t x = .ok (ss, es)) :
    ss = [] ∧ evalList env m es = some ((Spec.lowerFlat p t v st).1.map MV.c) :=
  Witverif.Props.C01.lower_flat_correct p hp _ t v hm hv lvl x env m st ss es hp' hlvl hx h

/-- The core signature of every C import and export wrapper is the spec's (corollary of `C02.sig_eq`;
the C wrappers are declared with `wasm_signature`'s types through `wasm_type`). -/
theorem c_wasm_sig_flat_iff (v : Variant) (f : Func) :
    (wasmSignature v f).indirectParams =
      decide ((flattenList f.params).length > (if v = .guestImportAsync then 4 else 16)) :=
  Witverif.Props.C02.params_flat_iff v f

/-- The one generic statement still missing in C01 (named hypothesis of the `_partial` theorems
below): the *specification's* own `load ∘ store` round trip for every type.  (C01 proves that the
generator's memory code equals `Spec.store` / `Spec.load` — `store_correct_all`, `load_correct` — but
not yet that the spec round-trips with itself for memory-carrying types.) -/
def C01_store_load_roundtrip_stmt : Prop :=
  ∀ (p : Nat) (t : Ty) (v : Val) (a : Nat) (st : Spec.St), (p = 4 ∨ p = 8) → Spec.hasTy t v = true →
    a % alignment p t = 0 → a + elemSize p t ≤ st.heap.next →
    Spec.load p (Spec.store p t v a st).mem t a = some v

/-- The named hypothesis is not vacuous: it holds (by evaluation) at a concrete memory-carrying type,
`record { a: string, b: list<u16>, c: option<string> }` with `("hi", [1, 2], some "x")`, both widths. -/
example :
    Spec.load 4 (Spec.store 4 (.record [.string, .list .u16, .option .string])
        (.record [.str [104, 105], .list [.int 1, .int 2], .variant 1 (some (.str [120]))]) 16 { mem := [], heap := { next := 64 } }).mem
      (.record [.string, .list .u16, .option .string]) 16
      = some (.record [.str [104, 105], .list [.int 1, .int 2], .variant 1 (some (.str [120]))]) ∧
    Spec.load 8 (Spec.store 8 (.record [.string, .list .u16, .option .string])
        (.record [.str [104, 105], .list [.int 1, .int 2], .variant 1 (some (.str [120]))]) 16 { mem := [], heap := { next := 128 } }).mem
      (.record [.string, .list .u16, .option .string]) 16
      = some (.record [.str [104, 105], .list [.int 1, .int 2], .variant 1 (some (.str [120]))]) :=
  ⟨rfl, rfl⟩

/-- **What the generated lifting code reads from an area laid out the C way** (`_partial`: one named
hypothesis).  Let a host store `v : t` with the spec's `store` at an address that is aligned and has
room according to the *C* layout of `t` (`cSA`: what `ret_area[…]`/`RET_AREA`/the parameter record are
declared with).  Then the expression `read_from_memory` builds for `t` under the given backend
configuration — the very stream the C `FunctionBindgen` interprets for import results and indirect
export parameters — evaluates in the reference machine to `v`.  Uses `C01.load_correct` (generated
code = `Spec.load`, all types) and `c_layout_eq_canonical` (C layout = canonical layout); the remaining
gap is the spec-level round trip, taken as the named hypothesis.  Not covered by this theorem: that
the C *text* emitted for each instruction means what the reference machine says (validated by native
execution only), and that the C emitter may skip the element block of list lifts (that is
`c_layout_eq_canonical`). -/
theorem c_lift_from_c_laid_out_area_partial (h : C01_store_load_roundtrip_stmt) (p : Nat) (hp : p = 4 ∨ p = 8)
    (c : Cfg) (t : Ty) (v : Val) (hs : cSupported t = true) (hf : flagsLe32 t = true) (hv : Spec.hasTy t v = true)
    (lvl : Nat) (a : Expr) (off : Off) (env : Env) (addr : Nat) (st : Spec.St) (e : Expr)
    (hp' : env.p = p) (hl : env.frames.length = lvl + 1)
    (ha : AddrStable env (Spec.store p t v (addr + off.at p) st).mem a addr)
    (hal : (addr + off.at p) % (cSA p t).2 = 0) (hb : addr + off.at p + (cSA p t).1 ≤ st.heap.next)
    (he : load c lvl t a off = .ok e) :
    ∀ ls, eval (env.withLets ls) (Spec.store p t v (addr + off.at p) st).mem e = some (.v v) := by
  intro ls
  rw [c_layout_eq_canonical p hp t hs hf] at hal hb
  rw [Witverif.Props.C01.load_correct p hp c t lvl a off env _ addr e hp' hl ha he ls,
    h p t v (addr + off.at p) st hp hv hal hb]
  rfl

/-- `c_import_roundtrip` (`_partial`): the import wrapper's lifting code (C import configuration)
applied to a result the host stored into a `ret_area` with the C layout's size and alignment. -/
theorem c_import_roundtrip_partial (h : C01_store_load_roundtrip_stmt) (p : Nat) (hp : p = 4 ∨ p = 8)
    (r : Ty) (v : Val) (hs : cSupported r = true) (hf : flagsLe32 r = true) (hv : Spec.hasTy r v = true)
    (lvl : Nat) (a : Expr) (off : Off) (env : Env) (addr : Nat) (st : Spec.St) (e : Expr)
    (hp' : env.p = p) (hl : env.frames.length = lvl + 1)
    (ha : AddrStable env (Spec.store p r v (addr + off.at p) st).mem a addr)
    (hal : (addr + off.at p) % (cSA p r).2 = 0) (hb : addr + off.at p + (cSA p r).1 ≤ st.heap.next)
    (he : load cImportCfg lvl r a off = .ok e) :
    ∀ ls, eval (env.withLets ls) (Spec.store p r v (addr + off.at p) st).mem e = some (.v v) :=
  c_lift_from_c_laid_out_area_partial h p hp cImportCfg r v hs hf hv lvl a off env addr st e hp' hl ha hal hb he

/-- `c_export_roundtrip` (`_partial`): the export wrapper's lifting code (C export configuration)
applied to the parameter record (as the tuple of the parameter types) the host stored for an
indirect call. -/
theorem c_export_roundtrip_partial (h : C01_store_load_roundtrip_stmt) (p : Nat) (hp : p = 4 ∨ p = 8)
    (params : List Ty) (vs : List Val) (hs : cSupportedAll params = true) (hf : flagsLe32All params = true)
    (hv : Spec.hasTy (.tuple params) (.record vs) = true)
    (lvl : Nat) (a : Expr) (off : Off) (env : Env) (addr : Nat) (st : Spec.St) (e : Expr)
    (hp' : env.p = p) (hl : env.frames.length = lvl + 1)
    (ha : AddrStable env (Spec.store p (.tuple params) (.record vs) (addr + off.at p) st).mem a addr)
    (hal : (addr + off.at p) % (cSA p (.tuple params)).2 = 0)
    (hb : addr + off.at p + (cSA p (.tuple params)).1 ≤ st.heap.next)
    (he : load cExportCfg lvl (.tuple params) a off = .ok e) :
    ∀ ls, eval (env.withLets ls) (Spec.store p (.tuple params) (.record vs) (addr + off.at p) st).mem e
      = some (.v (.record vs)) :=
  c_lift_from_c_laid_out_area_partial h p hp cExportCfg (.tuple params) (.record vs)
    (by simpa [cSupported] using hs) (by simpa [flagsLe32] using hf) hv lvl a off env addr st e hp' hl ha hal hb he

end Witverif.Props.C10
