import Witverif.Proofs.Determ
/-!
# C15 — binding generation is deterministic

What is PROVED here (and only this): for the syntactic inventory `Generated/HashSites.lean` of every
iteration over `HashMap`/`HashSet`-typed generator state (regenerated from /repo on every run by
`tools/gen_hash_sites.py`), each consumer class that the table calls order-insensitive really is
invariant under *every* permutation of the iterated elements (`sort_perm_invariant`,
`join_sorted_perm`, `btree_insert_fold_perm`, `hash_insert_fold_perm`, `any_all_perm`,
`or_fold_perm`, `retain_perm`, `per_element_perm`, all stated over `List.Perm`), and the table has
no unclassified site.  That a site belongs to its class is a syntactic, trusted classification
(automatic rule or fingerprinted manual entry).  Process-level nondeterminism is *observed*, not
modelled: `./check C15` runs every backend × option variant in k separate processes and diffs
every output file.

## The inventory statement

    theorem all_site_labels_insensitive : ∀ s ∈ sites, s.consumer.insensitive = true

(a statement about the consumer LABELS of the table, see its docstring) holds of the current code
(by `decide` over the regenerated table).  It was FALSE until the `fix:`
commits 796b9eb (MoonBit: `builtins`, `ffi_imports`, `export` written with `uwriteln!` in hash order)
and 4904f95 (C#: `bidirectional_types_src` joined in hash order, `by_resource` fed with HashMap keys)
of /repo: ten sites were `emitted`, `all_sites_order_insensitive_full_false` (the theorem's name at the time) refuted the statement at
the time and the k-process diff reproduced the nondeterminism of both backends.  The containers are
BTree-based / sorted now; a new `emitted` or unclassified site makes the theorem fail again.
`emit_not_perm_invariant` records why `emitted` is not an acceptable consumer.
-/
namespace Witverif.Props.C15
open Witverif.Generated.HashSites Witverif.Text.Determ

/-! ## the consumer classes, for ALL permutations -/

/-- `sorted`: collecting the elements and sorting them with a total, transitive order that is
antisymmetric on the elements yields the same list whatever the iteration order was. -/
theorem sort_perm_invariant {α} (le : α → α → Bool)
    (htotal : ∀ a b, le a b = true ∨ le b a = true)
    (htrans : ∀ a b c, le a b = true → le b c = true → le a c = true)
    {l₁ l₂ : List α} (hanti : ∀ a b, a ∈ l₁ → b ∈ l₁ → le a b = true → le b a = true → a = b)
    (h : l₁.Perm l₂) : sortBy le l₁ = sortBy le l₂ := by
  have hp : (sortBy le l₁).Perm (sortBy le l₂) :=
    (sortBy_perm le l₁).trans (h.trans (sortBy_perm le l₂).symm)
  refine List.Perm.eq_of_pairwise ?_ (sortBy_pairwise le htotal htrans l₁) (sortBy_pairwise le htotal htrans l₂) hp
  intro a b ha hb hab hba
  exact hanti a b ((sortBy_perm le l₁).mem_iff.mp ha)
    (h.mem_iff.mpr ((sortBy_perm le l₂).mem_iff.mp hb)) hab hba

/-- `deps.sort(); deps.join(",\n")` (MoonBit `write_moon_pkg`), `unused_keys.sort()` (Rust) -/
theorem join_sorted_perm (sep : String) {l₁ l₂ : List String} (h : l₁.Perm l₂) :
    sep.intercalate (sortBy (fun a b => decide (a ≤ b)) l₁) = sep.intercalate (sortBy (fun a b => decide (a ≤ b)) l₂) := by
  have := sort_perm_invariant (fun a b : String => decide (a ≤ b))
    (fun a b => by simpa using String.le_total a b)
    (fun a b c hab hbc => by simpa using String.le_trans (by simpa using hab) (by simpa using hbc))
    (l₁ := l₁) (l₂ := l₂)
    (fun a b _ _ hab hba => String.le_antisymm (by simpa using hab) (by simpa using hba)) h
  rw [this]

/-- `btreeInsert`: a BTreeMap (`Files`) built by inserting entries with pairwise distinct keys
iterates the same way whatever the insertion order was. -/
theorem btree_insert_fold_perm {κ ν} (keyLe : κ → κ → Bool)
    (htotal : ∀ a b, keyLe a b = true ∨ keyLe b a = true)
    (htrans : ∀ a b c, keyLe a b = true → keyLe b c = true → keyLe a c = true)
    (hanti : ∀ a b, keyLe a b = true → keyLe b a = true → a = b)
    {l₁ l₂ : List (κ × ν)} (hdistinct : l₁.Pairwise (fun a b => a.1 ≠ b.1)) (h : l₁.Perm l₂) :
    btreeIter keyLe l₁ = btreeIter keyLe l₂ := by
  unfold btreeIter
  refine sort_perm_invariant _ (fun a b => htotal a.1 b.1) (fun a b c => htrans a.1 b.1 c.1) ?_ h
  intro a b ha hb hab hba
  have hk : a.1 = b.1 := hanti _ _ hab hba
  by_cases hab' : a = b
  · exact hab'
  · exfalso
    rcases List.mem_iff_append.mp ha with ⟨s, t, rfl⟩
    rcases List.mem_append.mp hb with hb | hb
    · -- b before a
      have hp : (s ++ a :: t).Pairwise (fun a b => a.1 ≠ b.1) := hdistinct
      rw [List.pairwise_append] at hp
      exact hp.2.2 b hb a (by simp) hk.symm
    · rcases List.mem_cons.mp hb with rfl | hb
      · exact hab' rfl
      · have hp : (s ++ a :: t).Pairwise (fun a b => a.1 ≠ b.1) := hdistinct
        rw [List.pairwise_append] at hp
        exact (List.pairwise_cons.mp hp.2.1).1 b hb hk

/-- … and what it iterates is sorted by key (`Files::iter`, hence the order in which the CLI
writes and `--check` compares the files) -/
theorem btree_iter_sorted {κ ν} (keyLe : κ → κ → Bool)
    (htotal : ∀ a b, keyLe a b = true ∨ keyLe b a = true)
    (htrans : ∀ a b c, keyLe a b = true → keyLe b c = true → keyLe a c = true) (log : List (κ × ν)) :
    (btreeIter keyLe log).Pairwise (fun a b => keyLe a.1 b.1 = true) :=
  sortBy_pairwise _ (fun a b => htotal a.1 b.1) (fun a b c => htrans a.1 b.1 c.1) log

/-- `hashInsert`: a hash container is observed through `contains`/`get` only (its own iterations are
separate sites of the inventory); inserting the elements in any order gives the same observations. -/
theorem hash_insert_fold_perm {α} [BEq α] {l₁ l₂ : List α} (s₀ : List α) (h : l₁.Perm l₂) (x : α) :
    (l₁.foldl (fun s a => a :: s) s₀).contains x = (l₂.foldl (fun s a => a :: s) s₀).contains x := by
  have key : ∀ (l : List α) (s : List α), (l.foldl (fun s a => a :: s) s).Perm (l ++ s) := by
    intro l
    induction l with
    | nil => intro s; exact List.Perm.refl _
    | cons a as ih =>
      intro s
      simp only [List.foldl_cons, List.cons_append]
      exact (ih (a :: s)).trans List.perm_middle
  exact ((key l₁ s₀).trans ((h.append_right s₀).trans (key l₂ s₀).symm)).contains_eq

/-- `reduce`: `any`, `all`, `count`, `len` -/
theorem any_all_perm {α} [BEq α] {l₁ l₂ : List α} (p : α → Bool) (h : l₁.Perm l₂) :
    l₁.any p = l₂.any p ∧ l₁.all p = l₂.all p ∧ l₁.length = l₂.length ∧ (∀ a, l₁.count a = l₂.count a) ∧
    (l₁.filter p).length = (l₂.filter p).length :=
  ⟨h.any_eq, h.all_eq, h.length_eq, h.count_eq, (h.filter p).length_eq⟩

/-- `reduce`: `*merged.entry(rep).or_default() |= info` — a fold with a commutative, associative
operation (`TypeInfo: BitOrAssign` on flag bits, modelled as `Nat` with `|||`). -/
theorem or_fold_perm {l₁ l₂ : List Nat} (z : Nat) (h : l₁.Perm l₂) :
    l₁.foldl (· ||| ·) z = l₂.foldl (· ||| ·) z := by
  apply h.foldl_eq'
  intro x _ y _ s
  simp only [Nat.or_assoc, Nat.or_comm x y]

/-- `retainPred`: the entries that survive `retain(|k, _| p k)` do not depend on the visiting order -/
theorem retain_perm {α} {l₁ l₂ : List α} (p : α → Bool) (h : l₁.Perm l₂) :
    (l₁.filter p).Perm (l₂.filter p) ∧ ∀ x, x ∈ l₁.filter p ↔ x ∈ l₂.filter p :=
  ⟨h.filter p, fun _ => (h.filter p).mem_iff⟩

/-- `perElementState`: every entry is rewritten by a function of that entry alone -/
theorem per_element_perm {α β} {l₁ l₂ : List α} (f : α → β) (h : l₁.Perm l₂) :
    (l₁.map f).Perm (l₂.map f) := h.map f

/-- `emitted` is genuinely order-sensitive: two iteration orders, two outputs -/
theorem emit_not_perm_invariant :
    ∃ l₁ l₂ : List String, l₁.Perm l₂ ∧ emit l₁ ≠ emit l₂ :=
  ⟨["fn a() {}\n", "fn b() {}\n"], ["fn b() {}\n", "fn a() {}\n"], List.Perm.swap _ _ _, by decide⟩

/-! ## the inventory -/

/-- every inventoried site carries a consumer LABEL of an order-insensitive class.  This is a
statement about the labels of the table (7 assigned by automatic syntactic rules, the others by
hand in tools/hash_sites_manual.json, keyed by fingerprint): that the code at a site really behaves
as its class is trusted, not proved — the permutation lemmas above are about the classes and are
not instantiated at the individual sites.  What the theorem does guarantee: no site is unclassified
(a new, changed or unrecognised site appears as `.unclassified` and breaks it) and none is labelled
as writing its elements to the output in iteration order. -/
theorem all_site_labels_insensitive : ∀ s ∈ sites, s.consumer.insensitive = true := by decide

theorem no_unclassified_site :
    ∀ s ∈ sites, s.consumer ≠ .unclassified ∧ s.consumer ≠ .firstMatch ∧ s.consumer ≠ .emitted := by decide

theorem no_sensitive_site : sensitiveSites = [] := by decide

/-! ## non-vacuity -/

example : sites.length = 27 := by decide
example : (sites.filter (fun s => s.consumer == .sorted)).length = 5 := by decide
example : sortBy (fun a b : Nat => decide (a ≤ b)) [3, 1, 2] = [1, 2, 3] := by decide
example : btreeIter (fun a b : Nat => decide (a ≤ b)) [(2, "b.h"), (1, "a.c")] = [(1, "a.c"), (2, "b.h")] := by decide
example : sortBy (fun a b : String => decide (a ≤ b)) ["b", "a"] = sortBy (fun a b : String => decide (a ≤ b)) ["a", "b"] := by decide

end Witverif.Props.C15
