import Witverif.Proofs.AbiDealloc3
import Witverif.Proofs.AbiClean2
import Witverif.Proofs.AbiClean4
/-!
# C03 — Cleanup code frees exactly the heap data the lowering allocated

Model: `Abi.dealloc`, `Abi.deallocIndirect`, `Abi.deallocInTypes`, `Abi.postReturn`, `Abi.needsDealloc`
(= `Generator::deallocate*`, `post_return`, `needs_deallocate` of crates/core/src/abi.rs).
Tie: exact tree equality for `deallocate_lists_in_types`, `deallocate_lists_and_own_in_types`
(direct and through memory), `post_return`, `guest_export_needs_post_return` on every generated type /
function; the ledger monitor `checkDealloc` (Spec lowers a value and records the blocks it allocates,
the REAL cleanup tree runs in the reference machine, freed blocks and dropped handles must be exactly
those) is evaluated on the real trees for seeded values.

Known defect (see `dealloc_flist_full_false`): cleanup through memory does nothing below a
fixed-length list; the dynamic theorem therefore carries `noFlist t`.  That `cleanupBlocks` of the
memory written by the spec's `store` equals the blocks the spec allocated is checked by the monitor
on every run (spec-internal consistency); both cleanup modes are proved through memory
(`dealloc_indirect_both_modes`) and on flat operands (`dealloc_direct_both_modes`).
-/
namespace Witverif.Props.C03
open Witverif.Abi

/-- A post-return entry point is requested exactly when the result contains a heap buffer (a string,
list or map reachable at any depth, in any case, also through fixed-length lists) — every function. -/
theorem needs_post_return_iff (f : Func) : needsPostReturn f = hasBufferOpt f.result := by
  unfold needsPostReturn
  exact needsDeallocOpt_eq f.result

/-- … and likewise for "the parameters have allocations". -/
theorem params_have_allocations_iff (f : Func) : paramsHaveAllocations f = hasBufferAny f.params :=
  needsDeallocAny_eq f.params

/-- Frees nothing else: for a type that owns nothing in the given mode (no buffer; in lists-and-own
mode also no owned handle) the cleanup through memory is empty — any type, any nesting level/offset. -/
theorem dealloc_indirect_empty_when_nothing_owned (handles : Bool) (t : Ty) (lvl : Nat) (a : Expr) (off : Off)
    (h : needsDealloc handles t = false) : deallocIndirect handles lvl t a off = .ok [] :=
  deallocIndirect_nil handles t lvl a off h

/-- **Cleanup through memory frees exactly the reachable buffers.**  For every type without
fixed-length lists (any nesting of lists, maps, strings, records, tuples, variants, options,
results), both pointer widths, any memory `m` whose discriminants are in range at the value's
location (`validDiscs`: an explicit hypothesis — that a memory written by `Spec.store` of a well-typed
value, or accepted by `Spec.load`, satisfies it is NOT proved here; the monitor checks it on every
sampled case), any nesting level, address expression and offset:
executing the cleanup tree leaves memory untouched and extends the ledger of freed blocks by exactly
`cleanupBlocks p m t addr` — the blocks the memory layout says are reachable from the value (each
list/string/map buffer once, with size `len * elem_size` and the element's alignment, inner buffers
before outer) — and nothing else.  `Frees` quantifies over every machine state and every environment
in which the address operand denotes `addr`. -/
theorem dealloc_indirect_frees_exactly_reachable (p : Nat) (hp : p = 4 ∨ p = 8) (t : Ty) (hn : noFlist t = true)
    (lvl : Nat) (a : Expr) (off : Off) (ds : List Stmt) (h : deallocIndirect false lvl t a off = .ok ds) :
    Frees p lvl a ds (fun m x => cleanupBlocks p m t (x + off.at p)) (fun m x => validDiscs p m t (x + off.at p)) :=
  dealloc_frees p hp t hn lvl a off ds h

/-- **Cleanup through memory, both modes** (lists-only and lists-and-own).  For every type without
fixed-length lists, both pointer widths, any machine state whose memory has in-range discriminants at
the value's location: executing the cleanup tree leaves memory and heap untouched, extends the ledger
of freed blocks by exactly `cleanupBlocks p m t addr` and — in the mode that also releases ownership
(`handles = true`) — extends the ledger of dropped handles by exactly `cleanupHandles p m t addr`: the
own / future / stream handles stored in the value (each once, in traversal order; borrows are never
dropped); in lists-only mode no handle is dropped.  Nothing else is freed, dropped or called
(`Cleans`, Proofs/AbiClean.lean). -/
theorem dealloc_indirect_both_modes (handles : Bool) (p : Nat) (hp : p = 4 ∨ p = 8) (t : Ty) (hn : noFlist t = true)
    (lvl : Nat) (a : Expr) (off : Off) (ds : List Stmt) (h : deallocIndirect handles lvl t a off = .ok ds) :
    Cleans p lvl a ds
      (fun m x => (cleanupBlocks p m t (x + off.at p), if handles then cleanupHandles p m t (x + off.at p) else []))
      (fun m x => validDiscs p m t (x + off.at p)) :=
  dealloc_cleans handles p hp t hn lvl a off ds h

/-- Non-vacuity of `dealloc_indirect_both_modes`: `record { a: own, b: list<own>, c: borrow, d: option<string> }`
in lists-and-own mode emits a handle drop, a list cleanup with a per-element drop, nothing for the
borrow, and a variant-shaped cleanup for the option. -/
example :
    noFlist (.record [.own, .list .own, .borrow, .option .string]) = true ∧
    ∃ ds, deallocIndirect true 0 (.record [.own, .list .own, .borrow, .option .string]) (.arg 0) Off.zero = .ok ds ∧
      ds.length = 3 :=
  ⟨by decide, _, rfl, rfl⟩

/-- **Cleanup on flat operands (direct mode), both modes.**  For every type without fixed-length
lists, both pointer widths: if the operands denote well-formed core values `cs` for `flatten t` (any bit
patterns of the right core types — e.g. the lowered parameters of an async import) and the
discriminants the cleanup inspects are in range, executing the cleanup tree leaves memory and heap
untouched and extends the ledgers by exactly `flatEff handles p m t cs`: the buffer named by each
(pointer, length) pair with size `len * elem_size` and the element alignment, preceded by what its
elements own according to memory; for variants the payload slots are first coerced back from the
joined slot types (typed Bitcasts) and the active case is cleaned; in lists-and-own mode each
own / future / stream handle operand is dropped exactly once, in lists-only mode none
(`CleansF`, `flatEff`: Proofs/AbiClean3.lean, AbiClean4.lean). -/
theorem dealloc_direct_both_modes (handles : Bool) (p : Nat) (hp : p = 4 ∨ p = 8) (t : Ty) (hn : noFlist t = true)
    (lvl : Nat) (xs : List Expr) (ds : List Stmt) (h : dealloc handles lvl t xs = .ok ds) :
    CleansF p lvl (Spec.flatten p t) xs ds (fun m cs => flatEff handles p m t cs) (fun m cs => flatValid p m t cs) :=
  dealloc_flat_cleans handles p hp t hn lvl xs ds h

/-- Non-vacuity of `dealloc_direct_both_modes`: `tuple<string, own, option<list<u8>>>` on five flat
operands in lists-and-own mode: a string free, a handle drop and a variant-shaped cleanup; for the
core values `(ptr 64, len 3, handle 7, some, ptr 128, len 2)` the spec effect is: free (64,3,1), then
(128,2,1); drop handle 7. -/
example :
    (∃ ds, dealloc true 0 (.tuple [.string, .own, .option (.list .u8)])
      [.arg 0, .arg 1, .arg 2, .arg 3, .arg 4, .arg 5] = .ok ds ∧ ds.length = 3) ∧
    flatEff true 4 [] (.tuple [.string, .own, .option (.list .u8)])
      [⟨.i32, 64⟩, ⟨.i32, 3⟩, ⟨.i32, 7⟩, ⟨.i32, 1⟩, ⟨.i32, 128⟩, ⟨.i32, 2⟩]
      = ([(64, 3, 1), (128, 2, 1)], [7]) :=
  ⟨⟨_, rfl, rfl⟩, by decide⟩

/-- **`post_return` end to end**: for an exported function whose result (returned through memory,
no fixed-length lists) lives at `addr`, the generated post-return frees exactly the reachable blocks,
each once, leaves memory alone, and returns once. -/
theorem post_return_frees_exactly_reachable (p : Nat) (hp : p = 4 ∨ p = 8) (f : Func) (t : Ty)
    (hres : f.result = some t) (hret : 1 < (flatten t).length) (hn : noFlist t = true)
    (ss : List Stmt) (h : postReturn f = .ok ss)
    (m : Spec.Mem) (heap : Spec.Heap) (addr : Nat) (hv : validDiscs p m t addr = true) :
    (execStmts { p, args := [.c ⟨ptrFT p, addr⟩] } { st := ⟨m, heap⟩ } ss).map
        (fun r => (r.2.freed, r.2.calls, r.2.st.mem)) =
      some ((cleanupBlocks p m t addr).reverse, [("Return", [])], m) :=
  postReturn_sound p hp f t hres hret hn ss h m heap addr hv

/-- **Full statement is false of the current code.**  `list<string, 2>` stored in memory owns two
string buffers (its lowering contains two allocation sites), but the cleanup through memory emits
no instruction at all: both strings leak (e.g. `export f: func() -> list<string, 2>` gets an empty
`cabi_post_f`). -/
theorem dealloc_flist_full_false :
    ¬ (∀ (t : Ty) (ss ds : List Stmt),
        store ⟨fun _ => false, true⟩ 0 t (.inp 0) (.inp 1) Off.zero = .ok ss →
        deallocIndirect false 0 t (.inp 0) Off.zero = .ok ds →
        countOps isAllocOp ss = countOps isFreeOp ds) := by
  intro h
  have := h (.flist .string 2)
    [.eff (.flistLowerMem .string 2) [.inp 0, .inp 1]
      [([.eff (.stringLower true) [.elem 1] [],
         stS .len (Off.zero + Off.ptrs 1) (.res 1 (.stringLower true) [.elem 1]) (.base 1),
         stS .ptr Off.zero (.res 0 (.stringLower true) [.elem 1]) (.base 1)], [])]]
    [] rfl rfl
  simp [countOps, countBlocks, isAllocOp, isFreeOp, stS] at this

/-- Partial form: a type that needs no cleanup has no allocation site to begin with, so nothing
leaks — the one-directional half that holds for *every* type including fixed-length lists is
`dealloc_indirect_empty_when_nothing_owned`; the converse (every allocation site has its release) is
checked on the real streams by the ledger monitor and holds there for all types without
fixed-length lists (class `dealloc-flist-leak` in known_findings.jsonl). -/
theorem needs_nothing_of_no_buffer_partial (t : Ty) (h : hasBuffer t = false) (lvl : Nat) (a : Expr) (off : Off) :
    deallocIndirect false lvl t a off = .ok [] :=
  deallocIndirect_nil false t lvl a off (by rw [needsDealloc_lists_eq_hasBuffer]; exact h)

/-- Non-vacuity: `record { a: string, b: option<list<u8>> }` needs a post-return and its cleanup
through memory frees the string at offset 0 and, in the `some` arm, the list at the payload offset. -/
example :
    needsPostReturn ⟨false, [], some (.record [.string, .option (.list .u8)])⟩ = true ∧
    (∃ ds, deallocIndirect false 0 (.record [.string, .option (.list .u8)]) (.arg 0) Off.zero = .ok ds ∧
      countOps isFreeOp ds = 2) :=
  ⟨by decide, _, rfl, by simp [countOps_append, countOps, countBlocks, isFreeOp]⟩

end Witverif.Props.C03
