import Witverif.Abi.RustAsync
import Witverif.Abi.AsyncHostCall
namespace Witverif.Props.C08
open Witverif.Abi

/-- placeholder while the check is being built -/
theorem placeholder_layout_example :
    RustAsync.abiLayout ⟨false, [.u64, .u64, .u64, .u64, .u8], some .u8⟩ = (⟨40, 40⟩, ⟨8, 8⟩) := by decide

end Witverif.Props.C08
