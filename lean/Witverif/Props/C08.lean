import Witverif.Proofs.RustAsyncLayout
import Witverif.Proofs.RustAsyncValues
import Witverif.Proofs.ExportGlue
import Witverif.Proofs.SpecRoundtrip
import Witverif.Props.C02
import Witverif.Props.C21
/-!
# C08 — Rust async imports and exports deliver the same values as sync ones

Objects.
* `Abi/RustAsync.lean` — what `generate_guest_import_body_async` / the async `generate_guest_export`
  (crates/rust/src/interface.rs) compose out of the shared generator (`Abi/Gen.lean`, tied to abi.rs
  by C01–C03): `heap_types`, `abi_layout`, `results_offset`, `params_lower`, `results_lift`,
  `params_dealloc_lists[_and_own]`, the async export body.
* `Abi/AsyncHostCall.lean` — SPEC side: how a canonical-ABI host passes/receives values over
  `[async-lower]` / `[async-lift]` / `task.return`, and what it requires of the parameter/result area.
* `Async/ExportGlue.lean` — the wrapper's root future (`TaskCancelOnDrop` guard, `forget` +
  `task.return`) composed with the executor LTS of C22; `Async/GlueSpec.lean` — SPEC monitors over
  what the host observes; `Async/Subtask.lean` (C21) — the runtime half of an async import call.

Tie (checks/C08.py, every run): the real generator binds seeded functions sync AND async, both are
compiled and run natively against the real runtime and a scripted host; the layout numbers in the
generated text are compared with `RustAsync.layoutStr` at both pointer widths; `GlueSpec` monitors run
on the real observations; values/ledger are compared with the spec and between the two bindings.

Theorem names ending in `_partial` prove the stated claim for a sub-domain only (what is missing is said
at the theorem); `_full_false` is the refutation of a full-strength claim on the current code.
-/
namespace Witverif.Props.C08
open Witverif.Abi Witverif.Abi.RustAsync

/-! ## 1. `abi_layout`, `results_offset`, parameter offsets (all functions, both pointer widths) -/

/-- **The params/results area of an async-lowered import is laid out as the canonical ABI requires.**
For every function (any parameter and result types, any number of parameters) and both pointer
widths, with `(size, align) = abi_layout` and `roff = results_offset` as the generator computes them:
if the parameters travel through memory (more than 4 flat values) the parameter pointer — the base of
the area — is aligned for the parameter tuple and the whole tuple lies inside the area; if there is a
result the result pointer `base + roff` is aligned for the result type, the result lies inside the
area, and it begins at or after the end of the last parameter (so the host's `load` of the parameters
when the callee starts and its `store` of the result when it returns never overlap); `align > 0`. -/
theorem abi_layout_meets_spec (p : Nat) (hp : p = 4 ∨ p = 8) (f : Func) :
    AsyncHost.areaOk p f.params f.result ((abiLayout f).1.at p) ((abiLayout f).2.at p) ((resultsOffset f).at p) = true :=
  areaOk_model p hp f

/-- Non-vacuity: `f(u64, u64, u64, u64, u8) -> u8` (5 flat parameters: indirect): 40 bytes aligned 8,
the result at offset 33 — inside the trailing padding of the parameter tuple, which the host never
reads; and the monitor is not trivially true: offset 32 (overlapping the last parameter) is rejected. -/
example :
    abiLayout ⟨false, [.u64, .u64, .u64, .u64, .u8], some .u8⟩ = (⟨40, 40⟩, ⟨8, 8⟩) ∧
    resultsOffset ⟨false, [.u64, .u64, .u64, .u64, .u8], some .u8⟩ = ⟨33, 33⟩ ∧
    AsyncHost.areaOk 8 [.u64, .u64, .u64, .u64, .u8] (some .u8) 40 8 32 = false ∧
    AsyncHost.areaOk 4 [.u64, .u64, .u64, .u64, .u8] (some .u8) 32 8 33 = false := by decide

/-- **Parameter `i` is stored where the host reads it.**  With indirect parameters `params_lower`
stores parameter `i` at `field_offsets(params)[i]`, the offsets of the parameter TUPLE — and these are
a prefix of the field offsets of `heap_types = params ++ [result]`, from which `abi_layout` and
`results_offset` are computed: appending the result moves no parameter. -/
theorem param_offsets_are_tuple_offsets (f : Func) (hi : indirect f = true) :
    paramOffsets f = fieldOffs f.params ∧
    ∀ t, f.result = some t → (fieldOffs (heapTypes f)).take f.params.length = fieldOffs f.params :=
  paramOffsets_are_tuple_offsets f hi

example : paramOffsets ⟨false, [.u8, .u64, .string, .u16, .u8], some .u64⟩
    = [⟨0, 0⟩, ⟨8, 8⟩, ⟨16, 16⟩, ⟨24, 32⟩, ⟨26, 34⟩] := by decide

/-- Without indirect parameters (at most 4 flat values) only the result lives in the area, at offset 0. -/
theorem results_offset_zero_without_indirect_params (p : Nat) (hp : p = 4 ∨ p = 8) (f : Func)
    (hi : indirect f = false) : (resultsOffset f).at p = 0 :=
  resultsOffset_direct p hp f hi

example : indirect ⟨false, [.string, .string], some .string⟩ = false ∧
    indirect ⟨false, [.string, .string, .bool], none⟩ = true := by decide

/-- The generator's decision "parameters through memory" is the spec's (more than
MAX_FLAT_ASYNC_PARAMS = 4 flat values), at both pointer widths. -/
theorem indirect_params_decision_is_spec (p : Nat) (hp : p = 4 ∨ p = 8) (f : Func) :
    AsyncHost.paramsIndirect p f.params = indirect f :=
  indirect_iff_spec p hp f

/-! ## 2. Values: the async lower / lift streams decode like the sync ones

Full-strength statement: for every function, all argument and result values, the host lifts from the
async binding exactly the values it lifts from the sync binding, and Rust code observes exactly the
same results.  Proved below: parameters for all memory-free types (flat and through the parameter
record), results for ALL types on the import side (`results_lift` = `Spec.load`), and the export side
for memory-free types passed flat.  Not proved in Lean (validated by the native runs of every check):
parameters whose lowering allocates (strings, lists, maps: the reference machine's allocation ledger
theorem of C03 is still open), exports with indirect parameters or a result through memory. -/

/-- **Async import, at most 4 flat parameters** (memory-free parameter types): the operands handed to
`[async-lower]f` are the canonical flat lowering of the argument tuple — literally the operands the
SYNC glue passes to `f` — and nothing is stored or allocated to produce them.  Missing for the full
statement: parameter types that need linear memory. -/
theorem async_import_params_flat_eq_sync_partial (p : Nat) (hp : p = 4 ∨ p = 8) (canon : Ty → Bool) (f : Func)
    (vals : List Val) (hi : indirect f = false) (hm : memFreeAll f.params = true) (ht : Spec.hasTys f.params vals = true)
    (m : Spec.Mem)
    (ssA : List Stmt) (esA : List Expr) (hA : paramsLower canon f = .ok (ssA, esA))
    (ssS : List Stmt) (esS : List Expr) (hS : lowerParams ⟨canon, false⟩ f.params 0 = .ok (ssS, esS)) :
    ssA = [] ∧ ssS = [] ∧
    evalList { p, args := vals.map MV.v } m esA = some ((specLowerAll p f.params vals {}).1.map MV.c) ∧
    evalList { p, args := vals.map MV.v } m esS = evalList { p, args := vals.map MV.v } m esA := by
  have a := paramsLower_flat_sound p hp canon f vals hi hm ht [] m {} ssA esA hA
  simp only [List.append_nil] at a
  have s := lowerParams_sound p hp ⟨canon, false⟩ { p, args := vals.map MV.v } m {} rfl rfl f.params vals 0 ssS esS hm ht
    (by intro j hj; simp [hj]) hS
  exact ⟨a.1, s.1, a.2, by rw [a.2, s.2.1]⟩

/-- Non-vacuity: `f(a: u32, b: f64, c: bool, d: char)` has exactly 4 flat parameters and stays direct. -/
example : indirect ⟨false, [.u32, .f64, .bool, .char], none⟩ = false ∧
    ∃ es, paramsLower (fun _ => false) ⟨false, [.u32, .f64, .bool, .char], none⟩ = .ok ([], es) ∧ es.length = 4 :=
  ⟨by decide, _, rfl, rfl⟩

/-- **Async import, more than 4 flat parameters** (memory-free parameter types): `params_lower` leaves,
at the pointer into the area it is handed, exactly the bytes of the canonical `store` of the parameter
tuple (read-equivalent memory, heap untouched), and `ParamsLower` is that pointer — so the host's
`load (tuple params)` when the callee starts yields the arguments.  Missing: types that allocate. -/
theorem async_import_params_indirect_partial (p : Nat) (hp : p = 4 ∨ p = 8) (canon : Ty → Bool) (f : Func)
    (vals : List Val) (hi : indirect f = true) (hm : memFreeAll f.params = true) (ht : Spec.hasTys f.params vals = true)
    (addr : Nat) (s : MSt) (ss : List Stmt) (es : List Expr) (h : paramsLower canon f = .ok (ss, es)) :
    es = [.arg f.params.length] ∧
    ∃ ls m', execStmts { p, args := vals.map MV.v ++ [.c ⟨ptrFT p, addr⟩] } s ss
        = some (({ p, args := vals.map MV.v ++ [.c ⟨ptrFT p, addr⟩] } : Env).withLets ls, s.setMem m') ∧
      StEq ⟨m', s.st.heap⟩ (Spec.store p (.tuple f.params) (.record vals) addr s.st) :=
  paramsLower_indirect_sound p hp canon f vals hi hm ht addr s ss es h

/-- Non-vacuity: 5 `u8` parameters are indirect and `params_lower` emits one store per parameter. -/
example : indirect ⟨false, [.u8, .u8, .u8, .u8, .u8], none⟩ = true ∧
    ∃ ss, paramsLower (fun _ => false) ⟨false, [.u8, .u8, .u8, .u8, .u8], none⟩ = .ok (ss, [.arg 5]) ∧ ss.length = 5 :=
  ⟨by decide, _, rfl, rfl⟩

/-- **Async import results: `results_lift` is the canonical `load`, for every result type** (strings,
lists, maps, variants, handles, any nesting), both pointer widths, any memory the host left, any
address: it evaluates to exactly `Spec.load` at the result pointer and is stuck exactly when the spec
traps.  The SYNC glue of the same function, when its result needs a return area, returns `Spec.load`
of its return area (`Props.C02.import_glue_retptr_correct`): both bindings apply the same function to
the bytes the host stored. -/
theorem async_import_result_is_spec_load (p : Nat) (hp : p = 4 ∨ p = 8) (canon : Ty → Bool) (f : Func) (t : Ty)
    (hr : f.result = some t) (addr : Nat) (m : Spec.Mem) (e : Expr) (h : resultsLift canon f = .ok (some e)) :
    eval { p, args := [.c ⟨ptrFT p, addr⟩] } m e = (Spec.load p m t addr).map MV.v :=
  resultsLift_sound p hp canon f t hr addr m e h

/-- … hence **the async and the sync import binding deliver the same result** whenever the host stored
the same bytes at the two result pointers: for a function with memory-free flat parameters and a result
of ANY type needing more than one flat slot, the value the sync glue returns is the value
`results_lift` evaluates to. -/
theorem async_import_result_eq_sync (p : Nat) (hp : p = 4 ∨ p = 8) (canon : Ty → Bool) (f : Func) (t : Ty)
    (hres : f.result = some t) (vals : List Val) (addr : Nat) (s0 : MSt)
    (hm : memFreeAll f.params = true) (ht : Spec.hasTys f.params vals = true)
    (hflat : (flattenList f.params).length ≤ 16) (hrflat : (flatten t).length > 1)
    (ss : List Stmt) (hS : call canon .guestImport true false f = .ok ss)
    (e : Expr) (hA : resultsLift canon f = .ok (some e)) :
    (execStmts { p, args := vals.map MV.v, rps := [addr] } s0 ss).map (fun r => r.2.calls.head?.map (·.2)) =
      (eval { p, args := [.c ⟨ptrFT p, addr⟩] } s0.st.mem e).map (fun rv => some [rv]) := by
  have hs := Witverif.Props.C02.import_glue_retptr_correct p hp canon f t hres vals addr s0 hm ht hflat hrflat ss hS
  have ha := async_import_result_is_spec_load p hp canon f t hres addr s0.st.mem e hA
  rw [ha]
  cases hl : Spec.load p s0.st.mem t addr with
  | none =>
    rw [hl] at hs
    simp only [Option.map_none] at hs ⊢
    cases hx : execStmts { p, args := vals.map MV.v, rps := [addr] } s0 ss with
    | none => rfl
    | some r => rw [hx] at hs; simp at hs
  | some rv =>
    rw [hl] at hs
    simp only [Option.map_some] at hs ⊢
    cases hx : execStmts { p, args := vals.map MV.v, rps := [addr] } s0 ss with
    | none => rw [hx] at hs; simp at hs
    | some r =>
      rw [hx] at hs
      simp only [Option.map_some, Option.some.injEq, Prod.mk.injEq] at hs
      simp [hs.1]

/-- Non-vacuity: `f(a: u32) -> tuple<string, u8>`: both bindings generate. -/
example :
    (∃ ss, call (fun _ => false) .guestImport true false ⟨false, [.u32], some (.tuple [.string, .u8])⟩ = .ok ss) ∧
    (∃ e, resultsLift (fun _ => false) ⟨false, [.u32], some (.tuple [.string, .u8])⟩ = .ok (some e)) :=
  ⟨⟨_, rfl⟩, ⟨_, rfl⟩⟩

/-- **Async export = sync export on the values, everything flat** (not a method; memory-free parameters,
at most 16 flat; memory-free result with at most ONE flat value, where the sync ABI also returns flat).
Whatever well-formed core values the host passes and whatever the user function returns: both glues
call the user function exactly once with the same values (both are stuck iff the spec traps, before
anything is called); the core values the sync glue `Return`s are exactly the operands of the async
glue's single `task.return`; neither frees anything.  Missing for the full statement: types that need
memory, more than 16 flat parameters, results through memory (covered by the native runs). -/
theorem async_export_values_eq_sync_partial (p : Nat) (hp : p = 4 ∨ p = 8) (canon : Ty → Bool) (f : Func)
    (hnm : f.isMethod = false) (incoming : List CVal) (rv : Option Val)
    (hm : memFreeAll f.params = true) (hflat : (flattenList f.params).length ≤ 16)
    (hwf : WfFlat incoming (Spec.flattenList p f.params))
    (hmr : memFreeOpt f.result = true) (hrflat : (flattenOpt f.result).length ≤ 1)
    (hrv : Spec.hasTyOpt f.result rv = true)
    (ssA : List Stmt) (hA : exportBody canon f = .ok ssA) (ssS : List Stmt) (hS : exportBodySync canon f = .ok ssS) :
    let env : Env := { p, args := incoming.map MV.c, ifaceResult := rv.toList.map MV.v }
    let X := (Spec.lowerOpt p f.result rv {}).1.map MV.c
    (execStmts env {} ssA).map (fun r => (r.2.calls, r.2.freed)) =
      (specLiftAll p [] f.params incoming).map (fun vals => ([("AsyncTaskReturn", X), ("CallInterface", vals.map MV.v)], [])) ∧
    (execStmts env {} ssS).map (fun r => (r.2.calls, r.2.freed)) =
      (specLiftAll p [] f.params incoming).map (fun vals => ([("Return", X), ("CallInterface", vals.map MV.v)], [])) := by
  intro env X
  exact ⟨Witverif.Props.C02.async_export_glue_task_return_once p hp canon f hnm incoming rv hm hflat hwf hmr (by omega) hrv ssA hA,
    Witverif.Props.C02.export_glue_value_correct p hp canon f hnm incoming rv hm hflat hwf hmr hrflat hrv ssS hS⟩

/-- **What the host decodes from `task.return`** (memory-free result with at most 16 flat values — the
range in which the async ABI passes the result flat while the sync ABI may already use a return area):
the operands of the single `task.return` are the canonical flat lowering of the user's result, and the
host's `lift_flat` of these operands yields exactly that result. -/
theorem task_return_operands_decode_partial (p : Nat) (hp : p = 4 ∨ p = 8) (canon : Ty → Bool) (f : Func) (t : Ty)
    (hres : f.result = some t)
    (hnm : f.isMethod = false) (incoming : List CVal) (v : Val)
    (hm : memFreeAll f.params = true) (hflat : (flattenList f.params).length ≤ 16)
    (hwf : WfFlat incoming (Spec.flattenList p f.params))
    (hmr : memFree t = true) (hrflat : (flatten t).length ≤ 16) (hv : Spec.hasTy t v = true)
    (ss : List Stmt) (h : exportBody canon f = .ok ss) (m : Spec.Mem) :
    (execStmts { p, args := incoming.map MV.c, ifaceResult := [MV.v v] } {} ss).map (fun r => (r.2.calls, r.2.freed)) =
      (specLiftAll p [] f.params incoming).map
        (fun vals => ([("AsyncTaskReturn", (Spec.lowerFlat p t v {}).1.map MV.c), ("CallInterface", vals.map MV.v)], [])) ∧
    Spec.liftFlat p m t (Spec.lowerFlat p t v {}).1 = some v := by
  obtain ⟨im, ps, res⟩ := f
  simp only at hres hnm hm hflat hwf h
  subst hres
  have h1 := Witverif.Props.C02.async_export_glue_task_return_once p hp canon ⟨im, ps, some t⟩ hnm incoming (some v) hm hflat hwf
    (by simpa [memFreeOpt] using hmr) (by simpa [flattenOpt] using hrflat)
    (by simpa [Spec.hasTyOpt] using hv) ss h
  refine ⟨?_, liftFlat_lowerFlat p m v t {} hmr hv⟩
  simpa [Spec.lowerOpt] using h1

/-- Non-vacuity: `f(a: u8) -> tuple<u32, f64, u8>`: three flat result values — flat on `task.return`,
through a return area in the sync ABI. -/
example :
    (flatten (.tuple [.u32, .f64, .u8])).length ≤ 16 ∧ ¬ (flatten (.tuple [.u32, .f64, .u8])).length ≤ 1 ∧
    ∃ ss, exportBody (fun _ => false) ⟨false, [.u8], some (.tuple [.u32, .f64, .u8])⟩ = .ok ss :=
  ⟨by decide, by decide, ⟨_, rfl⟩⟩

/-! ## 3. Memory released: the full statement is false of the current code

Full statement (properties.jsonl: "the memory released [is] the same as for its synchronous binding"),
for the parameter record the HOST allocates through `cabi_realloc` when an export has more than 16 flat
parameters:

    ∀ canon f ssA ssS, exportBody canon f = .ok ssA → exportBodySync canon f = .ok ssS →
        freesParamRecord ssA = freesParamRecord ssS

is FALSE: `Generator::call` emits `GuestDeallocate` of the record only `if sig.indirect_params && !async_`
(abi.rs), and the async wrapper has no other place that releases it: every call leaks the record.
Witness: `f(p0: u32, …, p16: u32)`.  Replayed natively by checks/C08.py (class
`async-export-param-record-not-freed`; the sync twin frees the block, the async binding does not). -/

theorem async_export_releases_like_sync_full_false :
    ¬ ∀ (canon : Ty → Bool) (f : Func) (ssA ssS : List Stmt),
        exportBody canon f = .ok ssA → exportBodySync canon f = .ok ssS →
        freesParamRecord ssA = freesParamRecord ssS := by
  intro hall
  have h := hall (fun _ => false) ⟨false, List.replicate 17 .u32, none⟩ _ _ rfl rfl
  revert h
  decide

/-- The exact extra hypothesis: with at most 16 flat parameters there is no caller-allocated record and
neither glue frees one (memory-free types, at most one flat result: the domain in which the shape of both
glues is proved). -/
theorem async_export_releases_like_sync_partial (canon : Ty → Bool) (f : Func) (hnm : f.isMethod = false)
    (hflat : (flattenList f.params).length ≤ 16) (hmr : memFreeOpt f.result = true) (hrflat : (flattenOpt f.result).length ≤ 1)
    (ssA ssS : List Stmt) (hA : exportBody canon f = .ok ssA) (hS : exportBodySync canon f = .ok ssS) :
    freesParamRecord ssA = false ∧ freesParamRecord ssS = false := by
  obtain ⟨argsA, _, hshA⟩ := call_export_async_flat_shape canon f hnm hflat (by omega) ssA hA
  obtain ⟨argsS, _, hshS⟩ := call_export_flat_shape canon f hnm hflat hrflat ssS hS
  cases hres : f.result with
  | none =>
    rw [hres] at hshA hshS
    simp only at hshA hshS
    subst hshA; subst hshS
    simp [freesParamRecord]
  | some t =>
    rw [hres] at hshA hshS
    simp only at hshA hshS
    obtain ⟨s2A, rsA, hlA, rfl⟩ := hshA
    obtain ⟨s2S, rsS, hlS, rfl⟩ := hshS
    have hmt : memFree t = true := by simpa [hres, memFreeOpt] using hmr
    have eA := (lower_shape _ t 0 _ s2A rsA hlA).1 hmt
    have eS := (lower_shape _ t 0 _ s2S rsS hlS).1 hmt
    subst eA; subst eS
    simp [freesParamRecord]

/-- Non-vacuity of the partial theorem and of the witness: 16 parameters stay flat, 17 do not; the sync
glue of the witness does free the record. -/
example :
    (flattenList (List.replicate 16 Ty.u32)).length ≤ 16 ∧
    (exportBodySync (fun _ => false) ⟨false, List.replicate 17 .u32, none⟩).toOption.map freesParamRecord = some true ∧
    (exportBody (fun _ => false) ⟨false, List.replicate 17 .u32, none⟩).toOption.map freesParamRecord = some false := by
  decide

/-! ## 4. An async export reports `task.return` exactly once, or `task.cancel` exactly once if dropped -/

section ExportSide
open Witverif.Async Witverif.Async.ExportGlue Witverif.Async.GlueSpec

/-- **Exactly one of `task.return` / `task.cancel`, and only legal ones.**  System: the generated wrapper's
root future (guard `TaskCancelOnDrop`, `forget()` + `task.return` at the end) ∥ the executor of the real
runtime (`start_task` / `callback`, C22's LTS) ∥ a conforming host, both feature settings of
`inter-task-wakeup`.  For EVERY reachable state — every user function behaviour (when it suspends, when
it completes), every executor step, every event order the host may choose, cancellation at any
suspension —, with `m` the state of the specification monitor after what the host has observed so far:
* the monitor accepted every observation: `task.return` at most once, `task.cancel` at most once and
  never after a `task.return` (nor the converse), `task.cancel` only after the host delivered
  EVENT_CANCEL, both only while a call into the task is running, the user function entered at most once;
* `task.return` happened iff the user's future completed; `task.cancel` happened iff the suspended
  future was dropped;
* when the task has exited (callback code EXIT) exactly one of the two has happened, and the
  end-of-life clause of the specification holds. -/
theorem export_task_return_xor_cancel_exactly_once {itw : Bool} {s : Sys} (h : Reach itw s) :
    ∃ m, expRun {} s.obs = .ok m ∧
      m.returns + m.cancels ≤ 1 ∧
      (m.returns = 1 ↔ s.fut = .done) ∧ (m.cancels = 1 ↔ s.fut = .dropped true) ∧
      (m.cancels = 1 → m.cancelReq = true) ∧
      (s.ex.pc = .gone → m.returns + m.cancels = 1 ∧ expComplete m = .ok ()) := by
  obtain ⟨m, hm, hj⟩ := reach_J h
  refine ⟨m, hm, ?_, ?_, ?_, ?_, ?_⟩
  · rw [hj.returns, hj.cancels]
    cases s.fut with
    | dropped c => cases c <;> simp
    | _ => simp
  · rw [hj.returns]; cases s.fut <;> simp
  · rw [hj.cancels]; cases hf : s.fut <;> simp
  · intro hc
    rw [hj.cancels] at hc
    have hf : s.fut = .dropped true := by
      cases hf : s.fut <;> simp [hf] at hc
      exact hc ▸ rfl
    -- the drop happened inside the destructor of the task state, which is entered with the root future
    -- still alive only on EVENT_CANCEL
    rw [hj.creq]
    exact hj.dropCS hf
  · intro hg
    have hgone := hj.goneF (Or.inr hg)
    have hnd := hj.noDF
    have hsum : m.returns + m.cancels = 1 := by
      rw [hj.returns, hj.cancels]
      cases hf : s.fut with
      | unpolled => simp [hf, Fut.gone] at hgone
      | awaiting => simp [hf, Fut.gone] at hgone
      | done => simp
      | dropped c => cases c <;> simp_all
    refine ⟨hsum, ?_⟩
    have hex : m.exited = true := by rw [hj.exited, hg]; rfl
    have hus : m.users = 1 := by
      rw [hj.users]
      cases hf : s.fut <;> simp_all [Fut.gone]
    have hcr : ¬ (m.cancels = 1 ∧ m.cancelReq = false) := by
      intro ⟨hc, hq⟩
      rw [hj.cancels] at hc
      have hf : s.fut = .dropped true := by
        cases hf : s.fut <;> simp [hf] at hc
        exact hc ▸ rfl
      rw [hj.creq, hj.dropCS hf] at hq
      exact Bool.noConfusion hq
    unfold expComplete
    simp only [hex, Bool.not_true, Bool.false_eq_true, if_false, hsum, ne_eq, not_true_eq_false, hus]
    by_cases hc : m.cancels = 1
    · have : m.cancelReq = true := by
        cases hq : m.cancelReq
        · exact absurd ⟨hc, hq⟩ hcr
        · rfl
      simp [hc, this]
    · simp [hc]

/-- Non-vacuity (the model's observations are exactly the token streams the real bindings produce in
checks/C08.py): a task that completes in its first poll; a task that yields, is cancelled and answers
with `task.cancel`. -/
example :
    (run (Sys.init false) [.hostCall, .exec (.cancelRead 0), .exec .tau, .rootPoll true, .exec (.pollDone true true),
        .exec (.decide 0 0 0), .exec (.cancelRead 0), .exec .tau]).map (fun s => (s.obs, s.fut, s.ex.pc))
      = some ([.call, .user, .ret, .cb 0], .done, .gone) ∧
    (run (Sys.init false) [.hostCall, .exec (.cancelRead 0), .exec .tau, .rootPoll false, .exec (.wake 0),
        .exec (.pollDone false false), .exec (.decide 0 0 0), .hostCb 6 0 0, .exec (.cancelRead 0), .rootDrop,
        .exec .dropTasksDone, .exec .tau]).map (fun s => (s.obs, s.fut, s.ex.pc))
      = some ([.call, .user, .cb 1, .ev 6, .cancel, .cb 0], .dropped true, .gone) := by
  constructor <;> rfl

/-- … and the specification monitor is not trivially true: an exit without `task.return`, a second
`task.return`, and a `task.cancel` nobody asked for are rejected. -/
example :
    (match expCheck [.call, .user, .cb 0] with | .error c => c | .ok _ => "accepted") = "exit-without-return-or-cancel" ∧
    (match expCheck [.call, .user, .ret, .ret, .cb 0] with | .error c => c | .ok _ => "accepted") = "task-return-twice" ∧
    (match expCheck [.call, .user, .cb 1, .ev 0, .cancel, .cb 0] with | .error c => c | .ok _ => "accepted")
      = "task-cancel-without-request" := by decide

end ExportSide

/-! ## 5. An async import keeps its lowered parameters alive until the callee has started -/

open Witverif.Async Witverif.Async.SubtaskSpec in
/-- **Nothing of the lowered parameters is released before the callee has started.**  System: one async
import call of the real runtime (`Subtask::call` = `WaitableOperation<SubtaskOps>`, C21's LTS) under
every legal host behaviour (every status sequence, every drop point, both `wasip3_task` versions).
The guest releases lowered-parameter memory in exactly three places: `params_dealloc_lists` (the list
and string buffers the lowering took over), `params_dealloc_lists_and_own`, and the drop of the area's
`Cleanup` (the parameter record).  At EVERY occurrence of one of these in ANY reachable trace, the
last status the host had reported was either a *started* one (STARTED, RETURNED, RETURNED_CANCELLED: the
callee has started, hence has already read the parameters) or a *resolved* one (RETURNED,
RETURNED_CANCELLED: started and finished; STARTED_CANCELLED: the callee will never start).  With `abi_layout_meets_spec` (the record and the result never overlap) this is the clause
"an async import keeps its lowered parameters alive until the callee has started". -/
theorem lowered_params_alive_until_started {spec : CallSpec} {t : CurTask} {c : CallSys} {m : CallMon} {tr : List Ev}
    (hv : t.version = 1 ∨ t.version = 2) (h : Reach spec t c m tr) (pre post : List Ev) (e : Ev)
    (htr : tr = pre ++ e :: post)
    (he : e = .deallocLists spec.k ∨ e = .deallocListsOwn spec.k ∨ e = .free spec.k) :
    ∃ mp, run spec.k { created := true } pre = .ok mp ∧ (startedKnown mp = true ∨ resolvedKnown mp = true) := by
  rcases he with rfl | rfl | rfl
  · obtain ⟨mp, hp, hs, _, _⟩ := (Witverif.Props.C21.params_lists_freed_once_after_start hv h).2.1 pre post htr
    exact ⟨mp, hp, Or.inl hs⟩
  · obtain ⟨mp, hp, hc, hr⟩ := (Witverif.Props.C21.owned_params_released_iff_cancelled_before_start hv h).2.1 pre post htr
    refine ⟨mp, hp, Or.inr ?_⟩
    simp [resolvedKnown, hc, hr, Host.resolved, Host.STARTED_CANCELLED, Host.RETURNED]
  · obtain ⟨mp, hp, hr, _⟩ := (Witverif.Props.C21.param_area_live_until_started hv h).2.1 pre post htr
    exact ⟨mp, hp, Or.inr hr⟩

/-- Non-vacuity: in the model's run "starting, then the STARTED event, then RETURNED" the lists are freed
right after the STARTED delivery and the area after the RETURNED one; and the specification rejects a
trace that frees the lists while the callee is still STARTING. -/
example :
    (match Witverif.Async.SubtaskSpec.run 0 { created := true } [Witverif.Async.Ev.lower 0, .callImport 0 0 1, .deallocLists 0] with
      | .error cls => cls | .ok _ => "accepted") = "lists-freed-before-start" ∧
    (match Witverif.Async.SubtaskSpec.run 0 { created := true } [Witverif.Async.Ev.lower 0, .callImport 0 0 1, .free 0] with
      | .error cls => cls | .ok _ => "accepted") = "area-freed-before-resolution" ∧
    (match Witverif.Async.SubtaskSpec.run 0 { created := true } [Witverif.Async.Ev.lower 0, .callImport 0 0 1, .dlv 1 1, .deallocLists 0, .dlv 1 2, .lift 0, .free 0] with
      | .error cls => cls | .ok _ => "accepted") = "accepted" := by decide

end Witverif.Props.C08
