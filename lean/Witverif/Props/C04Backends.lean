import Witverif.Generated.CastExprs
import Witverif.Props.C04Backends.Rust
import Witverif.Props.C04Backends.C
import Witverif.Props.C04Backends.Cpp
import Witverif.Props.C04Backends.CSharp
import Witverif.Props.C04Backends.Go
import Witverif.Props.C04Backends.MoonBit
import Witverif.Props.C04Backends.D
/-! # C04, backend half — every backend's `Bitcast` expressions

`Generated.CastExprs.table` (regenerated on every check run from the output of the seven real
generators on eight variant probes) lists the expressions emitted for
`Bitcast::{None, F32ToI32, I32ToF32, F64ToI64, I64ToF64, I32ToI64, I64ToI32, F32ToI64, I64ToF32, I64ToP64, P64ToI64,
I32ToP, PToI32, Sequence[F32ToI32,I32ToP], Sequence[PToI32,I32ToF32], Sequence[F64ToI64,I64ToP64],
Sequence[P64ToI64,I64ToF64]}` (pointer slots under the wasm32 data model).

* `table_shape`: exactly the expected lists;
* `all_is_spec`: every expression is the canonical ABI's reinterpret / zero-extend / wrap conversion
  for all bit patterns — except the `I32ToI64` / `F32ToI64` lists of the backends that sign-extend
  (`signExtending`; per-backend files prove `…_is_spec_full_false` with witness 0x80000000 and
  `…_is_spec_partial`: canonical iff bit 31 is clear);
* round trips (`<probe>_roundtrip` in the per-backend files) hold for **every** backend, including the
  sign-extending ones: the conversions are lossless.
`Bitcast`s whose *operand* is a pointer or a length (`PToP64, P64ToP, PToL, LToP, I32ToL, LToI32, I64ToL, LToI64`)
are not covered here (see the manifest). -/
namespace Witverif.Props.C04Backends
open Witverif.Scalar Witverif.Scalar.Spec Witverif.Generated
set_option maxRecDepth 100000

/-- lists whose lowering conversion sign-extends where the canonical ABI zero-extends (DESIGN §9 F3) -/
def signExtending : List String := ["rust_I32ToI64_s32_s64", "rust_I32ToI64_u32_f64", "c_I32ToI64_s32_s64", "c_F32ToI64_f32_s64", "c_I32ToI64_u32_f64", "c_F32ToI64_f32_f64", "cpp_I32ToI64_s32_s64", "cpp_F32ToI64_f32_s64", "cpp_I32ToI64_u32_f64", "cpp_F32ToI64_f32_f64", "csharp_I32ToI64_s32_s64", "csharp_F32ToI64_f32_s64", "csharp_I32ToI64_u32_f64", "csharp_F32ToI64_f32_f64", "go_I32ToI64_s32_s64", "go_I32ToI64_u32_f64", "moonbit_I32ToI64_s32_s64", "moonbit_F32ToI64_f32_s64", "moonbit_I32ToI64_u32_f64", "moonbit_F32ToI64_f32_f64"]

theorem table_shape : CastExprs.table.map (·.1) = ["rust_F32ToI32_f32_s32", "rust_I32ToF32_f32_s32", "rust_F64ToI64_f64_s64", "rust_I64ToF64_f64_s64", "rust_I32ToI64_s32_s64", "rust_I64ToI32_s32_s64", "rust_F32ToI64_f32_s64", "rust_I64ToF32_f32_s64", "rust_None_s32_f32", "rust_I32ToI64_u32_f64", "rust_I64ToI32_u32_f64", "rust_F32ToI64_f32_f64", "rust_I64ToF32_f32_f64", "rust_F64ToI64_f64_f32", "rust_I64ToF64_f64_f32", "rust_I64ToP64_s64_string", "rust_P64ToI64_s64_string", "rust_I32ToP_s32_string", "rust_PToI32_s32_string", "rust_F32ToI32_I32ToP_f32_string", "rust_PToI32_I32ToF32_f32_string", "rust_F64ToI64_I64ToP64_f64_string", "rust_P64ToI64_I64ToF64_f64_string", "c_F32ToI32_f32_s32", "c_I32ToF32_f32_s32", "c_F64ToI64_f64_s64", "c_I64ToF64_f64_s64", "c_I32ToI64_s32_s64", "c_I64ToI32_s32_s64", "c_F32ToI64_f32_s64", "c_I64ToF32_f32_s64", "c_None_s32_f32", "c_I32ToI64_u32_f64", "c_I64ToI32_u32_f64", "c_F32ToI64_f32_f64", "c_I64ToF32_f32_f64", "c_F64ToI64_f64_f32", "c_I64ToF64_f64_f32", "c_I64ToP64_s64_string", "c_P64ToI64_s64_string", "c_I32ToP_s32_string", "c_PToI32_s32_string", "c_F32ToI32_I32ToP_f32_string", "c_PToI32_I32ToF32_f32_string", "c_F64ToI64_I64ToP64_f64_string", "c_P64ToI64_I64ToF64_f64_string", "cpp_F32ToI32_f32_s32", "cpp_I32ToF32_f32_s32", "cpp_F64ToI64_f64_s64", "cpp_I64ToF64_f64_s64", "cpp_I32ToI64_s32_s64", "cpp_I64ToI32_s32_s64", "cpp_F32ToI64_f32_s64", "cpp_I64ToF32_f32_s64", "cpp_None_s32_f32", "cpp_I32ToI64_u32_f64", "cpp_I64ToI32_u32_f64", "cpp_F32ToI64_f32_f64", "cpp_I64ToF32_f32_f64", "cpp_F64ToI64_f64_f32", "cpp_I64ToF64_f64_f32", "cpp_I64ToP64_s64_string", "cpp_P64ToI64_s64_string", "cpp_I32ToP_s32_string", "cpp_PToI32_s32_string", "cpp_F32ToI32_I32ToP_f32_string", "cpp_PToI32_I32ToF32_f32_string", "cpp_F64ToI64_I64ToP64_f64_string", "cpp_P64ToI64_I64ToF64_f64_string", "csharp_F32ToI32_f32_s32", "csharp_I32ToF32_f32_s32", "csharp_F64ToI64_f64_s64", "csharp_I64ToF64_f64_s64", "csharp_I32ToI64_s32_s64", "csharp_I64ToI32_s32_s64", "csharp_F32ToI64_f32_s64", "csharp_I64ToF32_f32_s64", "csharp_None_s32_f32", "csharp_I32ToI64_u32_f64", "csharp_I64ToI32_u32_f64", "csharp_F32ToI64_f32_f64", "csharp_I64ToF32_f32_f64", "csharp_F64ToI64_f64_f32", "csharp_I64ToF64_f64_f32", "csharp_I64ToP64_s64_string", "csharp_P64ToI64_s64_string", "csharp_I32ToP_s32_string", "csharp_PToI32_s32_string", "csharp_F32ToI32_I32ToP_f32_string", "csharp_PToI32_I32ToF32_f32_string", "csharp_F64ToI64_I64ToP64_f64_string", "csharp_P64ToI64_I64ToF64_f64_string", "go_F32ToI32_f32_s32", "go_I32ToF32_f32_s32", "go_F64ToI64_f64_s64", "go_I64ToF64_f64_s64", "go_I32ToI64_s32_s64", "go_I64ToI32_s32_s64", "go_F32ToI64_f32_s64", "go_I64ToF32_f32_s64", "go_None_s32_f32", "go_I32ToI64_u32_f64", "go_I64ToI32_u32_f64", "go_F32ToI64_f32_f64", "go_I64ToF32_f32_f64", "go_F64ToI64_f64_f32", "go_I64ToF64_f64_f32", "go_I64ToP64_s64_string", "go_P64ToI64_s64_string", "go_I32ToP_s32_string", "go_PToI32_s32_string", "go_F32ToI32_I32ToP_f32_string", "go_PToI32_I32ToF32_f32_string", "go_F64ToI64_I64ToP64_f64_string", "go_P64ToI64_I64ToF64_f64_string", "moonbit_F32ToI32_f32_s32", "moonbit_I32ToF32_f32_s32", "moonbit_F64ToI64_f64_s64", "moonbit_I64ToF64_f64_s64", "moonbit_I32ToI64_s32_s64", "moonbit_I64ToI32_s32_s64", "moonbit_F32ToI64_f32_s64", "moonbit_I64ToF32_f32_s64", "moonbit_None_s32_f32", "moonbit_I32ToI64_u32_f64", "moonbit_I64ToI32_u32_f64", "moonbit_F32ToI64_f32_f64", "moonbit_I64ToF32_f32_f64", "moonbit_F64ToI64_f64_f32", "moonbit_I64ToF64_f64_f32", "moonbit_I64ToP64_s64_string", "moonbit_P64ToI64_s64_string", "moonbit_I32ToP_s32_string", "moonbit_PToI32_s32_string", "moonbit_F32ToI32_I32ToP_f32_string", "moonbit_PToI32_I32ToF32_f32_string", "moonbit_F64ToI64_I64ToP64_f64_string", "moonbit_P64ToI64_I64ToF64_f64_string", "d_F32ToI32_f32_s32", "d_I32ToF32_f32_s32", "d_F64ToI64_f64_s64", "d_I64ToF64_f64_s64", "d_I32ToI64_s32_s64", "d_I64ToI32_s32_s64", "d_F32ToI64_f32_s64", "d_I64ToF32_f32_s64", "d_None_s32_f32", "d_I32ToI64_u32_f64", "d_I64ToI32_u32_f64", "d_F32ToI64_f32_f64", "d_I64ToF32_f32_f64", "d_F64ToI64_f64_f32", "d_I64ToF64_f64_f32", "d_I64ToP64_s64_string", "d_P64ToI64_s64_string", "d_I32ToP_s32_string", "d_PToI32_s32_string", "d_F32ToI32_I32ToP_f32_string", "d_PToI32_I32ToF32_f32_string", "d_F64ToI64_I64ToP64_f64_string", "d_P64ToI64_I64ToF64_f64_string"] := by
  rfl

theorem all_nonempty : ∀ p ∈ CastExprs.table, p.2 ≠ [] := by
  decide +kernel

/-- every emitted `Bitcast` expression is the canonical ABI conversion on all bit patterns, except the
sign-extending lists -/
theorem all_is_spec : ∀ p ∈ CastExprs.table, p.1 ∉ signExtending → ∀ e ∈ p.2, e.IsSpec := by
  simp only [CastExprs.table, List.forall_mem_cons, List.not_mem_nil, false_imp_iff, implies_true, and_true]
  exact ⟨fun _ => Rust.rust_F32ToI32_f32_s32_is_spec,
    fun _ => Rust.rust_I32ToF32_f32_s32_is_spec,
    fun _ => Rust.rust_F64ToI64_f64_s64_is_spec,
    fun _ => Rust.rust_I64ToF64_f64_s64_is_spec,
    fun h => absurd (by decide) h,
    fun _ => Rust.rust_I64ToI32_s32_s64_is_spec,
    fun _ => Rust.rust_F32ToI64_f32_s64_is_spec,
    fun _ => Rust.rust_I64ToF32_f32_s64_is_spec,
    fun _ => Rust.rust_None_s32_f32_is_spec,
    fun h => absurd (by decide) h,
    fun _ => Rust.rust_I64ToI32_u32_f64_is_spec,
    fun _ => Rust.rust_F32ToI64_f32_f64_is_spec,
    fun _ => Rust.rust_I64ToF32_f32_f64_is_spec,
    fun _ => Rust.rust_F64ToI64_f64_f32_is_spec,
    fun _ => Rust.rust_I64ToF64_f64_f32_is_spec,
    fun _ => Rust.rust_I64ToP64_s64_string_is_spec,
    fun _ => Rust.rust_P64ToI64_s64_string_is_spec,
    fun _ => Rust.rust_I32ToP_s32_string_is_spec,
    fun _ => Rust.rust_PToI32_s32_string_is_spec,
    fun _ => Rust.rust_F32ToI32_I32ToP_f32_string_is_spec,
    fun _ => Rust.rust_PToI32_I32ToF32_f32_string_is_spec,
    fun _ => Rust.rust_F64ToI64_I64ToP64_f64_string_is_spec,
    fun _ => Rust.rust_P64ToI64_I64ToF64_f64_string_is_spec,
    fun _ => C.c_F32ToI32_f32_s32_is_spec,
    fun _ => C.c_I32ToF32_f32_s32_is_spec,
    fun _ => C.c_F64ToI64_f64_s64_is_spec,
    fun _ => C.c_I64ToF64_f64_s64_is_spec,
    fun h => absurd (by decide) h,
    fun _ => C.c_I64ToI32_s32_s64_is_spec,
    fun h => absurd (by decide) h,
    fun _ => C.c_I64ToF32_f32_s64_is_spec,
    fun _ => C.c_None_s32_f32_is_spec,
    fun h => absurd (by decide) h,
    fun _ => C.c_I64ToI32_u32_f64_is_spec,
    fun h => absurd (by decide) h,
    fun _ => C.c_I64ToF32_f32_f64_is_spec,
    fun _ => C.c_F64ToI64_f64_f32_is_spec,
    fun _ => C.c_I64ToF64_f64_f32_is_spec,
    fun _ => C.c_I64ToP64_s64_string_is_spec,
    fun _ => C.c_P64ToI64_s64_string_is_spec,
    fun _ => C.c_I32ToP_s32_string_is_spec,
    fun _ => C.c_PToI32_s32_string_is_spec,
    fun _ => C.c_F32ToI32_I32ToP_f32_string_is_spec,
    fun _ => C.c_PToI32_I32ToF32_f32_string_is_spec,
    fun _ => C.c_F64ToI64_I64ToP64_f64_string_is_spec,
    fun _ => C.c_P64ToI64_I64ToF64_f64_string_is_spec,
    fun _ => Cpp.cpp_F32ToI32_f32_s32_is_spec,
    fun _ => Cpp.cpp_I32ToF32_f32_s32_is_spec,
    fun _ => Cpp.cpp_F64ToI64_f64_s64_is_spec,
    fun _ => Cpp.cpp_I64ToF64_f64_s64_is_spec,
    fun h => absurd (by decide) h,
    fun _ => Cpp.cpp_I64ToI32_s32_s64_is_spec,
    fun h => absurd (by decide) h,
    fun _ => Cpp.cpp_I64ToF32_f32_s64_is_spec,
    fun _ => Cpp.cpp_None_s32_f32_is_spec,
    fun h => absurd (by decide) h,
    fun _ => Cpp.cpp_I64ToI32_u32_f64_is_spec,
    fun h => absurd (by decide) h,
    fun _ => Cpp.cpp_I64ToF32_f32_f64_is_spec,
    fun _ => Cpp.cpp_F64ToI64_f64_f32_is_spec,
    fun _ => Cpp.cpp_I64ToF64_f64_f32_is_spec,
    fun _ => Cpp.cpp_I64ToP64_s64_string_is_spec,
    fun _ => Cpp.cpp_P64ToI64_s64_string_is_spec,
    fun _ => Cpp.cpp_I32ToP_s32_string_is_spec,
    fun _ => Cpp.cpp_PToI32_s32_string_is_spec,
    fun _ => Cpp.cpp_F32ToI32_I32ToP_f32_string_is_spec,
    fun _ => Cpp.cpp_PToI32_I32ToF32_f32_string_is_spec,
    fun _ => Cpp.cpp_F64ToI64_I64ToP64_f64_string_is_spec,
    fun _ => Cpp.cpp_P64ToI64_I64ToF64_f64_string_is_spec,
    fun _ => CSharp.csharp_F32ToI32_f32_s32_is_spec,
    fun _ => CSharp.csharp_I32ToF32_f32_s32_is_spec,
    fun _ => CSharp.csharp_F64ToI64_f64_s64_is_spec,
    fun _ => CSharp.csharp_I64ToF64_f64_s64_is_spec,
    fun h => absurd (by decide) h,
    fun _ => CSharp.csharp_I64ToI32_s32_s64_is_spec,
    fun h => absurd (by decide) h,
    fun _ => CSharp.csharp_I64ToF32_f32_s64_is_spec,
    fun _ => CSharp.csharp_None_s32_f32_is_spec,
    fun h => absurd (by decide) h,
    fun _ => CSharp.csharp_I64ToI32_u32_f64_is_spec,
    fun h => absurd (by decide) h,
    fun _ => CSharp.csharp_I64ToF32_f32_f64_is_spec,
    fun _ => CSharp.csharp_F64ToI64_f64_f32_is_spec,
    fun _ => CSharp.csharp_I64ToF64_f64_f32_is_spec,
    fun _ => CSharp.csharp_I64ToP64_s64_string_is_spec,
    fun _ => CSharp.csharp_P64ToI64_s64_string_is_spec,
    fun _ => CSharp.csharp_I32ToP_s32_string_is_spec,
    fun _ => CSharp.csharp_PToI32_s32_string_is_spec,
    fun _ => CSharp.csharp_F32ToI32_I32ToP_f32_string_is_spec,
    fun _ => CSharp.csharp_PToI32_I32ToF32_f32_string_is_spec,
    fun _ => CSharp.csharp_F64ToI64_I64ToP64_f64_string_is_spec,
    fun _ => CSharp.csharp_P64ToI64_I64ToF64_f64_string_is_spec,
    fun _ => Go.go_F32ToI32_f32_s32_is_spec,
    fun _ => Go.go_I32ToF32_f32_s32_is_spec,
    fun _ => Go.go_F64ToI64_f64_s64_is_spec,
    fun _ => Go.go_I64ToF64_f64_s64_is_spec,
    fun h => absurd (by decide) h,
    fun _ => Go.go_I64ToI32_s32_s64_is_spec,
    fun _ => Go.go_F32ToI64_f32_s64_is_spec,
    fun _ => Go.go_I64ToF32_f32_s64_is_spec,
    fun _ => Go.go_None_s32_f32_is_spec,
    fun h => absurd (by decide) h,
    fun _ => Go.go_I64ToI32_u32_f64_is_spec,
    fun _ => Go.go_F32ToI64_f32_f64_is_spec,
    fun _ => Go.go_I64ToF32_f32_f64_is_spec,
    fun _ => Go.go_F64ToI64_f64_f32_is_spec,
    fun _ => Go.go_I64ToF64_f64_f32_is_spec,
    fun _ => Go.go_I64ToP64_s64_string_is_spec,
    fun _ => Go.go_P64ToI64_s64_string_is_spec,
    fun _ => Go.go_I32ToP_s32_string_is_spec,
    fun _ => Go.go_PToI32_s32_string_is_spec,
    fun _ => Go.go_F32ToI32_I32ToP_f32_string_is_spec,
    fun _ => Go.go_PToI32_I32ToF32_f32_string_is_spec,
    fun _ => Go.go_F64ToI64_I64ToP64_f64_string_is_spec,
    fun _ => Go.go_P64ToI64_I64ToF64_f64_string_is_spec,
    fun _ => MoonBit.moonbit_F32ToI32_f32_s32_is_spec,
    fun _ => MoonBit.moonbit_I32ToF32_f32_s32_is_spec,
    fun _ => MoonBit.moonbit_F64ToI64_f64_s64_is_spec,
    fun _ => MoonBit.moonbit_I64ToF64_f64_s64_is_spec,
    fun h => absurd (by decide) h,
    fun _ => MoonBit.moonbit_I64ToI32_s32_s64_is_spec,
    fun h => absurd (by decide) h,
    fun _ => MoonBit.moonbit_I64ToF32_f32_s64_is_spec,
    fun _ => MoonBit.moonbit_None_s32_f32_is_spec,
    fun h => absurd (by decide) h,
    fun _ => MoonBit.moonbit_I64ToI32_u32_f64_is_spec,
    fun h => absurd (by decide) h,
    fun _ => MoonBit.moonbit_I64ToF32_f32_f64_is_spec,
    fun _ => MoonBit.moonbit_F64ToI64_f64_f32_is_spec,
    fun _ => MoonBit.moonbit_I64ToF64_f64_f32_is_spec,
    fun _ => MoonBit.moonbit_I64ToP64_s64_string_is_spec,
    fun _ => MoonBit.moonbit_P64ToI64_s64_string_is_spec,
    fun _ => MoonBit.moonbit_I32ToP_s32_string_is_spec,
    fun _ => MoonBit.moonbit_PToI32_s32_string_is_spec,
    fun _ => MoonBit.moonbit_F32ToI32_I32ToP_f32_string_is_spec,
    fun _ => MoonBit.moonbit_PToI32_I32ToF32_f32_string_is_spec,
    fun _ => MoonBit.moonbit_F64ToI64_I64ToP64_f64_string_is_spec,
    fun _ => MoonBit.moonbit_P64ToI64_I64ToF64_f64_string_is_spec,
    fun _ => D.d_F32ToI32_f32_s32_is_spec,
    fun _ => D.d_I32ToF32_f32_s32_is_spec,
    fun _ => D.d_F64ToI64_f64_s64_is_spec,
    fun _ => D.d_I64ToF64_f64_s64_is_spec,
    fun _ => D.d_I32ToI64_s32_s64_is_spec,
    fun _ => D.d_I64ToI32_s32_s64_is_spec,
    fun _ => D.d_F32ToI64_f32_s64_is_spec,
    fun _ => D.d_I64ToF32_f32_s64_is_spec,
    fun _ => D.d_None_s32_f32_is_spec,
    fun _ => D.d_I32ToI64_u32_f64_is_spec,
    fun _ => D.d_I64ToI32_u32_f64_is_spec,
    fun _ => D.d_F32ToI64_f32_f64_is_spec,
    fun _ => D.d_I64ToF32_f32_f64_is_spec,
    fun _ => D.d_F64ToI64_f64_f32_is_spec,
    fun _ => D.d_I64ToF64_f64_f32_is_spec,
    fun _ => D.d_I64ToP64_s64_string_is_spec,
    fun _ => D.d_P64ToI64_s64_string_is_spec,
    fun _ => D.d_I32ToP_s32_string_is_spec,
    fun _ => D.d_PToI32_s32_string_is_spec,
    fun _ => D.d_F32ToI32_I32ToP_f32_string_is_spec,
    fun _ => D.d_PToI32_I32ToF32_f32_string_is_spec,
    fun _ => D.d_F64ToI64_I64ToP64_f64_string_is_spec,
    fun _ => D.d_P64ToI64_I64ToF64_f64_string_is_spec⟩

example : CastExprs.table ≠ [] := by decide
end Witverif.Props.C04Backends
