import Witverif.Proofs.CheckMode
/-!
# C33 — CLI check mode succeeds exactly when outputs are up to date

Property theorems only (helper lemmas: `Proofs/CheckMode.lean`).
Model: `Witverif.Text.CheckMode` (the file loop of `main` in `src/bin/wit-bindgen.rs` with an effect
log), tied to the real CLI binary by the `cli-check` correspondence run.
Spec side: `Witverif.Text.CheckSpec` (`upToDate`, `eolOnly` via `normEol` - no `str::lines`, `expected`).
All statements hold for every directory state and every list of generated files (any bytes).
-/
namespace Witverif.Props.C33
open Witverif.Text Witverif.Text.CheckMode Witverif.Text.CheckSpec Witverif.Text.RustStr

/-- `--check` succeeds exactly when every file that would be generated exists with identical bytes. -/
theorem check_ok_iff_identical (fs : FS) (files : List (Name × Bytes)) :
    (runMain true fs files).1 = .ok ↔ upToDate fs files = true := by
  simp only [runMain, if_true]
  rw [checkLoop_expected, ← firstStale_none]
  unfold expected
  cases h : firstStale fs files with
  | none => simp
  | some f =>
    obtain ⟨n, c⟩ := f
    simp only
    cases fs.read n with
    | none => simp
    | some prev => simp only; split <;> simp

/-- A differing file is reported as "differs only in line endings" exactly when it is text
without control characters other than `\n`, `\r`, `\t` and equals the generated text after
`\r\n ↦ \n` and up to the final line break; every other difference is "not up to date". -/
theorem crlf_only_reported (n : Name) (prev contents : Bytes) (hne : prev ≠ contents) :
    (classify n prev contents = .lineEndings n ↔ eolOnly prev contents = true) ∧
    (classify n prev contents = .notUpToDate n ↔ eolOnly prev contents = false) := by
  rw [classify_spec n prev contents hne]
  cases eolOnly prev contents <;> simp

/-- … in particular for plain text: reported as line endings iff equal up to line endings. -/
theorem crlf_only_reported_text (n : Name) (p c : List Char) (hne : p ≠ c) (hplain : plainText p = true) :
    classify n (.utf8 p) (.utf8 c) = .lineEndings n ↔ normEol p = normEol c := by
  have hne' : Bytes.utf8 p ≠ Bytes.utf8 c := fun e => hne (by injection e)
  rw [(crlf_only_reported n _ _ hne').1]
  simp [eolOnly, hne, hplain]

/-- The outcome of a `--check` run is the one the specification demands: the first file (in
iteration order) that is missing or differs decides, with the failure kind as specified. -/
theorem check_outcome_spec (fs : FS) (files : List (Name × Bytes)) :
    (runMain true fs files).1 = expected fs files := by
  simp only [runMain, if_true]; exact checkLoop_expected fs files

/-- The check branch of the file loop never writes: its effect log consists of reads only and the
directory is returned unchanged.  This is DEFINITIONAL for the loop (it restates how `checkLoop`
mirrors the `if opt.check { … continue; }` branch; the contrast is the non-check branch below, whose
log has `createDirAll`/`write`).  The substantive claim - that nothing else reached from `--check`
(`Opts::build`, `WorldGenerator::generate` of the nine generator crates) writes either - is not a
theorem: it is VALIDATED per run by the before/after snapshot of the whole work tree, the inventory
of file-system write calls, and strace in the thorough tier. -/
theorem check_never_writes (fs : FS) (files : List (Name × Bytes)) :
    (∀ e ∈ (runMain true fs files).2.1, ∃ n, e = Effect.read n) ∧ (runMain true fs files).2.2 = fs := by
  simp only [runMain, if_true, and_true]
  exact checkLoop_reads_only fs files

/-- The complete monitor holds of the model (with the tree unchanged). -/
theorem check_run_ok (fs : FS) (files : List (Name × Bytes)) :
    checkRunOk fs files (runMain true fs files).1 true = true := by
  have h1 := check_outcome_spec fs files
  have h2 := check_ok_iff_identical fs files
  simp only [checkRunOk, Bool.true_and, Bool.and_eq_true, decide_eq_true_eq, beq_iff_eq]
  refine ⟨h1, ?_⟩
  rw [Bool.eq_iff_iff]; simpa using h2

/-! ## non-vacuity -/

/-- three files: identical, CRLF-only, altered - the CRLF one is visited first and reported as such -/
example :
    (runMain true
      [("a.h".toList, .utf8 "x\n".toList), ("b.h".toList, .utf8 "l1\r\nl2\r\n".toList), ("c.h".toList, .utf8 "zzz".toList)]
      [("a.h".toList, .utf8 "x\n".toList), ("b.h".toList, .utf8 "l1\nl2\n".toList), ("c.h".toList, .utf8 "z".toList)]).1
      = .lineEndings "b.h".toList := by decide

/-- missing file / binary difference / control character next to a CRLF difference -/
example : (runMain true [] [("a".toList, .utf8 [])]).1 = .failedRead "a".toList := by decide
example : (runMain true [("o".toList, .binary [0, 255])] [("o".toList, .binary [0, 254])]).1 = .notUpToDate "o".toList := by decide
example : classify "f".toList (.utf8 "\x01a\r\n".toList) (.utf8 "\x01a\n".toList) = .notUpToDate "f".toList := by decide
example : classify "f".toList (.utf8 "a".toList) (.utf8 "a\n".toList) = .lineEndings "f".toList := by decide

/-- all identical: ok, two reads, nothing else -/
example :
    runMain true [("a".toList, .utf8 "x".toList), ("b".toList, .binary [1])] [("a".toList, .utf8 "x".toList), ("b".toList, .binary [1])]
      = (.ok, [.read "a".toList, .read "b".toList], [("a".toList, .utf8 "x".toList), ("b".toList, .binary [1])]) := by decide

/-- the non-check branch of the same loop does write -/
example : (runMain false [] [("a".toList, .utf8 "x".toList)]).2.1 = [.createDirAll "a".toList, .write "a".toList (.utf8 "x".toList)] := by
  decide

end Witverif.Props.C33
