import Witverif.Proofs.AbiTotal4
/-!
# C16 (core half) — totality of `write_to_memory`, `read_from_memory` and flat `lower` in the shared generator

Model: `Abi.lower/store/load/lift/dealloc/call/postReturn` with `Except Panic` at every
`todo!/unreachable!/unwrap/assert!` of crates/core/src/abi.rs.  Tie: for every entry point and every
generated type/function the real generator panics exactly when the model does (abi-trace runs each case
under `catch_unwind`).  PROVED total here: `store`, `load`, `deallocate_indirect` (any type); flat
`lower`, `lift`, `deallocate` (≤ 16 flat slots — the only way the calling convention uses them); and
`Generator::call` for the four (variant, direction, async) combinations the backends use
(import-lower-sync, export-lift-sync, GuestExportAsync-lift-async, C#'s GuestExport-lift-async) for EVERY
function, including the closing "operands = core signature" / "stack holds exactly the results"
assertions, plus `post_return` wherever `guest_export_needs_post_return` makes a backend emit it.
Validity hypothesis of the flat lift/dealloc/call theorems: fixed-length lists are non-empty
(`flistsNonEmpty`; the component-model rule wasmparser enforces — wit-parser itself accepts `list<T, 0>`,
and `lift_panics_on_empty_flist` shows the hypothesis is needed: the real generator panics there too,
abi-trace `list<tuple<17×u32>, 0>`; recorded in DESIGN as outside "valid world").
Also proved: the two host-side directions of `call` (export-lower, import-lift: used only by the C02 host
model, by no backend).  NOT proved, and false: `GuestImportAsync` with indirect parameters and the stackful
variants (`todo!()` in the source, passed to `call` by no backend).
Backend half (each backend's own `match` arms): `Props/C16Backends.lean`.
-/
namespace Witverif.Props.C16
open Witverif.Abi

/-- Lowering to memory (`write_to_memory`, used for indirect parameters, return areas, list elements,
stream/future payloads) never panics — any type, any nesting. -/
theorem store_never_panics (c : Cfg) (t : Ty) (lvl : Nat) (x a : Expr) (off : Off) :
    ∃ ss, store c lvl t x a off = .ok ss := store_total c t lvl x a off

/-- Lifting from memory (`read_from_memory`) never panics — any type. -/
theorem load_never_panics (c : Cfg) (t : Ty) (lvl : Nat) (a : Expr) (off : Off) :
    ∃ r, load c lvl t a off = .ok r := load_total c t lvl a off

/-- Flat lowering never panics on a type with at most 16 flat slots — the only types the calling
convention ever lowers flat (parameters ≤ 16, results ≤ 1, task.return ≤ 16).  In particular the
`flat_types(..).unwrap()` sites and the `unreachable!` of `cast` are unreachable: every cast the
variant arms need exists (C04 `no_unconvertible_pair`). -/
theorem lower_never_panics (c : Cfg) (t : Ty) (lvl : Nat) (x : Expr) (h : (flatten t).length ≤ 16) :
    ∃ r, lower c lvl t x = .ok r := lower_total c t lvl x h

/-- The bound is sharp: beyond 16 flat slots a variant hits `flat_types(..).unwrap()`. -/
theorem lower_panics_beyond_limit :
    lower ⟨fun _ => false, true⟩ 0 (.option (.tuple (List.replicate 16 .u32))) (.inp 0) = .error .unwrap := rfl

/-- Flat lifting never panics on a valid type with at most 16 flat slots, whatever operands it is given. -/
theorem lift_never_panics (c : Cfg) (t : Ty) (lvl : Nat) (xs : List Expr) (h : (flatten t).length ≤ 16)
    (hv : flistsNonEmpty t = true) : ∃ r, lift c lvl t xs = .ok r := lift_total c t lvl xs h hv

/-- … and the validity hypothesis cannot be dropped. -/
theorem lift_panics_on_empty_fixed_list :
    lift ⟨fun _ => false, true⟩ 0 (.flist (.tuple (List.replicate 17 .u32)) 0) [] = .error .unwrap := rfl

/-- Cleanup through memory (`deallocate_indirect`: post-return, list elements, parameter records) never
panics — any type, both cleanup modes. -/
theorem dealloc_indirect_never_panics (handles : Bool) (t : Ty) (lvl : Nat) (a : Expr) (off : Off) :
    ∃ ss, deallocIndirect handles lvl t a off = .ok ss := deallocIndirect_total handles t lvl a off

/-- Cleanup of flat operands (`deallocate`) never panics on a valid type with at most 16 flat slots. -/
theorem dealloc_never_panics (handles : Bool) (t : Ty) (lvl : Nat) (xs : List Expr) (h : (flatten t).length ≤ 16)
    (hv : flistsNonEmpty t = true) : ∃ ss, dealloc handles lvl t xs = .ok ss := dealloc_total handles t lvl xs h hv

/-- `Generator::call` never panics for any function with valid types, in every combination a backend uses:
sync import (lower arguments, lift results), sync export (lift arguments, lower results), async export
through `GuestExportAsync` (Rust, C, MoonBit, Go) and through `GuestExport` with `async_ = true` (C#).
No bound on the number or size of parameters: > 16 flat slots go through the parameter record, > 1 result
slot through the return area, > 16 `task.return` slots through memory.  Success includes every closing
assertion of `call` (C02: "leaves no value unconsumed"). -/
theorem call_never_panics (canon : Ty → Bool) (f : Func) (hv : f.valid = true) :
    (∃ ss, call canon .guestImport true false f = .ok ss) ∧
    (∃ ss, call canon .guestExport false false f = .ok ss) ∧
    (∃ ss, call canon .guestExportAsync false true f = .ok ss) ∧
    (∃ ss, call canon .guestExport false true f = .ok ss) :=
  ⟨call_import_total canon f hv, call_export_total canon f hv,
   call_export_async_total canon _ (.inl rfl) f hv, call_export_async_total canon _ (.inr rfl) f hv⟩

/-- The host-side directions (caller of an export, callee of an import) never panic either; `methodOk`:
a method's first parameter is its `self` handle. -/
theorem call_hostside_never_panics (canon : Ty → Bool) (f : Func) (hv : f.valid = true) (hm : f.methodOk = true) :
    (∃ ss, call canon .guestExport true false f = .ok ss) ∧
    (∃ ss, call canon .guestImport false false f = .ok ss) :=
  ⟨call_export_hostside_total canon f hv hm, call_import_hostside_total canon f hv⟩

/-- the `todo!()` of `call` that remains: async-lowered imports with indirect parameters (no backend passes
this combination to `call`: Rust, MoonBit and Go write async imports by hand) -/
theorem call_import_async_indirect_is_todo :
    call (fun _ => false) .guestImportAsync true true ⟨false, List.replicate 5 .u32, none⟩ = .error .todo := rfl

/-- `post_return` never panics where a backend emits it (`guest_export_needs_post_return`), and is an
assertion failure exactly when the export does not return through a return area. -/
theorem post_return_never_panics_where_emitted (f : Func) (hv : f.valid = true) (h : needsPostReturn f = true) :
    ∃ ss, postReturn f = .ok ss := postReturn_total_of_needed f hv h

theorem post_return_panics_iff (f : Func) :
    (∃ ss, postReturn f = .ok ss) ↔ (flattenOpt f.result).length > 1 := by
  constructor
  · intro ⟨ss, h⟩
    refine Classical.byContradiction fun hn => ?_
    rw [postReturn_asserts f hn] at h
    cases h
  · exact postReturn_total f

/-- non-vacuity: a function with 17 parameters (indirect), a list result (return area) and valid types -/
example : (⟨false, List.replicate 17 .u64 ++ [.flist .string 2], some (.list .string)⟩ : Func).valid = true := by
  decide

end Witverif.Props.C16
