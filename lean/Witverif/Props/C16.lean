import Witverif.Proofs.AbiTotal
/-!
# C16 (core half) — totality of `write_to_memory`, `read_from_memory` and flat `lower` in the shared generator

Model: `Abi.lower/store/load/lift/dealloc/call/postReturn` with `Except Panic` at every
`todo!/unreachable!/unwrap/assert!` of crates/core/src/abi.rs.  Tie: for every entry point and every
generated type/function the real generator panics exactly when the model does (abi-trace runs each case
under `catch_unwind`).  PROVED total here: `store`, `load`, and `lower` (≤ 16 flat slots).  NOT proved
(partial obligations in the evidence; every C02/C03 glue theorem carries `call … = .ok ss` resp.
`postReturn f = .ok ss` as a hypothesis): totality of `lift`, `dealloc`/`deallocIndirect`, `call`
(including its final "stack is empty" assertion, i.e. the C02 clause "leaves no value unconsumed") and
`post_return`; for those, absence of panics on supported inputs is a correspondence + search result.
Backend half (each backend's own `match` arms): `Props/C16Backends.lean`.
-/
namespace Witverif.Props.C16
open Witverif.Abi

/-- Lowering to memory (`write_to_memory`, used for indirect parameters, return areas, list elements,
stream/future payloads) never panics — any type, any nesting. -/
theorem store_never_panics (c : Cfg) (t : Ty) (lvl : Nat) (x a : Expr) (off : Off) :
    ∃ ss, store c lvl t x a off = .ok ss := store_total c t lvl x a off

/-- Lifting from memory (`read_from_memory`) never panics — any type. -/
theorem load_never_panics (c : Cfg) (t : Ty) (lvl : Nat) (a : Expr) (off : Off) :
    ∃ r, load c lvl t a off = .ok r := load_total c t lvl a off

/-- Flat lowering never panics on a type with at most 16 flat slots — the only types the calling
convention ever lowers flat (parameters ≤ 16, results ≤ 1, task.return ≤ 16).  In particular the
`flat_types(..).unwrap()` sites and the `unreachable!` of `cast` are unreachable: every cast the
variant arms need exists (C04 `no_unconvertible_pair`). -/
theorem lower_never_panics (c : Cfg) (t : Ty) (lvl : Nat) (x : Expr) (h : (flatten t).length ≤ 16) :
    ∃ r, lower c lvl t x = .ok r := lower_total c t lvl x h

/-- The bound is sharp: beyond 16 flat slots a variant hits `flat_types(..).unwrap()`. -/
theorem lower_panics_beyond_limit :
    lower ⟨fun _ => false, true⟩ 0 (.option (.tuple (List.replicate 16 .u32))) (.inp 0) = .error .unwrap := rfl

end Witverif.Props.C16
