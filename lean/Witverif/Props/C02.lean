import Witverif.Proofs.AbiSig
import Witverif.Proofs.AbiCall
import Witverif.Proofs.AbiCall2
import Witverif.Proofs.AbiCall3
import Witverif.Proofs.AbiTotal4
/-!
# C02 — Call glue follows the canonical calling convention for every signature

Model: `Abi.wasmSignature` (wit-parser `Resolve::wasm_signature`) and `Abi.call` (`Generator::call`,
crates/core/src/abi.rs).  Tie: exact equality of the signature and of the complete glue tree with
the real code for every function of the seeded worlds + boundary corpus, in all 5 ABI variants × 2
directions × sync/async × 2 canonical-list rules.  Monitor `checkCall` (Abi/Validate.lean) on the
REAL glue trees: exactly one core call / interface call, exactly one return / task.return, operands
of the call are the canonical lowering of the arguments (flat, or a correctly laid-out record behind
one pointer), results come back canonically (direct, return area, or task.return operands), and a
caller-allocated parameter record is freed exactly once.

Proved here: the signature theorems (all functions, both pointer widths) and the value correctness
of the import and export glue for functions passed entirely flat with memory-free types.  Indirect
parameters, return areas, async glue and list-bearing types are monitored on the real streams
(partial obligations listed in the evidence).
Known defect: async exports never free an indirect parameter record (class
`async-export-indirect-params-not-freed`).
-/
namespace Witverif.Props.C02
open Witverif.Abi

/-- Parameters are passed flat exactly when they fit the flat-parameter limit (16; 4 for async-lowered
imports), otherwise through one pointer. -/
theorem params_flat_iff (v : Variant) (f : Func) :
    (wasmSignature v f).indirectParams =
      decide ((flattenList f.params).length > (if v = .guestImportAsync then 4 else 16)) := by
  cases v <;> simp [wasmSignature, maxFlatAsyncParams, maxFlatParams, apply_ite Sig.indirectParams]

/-- Indirect parameters travel as exactly one pointer (plus the return pointer where one is added). -/
theorem indirect_params_shape (v : Variant) (f : Func) (h : (wasmSignature v f).indirectParams = true) :
    (wasmSignature v f).params = [.ptr] ∨ (wasmSignature v f).params = [.ptr, .ptr] := by
  have := params_flat_iff v f
  rw [h] at this
  have hgt := of_decide_eq_true this.symm
  cases v <;> simp [maxFlatAsyncParams, maxFlatParams] at hgt <;>
    simp [wasmSignature, maxFlatAsyncParams, maxFlatParams, maxFlatResults, hgt, apply_ite Sig.params] <;>
    (try (by_cases hc : 1 < (flattenOpt f.result).length <;> simp [hc] <;> omega)) <;>
    (try (cases f.result <;> simp))

/-- Synchronous results are returned directly when they have at most one flat slot, otherwise
through a return area (an extra pointer parameter for imports, a returned pointer for exports). -/
theorem sync_results (f : Func) :
    ((wasmSignature .guestImport f).retptr = decide ((flattenOpt f.result).length > 1)) ∧
    ((wasmSignature .guestExport f).retptr = decide ((flattenOpt f.result).length > 1)) ∧
    ((wasmSignature .guestExport f).retptr = true → (wasmSignature .guestExport f).results = [.ptr]) ∧
    ((wasmSignature .guestImport f).retptr = true →
        (wasmSignature .guestImport f).results = [] ∧ (wasmSignature .guestImport f).params.getLast? = some .ptr) := by
  by_cases hc : 1 < (flattenOpt f.result).length <;>
    simp [wasmSignature, maxFlatResults, hc]

/-- Async-lifted exports return only a status code (callback ABI) or nothing (stackful); async-lowered
imports return a status code and take a result pointer exactly when there is a result. -/
theorem async_results (f : Func) :
    (wasmSignature .guestExportAsync f).results = [.i32] ∧
    (wasmSignature .guestExportAsyncStackful f).results = [] ∧
    (wasmSignature .guestImportAsync f).results = [.i32] ∧
    ((wasmSignature .guestImportAsync f).retptr = f.result.isSome) := by
  cases hr : f.result <;> simp [wasmSignature, hr]

/-- **The core signature is the canonical one** (`flatten_functype`), for both pointer widths, every
variant, every function whose result (if any) has at least one flat slot; exported methods are
excluded only for wit-parser's documented `self`-pointer typing of the first slot. -/
theorem sig_eq (p : Nat) (hp : p = 4 ∨ p = 8) (v : Variant) (f : Func)
    (hm : (f.isMethod && v.isExport) = false)
    (hr : f.result.isSome = true → flattenOpt f.result ≠ []) :
    ((wasmSignature v f).params.map (CoreTy.erase p), (wasmSignature v f).results.map (CoreTy.erase p))
      = Spec.flattenFunctype p v.async v.callback v.ctx f.params f.result :=
  wasmSignature_spec p hp v f hm hr

/-- **Import glue carries values canonically (flat case).**  For every imported function whose
parameters and result are memory-free and passed flat (≤ 16 flat parameters, ≤ 1 flat result), every
argument tuple, whatever the callee returns (any well-formed core values), both pointer widths: the
glue executes exactly one `CallWasm` whose operands are the canonical flat lowering of the
arguments, then exactly one `Return` with the value the canonical ABI assigns to the callee's core
results — and it traps exactly when the spec does.  Nothing else is called. -/
theorem import_glue_value_correct (p : Nat) (hp : p = 4 ∨ p = 8) (canon : Ty → Bool) (f : Func)
    (vals : List Val) (callee : List CVal)
    (hm : memFreeAll f.params = true) (ht : Spec.hasTys f.params vals = true)
    (hflat : (flattenList f.params).length ≤ 16)
    (hmr : memFreeOpt f.result = true) (hrflat : (flattenOpt f.result).length ≤ 1)
    (hwfc : WfFlat callee (Spec.flattenOpt p f.result))
    (ss : List Stmt) (h : call canon .guestImport true false f = .ok ss) :
    (execStmts { p, args := vals.map MV.v, callResults := callee.map MV.c } {} ss).map (fun r => r.2.calls) =
      match f.result with
      | none => some [("Return", []), ("CallWasm", (specLowerAll p f.params vals {}).1.map MV.c)]
      | some t => (Spec.liftFlat p [] t callee).map fun rv =>
          [("Return", [MV.v rv]), ("CallWasm", (specLowerAll p f.params vals {}).1.map MV.c)] :=
  call_import_flat_correct p hp canon f vals callee hm ht hflat hmr hrflat hwfc ss h

/-- **Export glue carries values canonically (flat case).**  For every exported (non-method) function
with memory-free parameters and result passed flat, whatever well-formed core values the host
passes: the user function is called exactly once with exactly the values the canonical ABI assigns
to them (trap iff the spec traps, before anything is called), the glue returns exactly the canonical
flat lowering of the user's result, and nothing is freed. -/
theorem export_glue_value_correct (p : Nat) (hp : p = 4 ∨ p = 8) (canon : Ty → Bool) (f : Func)
    (hnm : f.isMethod = false) (incoming : List CVal) (rv : Option Val)
    (hm : memFreeAll f.params = true) (hflat : (flattenList f.params).length ≤ 16)
    (hwf : WfFlat incoming (Spec.flattenList p f.params))
    (hmr : memFreeOpt f.result = true) (hrflat : (flattenOpt f.result).length ≤ 1)
    (hrv : Spec.hasTyOpt f.result rv = true)
    (ss : List Stmt) (h : call canon .guestExport false false f = .ok ss) :
    (execStmts { p, args := incoming.map MV.c, ifaceResult := rv.toList.map MV.v } {} ss).map
        (fun r => (r.2.calls, r.2.freed)) =
      (specLiftAll p [] f.params incoming).map fun vals =>
        ([("Return", (Spec.lowerOpt p f.result rv {}).1.map MV.c), ("CallInterface", vals.map MV.v)], []) :=
  call_export_flat_correct p hp canon f hnm incoming rv hm hflat hwf hmr hrflat hrv ss h

/-- **Export glue, parameters through a caller-allocated record** (more than 16 flat parameters, of
ANY types — strings, lists, variants, handles, …; memory-free flat result).  For any machine state
(any memory, any ledgers) and any record address: the user function is called exactly once with
exactly the values the canonical ABI reads from the record at the canonical field offsets (the glue
is stuck exactly when the spec's `load` traps, before anything is called); the parameter record is
then freed **exactly once, with the canonical size and alignment of the record**; the glue returns
the canonical flat lowering of the user's result; memory and heap are untouched and nothing else is
called or freed. -/
theorem export_glue_indirect_params_correct (p : Nat) (hp : p = 4 ∨ p = 8) (canon : Ty → Bool) (f : Func)
    (recPtr : Nat) (s0 : MSt) (rv : Option Val)
    (hind : (flattenList f.params).length > 16)
    (hmr : memFreeOpt f.result = true) (hrflat : (flattenOpt f.result).length ≤ 1)
    (hrv : Spec.hasTyOpt f.result rv = true)
    (ss : List Stmt) (h : call canon .guestExport false false f = .ok ss) :
    (execStmts { p, args := [.c ⟨ptrFT p, recPtr⟩], ifaceResult := rv.toList.map MV.v } s0 ss).map
        (fun r => (r.2.calls, r.2.freed, r.2.st)) =
      (Spec.loadFields p s0.st.mem f.params recPtr 0).map fun vals =>
        (("Return", (Spec.lowerOpt p f.result rv {}).1.map MV.c) :: ("CallInterface", vals.map MV.v) :: s0.calls,
         (recPtr, elemSize p (.record f.params), alignment p (.record f.params)) :: s0.freed, s0.st) :=
  call_export_indirect_correct p hp canon f recPtr s0 rv hind hmr hrflat hrv ss h

/-- **Import glue, result through the return area** (memory-free flat parameters; result of ANY type
needing more than one flat slot — strings, lists, records, …).  For any machine state and return-area
address: exactly one core call, whose operands are the canonical flat lowering of the arguments
followed by the return-area pointer; the glue returns exactly what the canonical ABI `load`s from the
return area in the memory the callee left, and is stuck exactly when the spec traps; nothing is freed,
memory and heap are untouched. -/
theorem import_glue_retptr_correct (p : Nat) (hp : p = 4 ∨ p = 8) (canon : Ty → Bool) (f : Func) (t : Ty)
    (hres : f.result = some t) (vals : List Val) (retAddr : Nat) (s0 : MSt)
    (hm : memFreeAll f.params = true) (ht : Spec.hasTys f.params vals = true)
    (hflat : (flattenList f.params).length ≤ 16) (hrflat : (flatten t).length > 1)
    (ss : List Stmt) (h : call canon .guestImport true false f = .ok ss) :
    (execStmts { p, args := vals.map MV.v, rps := [retAddr] } s0 ss).map (fun r => (r.2.calls, r.2.freed, r.2.st)) =
      (Spec.load p s0.st.mem t retAddr).map fun rv =>
        (("Return", [MV.v rv]) ::
          ("CallWasm", (specLowerAll p f.params vals {}).1.map MV.c ++ [MV.c ⟨ptrFT p, retAddr⟩]) :: s0.calls,
         s0.freed, s0.st) :=
  call_import_retptr_correct p hp canon f t hres vals retAddr s0 hm ht hflat hrflat ss h

/-- Non-vacuity of `import_glue_retptr_correct`: `f(a: u32) -> tuple<string, u8>`. -/
example :
    (flatten (.tuple [.string, .u8])).length > 1 ∧
    ∃ ss, call (fun _ => false) .guestImport true false (Func.mk false [.u32] (some (.tuple [.string, .u8]))) = .ok ss :=
  ⟨by decide, ⟨_, rfl⟩⟩

/-- **Async export glue reports its result through exactly one `task.return`** (callback ABI;
memory-free parameters with at most 16 flat values, memory-free result with at most 16 flat values —
the async flat-result limit).  Whatever well-formed core values arrive: the user function is called
exactly once with the values the canonical ABI assigns to them (stuck iff the spec traps, before
anything is called), then **exactly one** `task.return` is performed whose operands are the canonical
flat lowering of the result; nothing is freed and nothing else is called. -/
theorem async_export_glue_task_return_once (p : Nat) (hp : p = 4 ∨ p = 8) (canon : Ty → Bool) (f : Func)
    (hnm : f.isMethod = false) (incoming : List CVal) (rv : Option Val)
    (hm : memFreeAll f.params = true) (hflat : (flattenList f.params).length ≤ 16)
    (hwf : WfFlat incoming (Spec.flattenList p f.params))
    (hmr : memFreeOpt f.result = true) (hrflat : (flattenOpt f.result).length ≤ 16)
    (hrv : Spec.hasTyOpt f.result rv = true)
    (ss : List Stmt) (h : call canon .guestExportAsync false true f = .ok ss) :
    (execStmts { p, args := incoming.map MV.c, ifaceResult := rv.toList.map MV.v } {} ss).map
        (fun r => (r.2.calls, r.2.freed)) =
      (specLiftAll p [] f.params incoming).map fun vals =>
        ([("AsyncTaskReturn", (Spec.lowerOpt p f.result rv {}).1.map MV.c), ("CallInterface", vals.map MV.v)], []) :=
  call_export_async_flat_correct p hp canon f hnm incoming rv hm hflat hwf hmr hrflat hrv ss h

/-- Non-vacuity of `async_export_glue_task_return_once`: `f(a: u8) -> tuple<u32, f64, u8>` (three flat
result values: direct on task.return, a return area for the sync ABI). -/
example :
    (flattenOpt (some (Ty.tuple [.u32, .f64, .u8]))).length ≤ 16 ∧
    ∃ ss, call (fun _ => false) .guestExportAsync false true (Func.mk false [.u8] (some (.tuple [.u32, .f64, .u8]))) = .ok ss :=
  ⟨by decide, ⟨_, rfl⟩⟩

/-- **Import glue, parameters through a correctly laid-out record** (more than 16 flat parameters of
ANY types; no result).  For any machine state and record area: the glue writes the argument tuple
into the record exactly as the canonical ABI's `store` does at the canonical field offsets — the same
allocations in the same order (equal heaps) and a read-equivalent memory —, then performs **exactly
one** core call whose only operand is the record pointer, and returns; nothing is freed or dropped. -/
theorem import_glue_indirect_params_correct (p : Nat) (hp : p = 4 ∨ p = 8) (canon : Ty → Bool) (f : Func)
    (hres : f.result = none) (vals : List Val) (recAddr : Nat) (s0 : MSt)
    (ht : Spec.hasTys f.params vals = true) (hind : (flattenList f.params).length > 16)
    (ss : List Stmt) (h : call canon .guestImport true false f = .ok ss) :
    ∃ env' s', execStmts { p, args := vals.map MV.v, rps := [recAddr] } s0 ss = some (env', s') ∧
      s'.calls = ("Return", []) :: ("CallWasm", [MV.c ⟨ptrFT p, recAddr⟩]) :: s0.calls ∧
      s'.freed = s0.freed ∧ s'.dropped = s0.dropped ∧
      StEq s'.st (Spec.storeFields p f.params vals recAddr 0 s0.st) :=
  call_import_indirect_correct p hp canon f hres vals recAddr s0 ht hind ss h

/-- Non-vacuity of `import_glue_indirect_params_correct`: 17 string parameters. -/
example :
    (flattenList (List.replicate 17 Ty.string)).length > 16 ∧
    ∃ ss, call (fun _ => false) .guestImport true false (Func.mk false (List.replicate 17 .string) none) = .ok ss :=
  ⟨by decide, ⟨_, rfl⟩⟩

/-- Non-vacuity of `export_glue_indirect_params_correct`: `f(a: string, b0..b15: u64, c: u8) -> u32`
has 18 flat parameters; its record is 144 bytes on wasm32 (trailing padding after the `u8`). -/
example :
    (flattenList (Func.mk false (.string :: List.replicate 16 .u64 ++ [.u8]) (some .u32)).params).length > 16 ∧
    (∃ ss, call (fun _ => false) .guestExport false false
      (Func.mk false (.string :: List.replicate 16 .u64 ++ [.u8]) (some .u32)) = .ok ss) ∧
    elemSize 4 (.record (.string :: List.replicate 16 .u64 ++ [.u8])) = 144 :=
  ⟨by decide, ⟨_, rfl⟩, by decide⟩

/-- Non-vacuity: 17 `u32` parameters and a `string` result: indirect, with a return pointer for the
import and a returned pointer for the export; 16 parameters stay flat. -/
example :
    (wasmSignature .guestImport ⟨false, List.replicate 17 .u32, some .string⟩).params = [.ptr, .ptr] ∧
    (wasmSignature .guestExport ⟨false, List.replicate 17 .u32, some .string⟩).results = [.ptr] ∧
    (wasmSignature .guestExport ⟨false, List.replicate 16 .u32, some .u8⟩).params.length = 16 ∧
    (wasmSignature .guestImportAsync ⟨false, List.replicate 5 .u32, none⟩).params = [.ptr] := by decide

/-- "…and leaves no value unconsumed": `Generator::call` ends with assertions that the operand stack holds
exactly the core call's operands before the call and exactly the declared results (or `task.return`
operands) at the end; the glue exists (`= .ok ss`) only if they hold.  They hold for EVERY function with
valid types in every combination a backend uses, so each `call … = .ok ss` hypothesis of the value
theorems above is satisfiable for every function they speak about. -/
theorem glue_exists_and_leaves_no_value_unconsumed (canon : Ty → Bool) (f : Func) (hv : f.valid = true) :
    (∃ ss, call canon .guestImport true false f = .ok ss) ∧
    (∃ ss, call canon .guestExport false false f = .ok ss) ∧
    (∃ ss, call canon .guestExportAsync false true f = .ok ss) ∧
    (∃ ss, call canon .guestExport false true f = .ok ss) :=
  ⟨call_import_total canon f hv, call_export_total canon f hv,
   call_export_async_total canon _ (.inl rfl) f hv, call_export_async_total canon _ (.inr rfl) f hv⟩

end Witverif.Props.C02
