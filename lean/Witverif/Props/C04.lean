import Witverif.Proofs.AbiCast
import Witverif.Proofs.AbiFlatten
/-!
# C04 — Variant payload slot joining is lossless and matches the spec

Model: `Abi.join`/`joinFlat`/`flatten` (wit-parser `join`, `push_flat_variants`, `push_flat`),
`Abi.cast` (`wit_bindgen_core::abi::cast`), `castSem` (reference meaning of every `Bitcast`).
Tie: all 49 `cast` pairs, `flat_types` of every generated type and every `Bitcasts` instruction in
every recorded stream are compared with the real code by the `abi-trace`/`m_abi` correspondence.
The per-backend rendering of each `Bitcast` is `Props/C04Backends.lean`.
-/
namespace Witverif.Props.C04
open Witverif.Abi

/-- wit-parser's `join` (with its pointer/length provenance refinement) is the spec's `join` once the
refinement is erased, for both pointer widths. All 49 pairs. -/
theorem join_matches_spec (p : Nat) (hp : p = 4 ∨ p = 8) (a b : CoreTy) :
    (join a b).erase p = Spec.join (a.erase p) (b.erase p) :=
  join_erase p hp a b

/-- the flattening of every WIT type (any nesting, any number of fields/cases/flags) is the spec's
`flatten_type`, for both pointer widths. -/
theorem flatten_matches_spec (p : Nat) (hp : p = 4 ∨ p = 8) (t : Ty) :
    (flatten t).map (CoreTy.erase p) = Spec.flatten p t :=
  flatten_erase p hp t

/-- No valid WIT type produces a slot pair the generator cannot convert: for every variant (any
number of cases, any payload types) and every case, the lowering casts (payload slot → joined slot)
and the lifting casts (joined slot → payload slot) all exist. -/
theorem no_unconvertible_pair (cs : List (Option Ty)) (c : Option Ty) (hc : c ∈ cs) :
    (∃ up, castsFor (flattenOpt c) (flattenCases cs) = .ok up ∧ up.length = (flattenOpt c).length) ∧
    (∃ down, castsFor (flattenCases cs) (flattenOpt c) = .ok down) :=
  ⟨castsFor_ok_up _ _ (flattenCases_bounds cs c hc), castsFor_ok_down _ _ (flattenCases_bounds cs c hc)⟩

/-- … in particular for `option` and `result`, whose arms are joined the same way. -/
theorem no_unconvertible_pair_result (a b : Option Ty) :
    (∃ up, castsFor (flattenOpt a) (joinFlat (flattenOpt a) (flattenOpt b)) = .ok up) ∧
    (∃ up, castsFor (flattenOpt b) (joinFlat (flattenOpt a) (flattenOpt b)) = .ok up) := by
  have h : flattenCases [a, b] = joinFlat (flattenOpt a) (flattenOpt b) := by
    simp only [flattenCases]
    cases h : flattenOpt b <;> simp [joinFlat]
  have ha := (no_unconvertible_pair [a, b] a (by simp)).1
  have hb := (no_unconvertible_pair [a, b] b (by simp)).1
  rw [h] at ha hb
  exact ⟨ha.imp fun _ h => h.1, hb.imp fun _ h => h.1⟩

/-- Lossless: converting a payload value into the joined slot type and back recovers it bit for
bit — every related pair, every bit pattern of the source type, both pointer widths. -/
theorem cast_roundtrip (p : Nat) (hp : p = 4 ∨ p = 8) (a j : CoreTy) (hle : join a j = j)
    (c1 c2 : Bitcast) (h1 : cast a j = some c1) (h2 : cast j a = some c2)
    (x : CVal) (hty : x.ty = a.erase p) (hb : x.bits < 2 ^ x.ty.width) :
    castSem p c2 (castSem p c1 x) = x :=
  Witverif.Abi.cast_roundtrip p hp a j (by simp [le, hle]) c1 c2 h1 h2 x hty hb

/-- Both conversions coincide with the canonical ABI's rules: into the joined slot = reinterpret /
zero-extend (`lower_flat_variant`), out of it = reinterpret / wrap (`CoerceValueIter`). -/
theorem cast_is_spec (p : Nat) (hp : p = 4 ∨ p = 8) (a j : CoreTy) (hle : join a j = j) :
    (∀ c1, cast a j = some c1 → ∀ x : CVal, x.ty = a.erase p → x.bits < 2 ^ x.ty.width →
        castSem p c1 x = Spec.coerceSlot (a.erase p) (j.erase p) x) ∧
    (∀ c2, cast j a = some c2 → ∀ y : CVal, y.ty = j.erase p → y.bits < 2 ^ y.ty.width →
        castSem p c2 y =
          ⟨a.erase p, if (j.erase p).width = 64 ∧ (a.erase p).width = 32 then y.bits % 2 ^ 32 else y.bits⟩) :=
  ⟨fun c1 h1 x hty hb => cast_up_is_spec p hp a j (by simp [le, hle]) c1 h1 x hty hb,
   fun c2 h2 y hty hb => cast_down_is_spec p hp a j (by simp [le, hle]) c2 h2 y hty hb⟩

/-- Non-vacuity: `variant { a(f32), b(string), c(u64) }` joins to `[i32, p64, len]`; the f32 case is
converted by `F32ToI64;I64ToP64` and back, and the NaN pattern `0x7fc00001` survives on both widths. -/
example :
    flatten (.variant [some .f32, some .string, some .u64]) = [.i32, .p64, .len] ∧
    cast .f32 .p64 = some (.seq .f32ToI64 .i64ToP64) ∧
    castSem 4 (.seq .p64ToI64 .i64ToF32) (castSem 4 (.seq .f32ToI64 .i64ToP64) ⟨.f32, 0x7fc00001⟩)
      = ⟨.f32, 0x7fc00001⟩ := by decide

end Witverif.Props.C04
