import Witverif.Proofs.ChanReach
/-!
# C20 — Futures deliver exactly one value and never strand a writer

Property theorems only (helper lemmas: `Proofs/Chan.lean`).

Models (`Async/FutureOp.lean`, `Async/Chan.lean`): `FutureWriteOp` / `FutureReadOp` as `Ops` records on the
generic `WaitableOperation` machine, `RawFutureWrite::poll/cancel`, `RawFutureRead::poll/cancel`, the
typed layer `FutureWriter` / `FutureWrite` (`Drop` impls, `write_and_forget` = `DeferredWrite`), composed
with the host's rules for one end (`Host.End`) into the labelled transition system `ChanSys`.
The raw API (`RawFutureWriter`, no default) is outside the statements.
-/
namespace Witverif.Props.C20
open Witverif.Async Witverif.Generated

/-- **Cancelling a write reports the outcome the host produced** (`cancel_outcome_is_hosts`, operation
level): whatever final code the host gives for an in-progress write — as the answer of
`future.cancel-write` or as an event that raced with the cancel — COMPLETED ↦ `AlreadySent` (the value is
gone: its lists are deallocated, the writer is dropped), DROPPED ↦ `Dropped(v)` (the very value is
lifted back, the writer is dropped), CANCELLED ↦ `Cancelled(v, writer)` (the value is lifted back, the
writer is handed back and NOT dropped); any other code is a panic, never a silent guess. -/
theorem cancel_outcome_is_hosts (p : FWSt) (code : Nat) :
    (code = Host.COMPLETED → futureWriteUpdate p code = .ok (.inl (.written, p)) [evDli p.c p.v, Ev.free p.c] ∧
        futureWriteOps.intoCancel (.written, p) = .alreadySent ∧ fwIntoCancelEvs (.written, p) = [evFdw p.handle]) ∧
    (code = Host.DROPPED → futureWriteUpdate p code = .ok (.inl (.dropped p.v, p)) [evLi p.c p.v, Ev.free p.c] ∧
        futureWriteOps.intoCancel (.dropped p.v, p) = .dropped p.v ∧ fwIntoCancelEvs (.dropped p.v, p) = [evFdw p.handle]) ∧
    (code = Host.CANCELLED → futureWriteUpdate p code = .ok (.inl (.cancelled p.v, p)) [evLi p.c p.v, Ev.free p.c] ∧
        futureWriteOps.intoCancel (.cancelled p.v, p) = .cancelled p.v p.handle ∧ fwIntoCancelEvs (.cancelled p.v, p) = []) ∧
    (code = Host.BLOCKED → futureWriteUpdate p code = .ok (.inr p) []) ∧
    (code ≠ Host.COMPLETED → code ≠ Host.DROPPED → code ≠ Host.CANCELLED → code ≠ Host.BLOCKED →
        ∃ m, futureWriteUpdate p code = .panic m []) := by
  refine ⟨?_, ?_, ?_, ?_, ?_⟩
  · rintro rfl; exact ⟨rfl, rfl, rfl⟩
  · rintro rfl; exact ⟨rfl, rfl, rfl⟩
  · rintro rfl; exact ⟨rfl, rfl, rfl⟩
  · rintro rfl; rfl
  · intro h0 h1 h2 h3
    simp only [Host.COMPLETED, Host.DROPPED, Host.CANCELLED, Host.BLOCKED] at h0 h1 h2 h3
    simp [futureWriteUpdate, h0, h1, h2, h3]

/-- the read side: COMPLETED ↦ `Ok(value)` — the value the host wrote, lifted exactly once, reader
dropped —, CANCELLED ↦ `Err(reader)` (reader handed back); nothing else is accepted -/
theorem cancel_outcome_is_hosts_read (p : FRSt) (v : Nat) (hm : p.mem = some v) :
    futureReadUpdate p Host.COMPLETED =
      .ok (.inl (.value v, { p with slab := false, mem := none })) ([evLi p.c v] ++ (if p.slab then [Ev.free p.c] else [])) ∧
    futureReadOps.intoCancel (.value v, { p with slab := false, mem := none }) = .inl v ∧
    futureReadUpdate p Host.CANCELLED = .ok (.inl (.cancelled, { p with slab := false })) (if p.slab then [Ev.free p.c] else []) ∧
    futureReadOps.intoCancel (.cancelled, { p with slab := false }) = .inr p.handle ∧
    (∃ m, futureReadUpdate p Host.DROPPED = .panic m []) := by
  refine ⟨?_, rfl, ?_, rfl, ?_⟩
  · simp [futureReadUpdate, RetCode.decode, Host.COMPLETED, hm]
  · simp [futureReadUpdate, RetCode.decode, Host.CANCELLED]
  · simp [futureReadUpdate, RetCode.decode, Host.DROPPED]

/-- **The reader gets the value exactly once** (operation level): completing a read lifts the value
the host wrote and empties the slot — a second lift of the same value is impossible (`mem = none`
makes the model stop); a read that was never written to cannot produce a value. -/
theorem reader_gets_value_once (p : FRSt) :
    (∀ v, p.mem = some v → ∃ st evs, futureReadUpdate p Host.COMPLETED = .ok (.inl (.value v, st)) evs ∧ st.mem = none ∧
        liIds p.c evs = [v]) ∧
    (p.mem = none → ∃ m, futureReadUpdate p Host.COMPLETED = .panic m []) := by
  refine ⟨?_, ?_⟩
  · intro v hm
    refine ⟨_, _, (cancel_outcome_is_hosts_read p v hm).1, rfl, ?_⟩
    by_cases hs : p.slab <;> simp [liIds, liId, evLi, hs]
  · intro hm; simp [futureReadUpdate, RetCode.decode, Host.COMPLETED, hm]

/-- **Ledger balance of the lowered value** (operation level): `start` lowers the value exactly once;
every final code releases the lowered form exactly once — `dealloc_lists` when it was sent, `lift` when
it comes back — and frees the slab exactly once. -/
theorem lowered_value_balanced (s : FWSt) (ans code : Nat) (hc : code = Host.COMPLETED ∨ code = Host.DROPPED ∨ code = Host.CANCELLED) :
    (futureWriteOps.start s ans).1 = [evLo s.c s.v, .ch .fwrite [s.handle, ans]] ∧
    ∃ r evs, futureWriteUpdate s code = .ok (.inl r) evs ∧
      (dliIds s.c evs ++ liIds s.c evs = [s.v]) ∧ (evs.filter (· == Ev.free s.c)).length = 1 ∧
      (dliIds s.c evs = [s.v] ↔ code = Host.COMPLETED) := by
  refine ⟨rfl, ?_⟩
  rcases hc with rfl | rfl | rfl
  · exact ⟨_, _, rfl, by simp [dliIds, liIds, evDli], by simp [evDli], by simp [dliIds, evDli, Host.COMPLETED]⟩
  · exact ⟨_, _, rfl, by simp [dliIds, liIds, evLi, List.filterMap], by simp [evLi], by simp [dliIds, evLi, Host.COMPLETED, Host.DROPPED, List.filterMap]⟩
  · exact ⟨_, _, rfl, by simp [dliIds, liIds, evLi, List.filterMap], by simp [evLi], by simp [dliIds, evLi, Host.COMPLETED, Host.CANCELLED, List.filterMap]⟩

/-- **The writable end is dropped only after a completed write or an observed DROPPED** (operation
level): the `future.drop-writable` of `RawFutureWrite::poll` and of `result_into_cancel` is reached
exactly for the outcomes `Written` and `Dropped`; a cancelled write hands the writer back instead. -/
theorem writer_dropped_only_after_write_or_dropped (r : WriteComplete × FWSt) :
    (fwIntoCancelEvs r = [evFdw r.2.handle] ↔ (r.1 = .written ∨ ∃ v, r.1 = .dropped v)) ∧
    (fwIntoCancelEvs r = [] ↔ ∃ v, r.1 = .cancelled v) := by
  obtain ⟨c, st⟩ := r
  cases c <;> simp [fwIntoCancelEvs, evFdw]

/-- **Dropping an unwritten writer or an unfinished write schedules the default value**
(`writer_never_dropped_unwritten`, the typed layer): (1) closing a channel whose `FutureWriter` is alive
emits NO `future.drop-writable` and leaves a pending default write; (2) dropping a `FutureWrite` that was
never polled hands the value back, drops it, and leaves a pending default write — again no drop of the
end; (3) the pending default write runs `default()`, lowers that value and calls `future.write`
before anything else. -/
theorem unwritten_writer_schedules_default (g : GChan) (e : Env) (h : Nat) :
    (g.fw = some h → g.act = .idle → g.kept = none → g.sw = none → g.sr = none → g.ad = none → g.fr = none →
      ∀ ans, g.close e false ans = .ok ({ g with fw := none, defer := some (h, []) }, e) []) ∧
    (∀ v ans, g.act = .fwrite (WOp.new ⟨g.c, h, v⟩) →
      g.dropAct e ans = .ok ({ g with act := .idle, defer := some (h, []) }, e) [evVd g.c v]) ∧
    (∀ tail ans, g.defer = some (h, tail) →
      ∃ rest, (g.deferStart e ans).evs = [.ch .defv [g.c, 900 + g.defaults], evLo g.c (900 + g.defaults), .ch .fwrite [h, ans]] ++ rest) := by
  refine ⟨?_, ?_, ?_⟩
  · intro hfw hact hk hsw hsr had hfr ans
    simp [GChan.close, GChan.dropAct, GChan.keptDrop, hfw, hact, hk, hsw, hsr, had, hfr, Act.isNone, Step.bind, Step.emit]
  · intro v ans hact
    simp [GChan.dropAct, hact, WOp.new, futureWriteCancel, cancel, futureWriteOps, Step.bind, taskDropEvs]
  · intro tail ans hd
    simp only [GChan.deferStart, hd]
    show ∃ rest, _ = ([Ev.ch .defv [g.c, 900 + g.defaults]] ++ [evLo g.c (900 + g.defaults), .ch .fwrite [h, ans]]) ++ rest
    apply Step.emit_prefix_bind
    apply Step.prefix_bind
    unfold futureWritePoll
    apply Step.prefix_bind
    exact pollComplete_new_prefix futureWriteOps ⟨g.c, h, 900 + g.defaults⟩ e ans

/-! ## The channel as a labelled transition system: every script × every legal host behaviour

`FWReach p s m tr` / `FRReach p s m tr`: state `s` of a guest-writer / guest-reader future channel
(`ChanSys`: the typed API objects the task body holds — `FutureWriter`, `FutureWrite`, `FutureReader`,
`FutureRead`, the background `DeferredWrite` — on the generic `WaitableOperation` machine, composed with
the host's rules for the end) is reachable from the fresh channel by labels that are legal (`CLegal`:
any body instruction between steps — open, write / read, poll, cancel, drop the operation, drop the end,
in any order and any number of times — and, for the host, exactly what `Host.End` allows: immediate
answer BLOCKED / COMPLETED / DROPPED, the peer transferring or dropping while the end is copying, delivery
of the pending event while registered, cancel answers = the pending code or a resolved race);
`tr` is everything observable so far and `m` the state of the specification monitor `ChanSpec` after
`tr`.  Both task ABI versions, payloads with and without owned lists.  All theorems hold for every
label sequence: induction over the step relation, no depth bound. -/

open Witverif.Async.ChanSpec (CMon run)

/-- **No panic, no host trap, monitor accepts** (guest-writer channel): from every reachable state every
legal label can be taken without a Rust panic (`unwrap`, `assert!`, `unreachable!`) and without a host
trap — in particular `future.drop-writable` is never called on an end that is not done —, the
specification monitor accepts the events, and the state reached is again reachable. -/
theorem writer_steps_never_panic_or_trap {p : FWP} (hh : p.hd ≠ 0) (hv : p.v = 1 ∨ p.v = 2) {s : ChanSys} {m : CMon} {tr : List Ev}
    (h : FWReach p s m tr) (l : CLabel) (hl : FWLegal p s l) :
    ∃ s' evs m', s.step l = .ok s' evs ∧ run p.k m evs = .ok m' ∧ FWReach p s' m' (tr ++ evs) ∧ s'.h.trapped = false := by
  have hg := fw_step_safe p s m l (fw_reach_inv hh hv h).1 hl
  cases hs : s.step l with
  | panic msg evs => rw [hs] at hg; exact absurd hg (by simp [FWGood])
  | ok s' evs =>
    rw [hs] at hg
    simp only [FWGood] at hg
    cases hm : run p.k m evs with
    | error e => rw [hm] at hg; exact absurd hg.2 (by simp)
    | ok m' => exact ⟨s', evs, m', rfl, hm, FWReach.step h hl hs hm, hg.1⟩

/-- the same for the guest-reader channel -/
theorem reader_steps_never_panic_or_trap {p : FRP} (hh : p.hd ≠ 0) (hv : p.v = 1 ∨ p.v = 2) {s : ChanSys} {m : CMon} {tr : List Ev}
    (h : FRReach p s m tr) (l : CLabel) (hl : FRLegal p s l) :
    ∃ s' evs m', s.step l = .ok s' evs ∧ run p.k m evs = .ok m' ∧ FRReach p s' m' (tr ++ evs) ∧ s'.h.trapped = false := by
  have hg := fr_step_safe p s m l (fr_reach_inv hh hv h).1 hl
  cases hs : s.step l with
  | panic msg evs => rw [hs] at hg; exact absurd hg (by simp [FRGood])
  | ok s' evs =>
    rw [hs] at hg
    simp only [FRGood] at hg
    cases hm : run p.k m evs with
    | error e => rw [hm] at hg; exact absurd hg.2 (by simp)
    | ok m' => exact ⟨s', evs, m', rfl, hm, FRReach.step h hl hs hm, hg.1⟩

/-- the monitor state is the fold of the trace: the specification accepts every reachable trace -/
theorem monitor_accepts {p : FWP} (hh : p.hd ≠ 0) (hv : p.v = 1 ∨ p.v = 2) {s : ChanSys} {m : CMon} {tr : List Ev}
    (h : FWReach p s m tr) : run p.k {} tr = .ok m ∧ s.h.trapped = false :=
  (fw_reach_inv hh hv h).2

theorem monitor_accepts_reader {p : FRP} (hh : p.hd ≠ 0) (hv : p.v = 1 ∨ p.v = 2) {s : ChanSys} {m : CMon} {tr : List Ev}
    (h : FRReach p s m tr) : run p.k {} tr = .ok m ∧ s.h.trapped = false :=
  (fr_reach_inv hh hv h).2

/-- **A writable end is never dropped before it delivered a value or observed DROPPED.**  At every
`future.drop-writable` in a reachable trace: if it is this channel's end, the host had told the guest
COMPLETED (the value went through) or DROPPED (the reader is gone) for it before, and the end had not
been dropped before.  (The host-side form — the built-in never traps — is `writer_steps_never_panic_or_trap`.) -/
theorem writer_never_dropped_unwritten {p : FWP} (hh : p.hd ≠ 0) (hv : p.v = 1 ∨ p.v = 2) {s : ChanSys} {m : CMon} {tr : List Ev}
    (h : FWReach p s m tr) (pre post : List Ev) (hd : Nat) (htr : tr = pre ++ .ch .fdw [hd] :: post) :
    ∃ mp, run p.k {} pre = .ok mp ∧
      (hd = mp.handle → mp.handle ≠ 0 → (mp.valueSent = true ∨ mp.doneSeen = true) ∧ mp.endDrops = 0) := by
  have hm := (monitor_accepts hh hv h).1
  rw [htr] at hm
  obtain ⟨mp, me, hp, he, _⟩ := crun_split hm
  refine ⟨mp, hp, ?_⟩
  intro hh1 hh0
  simp only [ChanSpec.step, hh1, hh0, ne_eq, not_true_eq_false, decide_false, Bool.false_or, decide_true,
    Bool.not_true, Bool.false_eq_true, if_false] at he
  by_cases h1 : mp.endDrops = 0
  · by_cases h2 : (mp.valueSent || mp.doneSeen) = true
    · exact ⟨by simpa using h2, h1⟩
    · simp [h1, h2] at he
  · simp [h1] at he

/-- **An unwritten writer or an unfinished write is never stranded**: in every reachable state of an
opened channel the writable end has been dropped (after COMPLETED / DROPPED, by the theorem above), or
the body still holds it (`FutureWriter` in its slot or inside a `FutureWrite`), or the default write is
scheduled or in flight in the background — there is no state in which the end is neither dropped nor
owned by something that will write to it. -/
theorem writer_never_stranded {p : FWP} (hh : p.hd ≠ 0) (hv : p.v = 1 ∨ p.v = 2) {s : ChanSys} {m : CMon} {tr : List Ev}
    (h : FWReach p s m tr) :
    s.g.opened = false ∨ s.h.gone = true ∨ s.g.fw = some p.hd ∨ (∃ w, s.g.act = .fwrite w) ∨
      s.g.defer.isSome = true ∨ s.g.deferred.isSome = true := by
  obtain ⟨_, _, sh, rfl, _⟩ := (fw_reach_inv hh hv h).1
  cases sh <;> simp [fwSys, fwHost, FWP.g0]

/-- **The reader gets the value at most once** (guest-writer channel: the peer is the reader): in every
reachable state the peer has received at most one value.  (AT MOST: that the value is eventually delivered
is a liveness statement — it needs fairness of the host and of the body — and is not claimed; what is
proved towards it is `writer_never_dropped_unwritten` + `writer_never_stranded`: the end cannot go away,
or be forgotten, without COMPLETED or DROPPED.) -/
theorem reader_gets_value_at_most_once_peer {p : FWP} (hh : p.hd ≠ 0) (hv : p.v = 1 ∨ p.v = 2) {s : ChanSys} {m : CMon} {tr : List Ev}
    (h : FWReach p s m tr) : s.h.received.length ≤ 1 := by
  obtain ⟨_, _, sh, rfl, hm⟩ := (fw_reach_inv hh hv h).1
  cases sh with
  | gone n d win rcv => simp only [fwMon] at hm; simpa [fwSys, fwHost] using hm.2.2.2
  | waiting n d x ev => cases ev <;> simp [fwSys, fwHost]
  | dwaiting n d x ev => cases ev <;> simp [fwSys, fwHost]
  | queued n d x sent => cases sent <;> simp [fwSys, fwHost]
  | _ => simp [fwSys, fwHost]

/-- **The reader gets the value at most once** (guest-reader channel): the peer gives at most one value
and the read API reports at most one. -/
theorem reader_gets_value_at_most_once_guest {p : FRP} (hh : p.hd ≠ 0) (hv : p.v = 1 ∨ p.v = 2) {s : ChanSys} {m : CMon} {tr : List Ev}
    (h : FRReach p s m tr) : s.h.given.length ≤ 1 ∧ m.returned.length ≤ 1 := by
  obtain ⟨_, _, sh, rfl, hm⟩ := (fr_reach_inv hh hv h).1
  cases sh with
  | gone st ni gv => simp only [frMon] at hm; exact ⟨by simpa [frSys] using hm.2.2.2.2.1, hm.2.2.2.2.2⟩
  | waiting got => simp only [frMon] at hm; cases got <;> simp [frSys, hm]
  | closed => simp only [frMon] at hm; subst hm; simp [frSys]
  | _ => simp only [frMon] at hm; simp [frSys, hm]

/-- **Cancel reports the outcome the host produced** (trace level): at every `AlreadySent` the last code
the host told the guest for the end was COMPLETED; at every `Dropped(v)` it was DROPPED and `v` is a value
the guest holds again; at every `Cancelled(v, writer)` it was CANCELLED — or the operation had never
called the host. -/
theorem cancel_outcome_is_hosts_trace {p : FWP} (hh : p.hd ≠ 0) (hv : p.v = 1 ∨ p.v = 2) {s : ChanSys} {m : CMon} {tr : List Ev}
    (h : FWReach p s m tr) (pre post : List Ev) :
    (tr = pre ++ .ch .fwc [p.c, 0] :: post →
      ∃ mp, run p.k {} pre = .ok mp ∧ mp.lastCode.map Host.codeBase = some Host.COMPLETED) ∧
    (∀ v, tr = pre ++ .ch .fwc [p.c, 1, v] :: post →
      ∃ mp, run p.k {} pre = .ok mp ∧ mp.lastCode.map Host.codeBase = some Host.DROPPED ∧ v ∈ mp.rust) ∧
    (∀ v, tr = pre ++ .ch .fwc [p.c, 2, v] :: post →
      ∃ mp, run p.k {} pre = .ok mp ∧ (mp.started = true → mp.lastCode.map Host.codeBase = some Host.CANCELLED) ∧
        v ∈ mp.rust) := by
  have hm := (monitor_accepts hh hv h).1
  refine ⟨?_, ?_, ?_⟩
  · intro htr
    rw [htr] at hm
    obtain ⟨mp, me, hp, he, _⟩ := crun_split hm
    refine ⟨mp, hp, ?_⟩
    simp only [ChanSpec.step, FWP.k, ne_eq, not_true_eq_false, if_false] at he
    by_cases h1 : mp.lastCode.map Host.codeBase = some Host.COMPLETED
    · exact h1
    · simp [h1] at he
  · intro v htr
    rw [htr] at hm
    obtain ⟨mp, me, hp, he, _⟩ := crun_split hm
    refine ⟨mp, hp, ?_⟩
    simp only [ChanSpec.step, FWP.k, ne_eq, not_true_eq_false, if_false] at he
    by_cases h1 : mp.lastCode.map Host.codeBase = some Host.DROPPED
    · by_cases h2 : v ∈ mp.rust
      · exact ⟨h1, h2⟩
      · simp [h1, h2] at he
    · simp [h1] at he
  · intro v htr
    rw [htr] at hm
    obtain ⟨mp, me, hp, he, _⟩ := crun_split hm
    refine ⟨mp, hp, ?_⟩
    simp only [ChanSpec.step, FWP.k, ne_eq, not_true_eq_false, if_false] at he
    by_cases h2 : v ∈ mp.rust
    · by_cases h1 : mp.started = true
      · by_cases h3 : mp.lastCode.map Host.codeBase = some Host.CANCELLED
        · exact ⟨fun _ => h3, h2⟩
        · simp [h1, h2, h3] at he
      · exact ⟨fun hs => absurd hs h1, h2⟩
    · simp [h2] at he

/-- the four operation kinds satisfy the only assumption of the generic C18 theorems -/
theorem future_ops_stable : futureWriteOps.Stable ∧ futureReadOps.Stable :=
  ⟨futureWriteOps_stable, futureReadOps_stable⟩

/-! ## Non-vacuity: concrete runs -/

def fwp0 : FWP := ⟨0, 1, .lists, 1, 2⟩

/-- a writer dropped without writing: the default value is made, lowered and written; when the peer
reads it and the event is delivered the lists are freed and only then the end is dropped -/
example :
    (runLabels (fwSys fwp0 .closed) [.opn 1 2, .close true 0, .deferStart Host.BLOCKED, .peerXfer 1, .deliver]).map (·.2) =
    some [.ch .opn [0], .ch .fnew [1, 2], .ch .moved [2], .ch .ie [0], .ch .defv [0, 900], .ch .lo [0, 900],
          .ch .fwrite [1, 4294967295], .clone 1, .reg 1 1 false, .ch .xf [0, 900], .dlv 1 0, .ch .dli [0, 900], .free 0,
          .ch .fdw [1], .tdrop 1] := by rfl

/-- an unfinished write dropped, the host answers CANCELLED: value handed back and dropped, default
written instead -/
example :
    (runLabels (fwSys fwp0 .closed) [.opn 1 2, .fut, .poll Host.BLOCKED, .dropOp Host.CANCELLED, .deferStart Host.DROPPED]).map (·.2) =
    some [.ch .opn [0], .ch .fnew [1, 2], .ch .moved [2], .ch .ifw [0, 1], .ch .lo [0, 1], .ch .fwrite [1, 4294967295],
          .clone 1, .reg 1 1 false, .poll 0 .pend, .dropF 0, .unreg 1 1 true, .ch .fcw [1, 2], .ch .li [0, 1], .free 0,
          .ch .vd [0, 1], .ch .defv [0, 900], .ch .lo [0, 900], .ch .fwrite [1, 1], .ch .li [0, 900], .free 0, .ch .fdw [1],
          .ch .vd [0, 900], .tdrop 1] := by rfl

/-- the monitor is not trivially true: dropping the writer before anything was written is rejected, so
is `AlreadySent` after a CANCELLED -/
example : (match run fwp0.k {} [.ch .opn [0], .ch .fnew [1, 2], .ch .fdw [1]] with
    | .error cls => cls | .ok _ => "accepted") = "writer-dropped-unwritten" := by decide
example : (match run fwp0.k {} [.ch .opn [0], .ch .fnew [1, 2], .ch .ifw [0, 1], .ch .lo [0, 1], .ch .fwrite [1, 4294967295],
      .ch .fcw [1, 2], .ch .fwc [0, 0]] with
    | .error cls => cls | .ok _ => "accepted") = "cancel-already-sent-not-hosts" := by decide

end Witverif.Props.C20
