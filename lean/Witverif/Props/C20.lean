import Witverif.Proofs.Chan
/-!
# C20 — Futures deliver exactly one value and never strand a writer

Property theorems only (helper lemmas: `Proofs/Chan.lean`).

Models (`Async/FutureOp.lean`, `Async/Chan.lean`): `FutureWriteOp` / `FutureReadOp` as `Ops` records on the
generic `WaitableOperation` machine, `RawFutureWrite::poll/cancel`, `RawFutureRead::poll/cancel`, the
typed layer `FutureWriter` / `FutureWrite` (`Drop` impls, `write_and_forget` = `DeferredWrite`), composed
with the host's rules for one end (`Host.End`) into the labelled transition system `ChanSys`.
The raw API (`RawFutureWriter`, no default) is outside the statements.
-/
namespace Witverif.Props.C20
open Witverif.Async Witverif.Generated

/-- **Cancelling a write reports the outcome the host produced** (`cancel_outcome_is_hosts`, operation
level): whatever final code the host gives for an in-progress write — as the answer of
`future.cancel-write` or as an event that raced with the cancel — COMPLETED ↦ `AlreadySent` (the value is
gone: its lists are deallocated, the writer is dropped), DROPPED ↦ `Dropped(v)` (the very value is
lifted back, the writer is dropped), CANCELLED ↦ `Cancelled(v, writer)` (the value is lifted back, the
writer is handed back and NOT dropped); any other code is a panic, never a silent guess. -/
theorem cancel_outcome_is_hosts (p : FWSt) (code : Nat) :
    (code = Host.COMPLETED → futureWriteUpdate p code = .ok (.inl (.written, p)) [evDli p.c p.v, Ev.free p.c] ∧
        futureWriteOps.intoCancel (.written, p) = .alreadySent ∧ fwIntoCancelEvs (.written, p) = [evFdw p.handle]) ∧
    (code = Host.DROPPED → futureWriteUpdate p code = .ok (.inl (.dropped p.v, p)) [evLi p.c p.v, Ev.free p.c] ∧
        futureWriteOps.intoCancel (.dropped p.v, p) = .dropped p.v ∧ fwIntoCancelEvs (.dropped p.v, p) = [evFdw p.handle]) ∧
    (code = Host.CANCELLED → futureWriteUpdate p code = .ok (.inl (.cancelled p.v, p)) [evLi p.c p.v, Ev.free p.c] ∧
        futureWriteOps.intoCancel (.cancelled p.v, p) = .cancelled p.v p.handle ∧ fwIntoCancelEvs (.cancelled p.v, p) = []) ∧
    (code = Host.BLOCKED → futureWriteUpdate p code = .ok (.inr p) []) ∧
    (code ≠ Host.COMPLETED → code ≠ Host.DROPPED → code ≠ Host.CANCELLED → code ≠ Host.BLOCKED →
        ∃ m, futureWriteUpdate p code = .panic m []) := by
  refine ⟨?_, ?_, ?_, ?_, ?_⟩
  · rintro rfl; exact ⟨rfl, rfl, rfl⟩
  · rintro rfl; exact ⟨rfl, rfl, rfl⟩
  · rintro rfl; exact ⟨rfl, rfl, rfl⟩
  · rintro rfl; rfl
  · intro h0 h1 h2 h3
    simp only [Host.COMPLETED, Host.DROPPED, Host.CANCELLED, Host.BLOCKED] at h0 h1 h2 h3
    simp [futureWriteUpdate, h0, h1, h2, h3]

/-- the read side: COMPLETED ↦ `Ok(value)` — the value the host wrote, lifted exactly once, reader
dropped —, CANCELLED ↦ `Err(reader)` (reader handed back); nothing else is accepted -/
theorem cancel_outcome_is_hosts_read (p : FRSt) (v : Nat) (hm : p.mem = some v) :
    futureReadUpdate p Host.COMPLETED =
      .ok (.inl (.value v, { p with slab := false, mem := none })) ([evLi p.c v] ++ (if p.slab then [Ev.free p.c] else [])) ∧
    futureReadOps.intoCancel (.value v, { p with slab := false, mem := none }) = .inl v ∧
    futureReadUpdate p Host.CANCELLED = .ok (.inl (.cancelled, { p with slab := false })) (if p.slab then [Ev.free p.c] else []) ∧
    futureReadOps.intoCancel (.cancelled, { p with slab := false }) = .inr p.handle ∧
    (∃ m, futureReadUpdate p Host.DROPPED = .panic m []) := by
  refine ⟨?_, rfl, ?_, rfl, ?_⟩
  · simp [futureReadUpdate, RetCode.decode, Host.COMPLETED, hm]
  · simp [futureReadUpdate, RetCode.decode, Host.CANCELLED]
  · simp [futureReadUpdate, RetCode.decode, Host.DROPPED]

/-- **The reader gets the value exactly once** (operation level): completing a read lifts the value
the host wrote and empties the slot — a second lift of the same value is impossible (`mem = none`
makes the model stop); a read that was never written to cannot produce a value. -/
theorem reader_gets_value_once (p : FRSt) :
    (∀ v, p.mem = some v → ∃ st evs, futureReadUpdate p Host.COMPLETED = .ok (.inl (.value v, st)) evs ∧ st.mem = none ∧
        liIds p.c evs = [v]) ∧
    (p.mem = none → ∃ m, futureReadUpdate p Host.COMPLETED = .panic m []) := by
  refine ⟨?_, ?_⟩
  · intro v hm
    refine ⟨_, _, (cancel_outcome_is_hosts_read p v hm).1, rfl, ?_⟩
    by_cases hs : p.slab <;> simp [liIds, liId, evLi, hs]
  · intro hm; simp [futureReadUpdate, RetCode.decode, Host.COMPLETED, hm]

/-- **Ledger balance of the lowered value** (operation level): `start` lowers the value exactly once;
every final code releases the lowered form exactly once — `dealloc_lists` when it was sent, `lift` when
it comes back — and frees the slab exactly once. -/
theorem lowered_value_balanced (s : FWSt) (ans code : Nat) (hc : code = Host.COMPLETED ∨ code = Host.DROPPED ∨ code = Host.CANCELLED) :
    (futureWriteOps.start s ans).1 = [evLo s.c s.v, .ch .fwrite [s.handle, ans]] ∧
    ∃ r evs, futureWriteUpdate s code = .ok (.inl r) evs ∧
      (dliIds s.c evs ++ liIds s.c evs = [s.v]) ∧ (evs.filter (· == Ev.free s.c)).length = 1 ∧
      (dliIds s.c evs = [s.v] ↔ code = Host.COMPLETED) := by
  refine ⟨rfl, ?_⟩
  rcases hc with rfl | rfl | rfl
  · exact ⟨_, _, rfl, by simp [dliIds, liIds, evDli], by simp [evDli], by simp [dliIds, evDli, Host.COMPLETED]⟩
  · exact ⟨_, _, rfl, by simp [dliIds, liIds, evLi, List.filterMap], by simp [evLi], by simp [dliIds, evLi, Host.COMPLETED, Host.DROPPED, List.filterMap]⟩
  · exact ⟨_, _, rfl, by simp [dliIds, liIds, evLi, List.filterMap], by simp [evLi], by simp [dliIds, evLi, Host.COMPLETED, Host.CANCELLED, List.filterMap]⟩

/-- **The writable end is dropped only after a completed write or an observed DROPPED** (operation
level): the `future.drop-writable` of `RawFutureWrite::poll` and of `result_into_cancel` is reached
exactly for the outcomes `Written` and `Dropped`; a cancelled write hands the writer back instead. -/
theorem writer_dropped_only_after_write_or_dropped (r : WriteComplete × FWSt) :
    (fwIntoCancelEvs r = [evFdw r.2.handle] ↔ (r.1 = .written ∨ ∃ v, r.1 = .dropped v)) ∧
    (fwIntoCancelEvs r = [] ↔ ∃ v, r.1 = .cancelled v) := by
  obtain ⟨c, st⟩ := r
  cases c <;> simp [fwIntoCancelEvs, evFdw]

/-- **Dropping an unwritten writer or an unfinished write schedules the default value**
(`writer_never_dropped_unwritten`, the typed layer): (1) closing a channel whose `FutureWriter` is alive
emits NO `future.drop-writable` and leaves a pending default write; (2) dropping a `FutureWrite` that was
never polled hands the value back, drops it, and leaves a pending default write — again no drop of the
end; (3) the pending default write runs `default()`, lowers that value and calls `future.write`
before anything else. -/
theorem unwritten_writer_schedules_default (g : GChan) (e : Env) (h : Nat) :
    (g.fw = some h → g.act = .idle → g.kept = none → g.sw = none → g.sr = none → g.ad = none → g.fr = none →
      ∀ ans, g.close e false ans = .ok ({ g with fw := none, defer := some (h, []) }, e) []) ∧
    (∀ v ans, g.act = .fwrite (WOp.new ⟨g.c, h, v⟩) →
      g.dropAct e ans = .ok ({ g with act := .idle, defer := some (h, []) }, e) [evVd g.c v]) ∧
    (∀ tail ans, g.defer = some (h, tail) →
      ∃ rest, (g.deferStart e ans).evs = [.ch .defv [g.c, 900 + g.defaults], evLo g.c (900 + g.defaults), .ch .fwrite [h, ans]] ++ rest) := by
  refine ⟨?_, ?_, ?_⟩
  · intro hfw hact hk hsw hsr had hfr ans
    simp [GChan.close, GChan.dropAct, GChan.keptDrop, hfw, hact, hk, hsw, hsr, had, hfr, Act.isNone, Step.bind, Step.emit]
  · intro v ans hact
    simp [GChan.dropAct, hact, WOp.new, futureWriteCancel, cancel, futureWriteOps, Step.bind, taskDropEvs]
  · intro tail ans hd
    simp only [GChan.deferStart, hd]
    show ∃ rest, _ = ([Ev.ch .defv [g.c, 900 + g.defaults]] ++ [evLo g.c (900 + g.defaults), .ch .fwrite [h, ans]]) ++ rest
    apply Step.emit_prefix_bind
    apply Step.prefix_bind
    unfold futureWritePoll
    apply Step.prefix_bind
    exact pollComplete_new_prefix futureWriteOps ⟨g.c, h, 900 + g.defaults⟩ e ans

end Witverif.Props.C20
