import Witverif.Proofs.Ns
/-!
# C26 — Fresh temporary names never collide with defined names

Property theorems only (helper lemmas live in `Proofs/Ns.lean`).
Model: `Witverif.Text.Ns` (tied to `crates/core/src/ns.rs` by the `ns` correspondence run).
-/
namespace Witverif.Props.C26
open Witverif.Text Witverif.Text.Ns

/-- The `while` loop of `Ns::tmp` terminates: the model's fuel is never exhausted. -/
theorem tmp_terminates (ns : Ns) (name : List Char) : ns.tmp name ≠ none := by
  unfold Ns.tmp tmpFuel
  have := tmpLoop_terminates ns.defined name ns.ctr name
  split <;> simp_all

/-- A name handed out is different from every name defined or handed out before. -/
theorem tmp_fresh (ns ns' : Ns) (name r : List Char) (h : ns.tmp name = some (ns', r)) :
    r ∉ ns.defined := by
  unfold Ns.tmp tmpFuel at h
  split at h
  · simp at h
  · rename_i ret ctr hl
    simp only [Option.some.injEq, Prod.mk.injEq] at h
    obtain ⟨_, rfl⟩ := h
    exact tmpLoop_fresh _ _ _ _ _ _ _ hl

/-- … and is itself defined afterwards, together with everything defined before. -/
theorem tmp_then_defined (ns ns' : Ns) (name r : List Char) (h : ns.tmp name = some (ns', r)) :
    ∀ x, x ∈ ns'.defined ↔ x = r ∨ x ∈ ns.defined := by
  unfold Ns.tmp tmpFuel at h
  split at h
  · simp at h
  · simp only [Option.some.injEq, Prod.mk.injEq] at h
    obtain ⟨rfl, rfl⟩ := h
    intro x; simp

/-- Defining a name reports a conflict exactly when it already exists; a conflict changes nothing. -/
theorem insert_conflict_iff (ns : Ns) (name : List Char) :
    ((ns.insert name).2 = false ↔ name ∈ ns.defined) ∧
    ((ns.insert name).2 = false → (ns.insert name).1 = ns) ∧
    (∀ x, x ∈ (ns.insert name).1.defined ↔ x = name ∨ x ∈ ns.defined) := by
  unfold Ns.insert
  by_cases h : ns.defined.contains name = true
  · have hm : name ∈ ns.defined := by simpa using h
    simp [hm]
  · have hm : name ∉ ns.defined := by simpa using h
    simp [hm]

/-- Full statement over histories: every observable outcome of every finite sequence of
`insert`/`tmp` operations, from any state, satisfies the C26 monitor, where `known` is the set
of names defined or handed out so far. No bound on history length or alphabet. -/
theorem history_spec (ops : List Op) :
    ∀ (ns : Ns) (known : List (List Char)), (∀ x, x ∈ ns.defined ↔ x ∈ known) →
      NsSpec.check known ops (ns.run ops).2 = true := by
  induction ops with
  | nil => intro ns known _; simp [Ns.run, NsSpec.check]
  | cons op ops ih =>
    intro ns known hk
    cases op with
    | insert n =>
      have ⟨h1, _, h3⟩ := insert_conflict_iff ns n
      simp only [Ns.run, Ns.step, NsSpec.check]
      by_cases hc : (ns.insert n).2 = true
      · have hn : n ∉ ns.defined := by
          intro hm; have := h1.mpr hm; simp [this] at hc
        have hn' : n ∉ known := fun hm => hn ((hk n).mpr hm)
        simp [hc, NsSpec.stepOk, NsSpec.stepKnown, hn']
        apply ih
        intro x; rw [h3 x]; simp [hk x]
      · have hc' : (ns.insert n).2 = false := by simpa using hc
        have hn : n ∈ known := (hk n).mp (h1.mp hc')
        simp [hc', NsSpec.stepOk, NsSpec.stepKnown, hn]
        apply ih
        intro x; rw [h3 x]; simp [hk x]
    | tmp n =>
      simp only [Ns.run, Ns.step, NsSpec.check]
      cases ht : ns.tmp n with
      | none => exact absurd ht (tmp_terminates ns n)
      | some p =>
        obtain ⟨ns', r⟩ := p
        have hf := tmp_fresh ns ns' n r ht
        have hd := tmp_then_defined ns ns' n r ht
        have hr : r ∉ known := fun hm => hf ((hk r).mpr hm)
        simp [NsSpec.stepOk, NsSpec.stepKnown, hr]
        apply ih
        intro x; rw [hd x]; simp [hk x]

/-- Corollary for the statement as given: starting from an empty namespace. -/
theorem history_spec_empty (ops : List Op) : NsSpec.check [] ops (Ns.empty.run ops).2 = true :=
  history_spec ops Ns.empty [] (by intro x; simp [Ns.empty])

/-- Non-vacuity: a history that exercises the `base+digits` collision path
(`a`, `a0` defined, `tmp a` must skip `a0` and yield `a1`; a second `tmp a` yields `a2`). -/
example :
    (Ns.empty.run [.insert ['a'], .insert ['a','0'], .tmp ['a'], .tmp ['a'], .insert ['a','1']]).2
      = [.ok, .ok, .name ['a','1'], .name ['a','2'], .conflict] := by decide

end Witverif.Props.C26
