import Witverif.Proofs.MoonPkg
/-!
# C30 — MoonBit output forms a consistent package graph

Property theorems only (helper lemmas: `Proofs/MoonPkg.lean`; freshness of aliases is C26).
Model: `Witverif.Text.MoonPkg` (`qualify_package`, the import list of `write_moon_pkg`), tied to
`crates/moonbit/src/pkg.rs` by the `moon-run qualify` correspondence (the real file, `#[path]`-included)
and to the generator as a whole by the end-to-end run (`gen-run pkggen moonbit`), whose
`moon.pkg.json` files and `@alias.` uses are checked with the monitors of `MoonSpec`.

All theorems quantify over *every* finite sequence of `qualify_package(this, name)` calls, with any
package names (no bound on the number of packages, on name shapes, or on coinciding last segments).
-/
namespace Witverif.Props.C30
open Witverif.Text Witverif.Text.MoonPkg
open Witverif.Text.MoonSpec hiding Str

/-- the state after a sequence of calls on a fresh `PkgResolver` -/
abbrev final (calls : List (Str × Str)) : State := (run [] calls).1

theorem final_wf (calls : List (Str × Str)) : WFS (final calls) := (run_spec calls [] wfs_nil).1

/-- `Ns::tmp` always terminates inside `qualify_package`: no call diverges. -/
theorem never_diverges (calls : List (Str × Str)) : ∀ c ∈ trace [] calls, c.2.2 ≠ Out.diverged := by
  intro c hc
  obtain ⟨h1, h2⟩ := (run_spec calls [] wfs_nil).2.2.1 c hc
  by_cases e : c.2.1 = c.1
  · rw [h1 e]; simp
  · obtain ⟨a, _, ho, _⟩ := h2 e; rw [ho]; simp

/-- A package never qualifies itself, and every other package gets a qualifier. -/
theorem self_unqualified (calls : List (Str × Str)) : ∀ c ∈ trace [] calls,
    (c.2.1 = c.1 ↔ c.2.2 = Out.self) := by
  intro c hc
  obtain ⟨h1, h2⟩ := (run_spec calls [] wfs_nil).2.2.1 c hc
  refine ⟨h1, fun hs => ?_⟩
  apply Classical.byContradiction
  intro e
  obtain ⟨a, _, ho, _⟩ := h2 e
  rw [ho] at hs; simp at hs

/-- **alias_unique_in_package**: in the import table of every package, two entries have the same
alias iff they are for the same imported package (aliases are unique, each package is declared once). -/
theorem alias_unique_in_package (calls : List (Str × Str)) (this : Str) (imp : Imports)
    (h : lookup this (final calls) = some imp) (k k' a a' : Str)
    (h1 : (k, a) ∈ imp.packages) (h2 : (k', a') ∈ imp.packages) : (a = a' ↔ k = k') := by
  have wf := final_wf calls this imp h
  constructor
  · intro e; subst e; exact distinct_snd _ wf.aliases k k' a h1 h2
  · intro e; subst e; exact distinct_fst _ wf.keys k a a' h1 h2

/-- **alias_stable**: the same package, asked for from the same package, gets the same alias every
time. -/
theorem alias_stable (calls : List (Str × Str)) : ∀ c ∈ trace [] calls, ∀ d ∈ trace [] calls,
    c.1 = d.1 → c.2.1 = d.2.1 → c.2.2 = d.2.2 := by
  intro c hc d hd e1 e2
  obtain ⟨c1, c2⟩ := (run_spec calls [] wfs_nil).2.2.1 c hc
  obtain ⟨d1, d2⟩ := (run_spec calls [] wfs_nil).2.2.1 d hd
  by_cases e : c.2.1 = c.1
  · rw [c1 e, d1 (by rw [← e1, ← e2]; exact e)]
  · obtain ⟨a, imp, ho, hl, hn⟩ := c2 e
    obtain ⟨b, imp', ho', hl', hn'⟩ := d2 (by rw [← e1, ← e2]; exact e)
    rw [← e1, hl] at hl'; injection hl' with hl'; subst hl'
    rw [← e2, hn] at hn'; injection hn' with hn'; subst hn'
    rw [ho, ho']

/-- Different packages asked for from the same package get different aliases. -/
theorem alias_distinct (calls : List (Str × Str)) (a : Str) : ∀ c ∈ trace [] calls, ∀ d ∈ trace [] calls,
    c.1 = d.1 → c.2.2 = Out.alias a → d.2.2 = Out.alias a → c.2.1 = d.2.1 := by
  intro c hc d hd e1 ha hb
  obtain ⟨c1, c2⟩ := (run_spec calls [] wfs_nil).2.2.1 c hc
  obtain ⟨d1, d2⟩ := (run_spec calls [] wfs_nil).2.2.1 d hd
  have ec : c.2.1 ≠ c.1 := fun e => by rw [c1 e] at ha; simp at ha
  have ed : d.2.1 ≠ d.1 := fun e => by rw [d1 e] at hb; simp at hb
  obtain ⟨a1, imp, ho, hl, hn⟩ := c2 ec
  obtain ⟨a2, imp', ho', hl', hn'⟩ := d2 ed
  rw [ha] at ho; injection ho with ho; subst ho
  rw [hb] at ho'; injection ho' with ho'; subst ho'
  rw [← e1, hl] at hl'; injection hl' with hl'; subst hl'
  exact (alias_unique_in_package calls c.1 imp hl _ _ a a (mem_of_lookup _ _ _ hn) (mem_of_lookup _ _ _ hn')).mp rfl

/-- **every_returned_alias_declared**: whenever `qualify_package(this, name)` returned `@a.`, the
import list that `write_moon_pkg` finally writes for `this` contains the line for `name` with alias `a`
(and with the directory path of `name`). -/
theorem every_returned_alias_declared (calls : List (Str × Str)) (project : Str) :
    ∀ c ∈ trace [] calls, ∀ a, c.2.2 = Out.alias a →
      ∃ imp, lookup c.1 (final calls) = some imp ∧ (c.2.1, a) ∈ imp.packages ∧
        (project ++ '/' :: dirOf c.2.1, a) ∈ declared project imp ∧
        depLine project c.2.1 a ∈ depLines project imp := by
  intro c hc a ha
  obtain ⟨c1, c2⟩ := (run_spec calls [] wfs_nil).2.2.1 c hc
  have ec : c.2.1 ≠ c.1 := fun e => by rw [c1 e] at ha; simp at ha
  obtain ⟨a1, imp, ho, hl, hn⟩ := c2 ec
  rw [ha] at ho; injection ho with ho; subst ho
  have hm := mem_of_lookup _ _ _ hn
  refine ⟨imp, hl, hm, ?_, ?_⟩
  · exact List.mem_map.mpr ⟨(c.2.1, a), hm, rfl⟩
  · unfold depLines
    rw [(sortStr_perm _).mem_iff]
    exact List.mem_map.mpr ⟨(c.2.1, a), hm, rfl⟩

/-- **write_moon_pkg lists exactly the packages**: the written import lines are a permutation of
one line per table entry (nothing dropped, nothing duplicated, nothing invented) … -/
theorem write_moon_pkg_lists_exactly (project : Str) (imp : Imports) :
    (depLines project imp).Perm (imp.packages.map (fun kv => depLine project kv.1 kv.2)) ∧
    (depLines project imp).length = imp.packages.length := by
  have h : (depLines project imp).Perm (imp.packages.map (fun kv => depLine project kv.1 kv.2)) :=
    sortStr_perm _
  exact ⟨h, by rw [h.length_eq]; simp⟩

/-- … and every table entry stems from a call that returned exactly that alias (a fresh resolver
declares nothing that was not asked for). -/
theorem nothing_declared_unasked (calls : List (Str × Str)) (this : Str) (imp : Imports)
    (h : lookup this (final calls) = some imp) (k a : Str) (hm : (k, a) ∈ imp.packages) :
    (this, k, Out.alias a) ∈ trace [] calls := by
  rcases (run_spec calls [] wfs_nil).2.2.2 this imp k a h hm with ⟨imp0, h0, _⟩ | h
  · simp [lookup] at h0
  · exact h

/-- **declared_path_preserves_kebab**: a declared path is `project/` + the dotted package name with
every `.` turned into `/` and every other character (in particular `-`) unchanged. -/
theorem declared_path_preserves_kebab (project : Str) (imp : Imports) :
    ∀ pa ∈ declared project imp, ∃ k, (k, pa.2) ∈ imp.packages ∧ pa.1 = project ++ '/' :: dirOf k ∧
      pathPreserves k (dirOf k) = true ∧ (dirOf k).length = k.length ∧
      (∀ c ∈ k, c ≠ '.' → c ∈ dirOf k) := by
  intro pa hpa
  obtain ⟨⟨k, a⟩, hm, rfl⟩ := List.mem_map.mp hpa
  refine ⟨k, hm, rfl, pathPreserves_dirOf k, by simp [dirOf], ?_⟩
  intro c hc hne
  exact List.mem_map.mpr ⟨c, hc, by simp [hne]⟩

/-- The declarations of one package satisfy the per-package monitor used on generated
`moon.pkg.json` files: aliases distinct, paths distinct (package names contain no `/`), and every
alias the package's code can contain (= was returned) is declared. -/
theorem declared_package_ok (calls : List (Str × Str)) (project this : Str) (imp : Imports)
    (h : lookup this (final calls) = some imp) (hslash : ∀ k a, (k, a) ∈ imp.packages → '/' ∉ k) :
    packageOk (declared project imp) (imp.packages.map (·.2)) = true := by
  have wf := final_wf calls this imp h
  simp only [packageOk, Bool.and_eq_true, List.all_eq_true]
  refine ⟨⟨?_, ?_⟩, ?_⟩
  · simpa [declared, List.map_map, Function.comp_def] using wf.aliases
  · have := allDistinct_map_of_inj imp.packages (·.1) (fun kv => project ++ '/' :: dirOf kv.1) wf.keys
      (by
        intro x hx y hy e
        have e' : dirOf x.1 = dirOf y.1 := by
          have := List.append_cancel_left e
          simpa using this
        exact dirOf_injective _ _ (hslash x.1 x.2 hx) (hslash y.1 y.2 hy) e')
    simpa [declared, List.map_map, Function.comp_def] using this
  · intro a ha
    simpa [declared, List.map_map, Function.comp_def] using ha

/-! ## Monitor form (what the check evaluates on the implementation's outputs) -/

/-- the observable part of a traced call: `""` ↦ `none`, `"@a."` ↦ `some a` -/
def observe (c : Str × Str × Out) : Str × Str × Option Str :=
  (c.1, c.2.1, match c.2.2 with | .alias a => some a | _ => none)

/-- the import tables of a state -/
def tables (st : State) : List (Str × List (Str × Str)) := st.map (fun ti => (ti.1, ti.2.packages))

theorem find_eq_lookup {α} (k : Str) (l : List (Str × α)) : MoonSpec.find k l = lookup k l := by
  induction l with
  | nil => rfl
  | cons x xs ih =>
    obtain ⟨k', v⟩ := x
    by_cases h : k' = k
    · simp [MoonSpec.find, lookup, h]
    · have : (k' == k) = false := by simpa using h
      simp [MoonSpec.find, lookup, h, this, ih]

theorem lookup_tables (t : Str) (st : State) : lookup t (tables st) = (lookup t st).map (·.packages) := by
  induction st with
  | nil => rfl
  | cons x xs ih =>
    obtain ⟨k', v⟩ := x
    by_cases h : k' = t
    · simp [tables, lookup, h]
    · simp only [tables, List.map_cons, lookup, h, if_false]
      exact ih

/-- **history_spec**: for every sequence of calls on a fresh resolver, the observable outputs
together with the final import tables satisfy the C30 history monitor. -/
theorem history_spec (calls : List (Str × Str)) :
    historyOk (tables (final calls)) ((trace [] calls).map observe) = true := by
  have spec := run_spec calls [] wfs_nil
  have hkeys : allDistinct ((final calls).map (·.1)) = true := keys_run calls [] (by simp [allDistinct])
  simp only [historyOk, Bool.and_eq_true]
  refine ⟨⟨?_, ?_⟩, ?_⟩
  · -- finalOk
    simp only [finalOk, List.all_eq_true, Bool.and_eq_true]
    intro tp htp
    obtain ⟨⟨t, imp⟩, hm, rfl⟩ := List.mem_map.mp htp
    have wf := spec.1 t imp (lookup_of_mem_distinct t imp _ hkeys hm)
    exact ⟨wf.keys, wf.aliases⟩
  · -- every call
    simp only [List.all_eq_true]
    intro o ho
    obtain ⟨c, hc, rfl⟩ := List.mem_map.mp ho
    obtain ⟨c1, c2⟩ := spec.2.2.1 c hc
    by_cases e : c.2.1 = c.1
    · simp [callOk, observe, e, c1 e]
    · obtain ⟨a, imp, hout, hl, hn⟩ := c2 e
      have e' : (c.2.1 == c.1) = false := by simpa using e
      simp only [callOk, observe, e', hout, find_eq_lookup, lookup_tables, hl, Option.map_some, hn]
      simp
  · -- nothing else is declared
    simp only [allHandedOut, List.all_eq_true, List.any_eq_true, Bool.and_eq_true, beq_iff_eq]
    intro tp htp ka hka
    obtain ⟨⟨t, imp⟩, hm, rfl⟩ := List.mem_map.mp htp
    obtain ⟨k, a⟩ := ka
    have hl := lookup_of_mem_distinct t imp _ hkeys hm
    have := nothing_declared_unasked calls t imp hl k a hka
    exact ⟨observe (t, k, Out.alias a), List.mem_map.mpr ⟨_, this, rfl⟩, by simp [observe]⟩

/-! ## Non-vacuity -/

private def s (x : String) : Str := x.toList

/-- the pinned test's pair, plus coinciding last segments (`types` three times, one of them literally
called `types0`), a self reference, a repeated request and a second package -/
example :
    (run [] [(s "world.http-proxy", s "interface.my.test.leaf-interface"),
             (s "w", s "w"),
             (s "w", s "interface.a.b.types"), (s "w", s "interface.c.d.types"),
             (s "w", s "interface.a.b.types0"), (s "w", s "interface.c.d.types"),
             (s "v", s "interface.c.d.types"), (s "w", s "async-core")]).2
    = [.alias (s "leaf-interface"), .self, .alias (s "types"), .alias (s "types0"), .alias (s "types01"),
       .alias (s "types0"), .alias (s "types"), .alias (s "async-core")] := by decide

/-- the import lines are sorted and keep kebab-case -/
example :
    depLines (s "my/proj") (final [(s "w", s "interface.b-ns.pkg-b.more-api"), (s "w", s "async-core")]
      |> fun st => (lookup (s "w") st).getD Imports.empty)
    = [s "{ \"path\" : \"my/proj/async-core\", \"alias\" : \"async-core\" }",
       s "{ \"path\" : \"my/proj/interface/b-ns/pkg-b/more-api\", \"alias\" : \"more-api\" }"] := by decide

/-- the history monitor rejects an unstable alias, a duplicated alias and an undeclared one -/
example : historyOk [(s "w", [(s "a.x", s "x")])] [(s "w", s "a.x", some (s "x")), (s "w", s "a.x", some (s "x0"))] = false := by decide
example : historyOk [(s "w", [(s "a.x", s "x"), (s "b.x", s "x")])]
    [(s "w", s "a.x", some (s "x")), (s "w", s "b.x", some (s "x"))] = false := by decide
example : historyOk [(s "w", [])] [(s "w", s "a.x", some (s "x"))] = false := by decide
/-- the package monitor rejects a used but undeclared alias -/
example : packageOk [(s "p/a/x", s "x")] [s "x", s "y"] = false := by decide

end Witverif.Props.C30
