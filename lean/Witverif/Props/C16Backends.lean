import Witverif.Generated.PanicArms
/-!
# C16 (backend half) — every panicking arm of a backend is declared unsupported or unreachable

`Generated/PanicArms.lean` is regenerated from the backend sources on every run
(`tools/gen_panic_arms.py`): the arms of every `match` over `TypeDefKind` / `Type`, and the
`type_*` callbacks, whose body is a panic macro; and the features each backend declares
unsupported in `crates/test/src/<lang>.rs::should_fail_verify`.

Obligation (`obligated`): an arm whose body IS `todo!` / `unimplemented!` / `panic!`
(`unreachable!` arms state the author's own invariant; the search half of the check requires that no
run ever reaches one, as it does for every arm classified unreachable here).

An obligated arm is `Classified` when its kind
  * is a kind of a feature the backend declares unsupported, or
  * cannot be presented by a valid `Resolve` at that position: `Unknown`; `Resource` where a value
    type is expected (DESIGN §7 also lists `Handle` as a definition: refuted by the search —
    `type h = borrow<r>;` is valid WIT and reaches `define_type` with a `Handle`), or
  * is one of the reviewed arms below (fingerprint-pinned: an edit of the arm needs a new review).

A new `todo!()` for a supported kind, in any backend, is unclassifiable and breaks
`backend_arms_classified_partial`.  Markdown declares nothing (`markdown_declares_nothing`), so every
`todo!` arm of the Markdown generator is a defect (`markdown_has_no_obligated_arm`: after the `fix:`
commits for `print_ty` on fixed-length lists and `type_future` / `type_stream`, found by the search, it has none).
The arms listed in `knownDefectArms` are recorded in known_findings.jsonl.
-/
namespace Witverif.Props.C16Backends
open Witverif.Generated.PanicArms

def qual (a : Arm) : String := a.en ++ "::" ++ a.kind

/-- kinds no valid `Resolve` presents at that position -/
def unreachableByValidity (a : Arm) : Bool :=
  qual a == "TypeDefKind::Unknown" ||
  (qual a == "TypeDefKind::Resource" && a.position == "use")

/-- Reviewed arms (fingerprint, why the arm cannot be reached by a valid world). -/
def reviewed : List (String × String) := [
  -- crates/c/src/lib.rs push_ty_name: after `if let Some(name) = &ty.name { return }`; record/flags/enum/variant are always named
  ("0fce4dcd7fbe", "c push_ty_name: unnamed record"),
  ("bfcd54b56273", "c push_ty_name: unnamed flags"),
  ("fcfcc6e4d646", "c push_ty_name: unnamed enum"),
  ("1c572d95f0b3", "c push_ty_name: unnamed variant"),
  -- crates/c/src/lib.rs anonymous_type_type: wit-parser creates no unnamed `TypeDefKind::Type`
  ("7a623a8c323b", "c anonymous_type_type: unnamed alias"),
  -- crates/d/src/lib.rs type_name, `TypeOwner::None` branch: enum/flags/variant/alias always have an owner
  ("1b6ae89e2810", "d type_name: ownerless enum"),
  ("af7bf3b058f2", "d type_name: ownerless flags"),
  ("7cf62be79931", "d type_name: ownerless alias"),
  ("ec6f4102916b", "d type_name: ownerless variant")]

/-- Arms that ARE reachable by valid worlds and are not declared: defects (known_findings.jsonl). -/
def knownDefectArms : List String := [
  "9f010f6d880d"]   -- cpp define_type: `Handle(_) => todo!("generate for handle")`, reached by `type h = borrow<r>;`

def obligated (a : Arm) : Bool := a.direct && a.mac != "unreachable"

def Classified (a : Arm) : Bool :=
  (declaredKinds a.backend).contains (qual a) || unreachableByValidity a ||
  (reviewed.map (·.1)).contains a.fingerprint

/-- The Markdown generator declares no unsupported feature. -/
theorem markdown_declares_nothing : declaredFeatures "markdown" = [] := rfl

/- Full statement (DESIGN §7 C16, `b_no_panicking_arm`):
     ∀ a ∈ arms, obligated a → Classified a
   false of the current code (C++ `define_type`: `Handle(_) => todo!("generate for handle")`): -/
theorem backend_arms_classified_full_false :
    ¬ ∀ a ∈ arms, obligated a = true → Classified a = true := by
  decide +kernel

/-- Every obligated arm of every backend, except the recorded defects, is declared unsupported,
unreachable by validity, or reviewed.  Re-proved against the regenerated table on every run. -/
theorem backend_arms_classified_partial :
    ∀ a ∈ arms, obligated a = true → knownDefectArms.contains a.fingerprint = false → Classified a = true := by
  decide +kernel

/-- The exceptions are arms of the table (the list is not stale). -/
theorem known_defects_are_arms : ∀ f ∈ knownDefectArms, (arms.map (·.fingerprint)).contains f = true := by
  decide +kernel

/-- Reviewed fingerprints are arms of the table (an edited arm changes its fingerprint and falls out). -/
theorem reviewed_are_arms : ∀ p ∈ reviewed, (arms.map (·.fingerprint)).contains p.1 = true := by
  decide +kernel

/-- Markdown has no `todo!` / `unimplemented!` / `panic!` arm left. -/
theorem markdown_has_no_obligated_arm :
    ∀ a ∈ arms, a.backend = "markdown" → obligated a = false := by
  decide +kernel

/-! non-vacuity -/
example : (arms.filter obligated).length > 50 := by decide +kernel
example : declaredKinds "c" = ["Type::ErrorContext", "TypeDefKind::FixedLengthList"] := by decide +kernel
example : (arms.filter fun a => a.backend == "markdown").length ≥ 1 := by decide +kernel

end Witverif.Props.C16Backends
