import Witverif.Proofs.Ident
import Witverif.Proofs.ByteLit
import Witverif.Props.C27
/-!
# C09 — generated Rust builds and componentizes as exactly the requested world (identifier hygiene part)

The headline claim of C09 is acceptance by rustc (for wasm32) and by wit-component; no Lean model
expresses that (DESIGN §11).  What is proved here are the identifier-hygiene conditions the statement
names — keywords, collisions inside one WIT scope, the generator's own temporaries, module paths — of
the model `Witverif.Text.Ident` over the escape table **extracted from crates/rust/src/lib.rs on every
run** (`Generated/RustIdent.lean`), the heck model, and the spec table `RustKeywords.keywords2024`.
rustc is used by the check only to validate the model's predictions and to search for failing inputs.

Statements that now hold in full (repaired in /repo by `fix:` commits d8fe118 and da689e1, see
known_findings.jsonl `fixed:` lines): `to_rust_ident_not_keyword` (every WIT identifier; before the
repair false for `gen` and for keywords written in upper case), `module_path_components_not_keywords_partial`
(before the repair false for the package component, `a:box`; partial: needs the module name to be snake case).

Full statements that are still FALSE of the current code (negations proved with concrete witnesses,
reproduced with rustc --edition 2024 on the real generator's output):

    to_rust_ident_injective   : ∀ a b, WitName a → WitName b → a ≠ b → toRustIdent a ≠ toRustIdent b
        false: `foo-bar` / `foo-BAR` (holds modulo letter case: `to_rust_ident_injective_mod_case` / `to_rust_ident_injective_of_ne_mod_case`;
        the component model rejects names of one scope that differ only in case)
    upper-camel names are injective modulo case          false: `a1` / `a-1`
    temporaries_disjoint      : ∀ n, WitName n → ¬ clashesWithRustLocal (toRustIdent n)
        false: a parameter called `len0` *is* the generator's `len{tmp}`
    type names avoid prelude names / generic parameters; resource members avoid generated members
        false: `ok`, `t`, `take-handle`
-/
namespace Witverif.Props.C09
open Witverif.Text Witverif.Text.Ident Witverif.Text.Heck Witverif.Text.PkgSpec Witverif.Text.PkgPath
open Witverif.Text.RustKeywords Witverif.Generated.RustIdent

/-- the property quantifies over WIT identifiers (wit-parser `validate_id`) -/
abbrev WitName (n : List Char) : Prop := validName n = true

/-! ## Facts about the extracted source (re-decided whenever the source changes) -/

/-- the table is looked up on the snake-cased name (`match name.to_snake_case().as_str()`) -/
theorem lookup_on_snake : matchOnSnake = true := by decide

theorem toRustIdent_eq (n : List Char) : toRustIdent n = escapeIdentS escapeTable n := by
  simp [toRustIdent, escapeBy, lookup_on_snake]

/-- no value of the table is itself a keyword -/
theorem table_values_not_keywords : ∀ e ∈ escapeTable, e.2 ∉ keywords2024 := by decide

/-- the values are pairwise different -/
theorem table_values_injective :
    ∀ e1 ∈ escapeTable, ∀ e2 ∈ escapeTable, e1.2 = e2.2 → e1.1 = e2.1 := by decide +kernel

/-- every value ends in `_` (so it cannot be the snake case of a WIT identifier) -/
theorem table_values_end_us : ∀ e ∈ escapeTable, e.2.getLast? = some '_' := by decide

/-- every edition-2024 keyword is an arm of the table or contains an upper-case letter (`Self`,
which no snake-cased name can be).  Dropping an arm — e.g. `gen` — makes this line fail. -/
theorem table_covers_keywords : ∀ k ∈ keywords2024,
    (lookupT escapeTable k).isSome = true ∨ ∃ c ∈ k, isAsciiUpper c = true := by decide

/-! ## Keywords -/

/-- **`to_rust_ident_not_keyword` (full statement)**: for every WIT identifier — any length, upper-
or lower-case words — the emitted Rust identifier is not a keyword of edition 2024. -/
theorem to_rust_ident_not_keyword (n : List Char) (h : WitName n) : toRustIdent n ∉ keywords2024 := by
  rw [toRustIdent_eq]
  exact escapeS_not_keyword escapeTable keywords2024 table_values_not_keywords table_covers_keywords n
    (snake_valid_not_upper n h)

/-- the same for an already snake-cased package module name (`foo`, `foo1_0_0`, …): the package
component of a module path -/
theorem to_rust_ident_module_name_not_keyword (m : List Char) (h : usSimple m = true) :
    toRustIdent m ∉ keywords2024 := by
  rw [toRustIdent_eq]
  exact escapeS_not_keyword escapeTable keywords2024 table_values_not_keywords table_covers_keywords m
    (snake_usSimple_not_upper m h)

/-- the former witnesses are escaped now -/
theorem former_keyword_witnesses_escaped :
    toRustIdent "gen".toList = "gen_".toList ∧ toRustIdent "IF".toList = "if_".toList ∧
    toRustIdent "SELF".toList = "self_".toList := by decide

/-! ## Collisions inside one WIT scope -/

/-- **Injectivity modulo letter case** (the component model compares kebab names
case-insensitively, so two names of one scope differ modulo case): distinct WIT identifiers of a
scope get distinct Rust identifiers. -/
theorem to_rust_ident_injective_mod_case (a b : List Char) (ha : WitName a) (hb : WitName b)
    (h : toRustIdent a = toRustIdent b) : a.map lowA = b.map lowA := by
  rw [toRustIdent_eq, toRustIdent_eq] at h
  exact escapeS_injective_mod_case escapeTable table_values_injective table_values_end_us a b ha hb h

theorem to_rust_ident_injective_of_ne_mod_case (a b : List Char) (ha : WitName a) (hb : WitName b)
    (hne : a.map lowA ≠ b.map lowA) : toRustIdent a ≠ toRustIdent b :=
  fun h => hne (to_rust_ident_injective_mod_case a b ha hb h)

/-- the literal statement (`a ≠ b` only) is false: wit-parser accepts both names in one scope -/
def InjectiveFull : Prop :=
  ∀ a b, WitName a → WitName b → a ≠ b → toRustIdent a ≠ toRustIdent b

theorem to_rust_ident_injective_full_false : ¬ InjectiveFull := by
  intro h
  exact h "foo-bar".toList "foo-BAR".toList (by decide) (by decide) (by decide) (by decide)

/-- type and case names go through `to_upper_camel_case`, which is *not* injective even modulo
case: a segment that starts with a digit merges with its predecessor (class `rust-camel-digit-merge`). -/
theorem upper_camel_collision :
    WitName "a1".toList ∧ WitName "a-1".toList ∧ "a1".toList.map lowA ≠ "a-1".toList.map lowA ∧
    toUpperCamelRust "a1".toList = toUpperCamelRust "a-1".toList := by decide

/-- `guest` is remapped, and the remapped name cannot come from another WIT identifier
(an upper-camel name never contains `_`)… but the *snake* identifier of a type does not matter here. -/
theorem guest_remapped : toUpperCamelRust "guest".toList = "Guest_".toList := by decide

/-! ## Prelude items -/

/-- the full statement: no WIT type name turns into a Rust type that captures a prelude name which
the generated code (in the same module) writes without a `::core::…` path -/
def TypeNamesAvoidPreludeFull : Prop := ∀ n, WitName n → capturesPrelude n = false

/-- witness (class `rust-prelude-shadow`): `flags ok { … }` becomes `struct Ok`, and every `Ok(…)`
the generator emits in that module (lifting a `result`) now means the user's struct (rustc: E0308).
Likewise `%option` → `Option` (E0107), `from` → `From`, `sized` → `Sized` (E0404). -/
theorem type_names_avoid_prelude_full_false : ¬ TypeNamesAvoidPreludeFull := by
  intro h
  have := h "ok".toList (by decide)
  revert this
  decide

/-- the full statement: no WIT type name equals a generic type parameter of the generated items -/
def TypeNamesAvoidGenericParamsFull : Prop := ∀ n, WitName n → capturedByGenericParam n = false

/-- witness (class `rust-generic-param-shadow`): `resource t` (exported) becomes `struct T`, but
inside the generated `fn as_ptr<T: GuestT>` the name `T` is the type parameter (rustc: E0599). -/
theorem type_names_avoid_generic_params_full_false : ¬ TypeNamesAvoidGenericParamsFull := by
  intro h
  have := h "t".toList (by decide)
  revert this
  decide

/-! ## Items the generator adds next to user functions -/

/-- the full statement: no resource method / static function is emitted under the name of a function
the generator defines itself in the same `impl` -/
def ResourceMembersDisjointFull : Prop := ∀ n, WitName n → clashesWithGeneratedFn n = false

/-- witness (class `rust-resource-member-collision`): `take-handle: static func()` of a resource is
emitted as `fn take_handle`, next to the wrapper's own `take_handle` (rustc: E0592). -/
theorem resource_members_disjoint_full_false : ¬ ResourceMembersDisjointFull := by
  intro h
  have := h "take-handle".toList (by decide)
  revert this
  decide

/-! ## The generator's own temporaries -/

/-- the full statement: no parameter name turns into something the generator binds itself -/
def TemporariesDisjointFull : Prop :=
  ∀ n, WitName n → clashesWithRustLocal (toRustIdent n) = false

/-- witness (class `rust-temp-shadows-param`): `len0` is a WIT identifier, is emitted verbatim, and is
the name of the length temporary of the first lowered list/string.  For
`import f: func(a: string, len0: u32)` the wrapper passes `a.len()` instead of the parameter. -/
theorem temporaries_disjoint_full_false : ¬ TemporariesDisjointFull := by
  intro h
  have := h "len0".toList (by decide)
  revert this
  decide

/-- **Partial form**: an identifier the recogniser does not flag is different from every fixed
local and from every counter temporary `<base><digits>` / `<base><digits>_<digits>`, for every
base in the inventory and every counter value (no bound). -/
theorem temporaries_disjoint_partial (x : List Char) (h : clashesWithRustLocal x = false) :
    x ∉ fixedLocals ∧
    ∀ base ∈ tempBases, ∀ ds, allDigits ds = true →
      x ≠ base ++ ds ∧ ∀ ds2, allDigits ds2 = true → x ≠ base ++ ds ++ '_' :: ds2 := by
  simp only [clashesWithRustLocal, Bool.or_eq_false_iff] at h
  refine ⟨?_, isTemp_complete tempBases x h.1⟩
  have := h.2
  simpa using this

/-! ## Module paths -/

/-- **No component of a module path is a keyword** (namespace, package module, interface) —
PARTIAL: under the explicit hypothesis `usSimple (namePackageModule pkgs p)`, i.e. that the package's
module name is snake case (lower-case letters / digits in non-empty words separated by single `_`).
That hypothesis is NOT proved here for all valid packages (it holds for the unversioned and the
`major.minor.patch` packages of the examples below by `decide`; versions with pre-release / build
metadata are not covered by a theorem).  The namespace and interface components need no hypothesis
(`to_rust_ident_not_keyword`). -/
theorem module_path_components_not_keywords_partial (pkgs : List Pkg) (p : Pkg) (i : List Char)
    (hn : WitName p.ns) (hi : WitName i) (hm : usSimple (namePackageModule pkgs p) = true) :
    ∀ c ∈ rustModulePath pkgs p i, c ∉ keywords2024 := by
  intro c hc
  simp only [rustModulePath, List.mem_cons, List.not_mem_nil, or_false] at hc
  rcases hc with rfl | rfl | rfl
  · exact to_rust_ident_not_keyword _ hn
  · exact to_rust_ident_module_name_not_keyword _ hm
  · exact to_rust_ident_not_keyword _ hi

/-- **Distinct (package, interface) pairs get distinct module paths** — PARTIAL: for lower-case
names, plain packages (C27's hypotheses; its known collisions are excluded by them) and under the
explicit, unproved-in-general hypothesis that both module names are snake case (`usSimple`). -/
theorem module_paths_distinct_partial (pkgs : List Pkg) (p q : Pkg) (i j : List Char)
    (hp : p ∈ pkgs) (hq : q ∈ pkgs) (hpp : plainPkg p = true) (hqp : plainPkg q = true)
    (hpm : usSimple (namePackageModule pkgs p) = true) (hqm : usSimple (namePackageModule pkgs q) = true)
    (hpn : WitName p.ns) (hqn : WitName q.ns) (hi : WitName i) (hj : WitName j)
    (hlow : ∀ n ∈ [p.ns, q.ns, i, j], ∀ c ∈ n, isAsciiUpper c = false)
    (hne : (p, i) ≠ (q, j)) :
    rustModulePath pkgs p i ≠ rustModulePath pkgs q j := by
  intro h
  simp only [rustModulePath, List.cons.injEq, and_true] at h
  obtain ⟨h1, h2, h3⟩ := h
  have lowEq : ∀ a b : List Char, WitName a → WitName b → (∀ c ∈ a, isAsciiUpper c = false) →
      (∀ c ∈ b, isAsciiUpper c = false) → toRustIdent a = toRustIdent b → a = b := by
    intro a b ha hb hla hlb e
    have := to_rust_ident_injective_mod_case a b ha hb e
    rwa [map_lowA_id hla, map_lowA_id hlb] at this
  have hns : p.ns = q.ns := lowEq _ _ hpn hqn (hlow _ (by simp)) (hlow _ (by simp)) h1
  have hij : i = j := lowEq _ _ hi hj (hlow _ (by simp)) (hlow _ (by simp)) h3
  rw [toRustIdent_eq, toRustIdent_eq] at h2
  have hmod := escapeS_injective_usSimple escapeTable table_values_injective table_values_end_us _ _ hpm hqm h2
  by_cases hpq : p = q
  · exact hne (by rw [hpq, hij])
  · exact Witverif.Props.C27.module_names_injective_partial pkgs p q hp hq hns hpq hpp hqp hmod

/-- the package component is escaped now: package `a:box` gives `mod box_` -/
theorem package_module_escaped :
    let p : Pkg := ⟨"a".toList, "box".toList, none⟩
    (rustModulePath [p] p "i".toList)[1]? = some "box_".toList := by decide

/-! ## "Exactly that world": the component-type metadata survives its trip through Rust source text

`emit_custom_section` writes the encoded world (the bytes wit-component later reads back from the
custom section) as a byte-string literal, escaped by a `match byte` table and wrapped with `\`-newline
continuations.  The table and the wrap width are extracted from the source on every run
(`Generated/RustSection.lean`); the lexer is the spec (`ByteLitSpec.decode`). -/

open Witverif.Text.ByteLit Witverif.Text.ByteLitSpec in
/-- decidable fact about the extracted table: every arm writes what the Rust lexer reads back as that
byte, and no byte written verbatim is whitespace, `\` or `"` (re-decided whenever the source changes) -/
theorem section_table_ok : tableOk Witverif.Generated.RustSection.arms = true := by decide +kernel

open Witverif.Text.ByteLit Witverif.Text.ByteLitSpec in
/-- **Round trip, any wrapping**: for every byte list and every choice of where continuations are
placed, the Rust lexer reads the emitted literal body back as exactly those bytes. -/
theorem custom_section_roundtrip_any_wrapping (ws : List Bool) (bs : List Nat)
    (hl : ws.length = bs.length) (hb : ∀ b ∈ bs, b < 256) (rest : List Char) :
    decode false (emitW Witverif.Generated.RustSection.arms ws bs ++ '"' :: rest) = some (bs, rest) :=
  decode_emitW _ section_table_ok ws bs hl hb false rest

open Witverif.Text.ByteLit Witverif.Text.ByteLitSpec in
/-- **Round trip of the literal the generator writes** (`*b"\⏎…";` with the 80-column wrapping of the
source): it denotes exactly the metadata bytes — in particular exactly `N = bs.length` of them, the
length the static's type `[u8; N]` declares. -/
theorem custom_section_literal_denotes (bs : List Nat) (hb : ∀ b ∈ bs, b < 256) (more : List Char) :
    literalDenotes (sectionLiteral bs ++ '"' :: ';' :: more) bs = true := by
  have h : decode false (sectionLiteral bs ++ '"' :: ';' :: more) = some (bs, ';' :: more) := by
    simp only [sectionLiteral, emitBody, List.cons_append]
    rw [decode_continuation, emitLoop_eq_emitW]
    exact decode_emitW _ section_table_ok _ bs (wrapsOf_length _ _ bs 0) hb true _
  simp [literalDenotes, h]

open Witverif.Text.ByteLit Witverif.Text.ByteLitSpec in
/-- the "no verbatim whitespace" clause of `tableOk` is necessary: a table that writes printable ASCII
`b' '..=b'~'` verbatim loses the byte 0x20 when it lands right after a continuation -/
theorem verbatim_space_after_continuation_is_lost :
    let arms : List (Pat × Act) := [(.byte 92, .lit "\\\\".toList), (.byte 34, .lit "\\\"".toList),
      (.range 32 126, .verbatim), (.byte 0, .lit "\\0".toList), (.any, .hex)]
    tableOk arms = false ∧
    decode false (emitW arms [false, true] [65, 32] ++ ['"']) = some ([65], []) := by decide +kernel

/-! ## Non-vacuity -/

example : toRustIdent "type".toList = "type_".toList ∧ toRustIdent "foo-bar".toList = "foo_bar".toList ∧
    toRustIdent "HTTP-server2".toList = "http_server2".toList := by decide

/-- the keyword theorem applies to an escaped keyword, an upper-case one and an ordinary name -/
example : toRustIdent "async".toList ∉ keywords2024 := to_rust_ident_not_keyword _ (by decide)
example : toRustIdent "TYPE".toList ∉ keywords2024 := to_rust_ident_not_keyword _ (by decide)
example : toRustIdent "get-value".toList ∉ keywords2024 := to_rust_ident_not_keyword _ (by decide)

example : toRustIdent "a-b".toList ≠ toRustIdent "a-c".toList :=
  to_rust_ident_injective_of_ne_mod_case _ _ (by decide) (by decide) (by decide)

/-- a harmless parameter name is not flagged; hence different from `ptr17`, `result3_2`, `ret`, … -/
example : clashesWithRustLocal (toRustIdent "offset".toList) = false := by decide
example : toRustIdent "offset".toList ≠ "ptr".toList ++ "17".toList :=
  ((temporaries_disjoint_partial _ (by decide)).2 "ptr".toList (by decide) "17".toList (by decide)).1

example :
    let p : Pkg := ⟨"wasi".toList, "http".toList, some ⟨0, 2, 0, [], []⟩⟩
    let q : Pkg := ⟨"wasi".toList, "http".toList, some ⟨0, 3, 0, [], []⟩⟩
    rustModulePath [p, q] p "types".toList ≠ rustModulePath [p, q] q "types".toList := by decide

/-- the snake-case hypothesis of the two module-path theorems holds for a versioned package, and the
keyword theorem applies -/
example :
    let p : Pkg := ⟨"wasi".toList, "http".toList, some ⟨0, 2, 0, [], []⟩⟩
    let q : Pkg := ⟨"wasi".toList, "http".toList, some ⟨0, 3, 0, [], []⟩⟩
    ∀ c ∈ rustModulePath [p, q] p "types".toList, c ∉ keywords2024 :=
  module_path_components_not_keywords_partial _ _ _ (by decide) (by decide) (by decide)

open Witverif.Text.ByteLit Witverif.Text.ByteLitSpec in
/-- the literal of a small byte list with every kind of arm, as the generator writes it -/
example : sectionLiteral [0, 32, 65, 34, 92, 255, 10] = "\\\n\\0\\x20A\\\"\\\\\\xff\\x0a".toList ∧
    literalDenotes (sectionLiteral [0, 32, 65, 34, 92, 255, 10] ++ "\";\n".toList) [0, 32, 65, 34, 92, 255, 10] = true := by
  decide +kernel

end Witverif.Props.C09
