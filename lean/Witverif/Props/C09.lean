import Witverif.Proofs.Ident
import Witverif.Props.C27
/-!
# C09 — generated Rust builds and componentizes as exactly the requested world (identifier hygiene part)

The headline claim of C09 is acceptance by rustc (for wasm32) and by wit-component; no Lean model
expresses that (DESIGN §11).  What is proved here are the identifier-hygiene conditions the statement
names — keywords, collisions inside one WIT scope, the generator's own temporaries, module paths — of
the model `Witverif.Text.Ident` over the escape table **extracted from crates/rust/src/lib.rs on every
run** (`Generated/RustIdent.lean`), the heck model, and the spec table `RustKeywords.keywords2024`.
rustc is used by the check only to validate the model's predictions and to search for failing inputs.

Full statements that are FALSE of the current code (negations proved with concrete witnesses,
reproduced with rustc --edition 2024 on the real generator's output):

    to_rust_ident_not_keyword : ∀ n, WitName n → toRustIdent n ∉ keywords2024
        false: `gen` (reserved since edition 2024, no arm in the table), and every keyword written in
        upper case in WIT (`IF`, `SELF`, …: the table is matched before `to_snake_case` lower-cases)
    to_rust_ident_injective   : ∀ a b, WitName a → WitName b → a ≠ b → toRustIdent a ≠ toRustIdent b
        false: `foo-bar` / `foo-BAR` (holds modulo letter case: `to_rust_ident_injective_mod_case`)
    temporaries_disjoint      : ∀ n, WitName n → ¬ clashesWithRustLocal (toRustIdent n)
        false: a parameter called `len0` *is* the generator's `len{tmp}`
    module path components are never keywords
        false: the package-name component comes from `name_package_module`, which does not escape (`a:box`)
-/
namespace Witverif.Props.C09
open Witverif.Text Witverif.Text.Ident Witverif.Text.Heck Witverif.Text.PkgSpec Witverif.Text.PkgPath
open Witverif.Text.RustKeywords Witverif.Generated.RustIdent

/-- the property quantifies over WIT identifiers (wit-parser `validate_id`) -/
abbrev WitName (n : List Char) : Prop := validName n = true

/-! ## Facts about the extracted table (re-decided whenever the source changes) -/

/-- no value of the table is itself a keyword -/
theorem table_values_not_keywords : ∀ e ∈ escapeTable, e.2 ∉ keywords2024 := by decide

/-- the values are pairwise different -/
theorem table_values_injective :
    ∀ e1 ∈ escapeTable, ∀ e2 ∈ escapeTable, e1.2 = e2.2 → e1.1 = e2.1 := by decide +kernel

/-- every value ends in `_` (so it cannot be the snake case of a WIT identifier) -/
theorem table_values_end_us : ∀ e ∈ escapeTable, e.2.getLast? = some '_' := by decide

/-- every edition-2024 keyword is an arm of the table, is `gen`, or contains an upper-case letter
(`Self`) — this is the line that singles out `gen` -/
theorem table_covers_keywords : ∀ k ∈ keywords2024,
    (lookupT escapeTable k).isSome = true ∨ k ∈ ["gen".toList] ∨
      (∃ c ∈ k, isAsciiUpper c = true ∨ c = '_') := by decide

theorem keywords_no_us : ∀ k ∈ keywords2024, '_' ∉ k := by decide

/-! ## Keywords -/

/-- Exact characterisation, for every WIT identifier: the emitted Rust identifier is a keyword iff
the name is not an arm of the table and its lower-cased spelling is a keyword. -/
theorem to_rust_ident_keyword_iff (n : List Char) (h : WitName n) :
    toRustIdent n ∈ keywords2024 ↔
      lookupT escapeTable n = none ∧ n.map lowSep ∈ keywords2024 :=
  escape_keyword_iff escapeTable keywords2024 table_values_not_keywords n h

/-- the full statement -/
def NotKeywordFull : Prop := ∀ n, WitName n → toRustIdent n ∉ keywords2024

/-- witness 1 (class `rust-ident-keyword-gen`): `export gen: func()` becomes `fn gen()` -/
theorem gen_is_emitted_verbatim :
    WitName "gen".toList ∧ toRustIdent "gen".toList = "gen".toList ∧ "gen".toList ∈ keywords2024 := by
  decide

/-- witness 2 (class `rust-ident-keyword-uppercase`): the WIT identifier `IF` becomes `if` -/
theorem uppercase_keyword_is_emitted :
    WitName "IF".toList ∧ toRustIdent "IF".toList = "if".toList ∧ "if".toList ∈ keywords2024 ∧
    WitName "SELF".toList ∧ toRustIdent "SELF".toList = "self".toList := by
  decide

theorem to_rust_ident_not_keyword_full_false : ¬ NotKeywordFull := by
  intro h
  exact h _ gen_is_emitted_verbatim.1 (gen_is_emitted_verbatim.2.1 ▸ gen_is_emitted_verbatim.2.2)

/-- **Partial form**: for every WIT identifier without upper-case letters other than `gen`, the
emitted identifier is not a keyword of edition 2024.  (All names, any length.) -/
theorem to_rust_ident_not_keyword_partial (n : List Char) (h : WitName n)
    (hl : ∀ c ∈ n, isAsciiUpper c = false) (hg : n ≠ "gen".toList) :
    toRustIdent n ∉ keywords2024 := by
  by_cases hd : '-' ∈ n
  · intro hk
    have := ((to_rust_ident_keyword_iff n h).mp hk).2
    exact keywords_no_us _ this (us_mem_map_lowSep hd)
  · exact escape_not_keyword_lower escapeTable keywords2024 ["gen".toList] table_values_not_keywords
      table_covers_keywords n h hl hd (by simpa using hg)

/-- … and these two causes are the only ones: a keyword hit means the name, lower-cased, is `gen`
or the name contains an upper-case letter. -/
theorem keyword_hit_causes (n : List Char) (h : WitName n) (hk : toRustIdent n ∈ keywords2024) :
    n = "gen".toList ∨ ∃ c ∈ n, isAsciiUpper c = true := by
  by_cases hu : ∃ c ∈ n, isAsciiUpper c = true
  · exact Or.inr hu
  · left
    have hl : ∀ c ∈ n, isAsciiUpper c = false := by
      intro c hc
      cases hx : isAsciiUpper c
      · rfl
      · exact absurd ⟨c, hc, hx⟩ hu
    by_cases hg : n = "gen".toList
    · exact hg
    · exact absurd hk (to_rust_ident_not_keyword_partial n h hl hg)

/-! ## Collisions inside one WIT scope -/

/-- **Injectivity modulo letter case** (the component model compares kebab names
case-insensitively, so two names of one scope differ modulo case): distinct WIT identifiers of a
scope get distinct Rust identifiers. -/
theorem to_rust_ident_injective_mod_case (a b : List Char) (ha : WitName a) (hb : WitName b)
    (h : toRustIdent a = toRustIdent b) : a.map lowA = b.map lowA :=
  escape_injective_mod_case escapeTable table_values_injective table_values_end_us a b ha hb h

theorem to_rust_ident_injective (a b : List Char) (ha : WitName a) (hb : WitName b)
    (hne : a.map lowA ≠ b.map lowA) : toRustIdent a ≠ toRustIdent b :=
  fun h => hne (to_rust_ident_injective_mod_case a b ha hb h)

/-- the literal statement (`a ≠ b` only) is false: wit-parser accepts both names in one scope -/
def InjectiveFull : Prop :=
  ∀ a b, WitName a → WitName b → a ≠ b → toRustIdent a ≠ toRustIdent b

theorem to_rust_ident_injective_full_false : ¬ InjectiveFull := by
  intro h
  exact h "foo-bar".toList "foo-BAR".toList (by decide) (by decide) (by decide) (by decide)

/-- type and case names go through `to_upper_camel_case`, which is *not* injective even modulo
case: a segment that starts with a digit merges with its predecessor (class `rust-camel-digit-merge`). -/
theorem upper_camel_collision :
    WitName "a1".toList ∧ WitName "a-1".toList ∧ "a1".toList.map lowA ≠ "a-1".toList.map lowA ∧
    toUpperCamelRust "a1".toList = toUpperCamelRust "a-1".toList := by decide

/-- `guest` is remapped, and the remapped name cannot come from another WIT identifier
(an upper-camel name never contains `_`)… but the *snake* identifier of a type does not matter here. -/
theorem guest_remapped : toUpperCamelRust "guest".toList = "Guest_".toList := by decide

/-! ## Prelude items -/

/-- the full statement: no WIT type name turns into a Rust type that captures a prelude name which
the generated code (in the same module) writes without a `::core::…` path -/
def TypeNamesAvoidPreludeFull : Prop := ∀ n, WitName n → capturesPrelude n = false

/-- witness (class `rust-prelude-shadow`): `flags ok { … }` becomes `struct Ok`, and every `Ok(…)`
the generator emits in that module (lifting a `result`) now means the user's struct (rustc: E0308).
Likewise `%option` → `Option` (E0107), `from` → `From`, `sized` → `Sized` (E0404). -/
theorem type_names_avoid_prelude_full_false : ¬ TypeNamesAvoidPreludeFull := by
  intro h
  have := h "ok".toList (by decide)
  revert this
  decide

/-! ## Items the generator adds next to user functions -/

/-- the full statement: no resource method / static function is emitted under the name of a function
the generator defines itself in the same `impl` -/
def ResourceMembersDisjointFull : Prop := ∀ n, WitName n → clashesWithGeneratedFn n = false

/-- witness (class `rust-resource-member-collision`): `take-handle: static func()` of a resource is
emitted as `fn take_handle`, next to the wrapper's own `take_handle` (rustc: E0592). -/
theorem resource_members_disjoint_full_false : ¬ ResourceMembersDisjointFull := by
  intro h
  have := h "take-handle".toList (by decide)
  revert this
  decide

/-! ## The generator's own temporaries -/

/-- the full statement: no parameter name turns into something the generator binds itself -/
def TemporariesDisjointFull : Prop :=
  ∀ n, WitName n → clashesWithRustLocal (toRustIdent n) = false

/-- witness (class `rust-temp-shadows-param`): `len0` is a WIT identifier, is emitted verbatim, and is
the name of the length temporary of the first lowered list/string.  For
`import f: func(a: string, len0: u32)` the wrapper passes `a.len()` instead of the parameter. -/
theorem temporaries_disjoint_full_false : ¬ TemporariesDisjointFull := by
  intro h
  have := h "len0".toList (by decide)
  revert this
  decide

/-- **Partial form**: an identifier the recogniser does not flag is different from every fixed
local and from every counter temporary `<base><digits>` / `<base><digits>_<digits>`, for every
base in the inventory and every counter value (no bound). -/
theorem temporaries_disjoint_partial (x : List Char) (h : clashesWithRustLocal x = false) :
    x ∉ fixedLocals ∧
    ∀ base ∈ tempBases, ∀ ds, allDigits ds = true →
      x ≠ base ++ ds ∧ ∀ ds2, allDigits ds2 = true → x ≠ base ++ ds ++ '_' :: ds2 := by
  simp only [clashesWithRustLocal, Bool.or_eq_false_iff] at h
  refine ⟨?_, isTemp_complete tempBases x h.1⟩
  have := h.2
  simpa using this

/-! ## Module paths -/

/-- **Distinct (package, interface) pairs get distinct module paths** — for lower-case names and
plain packages (C27's hypotheses; its known collisions are excluded by them). -/
theorem module_paths_distinct_partial (pkgs : List Pkg) (p q : Pkg) (i j : List Char)
    (hp : p ∈ pkgs) (hq : q ∈ pkgs) (hpp : plainPkg p = true) (hqp : plainPkg q = true)
    (hpn : WitName p.ns) (hqn : WitName q.ns) (hi : WitName i) (hj : WitName j)
    (hlow : ∀ n ∈ [p.ns, q.ns, i, j], ∀ c ∈ n, isAsciiUpper c = false)
    (hne : (p, i) ≠ (q, j)) :
    rustModulePath pkgs p i ≠ rustModulePath pkgs q j := by
  intro h
  simp only [rustModulePath, List.cons.injEq, and_true] at h
  obtain ⟨h1, h2, h3⟩ := h
  have lowEq : ∀ a b : List Char, WitName a → WitName b → (∀ c ∈ a, isAsciiUpper c = false) →
      (∀ c ∈ b, isAsciiUpper c = false) → toRustIdent a = toRustIdent b → a = b := by
    intro a b ha hb hla hlb e
    have := to_rust_ident_injective_mod_case a b ha hb e
    rwa [map_lowA_id hla, map_lowA_id hlb] at this
  have hns : p.ns = q.ns := lowEq _ _ hpn hqn (hlow _ (by simp)) (hlow _ (by simp)) h1
  have hij : i = j := lowEq _ _ hi hj (hlow _ (by simp)) (hlow _ (by simp)) h3
  by_cases hpq : p = q
  · exact hne (by rw [hpq, hij])
  · exact Witverif.Props.C27.module_names_injective_partial pkgs p q hp hq hns hpq hpp hqp h2

/-- the package component of the path is NOT escaped (class `rust-module-keyword-package`):
package `a:box` gives `mod box`. -/
theorem package_module_keyword_witness :
    let p : Pkg := ⟨"a".toList, "box".toList, none⟩
    plainPkg p = true ∧ (rustModulePath [p] p "i".toList)[1]? = some "box".toList ∧
      "box".toList ∈ keywords2024 := by decide

/-! ## Non-vacuity -/

example : toRustIdent "type".toList = "type_".toList ∧ toRustIdent "foo-bar".toList = "foo_bar".toList ∧
    toRustIdent "HTTP-server2".toList = "http_server2".toList := by decide

/-- the partial keyword theorem applies to a keyword that *is* escaped and to an ordinary name -/
example : toRustIdent "async".toList ∉ keywords2024 :=
  to_rust_ident_not_keyword_partial _ (by decide) (by decide) (by decide)
example : toRustIdent "get-value".toList ∉ keywords2024 :=
  to_rust_ident_not_keyword_partial _ (by decide) (by decide) (by decide)

example : toRustIdent "a-b".toList ≠ toRustIdent "a-c".toList :=
  to_rust_ident_injective _ _ (by decide) (by decide) (by decide)

/-- a harmless parameter name is not flagged; hence different from `ptr17`, `result3_2`, `ret`, … -/
example : clashesWithRustLocal (toRustIdent "offset".toList) = false := by decide
example : toRustIdent "offset".toList ≠ "ptr".toList ++ "17".toList :=
  ((temporaries_disjoint_partial _ (by decide)).2 "ptr".toList (by decide) "17".toList (by decide)).1

example :
    let p : Pkg := ⟨"wasi".toList, "http".toList, some ⟨0, 2, 0, [], []⟩⟩
    let q : Pkg := ⟨"wasi".toList, "http".toList, some ⟨0, 3, 0, [], []⟩⟩
    rustModulePath [p, q] p "types".toList ≠ rustModulePath [p, q] q "types".toList := by decide

end Witverif.Props.C09
