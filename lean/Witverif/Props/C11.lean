import Witverif.Proofs.CFree
import Witverif.Abi.Names
import Witverif.Proofs.CImportGlue
import Witverif.Props.C03
/-!
# C11 — C guest bindings release exactly the memory and handles they own

Objects:
* `CProfile.cFrees` — model of `define_dtor` / `free` (crates/c/src/lib.rs): the `free` calls a
  generated `<type>_free` helper performs on a value in linear memory (the `dtor_funcs` registry is
  complete in every pass since the repair; `CProfile.cFreesLate` describes the pre-repair registry
  and only serves to name a regression);
* `reachBlocks` (Abi/Validate.lean, shared with C03/C06) — specification: the blocks a value references;
* `CProfile.cDtorExportName` — the destructor's export name: the format string extracted from
  `type_resource` by tools/gen_cdtor.py; spec: `Names.Spec.dtor` (C13, `Resolve::wasm_export_name`);
* the post-return and import glue are the shared generator's (`Gen.postReturn`, `Gen.call`) — C03/C02.

Tie: `./check C11` — native run with an allocation ledger; the byte sizes freed by the generated
helpers are compared *in order* with `cFrees`/`cFreesLate` on the same values, post-return frees with
the host image, import arguments by snapshot, destructor and drop counts with the intrinsics' counters,
the destructor export name of the generated source with `cDtorExportName` and with wit-parser.
-/
namespace Witverif.Props.C11
open Witverif.Abi Witverif.Abi.CProfile Witverif.Abi.CProfileSpec

/-! ## generated free helpers -/

/-- **`define_dtor` as written frees exactly the non-empty blocks of the value.**  The specification
side is the independent `reachBlocks` of Abi/Validate.lean (the blocks `(addr, size, align)` a stored
value references, shared with C03/C06) — a different traversal: it lists a buffer before its
elements, all map keys before all map values, tests option discriminants for `== 1`, and reports
byte sizes.  For both pointer widths, every C-supported type whose list elements / map entries have
non-zero size, every memory, address and value `v` that `Spec.load` reads there: the addresses the
generated helper passes to `free` are — as a multiset, each once — the addresses of the reachable
blocks of non-zero size. -/
theorem c_free_helpers_exact (p : Nat) (m : Spec.Mem) (t : Ty) (a : Nat) (v : Val)
    (hs : cSupported t = true) (hp : elemsPos p t = true) (hv : Spec.load p m t a = some v) :
    ((cFrees p m t a).map (·.1)).Perm (((reachBlocks false p m t a).filter nz).map (·.1)) :=
  cFrees_reach p m t a hs hp (load_optTagsOk p m t a v hv)

/-- The same under the weaker hypothesis actually used: every reachable `option` discriminant is 0 or 1
(the helper tests `is_some` for non-zero, the spec for `== 1`). -/
theorem c_free_helpers_exact_of_tags (p : Nat) (m : Spec.Mem) (t : Ty) (a : Nat)
    (hs : cSupported t = true) (hp : elemsPos p t = true) (ho : optTagsOk p m t a = true) :
    ((cFrees p m t a).map (·.1)).Perm (((reachBlocks false p m t a).filter nz).map (·.1)) :=
  cFrees_reach p m t a hs hp ho

/-- The helpers never touch handles: an `own`, `borrow`, `future` or `stream` is not dropped by
`*_free` (dropping stays with the user, as crates/c/README.md documents). -/
theorem c_free_helpers_ignore_handles (p : Nat) (m : Spec.Mem) (a : Nat) :
    cFrees p m .own a = [] ∧ cFrees p m .borrow a = [] ∧
    (∀ x, cFrees p m (.future x) a = []) ∧ (∀ x, cFrees p m (.stream x) a = []) := by
  simp [cFrees]

/-- Regression witness.  Since /repo 5f35383 the dtor registry is complete in every pass and the
generated helper is `cFrees`.  Under the pre-repair registry (`cFreesObserved true`) the statement
above was false: for `variant v { a, b(list<bool>) }` holding `b([true, false])` (stored by the spec
at 16, buffer at 32) the helper of a later pass freed nothing while the value owns the block at 32. -/
theorem c_free_helpers_regression_witness :
    Spec.load 4 (Spec.store 4 (.variant [none, some (.list .bool)])
        (.variant 1 (some (.list [.bool true, .bool false]))) 16 { mem := [], heap := { next := 32 } }).mem
      (.variant [none, some (.list .bool)]) 16 = some (.variant 1 (some (.list [.bool true, .bool false]))) ∧
    cSupported (.variant [none, some (.list .bool)]) = true ∧ elemsPos 4 (.variant [none, some (.list .bool)]) = true ∧
    cFreesObserved true 4 (Spec.store 4 (.variant [none, some (.list .bool)])
        (.variant 1 (some (.list [.bool true, .bool false]))) 16 { mem := [], heap := { next := 32 } }).mem
      (.variant [none, some (.list .bool)]) 16 = [] ∧
    ((reachBlocks false 4 (Spec.store 4 (.variant [none, some (.list .bool)])
        (.variant 1 (some (.list [.bool true, .bool false]))) 16 { mem := [], heap := { next := 32 } }).mem
      (.variant [none, some (.list .bool)]) 16).filter nz).map (·.1) = [32] :=
  ⟨rfl, by decide, by decide, by decide, by decide⟩

/-- … and the pre-repair helpers were already exact whenever no member had a shared anonymous type. -/
theorem c_free_helpers_exact_any_registry (late : Bool) (p : Nat) (m : Spec.Mem) (t : Ty) (a : Nat) (v : Val)
    (h : late = false ∨ noSharedMember t = true)
    (hs : cSupported t = true) (hp : elemsPos p t = true) (hv : Spec.load p m t a = some v) :
    ((cFreesObserved late p m t a).map (·.1)).Perm (((reachBlocks false p m t a).filter nz).map (·.1)) := by
  have := c_free_helpers_exact p m t a v hs hp hv
  unfold cFreesObserved
  split
  · rcases h with h | h
    · simp_all
    · rw [cFreesLate_eq p m t a h]; exact this
  · exact this

/-- Non-vacuity: `record { a: string, b: list<string> }` holding `("hi", ["x"])`: three frees, the
hypotheses hold. -/
example :
    (cFrees 4 (Spec.store 4 (.record [.string, .list .string]) (.record [.str [104, 105], .list [.str [120]]]) 16
      { mem := [], heap := { next := 32 } }).mem (.record [.string, .list .string]) 16).length = 3 ∧
    Spec.load 4 (Spec.store 4 (.record [.string, .list .string]) (.record [.str [104, 105], .list [.str [120]]]) 16
      { mem := [], heap := { next := 32 } }).mem (.record [.string, .list .string]) 16
      = some (.record [.str [104, 105], .list [.str [120]]]) ∧
    cSupported (.record [.string, .list .string]) = true ∧ elemsPos 4 (.record [.string, .list .string]) = true :=
  ⟨by decide, rfl, by decide, by decide⟩

/-! ## the destructor export of an exported resource -/

/-- **The destructor is exported under the name the component model binds.**  `cDtorExportName`
evaluates the `format!` string that tools/gen_cdtor.py extracts from `type_resource` on every run
(`Generated/CDtor.lean`; `{module}` = `name_world_key(key)`, `{name}` = the WIT name, `{snake}` =
`to_snake_case`); the right-hand side is C13's transcription of `Resolve::wasm_export_name`
(`Names.Spec.dtor`, legacy sync mangling).  For every interface key and every resource name — a
source that goes back to `{snake}` regenerates the table and this proof fails. -/
theorem c_dtor_export_name (k : Names.Key) (module r : String) (hk : k.worldKey = some module) :
    Names.Spec.dtor .sync k r = some ⟨cDtorExportName module r, [.i32], []⟩ := by
  simp [Names.Spec.dtor, hk, cDtorExportName, Witverif.Generated.CDtor.dtorExportFormat, evalSeg,
    Names.LLAbi.exportPrefix]

/-- The `{snake}` evaluation that the source used before /repo 97de409 differs from the spec exactly
on multi-word names: non-vacuity of the segment semantics. -/
example : evalSeg "t:t/i" "my-res" .snake = "my_res" ∧ evalSeg "t:t/i" "my-res" .name = "my-res" ∧
    cDtorExportName "t:t/i" "my-res" = "t:t/i#[dtor]my-res" := by decide

/-! ## post-return and import arguments (the shared generator at the C profile) -/

/-- A post-return function is generated for a C export exactly when its result owns a buffer
(C03 at the C profile: `export` consults `abi::guest_export_needs_post_return`). -/
theorem c_post_return_generated_iff (f : Func) : needsPostReturn f = hasBufferOpt f.result :=
  Witverif.Props.C03.needs_post_return_iff f

/-- … and when the result owns nothing the cleanup code is empty (frees nothing else). -/
theorem c_post_return_frees_nothing_else (t : Ty) (h : hasBuffer t = false) (lvl : Nat) (a : Expr) (off : Off) :
    deallocIndirect false lvl t a off = .ok [] :=
  Witverif.Props.C03.needs_nothing_of_no_buffer_partial t h lvl a off

mutual
/-- every type the C backend supports is free of fixed-length lists — the one shape for which the
shared cleanup code is known to be incomplete (C03 `dealloc_flist_full_false`) -/
theorem c_supported_noFlist : ∀ t : Ty, cSupported t = true → noFlist t = true
  | .flist _ _, h => by simp [cSupported] at h
  | .list e, h => by simpa [noFlist] using c_supported_noFlist e (by simpa [cSupported] using h)
  | .map k v, h => by
      simp only [cSupported, Bool.and_eq_true] at h
      simp [noFlist, c_supported_noFlist k h.1, c_supported_noFlist v h.2]
  | .record fs, h => by simpa [noFlist] using c_supported_noFlistAll fs (by simpa [cSupported] using h)
  | .tuple ts, h => by simpa [noFlist] using c_supported_noFlistAll ts (by simpa [cSupported] using h)
  | .variant cs, h => by simpa [noFlist] using c_supported_noFlistCases cs (by simpa [cSupported] using h)
  | .option t, h => by simpa [noFlist] using c_supported_noFlist t (by simpa [cSupported] using h)
  | .result a b, h => by
      simp only [cSupported, Bool.and_eq_true] at h
      simp [noFlist, c_supported_noFlistOpt a h.1, c_supported_noFlistOpt b h.2]
  | .bool, _ | .s8, _ | .u8, _ | .s16, _ | .u16, _ | .s32, _ | .u32, _ | .s64, _ | .u64, _ | .f32, _ | .f64, _
  | .char, _ | .string, _ | .errctx, _ | .flags _, _ | .enum _, _ | .own, _ | .borrow, _ | .future _, _ | .stream _, _ => by
      simp [noFlist]
theorem c_supported_noFlistAll : ∀ ts : List Ty, cSupportedAll ts = true → noFlistAll ts = true
  | [], _ => by simp [noFlistAll]
  | t :: ts, h => by
      simp only [cSupportedAll, Bool.and_eq_true] at h
      simp [noFlistAll, c_supported_noFlist t h.1, c_supported_noFlistAll ts h.2]
theorem c_supported_noFlistOpt : ∀ o : Option Ty, cSupportedOpt o = true → noFlistOpt o = true
  | none, _ => by simp [noFlistOpt]
  | some t, h => by simpa [noFlistOpt] using c_supported_noFlist t (by simpa [cSupportedOpt] using h)
theorem c_supported_noFlistCases : ∀ cs : List (Option Ty), cSupportedCases cs = true → noFlistCases cs = true
  | [], _ => by simp [noFlistCases]
  | c :: cs, h => by
      simp only [cSupportedCases, Bool.and_eq_true] at h
      simp [noFlistCases, c_supported_noFlistOpt c h.1, c_supported_noFlistCases cs h.2]
end

/-- The generic ledger statement of C03 that is not yet a theorem (C03 lists it under
`partial_obligations`): on types without fixed-length lists, running the post-return tree in the
reference machine on a stored result frees exactly the blocks reachable in it. -/
def C03_post_return_ledger_stmt : Prop :=
  ∀ (p : Nat) (f : Func) (t : Ty) (v : Val) (ss : List Stmt), (p = 4 ∨ p = 8) → f.result = some t →
    noFlist t = true → Spec.hasTy t v = true → postReturn f = .ok ss →
    ∃ s, runBlock { p, args := [.c (Spec.pcv p (({} : MSt).alloc (elemSize p t) (alignment p t)).1)] }
          { (({} : MSt).alloc (elemSize p t) (alignment p t)).2 with
            st := Spec.store p t v (({} : MSt).alloc (elemSize p t) (alignment p t)).1
                    (({} : MSt).alloc (elemSize p t) (alignment p t)).2.st } (ss, []) = some ([], s) ∧
      sortBlocks s.freed = sortBlocks (reachBlocks false p
        (Spec.store p t v (({} : MSt).alloc (elemSize p t) (alignment p t)).1
          (({} : MSt).alloc (elemSize p t) (alignment p t)).2.st).mem t
        (({} : MSt).alloc (elemSize p t) (alignment p t)).1)

/-- `_partial`: `c_post_return_balanced` reduces to the named generic statement — every C export
result type lies in its domain (no fixed-length lists), so at the C profile the post-return is
balanced for *all* supported result types once C03's ledger theorem is proved.  Until then the
ledger monitor on the real streams (C03) and the native allocation ledger (this check) cover it. -/
theorem c_post_return_balanced_partial (h : C03_post_return_ledger_stmt)
    (p : Nat) (hp : p = 4 ∨ p = 8) (f : Func) (t : Ty) (v : Val) (ss : List Stmt)
    (hr : f.result = some t) (hs : cSupported t = true) (hv : Spec.hasTy t v = true)
    (hss : postReturn f = .ok ss) :
    ∃ s, runBlock { p, args := [.c (Spec.pcv p (({} : MSt).alloc (elemSize p t) (alignment p t)).1)] }
          { (({} : MSt).alloc (elemSize p t) (alignment p t)).2 with
            st := Spec.store p t v (({} : MSt).alloc (elemSize p t) (alignment p t)).1
                    (({} : MSt).alloc (elemSize p t) (alignment p t)).2.st } (ss, []) = some ([], s) ∧
      sortBlocks s.freed = sortBlocks (reachBlocks false p
        (Spec.store p t v (({} : MSt).alloc (elemSize p t) (alignment p t)).1
          (({} : MSt).alloc (elemSize p t) (alignment p t)).2.st).mem t
        (({} : MSt).alloc (elemSize p t) (alignment p t)).1) :=
  h p f t v ss hp hr (c_supported_noFlist t hs) hv hss

/-- **Import arguments are left untouched** (`c_import_args_untouched`).  For every function, the glue
the shared generator produces for a sync import call (`Gen.call … .guestImport`, the stream the C
`import_body_sync` interprets) contains no `GuestDeallocate*`, no `DropHandle`, and no allocation whose
ownership would pass to the callee: strings, lists and maps are lowered with `realloc: None`
(borrowed), at any nesting depth, whether the parameters travel flat or through the parameter
record.  Holds for every `is_list_canonical`, in particular the C backend's `all_bits_valid`. -/
theorem c_import_args_untouched (f : Func) (ss : List Stmt)
    (hss : call allBitsValid .guestImport true false f = .ok ss) :
    countOps isFreeOp ss = 0 ∧ countOps ownsAllocOp ss = 0 ∧ countOps isDropOp ss = 0 := by
  have h := call_import_untouched allBitsValid f ss hss
  have le : ∀ (g : Op → Bool), (∀ o, g o = true → touchOp o = true) → ∀ ss : List Stmt,
      countOps touchOp ss = 0 → countOps g ss = 0 := fun g hg ss h0 =>
    Nat.eq_zero_of_le_zero (h0 ▸ countOps_mono g touchOp hg ss)
  exact ⟨le _ (fun o ho => by simp [touchOp, ho]) ss h, le _ (fun o ho => by simp [touchOp, ho]) ss h,
    le _ (fun o ho => by simp [touchOp, ho]) ss h⟩

/-- Non-vacuity: an import taking `list<string>` and a record with a string really lowers buffers
(two borrowed `ListLower`/`StringLower` sites) and none of them owns. -/
example : ∃ ss, call allBitsValid .guestImport true false ⟨false, [.list .string, .record [.string, .u32]], none⟩ = .ok ss ∧
    countOps isAllocOp ss = 3 ∧ countOps ownsAllocOp ss = 0 :=
  ⟨_, rfl, by decide +kernel, by decide +kernel⟩

end Witverif.Props.C11
