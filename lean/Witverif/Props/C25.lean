import Witverif.Proofs.Source
/-!
# C25 — Source buffer preserves text and tracks indentation by brace structure

Property theorems only (helper lemmas live in `Proofs/Source.lean`, `Proofs/RustStr.lean`).
Model: `Witverif.Text.Source` (tied to `crates/core/src/source.rs` by the `source` correspondence run),
Rust `str` primitives: `Witverif.Text.RustStr` (tied to `std` by the `ruststr` glue run).
Spec side: `Witverif.Text.SourceSpec` — the monitors the check evaluates on the implementation's outputs.

The four claims of the property and where they are proved of the model, for *all* histories:

  (1) content     `content_preserved` is FALSE as stated (three witness classes, `…_full_false_*`);
                  `content_preserved_partial` (exact side condition: no known loss applicable),
                  `content_loss_classified` (whatever is lost is one of the three known losses)
  (2) nesting     `indent_tracks_braces`, `line_indent`
  (3) literal     `literal_transparent`, `literal_transparent_run`
  (4) balanced    `balanced_restores`
  all monitors    `history_spec`, `history_spec_partial`
-/
namespace Witverif.Props.C25
open Witverif.Text Witverif.Text.Source Witverif.Text.SourceSpec Witverif.Text.RustStr

/-! ## (1) content -/

/-- The full statement of claim (1): after any history the buffer holds exactly the appended
text, up to whitespace at the start of lines.

    theorem content_preserved : FullContent      -- FALSE of the current code, see below -/
def FullContent : Prop :=
  ∀ (ops : List Op) (st : Source), run Source.empty ops = some st →
    contentEq st.s (ops.flatMap textOf) = true

/-- F8(i): `push_str("a\r\nb")` gives `a\nb` — the CR is dropped. -/
theorem content_preserved_full_false_cr : ¬ FullContent := by
  intro h
  have := h [.pushStr ['a', '\r', '\n', 'b']] _ rfl
  revert this; decide

/-- F8(ii): `push_str("x"); push_str(" y\nz")` gives `xy\nz` — the space inside the line is dropped. -/
theorem content_preserved_full_false_midline_trim : ¬ FullContent := by
  intro h
  have := h [.pushStr ['x'], .pushStr [' ', 'y', '\n', 'z']] _ rfl
  revert this; decide

/-- F8(iii): `push_str("x  "); push_str("}")` gives `x}` — two spaces inside the line are popped. -/
theorem content_preserved_full_false_midline_pop : ¬ FullContent := by
  intro h
  have := h [.pushStr ['x', ' ', ' '], .pushStr ['}']] _ rfl
  revert this; decide

/-- Claim (1) with the exact extra hypothesis: if at no step one of the three known losses is
applicable (`SafeFrom`: no CR before LF; no whitespace-led multi-line fragment and no `}`-led
fragment after two spaces appended to a line that already has content) and `append_src` is used
on line boundaries, the buffer holds exactly the appended text up to line-start whitespace. -/
theorem content_preserved_partial (ops : List Op) (st : Source) (hwf : WFOps ops)
    (hsafe : SafeFrom Source.empty ops) (hsync : (trackOps Track.init ops).sync = true)
    (hrun : run Source.empty ops = some st) :
    contentEq st.s (ops.flatMap textOf) = true := by
  have := content_global ops Source.empty Track.init [] (fun _ => rel_empty) (by decide) hwf hsafe hsync st hrun
  simpa using this

/-- Whatever a `push_str`/`push_str_literal` loses is one of the three known losses: the content
monitor never answers `other`, from any state whose line bookkeeping is intact, for any fragment. -/
theorem content_loss_classified (st : Source) (t : List Char) (interp : Bool)
    (hls : st.continuingLine = false → LineStart st.s) :
    contentStep st.s (pushStrImpl st t interp).s t interp ≠ .other ∧
    (applicable st.s t interp = Loss.none → contentStep st.s (pushStrImpl st t interp).s t interp = .ok) :=
  contentStep_model st t interp hls

/-! ## (2) nesting -/

/-- The indentation level after any history is the spec-side level: explicit `indent`/`deindent`/
`set_indent` amounts plus one per opening fragment line minus one per closing fragment line,
outside line comments (`Track.level`), provided no closing line arrived at level 0 (`levelOk`)
and `append_src` was used on line boundaries (`sync`). -/
theorem indent_tracks_braces (ops : List Op) (st : Source) (hwf : WFOps ops)
    (hrun : run Source.empty ops = some st)
    (hsync : (trackOps Track.init ops).sync = true) (hok : (trackOps Track.init ops).levelOk = true) :
    (st.indent : Int) = (trackOps Track.init ops).level :=
  ((rel_run ops Source.empty Track.init (fun _ => rel_empty) hwf st hrun hsync).lvl hok).symm

/-- Every line begun by an appended fragment starts with exactly two spaces per nesting level
(one level less for a closing line), followed by the fragment line's text. -/
theorem line_indent (st : Source) (tr : Track) (h : Rel st tr) (interp : Bool) (t : List Char) :
    lineIndentOk tr (piecesOf interp t) st.s (pushStrImpl st t interp).s = true :=
  lineIndent_model st tr h interp t

/-! ## (3) literal text -/

/-- `push_str_literal` never changes the indentation, and leaves the comment state as a function
of whether the literal text contains a line break only (a line break ends a line comment). -/
theorem literal_transparent (st : Source) (t : List Char) :
    (st.pushStrLiteral t).indent = st.indent ∧
    (st.pushStrLiteral t).inLineComment = (if t.contains '\n' then false else st.inLineComment) :=
  ⟨literal_indent st t, literal_comment st t⟩

/-- The content of literal text influences nothing but itself: replacing every non-whitespace
character of literal fragments by `x` changes, at every later operation, neither the indentation
level nor any character of the buffer other than those literal characters (nor where it panics). -/
theorem literal_transparent_run (ops1 ops2 : List Op) (h : AllPairs OpRel ops1 ops2) :
    AllPairs PairOk (trace Source.empty ops1) (trace Source.empty ops2) :=
  literal_run ops1 ops2 h _ _ (nrel_refl _)

/-! ## (4) balanced fragments -/

/-- Appending a fragment whose own lines are brace-balanced (outside a line comment) restores the
indentation level. -/
theorem balanced_restores (st : Source) (t : List Char) (hc : st.inLineComment = false)
    (hb : Balanced t = true) : (st.pushStr t).indent = st.indent :=
  balanced_model st t hc hb

/-! ## all monitors, all histories -/

/-- Full statement over histories: every verdict of the C25 monitors (content up to the three
known losses, level, line indentation, literal, balanced, `deindent`/`set_indent` API) on every
observed history of the model is good.  No bound on history length, fragment size or alphabet. -/
theorem history_spec (ops : List Op) (hwf : WFOps ops) :
    ∀ v ∈ monitor Track.init { indent := 0, s := [] } (observe Source.empty ops), v.goodModuloKnown = true :=
  (monitor_model ops Source.empty Track.init _ ⟨rfl, rfl⟩ (fun _ => rel_empty) hwf).1

/-- … and with exact content when no known loss is applicable at any step. -/
theorem history_spec_partial (ops : List Op) (hwf : WFOps ops) (hsafe : SafeFrom Source.empty ops) :
    ∀ v ∈ monitor Track.init { indent := 0, s := [] } (observe Source.empty ops), v.good = true :=
  (monitor_model ops Source.empty Track.init _ ⟨rfl, rfl⟩ (fun _ => rel_empty) hwf).2 hsafe

/-! ## non-vacuity -/

/-- the pinned `if_else` unit test, on the model -/
example :
    (run Source.empty [.pushStr "if() {\n".toList, .pushStr "y\n".toList, .pushStr "} else if () {\n".toList,
        .pushStr "z\n".toList, .pushStr "}\n".toList]).map (·.s)
      = some "if() {\n  y\n} else if () {\n  z\n}\n".toList := by decide

/-- `content_preserved_partial` applies to it (all hypotheses hold) -/
example : SafeFrom Source.empty [.pushStr "if() {\n".toList, .pushStr "y\n".toList, .pushStr "}\n".toList] := by
  simp only [SafeFrom, SafeStep, step]
  decide

/-- the monitors do reject: a wrong indentation width fails (2b), a wrong level fails (2a) -/
example :
    (stepVerdict Track.init { indent := 0, s := [] } (.text true "{\nx\n".toList)
      { indent := 1, s := "{\n    x\n".toList }).lineIndent = false := by decide
example :
    (stepVerdict Track.init { indent := 0, s := [] } (.text true "if (a) { b }\n".toList)
      { indent := 1, s := "if (a) { b }\n".toList }).level = false := by decide

/-- the content monitor classifies the three known losses and rejects anything else -/
example : contentStep "x  ".toList "x}".toList "}".toList true = .known ⟨false, false, true⟩ := by decide
example : contentStep "x".toList "xy\nz".toList " y\nz".toList true = .known ⟨false, true, false⟩ := by decide
example : contentStep [] "a\nb".toList "a\r\nb".toList true = .known ⟨true, false, false⟩ := by decide
example : contentStep "x".toList "x".toList "y".toList true = .other := by decide

/-- a balanced fragment with an `else` branch and a comment; literal text with braces -/
example : Balanced "if (x) {\n// {\n} else {\ny\n}\n".toList = true := by decide
example : (Source.empty.pushStr "if (x) {\n// {\n} else {\ny\n}\n".toList).indent = 0 := by decide
example : ((Source.empty.addIndent 1).pushStrLiteral "}\n{".toList).s = "  }\n  {".toList := by decide

/-- literal text vs. its neutralised variant -/
example : AllPairs OpRel [.indent 1, .pushLit "{ a\n".toList, .pushStr "b\n".toList]
    [.indent 1, .pushLit "x x\n".toList, .pushStr "b\n".toList] :=
  ⟨.same _, .lit "{ a\n".toList, .same _, trivial⟩

end Witverif.Props.C25
