import Witverif.Proofs.Source
/-!
# C25 — Source buffer preserves text and tracks indentation by brace structure

Property theorems only (helper lemmas live in `Proofs/Source.lean`, `Proofs/RustStr.lean`).
Model: `Witverif.Text.Source` (tied to `crates/core/src/source.rs` by the `source` correspondence run),
Rust `str` primitives: `Witverif.Text.RustStr` (tied to `std` by the `ruststr` glue run).
Spec side: `Witverif.Text.SourceSpec` — the monitors the check evaluates on the implementation's outputs.

The four claims of the property and where they are proved of the model, for *all* histories:

  (1) content     `content_preserved` is FALSE as stated (three witness classes, `…_full_false_*`);
                  `content_preserved_partial` (exact side condition: no known loss applicable),
                  `content_loss_classified` (whatever is lost is one of the three known losses)
  (2) nesting     in the property's literal reading - braces at the ends/starts of the buffer's LINES -
                  `indent_tracks_buffer_lines` is FALSE (`…_full_false`: a line assembled from two fragments);
                  `indent_tracks_buffer_lines_partial` (exact side condition: no buffer line is assembled from
                  several fragment pieces); the code follows the per-fragment-line reading, for which
                  `indent_tracks_braces` and `line_indent` hold on all histories
  (3) literal     `literal_transparent`, `literal_transparent_run`
  (4) balanced    `balanced_restores`
  all monitors    `history_spec`, `history_spec_partial` (over `monitorAll`, which keeps judging content,
                  literal and the deindent/set_indent API after an `append_src` off a line boundary:
                  `content_after_stale_append`)
-/
namespace Witverif.Props.C25
open Witverif.Text Witverif.Text.Source Witverif.Text.SourceSpec Witverif.Text.RustStr

/-! ## (1) content -/

/-- The full statement of claim (1): after any history the buffer holds exactly the appended
text, up to whitespace at the start of lines.

    theorem content_preserved : FullContent      -- FALSE of the current code, see below -/
def FullContent : Prop :=
  ∀ (ops : List Op) (st : Source), run Source.empty ops = some st →
    contentEq st.s (ops.flatMap textOf) = true

/-- F8(i): `push_str("a\r\nb")` gives `a\nb` — the CR is dropped. -/
theorem content_preserved_full_false_cr : ¬ FullContent := by
  intro h
  have := h [.pushStr ['a', '\r', '\n', 'b']] _ rfl
  revert this; decide

/-- F8(ii): `push_str("x"); push_str(" y\nz")` gives `xy\nz` — the space inside the line is dropped. -/
theorem content_preserved_full_false_midline_trim : ¬ FullContent := by
  intro h
  have := h [.pushStr ['x'], .pushStr [' ', 'y', '\n', 'z']] _ rfl
  revert this; decide

/-- F8(iii): `push_str("x  "); push_str("}")` gives `x}` — two spaces inside the line are popped. -/
theorem content_preserved_full_false_midline_pop : ¬ FullContent := by
  intro h
  have := h [.pushStr ['x', ' ', ' '], .pushStr ['}']] _ rfl
  revert this; decide

/-- Claim (1) with the exact extra hypothesis: if at no step one of the three known losses is
applicable (`SafeFrom`: no CR before LF; no whitespace-led multi-line fragment and no `}`-led
fragment after two spaces appended to a line that already has content) and `append_src` is used
on line boundaries, the buffer holds exactly the appended text up to line-start whitespace. -/
theorem content_preserved_partial (ops : List Op) (st : Source) (hwf : WFOps ops)
    (hsafe : SafeFrom Source.empty ops) (hsync : (trackOps Track.init ops).sync = true)
    (hrun : run Source.empty ops = some st) :
    contentEq st.s (ops.flatMap textOf) = true := by
  have := content_global ops Source.empty Track.init [] (fun _ => rel_empty) (by decide) hwf hsafe hsync st hrun
  simpa using this

/-- After an `append_src` that left the line state stale (the appended buffer ended mid-line, the
target was at a line start: `continuing_line` is not taken over), whatever the next push changes is
explained by `2·level` spaces written in front of it plus the three known losses; in every other
state by the three known losses alone.  `stale` is the spec-side flag, `hls` what it guarantees. -/
theorem content_after_stale_append (st : Source) (stale : Bool) (t : List Char) (interp : Bool)
    (hls : st.continuingLine = false → stale = false → LineStart st.s) :
    contentStepAt (stale && !st.continuingLine) st.indent st.s (pushStrImpl st t interp).s t interp ≠ .other :=
  contentStepAt_model st stale t interp hls

/-- Whatever a `push_str`/`push_str_literal` loses is one of the three known losses: the content
monitor never answers `other`, from any state whose line bookkeeping is intact, for any fragment. -/
theorem content_loss_classified (st : Source) (t : List Char) (interp : Bool)
    (hls : st.continuingLine = false → LineStart st.s) :
    contentStep st.s (pushStrImpl st t interp).s t interp ≠ .other ∧
    (applicable st.s t interp = Loss.none → contentStep st.s (pushStrImpl st t interp).s t interp = .ok) :=
  contentStep_model st t interp hls

/-! ## (2) nesting -/

/-- The full statement of claim (2) in the property's own words - "each line's indentation follows
the nesting of braces that open at line ends and close at line starts outside line comments" - read
over the lines of the buffer: after any history of `push_str` calls that ends at a line boundary,
the indentation level is `bufferLevel` of the buffer (+1 per buffer line ending in `{`, −1 per buffer
line starting with `}`, outside `//` comment lines).

    theorem indent_tracks_buffer_lines : FullNesting      -- FALSE of the current code, see below -/
def FullNesting : Prop :=
  ∀ (ops : List Op) (st : Source), (∀ op ∈ ops, ∃ t, op = .pushStr t) → run Source.empty ops = some st →
    st.continuingLine = false → (st.indent : Int) = bufferLevel st.s

/-- `push_str("if x {"); push_str(" y }\n")` leaves level 1 (a following `z` is indented) although
the only buffer line, `if x { y }`, does not end in `{`: the code interprets braces per fragment line. -/
theorem indent_tracks_buffer_lines_full_false : ¬ FullNesting := by
  intro h
  have := h [.pushStr "if x {".toList, .pushStr " y }\n".toList] _ (by simp) rfl (by decide)
  revert this; decide

/-- Claim (2) in the whole-line reading with the exact extra hypothesis: for histories of `push_str` /
`indent` / `deindent` in which no buffer line is assembled from more than one fragment piece
(`split = false`: every non-empty fragment arrives at a line start) and no closing line arrives at
level 0, whenever the buffer ends at a line boundary the level is the explicit indents plus the
nesting of the buffer's own lines. -/
theorem indent_tracks_buffer_lines_partial (ops : List Op) (st : Source) (hwf : WFOps ops)
    (hrun : run Source.empty ops = some st)
    (hview : (auxOps Track.init {} ops).lineView = true) (hsplit : (auxOps Track.init {} ops).split = false)
    (hsync : (trackOps Track.init ops).sync = true) (hok : (trackOps Track.init ops).levelOk = true)
    (hmid : (trackOps Track.init ops).midLine = false) :
    (st.indent : Int) = (auxOps Track.init {} ops).explicit + bufferLevel st.s := by
  have hr := rel_run ops Source.empty Track.init (fun _ => rel_empty) hwf st hrun hsync
  have ha := ainv_run ops Source.empty Track.init {} ainv_empty (fun _ => rel_empty) hwf st hrun
  rw [← hr.lvl hok]
  exact ha.buf hsync hview hsplit hok hmid

/-- The indentation level after any history is the spec-side level: explicit `indent`/`deindent`/
`set_indent` amounts plus one per opening fragment line minus one per closing fragment line,
outside line comments (`Track.level`), provided no closing line arrived at level 0 (`levelOk`)
and `append_src` was used on line boundaries (`sync`). -/
theorem indent_tracks_braces (ops : List Op) (st : Source) (hwf : WFOps ops)
    (hrun : run Source.empty ops = some st)
    (hsync : (trackOps Track.init ops).sync = true) (hok : (trackOps Track.init ops).levelOk = true) :
    (st.indent : Int) = (trackOps Track.init ops).level :=
  ((rel_run ops Source.empty Track.init (fun _ => rel_empty) hwf st hrun hsync).lvl hok).symm

/-- Every line begun by an appended fragment starts with exactly two spaces per nesting level
(one level less for a closing line), followed by the fragment line's text. -/
theorem line_indent (st : Source) (tr : Track) (h : Rel st tr) (interp : Bool) (t : List Char) :
    lineIndentOk tr (piecesOf interp t) st.s (pushStrImpl st t interp).s = true :=
  lineIndent_model st tr h interp t

/-! ## (3) literal text -/

/-- `push_str_literal` never changes the indentation, and leaves the comment state as a function
of whether the literal text contains a line break only (a line break ends a line comment). -/
theorem literal_transparent (st : Source) (t : List Char) :
    (st.pushStrLiteral t).indent = st.indent ∧
    (st.pushStrLiteral t).inLineComment = (if t.contains '\n' then false else st.inLineComment) :=
  ⟨literal_indent st t, literal_comment st t⟩

/-- The content of literal text influences nothing but itself: replacing every non-whitespace
character of literal fragments by `x` changes, at every later operation, neither the indentation
level nor any character of the buffer other than those literal characters (nor where it panics). -/
theorem literal_transparent_run (ops1 ops2 : List Op) (h : AllPairs OpRel ops1 ops2) :
    AllPairs PairOk (trace Source.empty ops1) (trace Source.empty ops2) :=
  literal_run ops1 ops2 h _ _ (nrel_refl _)

/-! ## (4) balanced fragments -/

/-- Appending a fragment whose own lines are brace-balanced (outside a line comment) restores the
indentation level. -/
theorem balanced_restores (st : Source) (t : List Char) (hc : st.inLineComment = false)
    (hb : Balanced t = true) : (st.pushStr t).indent = st.indent :=
  balanced_model st t hc hb

/-! ## all monitors, all histories -/

/-- Full statement over histories: every verdict of the complete C25 monitor `monitorAll` (content
up to the known losses, level, line indentation, whole-buffer-line level up to the known split-line
class, literal, balanced, `deindent`/`set_indent` API; after an `append_src` off a line boundary still
content, literal and API) on every observed history of the model is good.  No bound on history length,
fragment size or alphabet. -/
theorem history_spec (ops : List Op) (hwf : WFOps ops) :
    ∀ v ∈ monitorAll Track.init {} obs0 (observe Source.empty ops), v.goodModuloKnown = true :=
  monitorAll_model ops Source.empty Track.init {} obs0 ⟨rfl, rfl⟩ ainv_empty (fun _ => rel_empty) hwf

/-- … and with exact content when no known loss is applicable at any step and every `append_src`
happens on line boundaries. -/
theorem history_spec_partial (ops : List Op) (hwf : WFOps ops) (hsafe : SafeFrom Source.empty ops)
    (hsync : (trackOps Track.init ops).sync = true) :
    ∀ v ∈ monitorAll Track.init {} obs0 (observe Source.empty ops), v.base.good = true :=
  monitorAll_model_partial ops Source.empty Track.init {} obs0 ⟨rfl, rfl⟩ (fun _ => rel_empty) hwf hsafe hsync

/-! ## non-vacuity -/

/-- the pinned `if_else` unit test, on the model -/
example :
    (run Source.empty [.pushStr "if() {\n".toList, .pushStr "y\n".toList, .pushStr "} else if () {\n".toList,
        .pushStr "z\n".toList, .pushStr "}\n".toList]).map (·.s)
      = some "if() {\n  y\n} else if () {\n  z\n}\n".toList := by decide

/-- `content_preserved_partial` applies to it (all hypotheses hold) -/
example : SafeFrom Source.empty [.pushStr "if() {\n".toList, .pushStr "y\n".toList, .pushStr "}\n".toList] := by
  simp only [SafeFrom, SafeStep, step]
  decide

/-- the monitors do reject: a wrong indentation width fails (2b), a wrong level fails (2a) -/
example :
    (stepVerdict Track.init { indent := 0, s := [] } (.text true "{\nx\n".toList)
      { indent := 1, s := "{\n    x\n".toList }).lineIndent = false := by decide
example :
    (stepVerdict Track.init { indent := 0, s := [] } (.text true "if (a) { b }\n".toList)
      { indent := 1, s := "if (a) { b }\n".toList }).level = false := by decide

/-- the content monitor classifies the three known losses and rejects anything else -/
example : contentStep "x  ".toList "x}".toList "}".toList true = .known ⟨false, false, true⟩ := by decide
example : contentStep "x".toList "xy\nz".toList " y\nz".toList true = .known ⟨false, true, false⟩ := by decide
example : contentStep [] "a\nb".toList "a\r\nb".toList true = .known ⟨true, false, false⟩ := by decide
example : contentStep "x".toList "x".toList "y".toList true = .other := by decide

/-- a balanced fragment with an `else` branch and a comment; literal text with braces -/
example : Balanced "if (x) {\n// {\n} else {\ny\n}\n".toList = true := by decide
example : (Source.empty.pushStr "if (x) {\n// {\n} else {\ny\n}\n".toList).indent = 0 := by decide
example : ((Source.empty.addIndent 1).pushStrLiteral "}\n{".toList).s = "  }\n  {".toList := by decide

/-- the whole-buffer-line monitor: agrees on a line-aligned history, classifies the split-line witness,
rejects a level that neither reading explains -/
example :
    (monitorAll Track.init {} obs0 (observe Source.empty [.pushStr "if x {\n".toList, .pushStr "y\n".toList])).map (·.bufferLine)
      = [.ok, .ok] := by decide
example :
    (monitorAll Track.init {} obs0 (observe Source.empty [.pushStr "if x {".toList, .pushStr " y }\n".toList])).map (·.bufferLine)
      = [.na, .knownSplit] := by decide
example : bufferLineStep Track.init {} { indent := 1, s := "x\n".toList } = .other := by decide

/-- stale line state after `append_src`: `indent(1); append_src("x"); push_str("y\n")` gives `x  y\n` -/
example :
    (monitorAll Track.init {} obs0 (observe Source.empty
      [.indent 1, .appendSrc (Source.empty.pushStr "x".toList), .pushStr "y\n".toList])).map (·.base.content)
      = [.ok, .ok, .stale Loss.none] := by decide

/-- literal text vs. its neutralised variant -/
example : AllPairs OpRel [.indent 1, .pushLit "{ a\n".toList, .pushStr "b\n".toList]
    [.indent 1, .pushLit "x x\n".toList, .pushStr "b\n".toList] :=
  ⟨.same _, .lit "{ a\n".toList, .same _, trivial⟩

end Witverif.Props.C25
